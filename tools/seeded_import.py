"""Copy evaluated seeded changes (/tmp/mut-out/<id>/ with eval.json) into /verif/seeded/<id>/ and write the summary
table seeded/SUMMARY.md.  Only changes whose demo behaves as claimed (passes unpatched, fails patched), that apply, and
whose existing tests pass are kept."""
import json
import os
import shutil
import sys

V = os.path.dirname(os.path.dirname(os.path.abspath(__file__)))
src = sys.argv[1] if len(sys.argv) > 1 else '/tmp/mut-out'
rows = []
# changes that the checks MISSED when first evaluated; the check was then strengthened (generators/oracles, see DESIGN.md
# section 13) and the change re-evaluated
FIRST_MISSED = {
    'C08_m2': 'missed at first (no finite conserve=None spin chain, single-operator ops lists only); generator extended',
    'C12_m2': 'missed at first (every TermList got a fresh strength list); MPO stream now shares one strength array per case',
    'C19_m1': 'missed at first (no transformed lattices; N_sites taken from the implementation); transform generator + documented sizes added',
    'C19_m2': 'missed at first (pairs of MultiSpeciesLattice never read); multi-species geometry oracle added',
    'C03_m1': 'missed at first (hidden buffer sharing invisible to post-step fingerprints); memory-sharing observable + write probe added',
    'C03_m2': 'missed at first (get_theta(n=1) with stored form never probed); MPS accessor aliasing stream added',
    'C01_m2': 'missed at first (permute-then-binary chains too rare); see DESIGN.md section 13',
    'C07_m2': 'missed at first (expectation_value_multi_sites never called with a window covering a boundary); covering-x generator added',
    'C13_m2': 'missed at first (Lanczos parameters fixed, energy oracle too loose); lanczos params drawn, exact-eigenstate oracle added',
    'C02_n2': 'missed at first (get_qindex_of_charges / FlatLinearOperator compact mode on qconj=-1 legs never exercised)',
    'C03_n1': 'missed at first (two-MPS calls only with identical outer legs); mps-object stream with differently gauged partners added',
    'C03_n2': 'missed at first (no segment MPS with boundaries; list lengths not fingerprinted); mps-object stream added',
    'C04_n1': 'missed at first (sum equal by value, shares memory with operand); aliasing/side-effect observables + inplace-chains stream added',
    'C07_n2': 'missed at first; generator extended by fixer (see DESIGN.md 12.1)',
    'C08_n2': 'missed at first; term_list_correlation_function_right / Z_N coverage added by fixer',
    'C09_n2': 'missed at first (apply_local_term with i_offset on infinite MPS not generated)',
    'C10_n2': 'missed at first (term list of multi-couplings under infinite bc never compared with the MPO)',
    'C11_n1': 'missed at first (MPO.__add__ with max_range None not generated)',
    'C12_n1': 'missed at first (_term_to_ops_list has_extra_JW path not generated)',
    'C12_n2': 'missed at first (aliasing of state_labels after change_charge not observed)',
    'C13_n1': 'missed at first (VUMPS never run on explicit_plus_hc models)',
    'C13_n2': 'missed at first (no chi_list ramps outlasting convergence at small chi)',
    'C14_n1': 'missed at first (imaginary-time norm compared only up to normalisation; single-site TDVP only on product states); '
              'norm-including oracle, full-rank states added',
    'C14_n2': 'missed at first (run_GS/update_imag path and sign of imaginary evolved_time never observed); imag-time stream + '
              'regenerated tau table (Gen/G_tau.v, T14_tebd_time_real_imag) added',
    'C15_n1': 'missed at first (catastrophic-reduction branch of svd_theta needs kept*100 < #singular values); tiny-rank cases + label/leg oracle added',
    'C17_n1': 'missed at first (no segment lattices in the HDF5 round trip; missing attributes not compared)',
    'C18_n2': 'missed at first (group_sites>1 never drawn in the resume stream)',
    'C01_p1': 'missed at first (assigned npc values always stored every block); assign stream with independent block sparsity added',
    'C03_p1': 'missed at first (MPO.make_U_I never called; no equal-dtype steps); mpo-object stream (whole-object fingerprints of MPO, Site, model) added',
    'C03_p2': 'missed at first (Site fingerprinted only after the model was built; no sum grid entries with unit prefactor); mpo-object stream added',
    'C04_p2': 'missed at first (no in-place kernel ever ran on non-contiguous blocks); strided-views stream added',
    'C06_p1': 'missed at first (flip_charges_qconj etc. only applied to plain legs); pipe-methods stream + T06_flip_pipe added',
    'C07_p1': 'missed at first (one dtype per state in every constructor stream); mixed-dtype stream added',
    'C07_p2': 'missed at first (Schmidt values compared at default bonds only); all bond indices the API accepts are now compared',
    'C08_p1': 'missed at first (mutinf_two_site only with n=1); option-space coverage table for all measurement methods added',
    'C11_p1': 'missed at first (explicit_plus_hc never set on C11 operands); plus_hc operand stream added',
    'C14_p2': 'missed at first (truncation errors injected at MPO.apply, above the zip_up sum); injection at truncate level for SVD/zip_up added',
    'C16_p1': 'missed at first (GMRES restarts with |b| != 1 not checked per cycle); gmresr stream + KrylovGmres model added',
    'C18_p2': 'missed at first (start_time never drawn; no checkpoint at evolved_time == 0)',
}
# kept changes that can no longer be applied to the current tree because a later `fix:` commit rewrote the lines they
# touch (they were confirmed and detected on the tree they were written for; see meta.json)
RETIRED = {
    'C17_m1': 'retired: fix c7f569c (F17.7) rewrote Hdf5Loader.load_tuple - the temporary list is no longer memorised, so the '
              'changed line does not exist any more and the mutation has no equivalent on the current tree',
    'C19_n1': 'retired: fix 4a35382 (F19.5) replaced the ring-count formula of Lattice.mps2lat_values_masked that the change edited by '
              'sizing the axis from the actual lattice indices; the changed line does not exist any more',
    'C18_m2': 'retired: fix 3811351 (F18.1-3, sweep_stats kept in the resume data) changed DMRGEngine.reset_stats and the '
              'contents of results[sweep_stats] after a resume, which demo.py relied on; the patch context no longer matches',
}
for name in sorted(os.listdir(src)):
    d = os.path.join(src, name)
    ej = os.path.join(d, 'eval.json')
    if not (os.path.isfile(ej) and os.path.isfile(os.path.join(d, 'meta.json'))):
        continue
    e = json.load(open(ej))
    if 'detected' not in e:
        continue
    e1 = os.path.join(d, 'eval_first.json')
    first_missed = os.path.isfile(e1) and not json.load(open(e1)).get('detected')
    ok = e.get('demo_unpatched_rc') == 0 and e.get('demo_patched_rc') not in (0, None) and e.get('patch_applies') and e.get('tests_pass')
    if not ok:
        print('not kept:', name, {k: e.get(k) for k in ('demo_unpatched_rc', 'demo_patched_rc', 'patch_applies', 'tests_pass')})
        continue
    dst = os.path.join(V, 'seeded', name)
    os.makedirs(dst, exist_ok=True)
    for f in ('patch.diff', 'demo.py'):
        if not os.path.exists(os.path.join(dst, f)):   # (tools/seeded_recheck.py may have refreshed a kept patch)
            shutil.copy(os.path.join(d, f), dst)
    meta = json.load(open(os.path.join(d, 'meta.json')))
    meta['confirmed_by_me'] = {
        'how': 'tools/seeded_eval.py on a scratch copy of /repo (never /repo itself): demo.py exit 0 unpatched / non-zero patched; '
               'patch applies; existing tests listed below pass with the patch; then VERIF_REPO=<copy> ./check <property> --tier quick',
        'tests_run': e.get('tests'), 'tests_pass': e.get('tests_pass'),
        'demo_unpatched_rc': e.get('demo_unpatched_rc'), 'demo_patched_rc': e.get('demo_patched_rc'),
        'check_detected': e.get('detected'), 'check_gave_failing_input': e.get('with_failing_input'),
        'check_replay_kind': e.get('replay_kind'), 'check_replay_what': e.get('replay_what'), 'evaluated_at': e.get('at'),
        'note': e.get('note', '') or FIRST_MISSED.get(name, ''),
        'missed_at_first_evaluation': bool(first_missed or name in FIRST_MISSED),
        'status': RETIRED.get(name, 'applies to the current tree'),
    }
    json.dump(meta, open(os.path.join(dst, 'meta.json'), 'w'), indent=1)
    rows.append((name, meta.get('property'), bool(e.get('detected')), bool(e.get('with_failing_input')),
                 (meta.get('what_breaks') or '')[:110].replace('\n', ' ').replace('|', '/'),
                 (e.get('replay_what') or '')[:110].replace('\n', ' ').replace('|', '/'), (RETIRED.get(name, '') + ' ' if name in RETIRED else '') + (e.get('note', '') or FIRST_MISSED.get(name, ''))))
with open(os.path.join(V, 'seeded', 'SUMMARY.md'), 'w') as f:
    f.write('# Seeded changes (written by independent sub-agents from the property text only) and what the checks do with them\n\n')
    f.write('| id | property | detected | with failing input | what the change breaks | what the check reported | note |\n|---|---|---|---|---|---|---|\n')
    for r in rows:
        f.write('| %s | %s | %s | %s | %s | %s | %s |\n' % (r[0], r[1], 'yes' if r[2] else 'NO', 'yes' if r[3] else 'no', r[4], r[5], r[6]))
    n = len(rows)
    f.write('\n%d changes kept, %d detected, %d with a concrete failing input.\n' % (n, sum(r[2] for r in rows), sum(r[3] for r in rows)))
print(len(rows), 'kept')
