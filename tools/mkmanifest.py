"""Writes /verif/MANIFEST.json from the table below (kept in one place so it stays valid)."""
import json
import os

V = os.path.dirname(os.path.dirname(os.path.abspath(__file__)))

CHECKS = {}
NA = {}


def check(pid, category, text, note, technique, design):
    CHECKS[pid] = {
        'property_id': pid,
        'quick_cmd': './check %s --tier quick' % pid,
        'thorough_cmd': './check %s --tier thorough' % pid,
        'evidence_file': 'evidence/%s.json' % pid,
        'replay_cmd_template': './check %s --replay {path}' % pid,
        'engine': 'coq-proof+correspondence',
        'level_claimed': {'category': category, 'text': text, 'design_ref': design},
        'level_note': note,
        'technique': technique,
    }


for fn in sorted(os.listdir(os.path.join(V, 'tools', 'manifest'))):
    if fn.endswith('.py'):
        exec(open(os.path.join(V, 'tools', 'manifest', fn)).read())

props = [json.loads(l)['id'] for l in open(os.path.join(V, 'properties.jsonl'))]
for p in props:
    if p not in CHECKS and p not in NA:
        NA[p] = 'check not built yet in this round (no claim made); see DESIGN.md section 5.%s' % p

man = {
    'version': 1,
    'setup_cmd': './setup.sh',
    'hooks': {
        'guard': 'TENPY_VERIF',
        'enable': 'no source hooks are needed: all instrumentation is applied from the harness process (wrapping/patching at run time)',
        'baseline_off_cmd': 'cd /repo && /venv/bin/python -m pytest -ra -q -p no:cacheprovider --timeout=900 --continue-on-collection-errors',
        'source_commits': [],
        'add_only': True,
    },
    'engines': [{
        'name': 'coq-proof+correspondence', 'path': 'check',
        'serves_properties': sorted(CHECKS),
        'kind_free_text': 'Coq 8.16.1 theorems about executable Gallina models (coq/), tied to /repo by a fail-closed '
                          'Python->Gallina translator (regenerated every run) and by differential runs of model (vm_compute) '
                          'and implementation; numpy oracles search for failing inputs',
    }],
    'checks': [CHECKS[p] for p in props if p in CHECKS],
    'not_applicable': [{'property_id': p, 'reason': NA[p]} for p in props if p in NA],
    'notes': 'see DESIGN.md; KNOWN_FINDINGS.json lists recorded/fixed defects of the unchanged tree',
}
json.dump(man, open(os.path.join(V, 'MANIFEST.json'), 'w'), indent=1)
print('checks:', sorted(CHECKS), 'not claimed:', sorted(NA))
