"""Add (or update) an entry of KNOWN_FINDINGS.json under a file lock.
usage: add_known.py ID PROPERTY MATCH_KEY "what fails" ["repro"] ["suggested fix"]"""
import fcntl
import json
import os
import sys

V = os.path.dirname(os.path.dirname(os.path.abspath(__file__)))
p = os.path.join(V, 'KNOWN_FINDINGS.json')
with open(os.path.join(V, '.known.lock'), 'w') as lk:
    fcntl.flock(lk, fcntl.LOCK_EX)
    d = json.load(open(p))
    fid, prop, match, what = sys.argv[1:5]
    e = {'id': fid, 'property': prop, 'status': 'known', 'match': match, 'what': what,
         'repro': sys.argv[5] if len(sys.argv) > 5 else '', 'suggested_fix': sys.argv[6] if len(sys.argv) > 6 else ''}
    d['findings'] = [x for x in d['findings'] if x['id'] != fid] + [e]
    json.dump(d, open(p, 'w'), indent=1)
print('ok')
