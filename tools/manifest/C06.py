check('C06', 'proof',
      'Coq theorems T06_* about executable models of LegCharge (Model/Leg.v) and LegPipe (Model/Pipe.v), for any number of legs, blocks, '
      'block sizes (also 0), charges, mods, directions and sort/bunch settings: T06_flat_bijection (map_incoming_flat is a bijection between the '
      'incoming index tuples and [0, prod ind_len) with an explicit inverse; it does not depend on bunching), T06_fusion_rule (the outgoing block that '
      'q_map assigns to a tuple carries make_valid(qconj*sum qconj_l*charge_l)), T06_qmap_shape (every q_map row: slice size = size of the block tuple, slice inside the outgoing block I_s), T06_pipe_sorted, T06_get_qindex(+_inverse) (inverse of the slices on '
      '[-ind_len, ind_len), error outside), T06_bunch / T06_project (qflat of the surviving indices unchanged), T06_flip_charges_qconj / '
      'T06_conj_contractible (test_equal / test_contractible), T06_sort_partial (block permutation, sortedness; the flat-index form is not proved). '
      'The models are executed (vm_compute) against the implementation on an enumeration of all pipes over small legs (U(1), Z_2, Z_3, two charges, '
      'no charge; 1-3 legs, <=3 blocks, sizes 0-2, all directions, sort/bunch on/off; strided when over the tier budget) plus random 1-4 leg pipes: '
      'charges, slices, q_map, q_map_slices and map_incoming_flat on EVERY index tuple, in the python and the compiled configuration; likewise '
      'sort/bunch/project/extend/flip/get_qindex/perm_flat_from_perm_qind on enumerated and random legs. Oracle-only (not proved): that combine_legs/'
      'split_legs place tensor entries where map_incoming_flat says and round-trip exactly (dense reshape/transpose oracle incl. nested pipes, given '
      'pipes, new_axes, labels), sort_legcharge, as_completely_blocked, the remaining layout clauses of q_map (rows lexsorted by (I_s, i), q_map_slices, gap-free tiling).',
      'Trusted: Coq kernel+VM, harness generators/oracles; charges are unbounded integers (no int64 overflow), cached flags sorted/bunched checked by '
      'test_sanity at TENPY_OPTIMIZE=0 only; _perm/_strides are private and only exercised through map_incoming_flat. Known findings F06.1-F06.6 '
      '(outer_conj, get_qindex(ind_len), get_leg_index(rank), ?# labels of untouched legs, sort_legcharge(False, False)).',
      'Coq proof over all inputs + exhaustive small-scope differential correspondence + dense oracles', '5.C06')
