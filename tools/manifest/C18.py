check('C18', 'proof',
      'Coq theorems T18_* about (a) a crash model of the two result files (Absent/Marker/Partial k/Complete k; exists, unlink, atomic rename, '
      'tearable write) with Simulation.save_results regenerated from the source as a program over these steps and proved equal to the model '
      '(T18_save_results_gen): an uninterrupted safe_write run with any number of saves, killed before any step or inside any write, always '
      'leaves the last completed checkpoint loadable (T18_crash_safe_single_run, by induction over saves); the same over all histories '
      '(run, crash, resume)* provided no resume starts with a partial output file (T18_crash_safe_resumed_partial); that excluded case is '
      'REFUTED with an explicit witness history (T18_crash_safe_resumed_refuted, design finding F11) which the check replays literally on '
      'the real code by fault injection; (b) the checkpoint/measurement protocol of RealTimeEvolution and GroundStateSearch as a small-step '
      'machine: resuming from every snapshot finishes with the same sequence of record times, and identical records when the accumulated '
      'error is restored (T18_resume_measurements); refuted for eps_error on the faithful protocol (T18_resume_eps_error_refuted, F12). '
      'The model is executed (vm_compute) against every enumerated history of the implementation: a crash before every path operation and '
      'inside every write (byte prefixes) of step simulations with pickle and HDF5 output, then resume and second (third) crash; '
      'save_results/fix_output_filenames from all 16 disk states; real DMRG/TEBD/TDVP simulations stopped at every algorithm checkpoint '
      '(after the save, inside the write, after the rename), resumed and compared with plain runs (energy 1e-10, overlap, all measurement arrays).',
      'Trusted: Coq kernel+VM, translator/export_c18_save.py, harness fault injection (in-process wrappers of os.rename/replace/unlink, '
      'Path.exists/open, hdf5_io.save; a crash is an exception; a torn write leaves a byte prefix). Assumption A-fs: rename/unlink atomic and '
      'ordered, no fsync reordering. Not modelled: handle_abort_signal timing, DMRG mixer state and convergence history across a resume '
      '(oracle-checked only, see known finding F18.1), sequential simulations.  The _1.._99 renaming of fresh runs: T18_fix_output_filenames (Model/FixNames.v, a transcription of the name choice of '
      'fix_output_filenames without own correspondence stream; for every set of existing candidates a fresh run gets the smallest non-existing '
      'name <= _99, Skip exactly when skip_if_output_exists and the file exists, ValueError exactly when all 100 names exist; the marker written to '
      'the backup name and the log-file renaming are not covered by it; the renaming is also oracle-checked). '
      'Known findings F11, F12, F18.1 are reported, not repaired.',
      'Coq proof over all numbers of saves / crash points / histories + regenerated source + fault enumeration with differential correspondence', '5.C18')
