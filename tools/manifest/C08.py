check('C08', 'proof',
      'Coq theorems T08_* (all i, j, all terms; unbounded) about hand-written models of the ordering/sign logic: correlation_function contracts on '
      'every site exactly the tensor factor of the documented ordered product for i<j, i=j, i>j, any opstr and str_on_first (T08_corr_order), with '
      'autoJW this is the Jordan-Wigner product of the two c-type operators (T08_corr_fermion); the loop of _term_to_ops_list produces, site by site, '
      'the ordered product of the JW-transformed operators and the parity flag (T08_term_ops_list, T08_term_normal_form, '
      'T08_no_string_left_of_term); autoJW decision and hermitian shortcut.  Correspondence: _term_to_ops_list vs the model on ~800 random terms '
      '(vm_compute); the per-site words of the correlation model are evaluated in Coq, turned into dense matrices with numpy.kron and compared with '
      'correlation_function.  Oracle: every measurement function (expectation_value one-/multi-site/axes/sites, _multi_sites, _term, _terms_sum, '
      'correlation_function with opstr/str_on_first/hermitian/autoJW/operator lists, term_correlation_function_right/left, get_rho_segment, '
      'mutinf_two_site, entanglement_entropy_segment, probability_per_charge/average_charge, sample_measurements weights, overlap finite/infinite, '
      'MPSEnvironment with bra != ket) on random finite / segment / infinite MPS vs dense <bra|O|ket> with explicit Jordan-Wigner matrices at 1e-10.',
      'Trusted: Coq kernel+VM, harness, numpy oracle; the dense state is recomputed from the tensors the MPS holds (canonical form assumed). '
      'Contraction numerics, environments and TransferMatrix are oracle-checked only (not modelled); T08_sample_weights / T08_window / T08_env of the '
      'design are not proved.  Known findings F16, F19, F20, F21.',
      'Coq proof of the discrete ordering/sign core + differential correspondence + dense oracle', '5.C08')
