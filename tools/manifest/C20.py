check('C20', 'proof',
      'Coq theorems T20_* about executable models of tenpy.tools.events / cache / thread, all unbounded in the length of the history: '
      '(events) after any connect/disconnect/emit/emit_until_result/copy history emit calls exactly the connected listeners in descending '
      'priority with ties in connection order, emit_until_result stops at the first non-None result, disconnect(id) removes exactly that '
      'listener, ids are never reused; (DictCache) for every storage meeting an explicit contract (abstraction function + invariant; the '
      'in-memory dict storage is proved to meet it) and every sequence of set/[]/get/del/in/preload/set_short_term_keys/keys the cache '
      'returns what a plain dict returns, reads return the latest write, families of sub-caches are isolated; (ThreadedStorage + Worker as '
      'a labelled transition system: FIFO with max size, unfinished-task counter, caller split at put/join/_loaded reads, worker '
      'dequeue/execute/die/drain) for EVERY schedule and every well-formed program the outputs are those of a key-value store and the worker '
      'never dies (T20_threaded_linearizable; DictCache is proved to issue only well-formed programs), for every schedule, every program and any failing task a blocked caller can move after '
      '<= 3|queue|+2 worker steps (T20_no_deadlock), a dead worker never blocks and raises WorkerDied.  The models are run (vm_compute) '
      'against the implementation on every generated trace: exhaustive short + random histories for EventHandler and DictCache over '
      'Storage/PickleStorage/Hdf5Storage with sub-caches, with and without the worker thread, and ThreadedStorage under worker schedules '
      'enforced by gates (outputs, which call blocks in put/join, which task runs, _loaded/_waiting_for_load, worker liveness).',
      'Trusted: Coq kernel+VM, harness generators/oracles.  The models state the documented behaviour; four defects of the unchanged tree '
      '(F8, F9, F20a, F20b) are found by the dict/listener oracles and listed in KNOWN_FINDINGS.json.  Not modelled: CPython GIL and '
      'queue.Queue internals (assumed a linearizable FIFO with blocking put/get/join), the real disk, the instructions between '
      'task_done() of a failing task and exit.set(), close()/__exit__ and closing of sub-containers (oracle-checked only: clean close, '
      'second close raises, no leftover files, no live worker, 5 s deadlock detector).  DictCache over ThreadedStorage: the cache is proved '
      'to issue only well-formed storage calls (T20_dictcache_calls_wellformed), which the threaded storage answers like a key-value store '
      'under every schedule (T20_threaded_under_dictcache); the two layers are not merged into one transition system.  Sub-cache isolation '
      'is proved for the model family (independent containers) and checked differentially on the shared resource; the private classes '
      '_NumpyStorage/_NpcArrayStorage are not exercised.',
      'Coq proof over all histories and all schedules of the model + differential correspondence (incl. enforced schedules) + dict oracle',
      '5.C20')
