check('C07', 'proof',
      'Coq theorems T07_* on executable models of the discrete core: index arithmetic of MPSGeometry (_to_valid_site_index/_to_valid_bond_index, all L and i; '
      'infinite: (i mod L, i div L), right bond = left bond of site i+1; finite/segment: rejection outside [-L, L)), and the form algebra (labels vs actual exponents of '
      'the stored tensors, in units of 1/2): "the label tells the truth" is an invariant of every history of convert_form / set_B(get_B) / set_svd_theta / canonical_form / '
      'roll / enlarge / spatial_inversion (unbounded chain length and history length), get_theta puts exponent formL, 1,...,1, formR on the bonds of every window incl. across '
      'the unit-cell boundary.  Every executed operation of every generated history is replayed on the model (labels, physical and bond dimensions, vm_compute), the index '
      'functions on windows of integers for L=1..8 and all three boundary conditions.  NOT proved, oracle-checked only: that the constructors (from_product_state, from_full, '
      'from_Bflat with non-canonical tensors in any claimed form, from_singlets, from_product_mps_covering, two-site gates + set_svd_theta) yield exactly the dense state, that '
      'histories of form conversions / canonicalisations / rescaled set_B leave state and psi.norm unchanged, that stored _S are the dense Schmidt coefficients at every cut '
      '(entropy, spectrum, norm_test, total charge) - against numpy-only dense references (finite), parent states (segments) and transfer-matrix contractions on a three-cell '
      'window (infinite).  Four defects of the unchanged tree are recorded as known findings (F31, F32, F33, F39).',
      'Trusted: Coq kernel+VM, harness generators and numpy references (site tables cross-checked against the site classes), set_svd_theta / canonical_form enter the model by '
      'their specification; QR/SVD/Arnoldi numerics not modelled; fermionic coverings only non-interleaved (sign convention undocumented); get_theta(n=1) modelled as documented.',
      'Coq proof over all inputs on the model + differential correspondence (every operation) + dense numpy oracle', '5.C07')
