check('C04', 'proof',
      'Coq theorems T04_* (coq/Props/C04.v, all shapes/lengths): for the kernels whose two implementations are different ALGORITHMS '
      'the compiled variant equals the pure-Python one -- make_valid (C truncated % plus sign correction, computed in wrapping int64, '
      'vs numpy floor-mod; hypothesis |q| < 2^62), check_valid (column-major loops with early exit vs vectorised np.all), '
      '_find_row_differences (scan with break vs nonzero of a padded mask; needs >= 1 row or 0 columns, and the unrestricted statement is '
      'REFUTED: py returns [0], cy [0, 0] on an empty table -- replayed on the code, known finding), _make_stride (wrapping intp '
      'arithmetic vs Python ints stored into an intp array; hypothesis: number of blocks < 2^63), _map_blocks.  Both models are run '
      '(vm_compute) against their own configuration on the same generated arguments on every run.  Everything else the property names '
      '(LegPipe._init_from_legs, _sliced_copy, itranspose, iadd_prefactor_other, iscale_prefactor, _imake_contiguous, combine/split/'
      'tensordot/inner workers, and DMRG/TEBD runs built on them) is compared differentially only: identical serialised programs and '
      'direct helper calls are executed in a pure-Python interpreter (TENPY_NO_CYTHON=1, current tree) and in an interpreter with the '
      'extension REBUILT from the current .pyx (cache keyed by the source hash; the runner asserts have_cython_functions and records '
      'the .pyx/.so hashes), and legs incl. pipe tables, labels, qtotal, dtype, the set of (qindices -> block), values and the error '
      'class are diffed; a dense numpy oracle says which side is wrong.',
      'Trusted: Coq kernel+VM, harness generators/canonicalisation, the hand-written kernel models (tied by correspondence only, no '
      'translator).  Not modelled in Coq: BLAS merge of iadd_prefactor_other and the four workers.  Memory layout and the effect of in-place '
      'writes on shallow copies (unspecified by Array.copy) are not part of the observation.  Eight genuine differences of the unchanged '
      'tree were found and are recorded in KNOWN_FINDINGS.json (known: F51-C04, F60-C04, F61-C04, F63-C04, F42-C04a/b; F5-C04 and F62-C04 have since been fixed in /repo and are regression-checked).',
      'Coq proof over all inputs for 5 kernels + two-sided correspondence + differential execution of both configurations', '5.C04')
