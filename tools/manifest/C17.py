check('C17', 'proof',
      'Coq theorems T17_* about an executable model of the memoised depth-first traversals behind Hdf5Saver.save / Hdf5Loader.load / '
      'pickle / deepcopy (coq/Model/Heap.v: finite heaps of leaves, lists, tuples, sets, dicts, instances; memo before the children for '
      'mutable containers, after them for tuples): for EVERY finite heap and root - shared nodes, self references, cycles through '
      'lists/dicts/instances - a copy that returns is isomorphic to the reachable part (bijection of ids preserving kinds, leaf values, '
      'classes, attribute names and the order of children), isomorphisms compose (save then load), identity of references is preserved '
      'both ways, saving needs no more fuel than nodes+1 (T17_copy_iso, T17_roundtrip_iso, T17_identity_preserved, T17_save_total); '
      'LegCharge encodings for any number of blocks/charges: from(compact(l)) = l, from(blocks(l)) = l, flat keeps to_qflat/qconj/ind_len '
      '(T17_legcharge_formats); tables REGENERATED from charges.py/np_conserved.py on every run: __getstate__ order = __setstate__ order, '
      'from_hdf5 reads only what save_hdf5 writes per format, __setstate__ call arities (T17_state_orders, by computation on the generated '
      'file; the one entry that is the recorded defect F17.1 - LegPipe x format flat - is excepted by name and reported as a known finding while it fails; F1 was found by this table and is repaired in /repo). '
      'PARTIAL: totality of load with late tuples (T17_load_total_partial proves only the tuple-free case). '
      'Checked, not proved: every class of the package that offers HDF5 export is discovered by reflection and must have an instance '
      'generator (79 classes, a class without one is a broken correspondence); each instance goes through HDF5 in the formats '
      'blocks/compact/flat, pickle and deepcopy; an independent deep comparison (types, values, dtypes, identity pattern in both directions, '
      'dense observations, test_sanity of every loaded object) is the oracle; the canonical heap of the loaded object is compared inside Coq '
      '(vm_compute) with the canonical form of the model round trip; random container heaps with sharing and cycles; pickle-protocol fallback.',
      'Trusted: Coq kernel+VM, the ast-based exporter translator/export_c17_states.py, harness canonicalisation (arrays/tuples inside tenpy '
      'instances are values without identity; python/numpy scalars of one kind identified for instance attributes; lazily recomputed '
      'lattice caches ignored). Not modelled: h5py/HDF5 and pickle libraries, dtype conversions (oracle only). The HDF5 loader memoises a '
      'temporary list for a tuple instead of re-checking the memo: identical to the model unless a tuple on a cycle is reached first '
      '(recorded defect F17.7). Defects found: F1 (repaired in /repo), F13, F17.1-F17.8 (recorded in KNOWN_FINDINGS.json).',
      'Coq proof over all finite heaps + regenerated tables + reflective differential correspondence', '5.C17')
