check('C03', 'proof',
      'Coq theorems T03_* (coq/Props/C03.v) on an explicit store model (heap of block buffers, _qdata tables, LegCharge objects, '
      'Array records; eleven heap transformers that write exactly where the code writes: new, copy deep/shallow, buffer-writing in-place '
      'methods = compiled iscale_prefactor/iadd_prefactor_other, rebinding in-place methods = itranspose/iconj/python iscale_prefactor, '
      'metadata-only in-place methods, iproject, copy-then-modify functions, scale_axis, a+b, tensordot on shallow copies): for ALL heaps '
      'and all operand choices (operands may alias or be shallow copies of each other) a live tensor outside the explicit set may_change keeps '
      'its value (T03_frame_all_ops and the per-operation corollaries T03_frame_*, T03_inplace_*); no transformer writes a LegCharge object '
      '(T03_legs_immutable); a deep copy has the value of its source and no in-place method on either changes the other '
      '(T03_deepcopy_independent).  T03_history_partial: frame over histories is proved only for "deep copy; any operation" (well-formedness '
      'preservation is proved for deep copies only).  Tie: every generated history (6-12 steps, all registers kept alive, many shallow/deep copies, '
      'operands used twice, in-place methods through copies) is executed in both configurations with fingerprints of every live tensor, every '
      'LegCharge object ever seen and every numpy argument before/after each step; the set of changed tensors must be allowed by the model '
      '(check_history, vm_compute) and by the rules of the property text (oracle).  MPS/MPO/Krylov level (constructors copy, get_B(copy=False) '
      'is the stored tensor, 16 measurement functions and 3 Krylov solvers leave psi / psi0 / the MPO unchanged) is oracle-checked only.',
      'Trusted: Coq kernel+VM, harness generators and fingerprints, the mapping of tenpy operations to the eleven transformers in '
      'harness/c03.py:judge.  The value of a tensor is (dense values, dtype, labels, qtotal, identity+content of legs); _qdata order and memory '
      'layout are representation.  A write through a shallow copy may or may not be visible through the other reference (Array.copy docstring): '
      'only consistency and per-object labels/legs/qtotal are required of shallow copies.  Findings: F62-C03 (python make_valid reduced '
      'the caller\'s qtotal array in place; fixed in /repo since), F49-C03 (setitem through a shallow copy leaves the sibling inconsistent).',
      'Coq proof on a store model + differential correspondence of change sets + fingerprint oracle', '5.C03')
