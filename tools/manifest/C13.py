check('C13', 'proof',
      'Coq theorem T13_schedule_covers (all L > n, n = 1, 2, finite and infinite bc) about an executable model of Sweep.get_sweep_schedule: 2m '
      'entries, every position optimised moving right (0..m-1) and moving left (1..m), consecutive entries (cyclically) differ by one site in the '
      'direction move_right announces.  Coq theorem T13_no_stale_env (finite bc, ALL chain lengths L > n, n = 1, 2, ALL numbers of consecutive '
      'sweeps, by induction with an explicit invariant, Proofs/SweepP2.v): in the model of update_env / free_no_longer_needed_envs / get_LP / '
      'get_RP / del_LP / del_RP with site version tags, started from a fresh environment (only LP[0], RP[L-1] stored), every LP[i0] / '
      'RP[i0+n-1] read for eff_H is contracted from the current versions of all sites to its left / right and after every step every stored '
      'environment is current.  Still not covered by a theorem: environments under infinite bc (they lag by design; instrumentation and oracle '
      'only), and the statement is about the tag model - its tie to the code is the differential correspondence below, not a proof.  '
      'PARTIAL: T13_energy_variational_partial is Rayleigh-Ritz in an eigenbasis only.  Normalisation, canonical '
      'form, charge sector, E = <psi|H|psi> up to the reported truncation, E >= exact sector ground energy and convergence of untruncated two-site '
      'DMRG with a mixer are decided by the oracle only: exact diagonalisation of dense Hamiltonians built in the harness from the documented '
      'formulas (TFI, XXZ, spinless fermions, longer-range chains with complex couplings / explicit_plus_hc) on 3-8 sites, closed-form energies for '
      'infinite TFI / Heisenberg (iDMRG, VUMPS).  The model is run (vm_compute) against get_sweep_schedule and against the stored-environment sets '
      'after every local update of every instrumented finite DMRG run; the instrumentation also tags every environment with the site versions it '
      'was contracted from and reports stale reads on the implementation itself.',
      'Trusted: Coq kernel+VM, harness generators/instrumentation/dense oracle.  Not modelled: tensors, truncation, eigensolver, mixers, VUMPS '
      'internals, segment bc, orthogonal_to.  Runs are generated with the mixer switched off before the last sweeps (a run that ends with an '
      'active mixer returns a non-canonical psi by design).  chi <= 16, <= 12 sweeps.',
      'Coq proofs over all L (schedule; environments of finite chains, all numbers of sweeps) + differential correspondence on instrumented runs + exact-diagonalisation oracle',
      '5.C13')
