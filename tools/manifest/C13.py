check('C13', 'proof',
      'Coq theorem T13_schedule_covers (all L > n, n = 1, 2, finite and infinite bc) about an executable model of Sweep.get_sweep_schedule: 2m '
      'entries, every position optimised moving right (0..m-1) and moving left (1..m), consecutive entries (cyclically) differ by one site in the '
      'direction move_right announces.  PARTIAL: T13_no_stale_env_partial - in the model of update_env / free_no_longer_needed_envs / get_LP / '
      'get_RP / del_LP / del_RP with site version tags, every environment read for eff_H is contracted from the current site tensors and every '
      'stored environment stays current - is proved by evaluation for finite chains of at most 24 sites and three sweeps only (no induction over '
      'L, infinite bc not covered).  PARTIAL: T13_energy_variational_partial is Rayleigh-Ritz in an eigenbasis only.  Normalisation, canonical '
      'form, charge sector, E = <psi|H|psi> up to the reported truncation, E >= exact sector ground energy and convergence of untruncated two-site '
      'DMRG with a mixer are decided by the oracle only: exact diagonalisation of dense Hamiltonians built in the harness from the documented '
      'formulas (TFI, XXZ, spinless fermions, longer-range chains with complex couplings / explicit_plus_hc) on 3-8 sites, closed-form energies for '
      'infinite TFI / Heisenberg (iDMRG, VUMPS).  The model is run (vm_compute) against get_sweep_schedule and against the stored-environment sets '
      'after every local update of every instrumented finite DMRG run; the instrumentation also tags every environment with the site versions it '
      'was contracted from and reports stale reads on the implementation itself.',
      'Trusted: Coq kernel+VM, harness generators/instrumentation/dense oracle.  Not modelled: tensors, truncation, eigensolver, mixers, VUMPS '
      'internals, segment bc, orthogonal_to.  Runs are generated with the mixer switched off before the last sweeps (a run that ends with an '
      'active mixer returns a non-canonical psi by design).  chi <= 16, <= 12 sweeps.',
      'Coq proof over all L (schedule) + bounded evaluation (environments) + differential correspondence on instrumented runs + exact-diagonalisation oracle',
      '5.C13')
