check('C02', 'proof',
      'Coq theorems T02_*: WF (qtotal shape, row shape, NO duplicate _qdata row, CHARGE RULE for every stored block, TRUTHFUL _qdata_sorted claim) is closed under '
      'transpose, conj, scalar multiplication and addition (result of the merge is strictly sorted, hence its claim is truthful, provided the operands\' claims were); '
      'isort_qdata is only correct for a truthful claim; every block produced by outer and by the block pairing of tensordot obeys the charge rule with '
      'qtotal = make_valid(qtotal_a + qtotal_b) for contractible legs (any rank / number of blocks / charges); WF is closed under outer (T02_wf_outer: no duplicate row in the '
      'grid of block pairs and the claim _qdata_sorted = a.sorted and b.sorted is truthful for the grid order used) and under tensordot (T02_wf_tensordot, for the value model '
      'Model/TensorDot.v: one block per distinct row of the pairing, rows sorted, claim True as the worker sets it; the worker\'s loop order itself is not modelled); '
      'take_slice on one axis (T02_wf_take_slice / T02_qtotal_take_slice: qtotal reduced by the charge of the removed index, keeping _qdata_sorted is correct because removing '
      'a constant column keeps the kept rows distinct and lexsorted; Model/TakeSlice.v is written after the source, NOT correspondence-checked); '
      'make_valid laws; documented qtotal of the modelled operations. '
      'NOT proved: WF for all other operations, LegCharge.sorted/bunched flags - these are checked by the oracle only: after EVERY step of random '
      'histories (in-place methods, shallow copies, element assignment) on EVERY live object the object\'s own test_sanity() plus an independent recomputation '
      '(duplicate rows, charge rule, shapes/dtypes, lexsort vs claim, contiguity, leg flags vs is_sorted/is_bunched/is_blocked, documented qtotal), pure Python at TENPY_OPTIMIZE=0 '
      'and the rebuilt extension at the default level; leg-level programs over LegCharge/LegPipe methods; the boolean WF of the Coq model is evaluated on the storage the '
      'implementation produced for the modelled operations.',
      'Trusted: Coq kernel+VM, invariant recomputation in harness/npc_gen.py. The compiled extension is inactive at TENPY_OPTIMIZE=0, so its runs rely on the recomputation. '
      'Known findings F2, F2b, F4, F5-C02, F45-C02, F48, F49, F50, F50b.',
      'Coq proof over all inputs for the modelled core + differential correspondence + invariant oracle on random histories', '5.C02')
