check('C16', 'proof',
      'Coq theorems T16_* (all N, all N_cache) about an executable model of the index/coefficient bookkeeping of krylov_based.py: '
      'the FIFO cache holds exactly the last min(k, N_cache) Krylov vectors (T16_cache_bounded), _cache[-1]/_cache[-2] are v_k/v_{k-1} for '
      'every N_cache >= 2 (T16_three_term_indices), the rebuild loop repeats the recurrence of the build loop (T16_rebuild_same_recurrence), '
      '_calc_result_full + _rebuild_krylov_for_result_full combine every Krylov index exactly once with its own coefficient, independent of '
      'N_cache (T16_result_full_indices, T16_cache_independence), the argsort model orders Ritz values as `which` requests (T16_arnoldi_order). '
      'PARTIAL: T16_ritz_bound_partial is the Rayleigh-Ritz inequality in an eigenbasis only; Rayleigh quotient >= lambda_min for arbitrary '
      'Hermitian operators, equality at full Krylov dimension, accuracy of exp(delta H), Gram-Schmidt, GMRES and FlatLinearOperator clauses are '
      'decided by the dense oracle only (eigh / eig / scipy expm on block-sparse operators of dimension 1-60).  The model is run (vm_compute) '
      'against the event trace of every instrumented LanczosGroundState/LanczosEvolution run (matvec, _to_cache, iadd_prefactor_other, '
      'iscale_prefactor, coefficient indices) and against tools.misc.argsort.',
      'Trusted: Coq kernel+VM, harness generators/instrumentation/numpy oracles.  Not modelled: the float kernel (inner products, norms, eig of '
      'the projected matrix, exit conditions); the number of iterations is taken from the run.  Runs forced beyond the exact Krylov dimension '
      '(N_min > dim) are only checked for the bookkeeping; tolerances grow with the conditioning of the Krylov basis.',
      'Coq proof over all inputs (bookkeeping) + differential correspondence on instrumented runs + dense oracle (spectral clauses)', '5.C16')
