check('C19', 'proof',
      'Coq theorems T19_* about an executable model of tenpy.models.lattice (any dimension, sizes, unit cell, any order array of '
      'distinct sites - regular and irregular lattices -, finite and infinite MPS): T19_get_order_perm (get_order with every '
      'combination of snake flags, priority=None, enumerates each lattice index exactly once), T19_index_inverse (mps2lat_idx / '
      'lat2mps_idx are mutually inverse bijections between MPS indices - all integers for infinite MPS - and existing sites), '
      'T19_couplings_exact (possible_couplings returns exactly the pairs of existing sites connected by dx under open / periodic / '
      'shifted boundary conditions, each once, for infinite MPS exactly the representative with 0 <= min(i,j) < N_sites; hypothesis: '
      'no bc_shift together with an open x-direction and |dx_0| >= Ls[0]), T19_couplings_shift_refuted (that hypothesis is '
      'necessary: witness where the model, like tenpy, drops an existing pair; known finding F19.2).  The model (index maps, '
      'mps_idx_fix_u, coupling_shape, possible_couplings incl. lat_indices, possible_multi_couplings, get_order incl. priority) is '
      'evaluated with vm_compute against lattice.py on every generated Chain/Ladder/NLegLadder/Square/Triangular/Honeycomb/Kagome/'
      'generic 3D-4D/MultiSpecies/Irregular lattice x all bc combinations x finite/infinite/segment x named, tuple and permuted orders.  '
      'All classes (also HelicalLattice) are compared with a brute-force enumeration over all coordinates written from the '
      'documentation: orders, index tables and round trips (two extra unit cells), all displacement vectors up to the lattice size, '
      'multi-couplings, strengths, mps2lat_values(_masked), pairs vs Euclidean distance shells of position(), find_coupling_pairs.',
      'Trusted: Coq kernel+VM, harness generators and the python oracle.  Not proved (correspondence/oracle only): get_order with '
      'priority != None, get_order_grouped, folded orders, order construction of MultiSpecies/Irregular/Helical lattices, '
      'possible_multi_couplings exactness, lat_indices, mps2lat_values(_masked), positions/distances (floats), HelicalLattice.  '
      'Known findings F19.1-F19.5 (grouped order on 1D lattices raises; bc_shift + open x drops couplings; Helical mps_idx_fix_u(None); '
      'mps2lat_values_masked axis sizing) are re-found on every run.',
      'Coq proof over all inputs + exhaustive small-scope differential correspondence + brute-force oracle', '5.C19')
