check('C01', 'proof',
      'Coq theorems T01_* over a storage model of np_conserved.Array (legs = block sizes + charges + qconj, blocks = functions of the index inside the block, '
      'to_ndarray = assignment of the stored blocks, any rank / number of blocks / number of charges): transpose, conj, scalar multiplication and '
      'addition (the sorted merge of ibinary_blockwise; needs the truthful _qdata_sorted claim of C02, and a Coq witness shows the result is wrong without it) '
      'give exactly the numpy result; blocks of distinct _qdata rows never overlap; split(combine(labels)) = labels for arbitrarily nested labels. '
      'Partial (statement visible, named _partial): outer only for the sum of blocks, _conj_leg_label only for atomic labels. '
      'Everything else of the property (tensordot values, inner, trace, combine/split_legs, slicing, indexing, assignment, concatenation, scale_axis, '
      'permute, sort_legcharge, ...; ~60 public operations) is NOT proved: it is checked by a numpy oracle after every step of random programs '
      '(0-3 charges, mod 1..5, both qconj, unsorted / duplicated / size-0 blocks, pipes, missing and zero blocks, float/complex/int, ~10% malformed calls) '
      'in the pure-Python and the rebuilt compiled configuration; the Coq model of the six modelled operations and of the three label functions is '
      'executed (vm_compute) on the recorded storage of operands/results of every run.',
      'Trusted: Coq kernel+VM, the numpy oracle and generators in harness/npc_gen.py (documented LegPipe index map re-implemented there), the reading of the '
      'storage schema. Tie model<->code is correspondence only (label functions are outside the translator grammar). Not generated: legs without any block, '
      'selections keeping nothing, add_leg(axis=rank). dtype promotion not compared. Known findings F14, F5-C01, F3-C01, F41-F45, F51-F53.',
      'Coq proof over all inputs for the modelled core + differential correspondence + dense numpy oracle on random programs', '5.C01')
