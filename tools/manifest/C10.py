check('C10', 'proof',
      'Coq theorems T10_* (all chain lengths, any number of terms, Gaussian-integer strengths) about an executable weighted-automaton '
      'model of MPOGraph (Model/Automaton.v): T10_add_to_graph_onsite / T10_add_to_graph_coupling: adding one on-site / two-site term '
      'with CouplingTerms.add_to_graph\'s sharing of the start edge and of operator-string edges keeps the key-injectivity / no-orphan '
      'invariant wf and adds exactly the normal form of the term to the denotation (sum over paths IdL ->* IdR); T10_from_terms(+_wf): '
      'from_terms denotes the sum of all terms (finite bc); T10_insert_edge (any graph: a new edge adds exactly the paths through it); '
      'T10_hermitian; T10_peqb_sound (with T11_peqb_complete: the normal-form comparison decides "same operator"). '
      'Tie (correspondence): for every generated model with integer strengths the Coq model of from_terms rebuilds the implementation\'s '
      'MPOGraph edge for edge and checks wf, and the verified denote function is evaluated (vm_compute) on the implementation\'s own graph '
      'and on the grids handed to MPO.from_grids (finite, and infinite unrolled on a window; multi-site and exponentially decaying terms '
      'included) and compared with the normal form of the implementation\'s own containers. '
      'Oracle: dense matrices of every representation (containers with strings, MPO contraction, ExactDiag from MPO / bonds, '
      'get_numpy/scipy_sparse_Hamiltonian with and without undo_sort_charge, calc_H_MPO_from_bond, calc_H_bond_from_MPO, '
      'sort_legcharges, group_sites, extract_segment, enlarge_mps_unit_cell, plus_hc / explicit_plus_hc / manual h.c., conserve options) '
      'against an independent dense semantics of the add_* calls on <= 7 sites, for random coupling models and every model class of '
      'tenpy.models.',
      'Proved only for on-site and two-site terms on finite chains; multi-site couplings, exponentially decaying terms, infinite bc '
      '(construction), H_bond distribution of on-site terms, charges of virtual legs, group_sites/extract_segment are covered by the '
      'correspondence (denotation of the implementation\'s graphs) and the dense oracle only. Operators are formal words over operator '
      'names in the model; local matrices and Jordan-Wigner flags come from tenpy.networks.site (C12). With explicit_plus_hc=True the '
      'reference is the Hermitian part of the terms (only Hermitian Hamiltonians are representable). 13 defects of the unchanged tree '
      'are recorded in KNOWN_FINDINGS.json (F101-F112, F116).',
      'Coq proof over all inputs + differential correspondence on implementation data + dense oracle', '5.C10')
