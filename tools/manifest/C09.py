check('C09', 'proof',
      'Coq theorems T09_* : the while-loop of permute_sites terminates for every list within the stated fuel, ends sorted, moves perm entries and sites together, realises '
      'new[perm[i]] = old[i] for every permutation, performs exactly #inversions swaps and accumulates the sign (-1)^(#inverted pairs with two odd occupations) = sign of the Fock-space '
      'permutation; spatial_inversion is an involution that mirrors sites and exchanges left/right labels, exponents and bond dimensions; roll_mps_unit_cell (tensors fetched as stored) '
      'and enlarge_mps_unit_cell relabel sites as documented and keep labels truthful (plus a machine-checked counterexample for the default-form variant of roll, the former defect F7). '
      'T09_add_linear / T09_add_linear_tensors (Model/MpsAdd.v): the block construction of MPS.add - first site row block (alpha A_1, beta B_1), inner sites diag(A_i, B_i), last site column '
      'block (A_L; B_L) - has matrix product alpha*prod A + beta*prod B for all chains of integer matrices of equal length L >= 2 with arbitrary non-uniform bond dimensions, and with physical '
      'legs for every configuration (induction on L); the canonical_form_finite afterwards and the gauge of the boundary legs are not modelled, and these definitions have no correspondence '
      'stream (dense oracle only). '
      'The sequence of adjacent swaps performed by permute_sites and the resulting arrangement, and labels/dimensions after roll/enlarge/inversion/convert_form, are replayed on the '
      'models for every generated case.  NOT proved, oracle-checked only (dense numpy state resp. transfer-matrix contraction of explicitly transformed unit-cell tensors, after every '
      'operation, states in every stored form with non-uniform chi): apply_local_op / apply_product_op / apply_local_term incl. Jordan-Wigner strings and norm tracking, swap/permute '
      'incl. fermionic signs, add = alpha psi + beta phi, group_sites+group_split and enlarge_chi preserve the state, compress(_svd) within the angle bound of the reported truncation '
      'error, spatial_inversion, roll, enlarge on infinite states.  Five defects of the unchanged tree are recorded as known findings (F34-F38); F7 was re-found before its repair.',
      'Trusted: Coq kernel+VM, harness generators and numpy references; site operator matrices are taken from the site classes (checked by C12); a global sign is not compared where the '
      'documentation says it may be lost (JW string through bond charges); compression is bounded, not characterised; T09_apply_product_op_norm / group_split / compress are not formalised.',
      'Coq proof over all inputs on the model + differential correspondence + dense numpy oracle', '5.C09')
