check('C14', 'proof',
      'Coq theorems on text REGENERATED from the source on every run: T14_trotter_time (for orders 1, 2, 4, "4_opt", every N >= 1, '
      'each parity class and every value of the irrational constant, the schedule of suzuki_trotter_decomposition composes to exactly N '
      'time steps), T14_trotter_merge (orders 1, 2, 4, "4_opt", every N >= 1 by induction: the N-step schedule with each entry replaced by '
      '(time-step polynomial, parity) equals, after merging adjacent entries of equal parity by adding their time polynomials, the merged '
      'N-fold repetition of the N=1 schedule - same length, same parities, times equal coefficientwise in Q; T14_merge_normal_form: merge '
      'yields no adjacent equal parities, fixes such lists, is idempotent and preserves the time per parity class; merge itself has no '
      'correspondence checker, it is applied to the regenerated tables), T14_trotter_symmetric (palindromic schedules), T14_bond_coverage (odd+even step touch every existing bond exactly '
      'once, any L, finite/infinite), T14_accounting_exact + T14_all_engines_single_add (every time-evolution engine class of the source '
      'accumulates evolved_time and trunc_err exactly once per run, hence after ANY history of run() calls evolved_time = start + sum '
      'N*dt and trunc_err.eps = start + sum of the performed truncation errors). Correspondence: the generated schedule vs the Python '
      'function; the accounting model vs REAL engines (all 13 engine classes/options, finite and infinite) with exact dyadic truncation '
      'errors injected from outside; bonds updated per step. PARTIAL: convergence order, norm/energy/charge conservation against dense '
      'exp(-iHt) are decided by a numeric oracle (dt vs dt/2), not by a theorem.',
      'Trusted: Coq kernel+VM, translator (py2coq + export_c14_acct pattern for accumulate statements), harness; float rounding of '
      'repeated addition excluded by construction (dyadic steps/errors); matrix exponentials, Lanczos, LAPACK are oracle-checked only.',
      'Coq proof over regenerated source text (all N, all histories) + differential correspondence + dense oracle', '5.C14')
