check('C15', 'proof',
      'Coq theorems T15_* (all spectra of every length, all option combinations) about an executable model of '
      'truncation.truncate: suffix-of-sorted-spectrum threshold, priority of chi_max/chi_min/degeneracy/svd_min/trunc_cut, '
      'exact error/norm accounting, permutation invariance; _combine_constraints is regenerated from source and proved equal '
      'to the model; the model is run (vm_compute) against the implementation on thousands of generated spectra x options; '
      'svd_theta/eigh_rho reconstruction error is compared with the reported error on random block-sparse matrices. '
      'T15_priority_general: final_good of the model equals the documented priority sets A_final (A_k = A_(k-1) and G_k if non-empty else A_(k-1), '
      'five constraints in code order, Model/TruncPriority.v) pointwise and cut = min A_final (all spectra/options; T15_priority_stage, '
      'T15_priority_sets_meaning give the per-stage law and the meaning of G_k for sane option values). '
      'T15_svd_theta_bookkeeping / _truncate / _sq and T15_eigh_rho_bookkeeping / _truncate / _z (Model/TruncBook.v, exact rationals, '
      'the two square roots r, new_norm are universally quantified inputs constrained by their squares): S_new_i*renormalization = S_old_i on kept '
      'indices, sum S_new^2 = 1, eps = discarded/total weight = r_eps/(total) of the truncate model, renormalization^2 = kept weight; '
      'eigh_rho: sum W_new = trace, W_new_i*(1-eps) = W_old_i; T15_err_add: eps of err_1+...+err_k is the sum (ov the product) for every list, '
      'T15_err_from_norm(_1): from_norm(new, old) = from_S(discarded, old) when old^2 = new^2 + discarded weight. '
      'The squares-only variants svd_book_sq / eigh_book_z and te_* are compared with svd_theta / eigh_rho (planted integer spectra, possibly rotated, '
      'mask observed by a pass-through wrapper of truncate, tolerance 1e-9) and with TruncationError (exact, dyadic inputs) in streams book / err-exact; '
      'svd_theta_book / eigh_rho_book (roots as inputs) are tied to the code by reading only.',
      'Trusted: Coq kernel+VM, translator, harness generators; spectra modelled as integers (dyadic rationals), float rounding of '
      'log/norm not modelled (generators keep decisions robust); LAPACK results are oracle-checked only; decompose_theta_qr_based not covered yet.',
      'Coq proof over all inputs + regenerated/translated source + differential correspondence', '5.C15')
