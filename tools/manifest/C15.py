check('C15', 'proof',
      'Coq theorems T15_* (all spectra of every length, all option combinations) about an executable model of '
      'truncation.truncate: suffix-of-sorted-spectrum threshold, priority of chi_max/chi_min/degeneracy/svd_min/trunc_cut, '
      'exact error/norm accounting, permutation invariance; _combine_constraints is regenerated from source and proved equal '
      'to the model; the model is run (vm_compute) against the implementation on thousands of generated spectra x options; '
      'svd_theta/eigh_rho reconstruction error is compared with the reported error on random block-sparse matrices.',
      'Trusted: Coq kernel+VM, translator, harness generators; spectra modelled as integers (dyadic rationals), float rounding of '
      'log/norm not modelled (generators keep decisions robust); LAPACK results are oracle-checked only; decompose_theta_qr_based not covered yet.',
      'Coq proof over all inputs + regenerated/translated source + differential correspondence', '5.C15')
