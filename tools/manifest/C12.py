check('C12', 'proof',
      'Site tables: translator/export_c12_sites.py evaluates every predefined site class of the tree at hand (118 configurations: SpinHalfSite, '
      'SpinSite S<=3, FermionSite, SpinHalfFermionSite, SpinHalfHoleSite, BosonSite Nmax<=4, ClockSite q<=5 x fillings x every conserve option) '
      'in a subprocess and regenerates coq/Gen/G_sites.v with exact entries (dyadic rationals; ladder operators as squared entries; clock operators '
      'as exponents of the root of unity; anything else is rejected).  Coq theorems T12_* for every exported configuration (vm_compute + '
      'forallb_forall): same operator up to Site.perm (incl. state labels, JW exponents), defining algebra (spin commutators and Casimir from '
      'squared-entry certificates, full matrix arithmetic for fermion/hole/spin-1/2 sites, [b,b^dag]=1 below the cutoff, clock X Z = w Z X), hc_ops '
      'pairs, charge rule of every non-zero entry, need_JW flags vs (anti)commutation with JW.  Unbounded theorems about the hand-written model '
      'of terms.order_combine_term (bubble sort: sorted, permutation, stable, sign = parity of fermionic inversions) and of the JW strings put into '
      'an MPO term (site-wise equal, up to JW^2=1 / JW f=-f JW, to the ordered product of Jordan-Wigner transformed operators; collected signs = '
      'overall_sign), the loop of multi_coupling_term_handle_JW versus that closed form for every term (combined term strictly ascending, raises iff '
      'odd parity, flags and strings read off the output equal jw_right on every site, the per-case check strings_consistent always holds: '
      'T12_handle_JW_closed_form), the two-site coupling_term_handle_JW (raises iff exactly one operator needs a string, agrees with the multi-site '
      'handler, words = Jordan-Wigner product with sign +1: T12_coupling_JW), '
      'and the canonical anticommutation relations of product operators on chains of any length.  The model is run (vm_compute) '
      'against order_combine_term / multi_coupling_term_handle_JW (and coupling_term_handle_JW on the two-site ones) on ~1600 random terms; the exported tables are re-imported and compared with '
      'site.get_op().to_ndarray(); dense numpy oracles written from the documentation check tables, terms, TermList->MPO for all pairs (and random '
      'quadruples) of fermionic operators on chains <= 6, GroupedSite of 2-3 heterogeneous sites x 3 charge policies, correlation_function(autoJW).',
      'Trusted: Coq kernel+VM, the exporter (float -> exact form with tolerance 1e-9/1e-13 for irrational entries), harness and numpy oracle. '
      'Algebra theorems for irrational tables are certificates over squared entries.  Not in Coq: GroupedSite, set_common_charges, MPOGraph; '
      'explicit JW/JWu/JWd factors inside terms are excluded '
      '(their need_JW flag is bookkeeping).  Known findings F17, F18.',
      'Coq proof over the regenerated table and over all terms + differential correspondence + dense oracle', '5.C12')
