check('C05', 'proof',
      'PARTIAL proof: only the clause "the new internal leg carries charges that make the factors contractible and give them exactly the requested '
      'total charges" is proved in Coq, on an executable model of the leg/charge bookkeeping of svd (_svd_worker, reduced mode) and qr/lq '
      '(Model/Factor.v): T05_svd_charges / T05_svd_request (every completely blocked rank-2 charge structure, every qtotal_LR request, both '
      'inner_qconj, ANY kept ranks incl. rank-deficient/zero/one-sided sectors: qtotal U + qtotal VH = qtotal a, every block of U and VH obeys the '
      'charge rule, inner legs contractible, VH.legs[0].qconj = inner_qconj) and T05_qr_charges (reduced/complete, qtotal_Q, inner_qconj, projected '
      'and shifted inner leg, any numbers of kept columns). The model is run (vm_compute) against np_conserved.svd/qr/lq on every generated case '
      '(inner leg blocks+direction and both total charges). NOT proved, oracle-only: the numeric clauses - U S VH = a (to 1e-10*norm or the cutoff), '
      'isometry/unitarity, S >= 0 and equal to the dense singular values, triangular R / positive diagonal, A v = w v, eigvals(h), expm, '
      'Moore-Penrose identities, polar, orthogonal_columns, speigs - checked against dense numpy on random block-sparse matrices (direct non-blocked '
      'legs or rank 3-4 tensors after combine_legs; zero, rank-deficient, rank-1 and missing blocks; non-zero qtotal; complex entries; all option '
      'combinations), with test_sanity at TENPY_OPTIMIZE=0; svd(full_matrices=True) is not modelled (see known findings).',
      'Trusted: Coq kernel+VM, harness generators and numpy/LAPACK oracles. Known findings F05.1/F05.2 (svd full_matrices: non-unitary with missing '
      'blocks, charge rule for non-zero qtotal_L/R = DESIGN F10), F05.3 (qr pos_diag_R NaN for singular R diagonal), F05.4 (polar(left=True) returns '
      'p = a a^dagger), F05.5/F05.6 (speigs: TypeError for a sector without stored block; complex eigenvectors in float64 Arrays).',
      'Coq proof of the charge plan (all inputs) + differential correspondence + dense numpy oracles for the numeric clauses', '5.C05')
