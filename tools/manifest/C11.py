check('C11', 'proof',
      'Coq theorems on the automaton model (all lengths, all graphs in standard sum form): T11_add (denote (A + B) = denote A + denote B '
      'for the block construction of MPO.__add__ with shared IdL/IdR), T11_dagger, T11_plus_identity (alpha + beta H for sites=[0]), '
      'T11_scale_first, T11_peqb_complete (the normal-form comparison used by the checkers has no false negatives; soundness is '
      'T10_peqb_sound). Tie (correspondence): the W tensors of the implementation\'s operands and results (A, B, A + B, A.dagger(), '
      'plus_identity) are decomposed into named operators with exact Gaussian-integer coefficients and denoted inside Coq; '
      'to_TermList is compared with the denotation of the W tensors. Oracle: every operation against dense operators / vectors for '
      'finite MPOs from random term lists (any operator order, fermionic signs) and random W grids (with/without IdL/IdR markers, '
      'max_range unknown), infinite MPOs on a window: expectation_value (finite, power, transfer matrix; differing unit cells), '
      'variance, MPOEnvironment, overlap, distance, is_equal / is_hermitian on pairs differing in one long-range term / coefficient / '
      'conjugation / nothing, prefactor, to_TermList and from_term_list round trip, plus_identity on several sites, apply_naively / '
      'SVD / zip_up / variational application vs the dense vector and the reported truncation error; make_U_I / make_U_II: error at '
      'dt, dt/2, dt/4 must fall with the documented power (2 for one step, 3 for the documented two-complex-step scheme).',
      'partial: only sum, dagger, plus_identity(sites=[0]) and the decision of normal-form equality are proved; expectation values, '
      'variance, overlap, is_equal, prefactor, compression methods, transfer matrix and the propagators are oracle-checked only (the '
      'propagator order by a numeric slope test with margin - support, not proof); for truncating variational compression only sanity '
      'is checked and the zip-up error only up to a loose factor (its gauge is canonical only for MPOs close to the identity). Known findings F113-F115 (variational application stuck at too small bond dimension, is_equal of the zero operator, '
      'is_equal window of infinite MPOs ignores the range of the other operand).',
      'Coq proof over all inputs + differential correspondence on implementation data + dense oracle', '5.C11')
