"""Evaluate one seeded change (a candidate for /verif/seeded/<id>/) without touching /repo:

  seeded_eval.py <dir with patch.diff demo.py meta.json> [--tests "tests/test_x.py tests/test_y.py"] [--full-tests]

1. makes a scratch copy of /repo (HEAD + working tree) under /var/tmp/seeded-<name>/repo, copies the prebuilt .so,
2. runs demo.py on the unchanged copy (must exit 0), applies patch.diff, runs demo.py again (must exit != 0),
3. runs the given existing test files (or the whole suite) on the patched copy (must pass),
4. runs `VERIF_REPO=<copy> ./check <property>` (quick tier) and reports whether it raised a VIOLATION and how,
5. writes the outcome into <dir>/eval.json and removes the scratch copy.
"""
import argparse
import json
import os
import shutil
import subprocess
import sys
import time

V = os.path.dirname(os.path.dirname(os.path.abspath(__file__)))


def sh(cmd, **kw):
    p = subprocess.run(cmd, shell=True, stdout=subprocess.PIPE, stderr=subprocess.STDOUT, text=True, **kw)
    return p.returncode, p.stdout


def main():
    ap = argparse.ArgumentParser()
    ap.add_argument('dir')
    ap.add_argument('--tests', default='')
    ap.add_argument('--full-tests', action='store_true')
    ap.add_argument('--tier', default='quick')
    ap.add_argument('--skip-tests', action='store_true')
    a = ap.parse_args()
    d = os.path.abspath(a.dir)
    meta = json.load(open(os.path.join(d, 'meta.json')))
    prop = meta['property']
    name = os.path.basename(d.rstrip('/'))
    base = '/var/tmp/seeded-%s-%d' % (name, os.getpid())
    repo = os.path.join(base, 'repo')
    os.makedirs(base)
    out = {'property': prop, 'name': name, 'at': time.strftime('%Y-%m-%d %H:%M:%S')}
    try:
        sh('rsync -a --exclude .git --exclude doc --exclude notebooks /repo/ %s/' % repo)
        env = dict(os.environ, PYTHONPATH=repo, PYTHONDONTWRITEBYTECODE='1', OMP_NUM_THREADS='1')
        rc0, o0 = sh('cd %s && timeout 900 /venv/bin/python %s/demo.py' % (repo, d), env=env)
        out['demo_unpatched_rc'] = rc0
        rcp, op = sh('cd %s && patch -p1 --no-backup-if-mismatch < %s/patch.diff' % (repo, d))
        out['patch_applies'] = rcp == 0
        if rcp != 0:
            out['patch_output'] = op[-800:]
        touched_pyx = '.pyx' in open(os.path.join(d, 'patch.diff')).read()
        if touched_pyx:
            # the compiled extension must be rebuilt from the patched source for demo/tests
            sh('cd %s && rm -f tenpy/linalg/*.so tenpy/linalg/*.cpp && /venv/bin/python setup.py build_ext --inplace' % repo,
               env=dict(os.environ, PYTHONPATH=''))
        rc1, o1 = sh('cd %s && timeout 900 /venv/bin/python %s/demo.py' % (repo, d), env=env)
        out['demo_patched_rc'] = rc1
        out['demo_patched_tail'] = o1[-600:]
        first = os.path.join(d, 'eval_first.json')
        if a.skip_tests and os.path.exists(first):
            # re-evaluation after a check was strengthened: the test-suite result of the first evaluation stands
            f0 = json.load(open(first))
            for k in ('tests', 'tests_tail', 'tests_pass'):
                if k in f0:
                    out[k] = f0[k]
            out['first_evaluation'] = {k: f0.get(k) for k in ('at', 'detected', 'with_failing_input', 'check_tail')}
        if not a.skip_tests:
            tests = 'tests' if a.full_tests else (a.tests or meta.get('tests_files', '') or 'tests/test_package_structure.py')
            rct, ot = sh('cd %s && timeout 5400 /venv/bin/python -m pytest -q -p no:cacheprovider --timeout=900 -x %s 2>&1 | tail -5' % (repo, tests), env=env)
            out['tests'] = tests
            out['tests_tail'] = ot[-600:]
            out['tests_pass'] = (' failed' not in ot and ' error' not in ot.lower().replace('errors=0', '')) and 'passed' in ot
        rcc, oc = sh('cd %s && VERIF_REPO=%s timeout 3600 ./check %s --tier %s' % (V, repo, prop, a.tier))
        out['check_rc'] = rcc
        out['check_tail'] = oc[-700:]
        out['detected'] = rcc == 1 and 'VIOLATION property=%s' % prop in oc
        out['with_failing_input'] = out['detected'] and 'no-failing-input-found' not in oc
        rp = [l for l in oc.splitlines() if l.startswith('VIOLATION')]
        if rp:
            path = rp[0].split('replay=')[1].split()[0]
            if os.path.exists(path):
                doc = json.load(open(path))
                out['replay_what'] = doc.get('what', '')[:500]
                out['replay_kind'] = doc.get('kind')
    finally:
        shutil.rmtree(base, ignore_errors=True)
    json.dump(out, open(os.path.join(d, 'eval.json'), 'w'), indent=1)
    print(json.dumps({k: out.get(k) for k in ('name', 'property', 'demo_unpatched_rc', 'demo_patched_rc', 'patch_applies', 'tests_pass',
                                              'detected', 'with_failing_input', 'replay_what')}, indent=1))


if __name__ == '__main__':
    main()
