"""Regenerates the machine-written appendix of DESIGN.md (between the markers) from the repository state:
theorem inventory (harness/obligations), findings (KNOWN_FINDINGS.json), seeded changes (seeded/*/meta.json)."""
import json
import os
import re
import subprocess

V = os.path.dirname(os.path.dirname(os.path.abspath(__file__)))
BEGIN = '<!-- BEGIN GENERATED APPENDIX -->'
END = '<!-- END GENERATED APPENDIX -->'


def main():
    out = [BEGIN, '', '## 13. Generated appendix (tools/mkdesign_tables.py; do not edit by hand)', '']
    # ---- theorem inventory
    ob = {}
    d = os.path.join(V, 'harness', 'obligations')
    for fn in sorted(os.listdir(d)):
        ob.update(json.load(open(os.path.join(d, fn))))
    out += ['### 13.1 Theorem inventory (frozen names; every one must print `Closed under the global context`)', '',
            '| property | #theorems | `_partial` | `_refuted` (witnessed defects / necessary hypotheses) |', '|---|---|---|---|']
    tot = 0
    for k in sorted(ob):
        names = ob[k]
        tot += len(names)
        out.append('| %s | %d | %s | %s |' % (k, len(names), ', '.join(n for n in names if n.endswith('_partial')) or '–',
                                             ', '.join(n for n in names if n.endswith('_refuted')) or '–'))
    out += ['', 'Total: %d theorems.' % tot, '']
    try:
        n = subprocess.check_output('cat %s/coq/Base/*.v %s/coq/Model/*.v %s/coq/Proofs/*.v %s/coq/Props/*.v | wc -l' % (V, V, V, V), shell=True, text=True)
        out += ['Hand-written Coq (Base, Model, Proofs, Props): %s lines; Gen/ is regenerated on every run.' % n.strip(), '']
    except Exception:
        pass
    # ---- findings
    kf = json.load(open(os.path.join(V, 'KNOWN_FINDINGS.json')))['findings']
    fixed = [f for f in kf if f['status'] == 'fixed']
    known = [f for f in kf if f['status'] == 'known']
    out += ['### 13.2 Genuine defects of the pinned tree found by the checks', '',
            '%d repaired in /repo by `fix:` commits (entries `status=fixed`, suppress nothing), %d recorded as known findings '
            '(`status=known`; the check prints `KNOWN-FINDING:` for exactly the listed match key and still reports any other failure).' % (len(fixed), len(known)), '',
            '| id | property | status | commit | what |', '|---|---|---|---|---|']
    for f in sorted(kf, key=lambda f: (f['property'], f['id'])):
        what = re.sub(r'^fixed: property=\S+ \S+ ', '', f['what'])
        out.append('| %s | %s | %s | %s | %s |' % (f['id'], f['property'], f['status'], f.get('commit', ''), what[:230].replace('|', '/').replace('\n', ' ')))
    out.append('')
    # ---- seeded
    sd = os.path.join(V, 'seeded')
    rows = []
    if os.path.isdir(sd):
        for name in sorted(os.listdir(sd)):
            mp = os.path.join(sd, name, 'meta.json')
            if os.path.isfile(mp):
                m = json.load(open(mp))
                c = m.get('confirmed_by_me', {})
                rows.append((name, m.get('property'), c.get('check_detected'), c.get('check_gave_failing_input'),
                             (m.get('what_breaks') or '')[:150], (m.get('needs_to_manifest') or '')[:150] if isinstance(m.get('needs_to_manifest'), str) else str(m.get('needs_to_manifest'))[:150],
                             (c.get('check_replay_what') or '')[:120], c.get('note', '')))
    out += ['### 13.3 Seeded changes (written by independent sub-agents from the property text only) and which check catches which', '',
            '| id | property | caught | failing input | what the change breaks | needs to manifest | what the check reported | note |', '|---|---|---|---|---|---|---|---|']
    for r in rows:
        out.append('| %s | %s | %s | %s | %s | %s | %s | %s |' % tuple(
            str(x).replace('|', '/').replace('\n', ' ') if not isinstance(x, bool) else ('yes' if x else 'NO') for x in r))
    out += ['', '%d seeded changes kept; %d caught by the check of their property, %d with a concrete failing input.' % (
        len(rows), sum(1 for r in rows if r[2]), sum(1 for r in rows if r[3])), '', END, '']
    p = os.path.join(V, 'DESIGN.md')
    s = open(p).read()
    if BEGIN in s:
        s = s[:s.index(BEGIN)] + '\n'.join(out) + s[s.index(END) + len(END):].lstrip('\n')
    else:
        s = s.rstrip('\n') + '\n\n---------------------------------------------------------------------------------------------\n\n' + '\n'.join(out)
    open(p, 'w').write(s)
    print('appendix written: %d theorems, %d findings, %d seeded' % (tot, len(kf), len(rows)))


if __name__ == '__main__':
    main()
