"""Re-validate kept seeded changes (/verif/seeded/<id>/) against the CURRENT /repo and checks:
  seeded_recheck.py <id> [<id> ...]      (results -> /var/tmp/recheck/<id>.json)
For each: scratch copy of /repo, `git apply`-compatible application of patch.diff (falls back to patch -p1 and then
rewrites seeded/<id>/patch.diff as a clean diff against the current tree), demo.py must exit 0 before / non-zero
after, `VERIF_REPO=<copy> ./check <property>` must report a VIOLATION."""
import json
import os
import shutil
import subprocess
import sys

V = os.path.dirname(os.path.dirname(os.path.abspath(__file__)))
OUT = '/var/tmp/recheck'


def sh(cmd, **kw):
    p = subprocess.run(cmd, shell=True, stdout=subprocess.PIPE, stderr=subprocess.STDOUT, text=True, **kw)
    return p.returncode, p.stdout


def one(name):
    d = os.path.join(V, 'seeded', name)
    meta = json.load(open(os.path.join(d, 'meta.json')))
    prop = meta['property']
    base = '/var/tmp/recheck-%s-%d' % (name, os.getpid())
    repo = os.path.join(base, 'repo')
    os.makedirs(base)
    out = {'name': name, 'property': prop}
    try:
        sh('rsync -a --exclude .git --exclude doc --exclude notebooks /repo/ %s/' % repo)
        env = dict(os.environ, PYTHONPATH=repo, PYTHONDONTWRITEBYTECODE='1', OMP_NUM_THREADS='1')
        out['demo_unpatched_rc'] = sh('cd %s && timeout 900 /venv/bin/python %s/demo.py' % (repo, d), env=env)[0]
        rc_git, _ = sh('cd /repo && git apply --check %s/patch.diff' % d)
        out['git_apply_ok'] = rc_git == 0
        rcp, op = sh('cd %s && patch -p1 --no-backup-if-mismatch < %s/patch.diff' % (repo, d))
        out['patch_applies'] = rcp == 0
        if rcp == 0 and rc_git != 0:
            # refresh the stored patch so that `git -C /repo apply` works on the current tree
            files = [l[6:].strip() for l in open(os.path.join(d, 'patch.diff')) if l.startswith('+++ b/')]
            new = ''
            for f in files:
                new += sh('diff -u --label a/%s --label b/%s /repo/%s %s/%s' % (f, f, f, repo, f))[1]
            rc2, _ = subprocess.run(['git', '-C', '/repo', 'apply', '--check', '-'], input=new, text=True,
                                    stdout=subprocess.PIPE, stderr=subprocess.STDOUT).returncode, None
            if rc2 == 0:
                shutil.copy(os.path.join(d, 'patch.diff'), os.path.join(d, 'patch.orig.diff'))
                open(os.path.join(d, 'patch.diff'), 'w').write(new)
                out['patch_refreshed'] = True
        if '.pyx' in open(os.path.join(d, 'patch.diff')).read():
            sh('cd %s && rm -f tenpy/linalg/*.so tenpy/linalg/*.cpp && /venv/bin/python setup.py build_ext --inplace' % repo,
               env=dict(os.environ, PYTHONPATH=''))
        out['demo_patched_rc'] = sh('cd %s && timeout 900 /venv/bin/python %s/demo.py' % (repo, d), env=env)[0]
        rcc, oc = sh('cd %s && VERIF_REPO=%s timeout 3600 ./check %s --tier quick' % (V, repo, prop))
        out['detected'] = rcc == 1 and 'VIOLATION property=%s' % prop in oc
        out['with_failing_input'] = out['detected'] and 'no-failing-input-found' not in oc
        out['check_tail'] = oc[-300:]
    finally:
        shutil.rmtree(base, ignore_errors=True)
    os.makedirs(OUT, exist_ok=True)
    json.dump(out, open(os.path.join(OUT, name + '.json'), 'w'), indent=1)
    print(name, {k: out.get(k) for k in ('git_apply_ok', 'patch_applies', 'patch_refreshed', 'demo_unpatched_rc', 'demo_patched_rc', 'detected', 'with_failing_input')})


if __name__ == '__main__':
    for n in sys.argv[1:]:
        try:
            one(n)
        except Exception as e:
            print(n, 'ERROR', e)
