(* Environments of an INFINITE MPS under the sweep protocol of mps_common.py (property C13, infinite bc):
   BaseEnvironment.get_LP / get_RP with the shift by unit cells (networks/mps.py: the nearest stored LP is searched at
   i, i-1, .., i-L+1 modulo L, then sites i0..i-1 are contracted and every intermediate stored at key (j+1) mod L),
   Sweep.update_env, free_no_longer_needed_envs and the infinite get_sweep_schedule of Model/Sweep.v.
   Definitions only (proofs in Proofs/SweepInfP.v).

   A stored environment carries, for each contracted site from the nearest to the farthest, ONE BOOLEAN: "this factor
   was contracted from the version of the site tensor that is current now".  Entry k of the LP stored at key i refers
   to site (i-1-k) mod L, entry k of the RP at key i to site (i+1+k) mod L.  psi.set_B on site j turns every entry
   referring to j to false; contracting a site prepends `true`.  Only the nearest `cap L = 2L + 2` entries are
   recorded (the environments of iDMRG grow by L sites per sweep; the truncation makes the state space finite).
   Environments lag BY DESIGN in iDMRG: factors belonging to other copies of the unit cell are older versions.
   Honest notion of freshness (`step_i` returns it): each of the two environments read for eff_H is current on every
   site of a WINDOW of L consecutive sites that contains the optimised sites: [0, L) while moving right,
   [n, L + n) while moving left; sites outside the window are other copies of the unit cell and may be old.
   Tie to the code: correspondence (K), harness/c13.py stream `env-trace-inf` with Model/SweepInfCheck.v
   `check_inf_run`: instrumented infinite DMRG runs (two-site and one-site engine, L = 2..4); after every local update
   the stored keys, every boolean of every stored tag, the ages and the two environments read for eff_H are compared
   with step_i / get_lp_i / get_rp_i replayed from init_i on the schedule entries the engine executed. *)
From TenpyV Require Import Base.Prelude Model.Sweep.

Definition btag := list bool.
Record ist := mkI { ilp : list (option btag); irp : list (option btag) }.

Definition cap (L : nat) : nat := 2 * L + 2.
(* site of entry 0 and of the next entry (indices stay below L: cheap to evaluate) *)
Definition site_l0 (L i : nat) : nat := (i + L - 1) mod L.                 (* (i - 1) mod L *)
Definition prev_site (L c : nat) : nat := match c with O => L - 1 | S c' => c' end.
Definition site_r0 (L i : nat) : nat := (i + 1) mod L.
Definition next_site (L c : nat) : nat := if (S c =? L)%nat then 0 else S c.

Fixpoint mark (nxt : nat -> nat) (j cur : nat) (t : btag) : btag :=
  match t with
  | [] => []
  | b :: t' => (b && negb (cur =? j)%nat) :: mark nxt j (nxt cur) t'
  end.
Fixpoint mark_all (first : nat -> nat) (nxt : nat -> nat) (j i : nat) (l : list (option btag)) : list (option btag) :=
  match l with
  | [] => []
  | o :: l' => (match o with Some t => Some (mark nxt j (first i) t) | None => None end) :: mark_all first nxt j (S i) l'
  end.
(* psi.set_B on site j (mod L) *)
Definition bump_i (L : nat) (s : ist) (j : nat) : ist :=
  mkI (mark_all (site_l0 L) (prev_site L) (j mod L) 0 (ilp s)) (mark_all (site_r0 L) (next_site L) (j mod L) 0 (irp s)).

(* nearest stored key at distance d = 0, 1, .., fuel - 1: key (base - d) mod L resp. (base + d) mod L *)
Fixpoint find_l (L : nat) (l : list (option btag)) (i d fuel : nat) : option (nat * btag) :=
  match fuel with
  | O => None
  | S f => match nth ((i + L - d) mod L) l None with
           | Some t => Some (d, t)
           | None => find_l L l i (S d) f
           end
  end.
Fixpoint find_r (L : nat) (l : list (option btag)) (i d fuel : nat) : option (nat * btag) :=
  match fuel with
  | O => None
  | S f => match nth ((i + d) mod L) l None with
           | Some t => Some (d, t)
           | None => find_r L l i (S d) f
           end
  end.

(* contract positions p, p+1, .., p+cnt-1 (p given as p + L to stay in nat) *)
Fixpoint extend_l (L : nat) (s : ist) (pL cnt : nat) (t : btag) : ist * btag :=
  match cnt with
  | O => (s, t)
  | S c => let t' := firstn (cap L) (true :: t) in
           extend_l L (mkI (set_nth (ilp s) ((pL + 1) mod L) (Some t')) (irp s)) (S pL) c t'
  end.
Definition get_lp_i (L : nat) (s : ist) (i : nat) : ist * option btag :=
  match find_l L (ilp s) i 0 L with
  | None => (s, None)                                      (* ValueError('No left part in the system???') *)
  | Some (d, t) => let r := extend_l L s (i + L - d) d t in (fst r, Some (snd r))
  end.
(* contract positions i+cnt, .., i+1 *)
Fixpoint extend_r (L : nat) (s : ist) (i cnt : nat) (t : btag) : ist * btag :=
  match cnt with
  | O => (s, t)
  | S c => let t' := firstn (cap L) (true :: t) in
           extend_r L (mkI (ilp s) (set_nth (irp s) ((i + c) mod L) (Some t'))) i c t'
  end.
Definition get_rp_i (L : nat) (s : ist) (i : nat) : ist * option btag :=
  match find_r L (irp s) i 0 L with
  | None => (s, None)
  | Some (d, t) => let r := extend_r L s i d t in (fst r, Some (snd r))
  end.

Definition del_lp_i (L : nat) (s : ist) (i : nat) : ist := mkI (set_nth (ilp s) (i mod L) None) (irp s).
Definition del_rp_i (L : nat) (s : ist) (i : nat) : ist := mkI (ilp s) (set_nth (irp s) (i mod L) None).

(* the first `need` recorded factors are current *)
Definition current_upto (need : nat) (t : option btag) : bool :=
  match t with
  | Some t => (need <=? length t)%nat && forallb (fun b => b) (firstn need t)
  | None => false
  end.

(* one entry of the infinite sweep; returns the new state and whether both environments read for eff_H are current on
   the window [w0, w0 + L), w0 = 0 moving right, n moving left *)
Definition step_i (L n : nat) (s : ist) (e : entry) : ist * bool :=
  match e with (i0, mr, (upl, upr)) =>
    let r1 := get_lp_i L s i0 in
    let r2 := get_rp_i L (fst r1) (i0 + n - 1) in
    let s2 := fst r2 in
    let w0 := if mr then 0%nat else n in
    let ok := current_upto (i0 - w0) (snd r1) && current_upto (w0 + L - 1 - (i0 + n - 1)) (snd r2) in
    let (iL, iR) := env_inds n i0 mr in
    let s3 := bump_i L (bump_i L s2 iL) iR in
    let s4 := del_rp_i L (del_lp_i L s3 iR) iL in
    let s5 := if upl then fst (get_lp_i L s4 iR) else s4 in
    let s6 := if upr then fst (get_rp_i L s5 iL) else s5 in
    let s7 :=
      if (n =? 2)%nat then
        let a := if upr then del_lp_i L s6 iL else s6 in
        if upl then del_rp_i L a iR else a
      else
        if (mr && upr)%bool then del_lp_i L s6 iL
        else if (negb mr && upl)%bool then del_rp_i L s6 iR else s6 in
    (s7, ok)
  end.

(* MPOEnvironment.__init__ for infinite bc without init_env_data: init_LP(0), init_RP(L-1) *)
Definition init_i (L : nat) : ist :=
  mkI (Some [] :: repeat None (L - 1)) (repeat None (L - 1) ++ [Some []]).

Definition exec_i (L n : nat) (s : ist) (es : list entry) : ist := fold_left (fun s e => fst (step_i L n s e)) es s.
Fixpoint run_ok_i (L n : nat) (s : ist) (es : list entry) : bool :=
  match es with
  | [] => true
  | e :: t => let r := step_i L n s e in snd r && run_ok_i L n (fst r) t
  end.
(* every environment read during k sweeps of the infinite schedule is current on its window *)
Definition no_stale_inf (L n k : nat) : bool := run_ok_i L n (init_i L) (repeat_list (schedule false L n) k).
