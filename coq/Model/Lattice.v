(* Model of tenpy/models/lattice.py: index maps and coupling enumeration of a Lattice.
   Definitions only (proofs in Proofs/LatticeP.v).  Tie to the code: correspondence (K), harness/c19.py.

   A lattice site ("lattice index" (x_0, ..., x_{d-1}, u) of the code) is modelled as
      (x0, xr, u)   with  xr = [x_1; ...; x_{d-1}]
   because direction 0 is special (infinite MPS direction, target of bc_shift); d >= 1 always holds in
   the code (N_rings = Ls[0]).  The dimension d = 1 + length xr is arbitrary.

   `lorder` is the array Lattice.order (row i = site of MPS index i).  For a regular Lattice it
   enumerates the whole box; for an IrregularLattice a subset (removed sites) of a box with a larger
   unit cell (added sites).  `_perm` of the code (lexsort of the order for Lattice, the explicit
   table with _REMOVED entries for IrregularLattice) is in both cases the map
      flat index of a site  |->  its position in `order`      (absent = _REMOVED),
   which is what perm_lookup computes.  _strides = [1, L0, L0*L1, ...] (u most significant). *)
From TenpyV Require Import Base.Prelude.
Open Scope Z_scope.

Definition site := (Z * list Z * Z)%type.

Record lattice := mkLat {
  L0 : Z;                 (* Ls[0] = N_rings *)
  Lr : list Z;            (* Ls[1:] *)
  Lu : Z;                 (* len(unit_cell) *)
  open0 : bool;           (* bc[0]  (True = open, False = periodic) *)
  openr : list bool;      (* bc[1:] *)
  shiftr : list Z;        (* bc_shift (all zero when bc_shift is None) *)
  infinite : bool;        (* bc_MPS != 'finite' *)
  lorder : list site      (* Lattice.order *)
}.

Definition nsites (lat : lattice) : Z := Z.of_nat (length (lorder lat)).   (* N_sites *)

(* ---- np.sum(np.mod(idx, shape) * _strides) *)
Fixpoint flat_r (xs Ls : list Z) (top : Z) : Z :=
  match xs, Ls with
  | x :: xs', L :: Ls' => x mod L + L * flat_r xs' Ls' top
  | _, _ => top
  end.

Definition flat (lat : lattice) (s : site) : Z :=
  let '(x0, xr, u) := s in x0 mod L0 lat + L0 lat * flat_r xr (Lr lat) (u mod Lu lat).

Fixpoint find_pos (f : Z) (l : list Z) : option nat :=
  match l with
  | [] => None
  | y :: t => if f =? y then Some O else option_map S (find_pos f t)
  end.

(* _perm[flat index]; None = _REMOVED *)
Definition perm_lookup (lat : lattice) (s : site) : option Z :=
  option_map Z.of_nat (find_pos (flat lat s) (map (flat lat) (lorder lat))).

(* ---- Lattice.lat2mps_idx *)
Definition lat2mps (lat : lattice) (s : site) : option Z :=
  let '(x0, xr, u) := s in
  if infinite lat then
    let ish := x0 - x0 mod L0 lat in
    option_map (fun i => i + ish * nsites lat / L0 lat) (perm_lookup lat (x0 - ish, xr, u))
  else perm_lookup lat s.

(* ---- Lattice.mps2lat_idx  (finite: only 0 <= i < N is in the documented domain) *)
Definition mps2lat (lat : lattice) (i : Z) : option site :=
  if infinite lat then
    let i' := i mod nsites lat in
    match nth_error (lorder lat) (Z.to_nat i') with
    | Some (x0, xr, u) => Some (x0 + (i - i') * L0 lat / nsites lat, xr, u)
    | None => None
    end
  else if (0 <=? i) && (i <? nsites lat) then nth_error (lorder lat) (Z.to_nat i) else None.

(* ---- Lattice.mps_idx_fix_u(u) *)
Definition zenum {A} (l : list A) : list (Z * A) := combine (map Z.of_nat (seq 0 (length l))) l.

Definition mps_fix_u (lat : lattice) (u : Z) : list Z :=
  map fst (filter (fun ks => snd (snd ks) =? u) (zenum (lorder lat))).

(* ---- one direction of  lat_j_shifted = lat_i + dx; lat_j = mod(lat_j_shifted, Ls); keep *)
Definition wrap1 (L : Z) (op : bool) (x d : Z) : option (Z * Z) :=
  let sh := x + d in
  let y := sh mod L in
  if op && negb (sh =? y) then None else Some (y, (sh - y) / L).

(* directions 1.. : (lat_j[1:], sum of windings * bc_shift) *)
Fixpoint wrap_rest (Ls : list Z) (ops : list bool) (ss xs ds : list Z) : option (list Z * Z) :=
  match Ls, ops, ss, xs, ds with
  | [], [], [], [], [] => Some ([], 0)
  | L :: Ls', o :: ops', s :: ss', x :: xs', d :: ds' =>
      match wrap1 L o x d, wrap_rest Ls' ops' ss' xs' ds' with
      | Some (y, k), Some (ys, tot) => Some (y :: ys, k * s + tot)
      | _, _ => None
      end
  | _, _, _, _, _ => None
  end.

(* (lat_j_shifted[0], lat_j[0], lat_j[1:]) of a kept row *)
Definition target (lat : lattice) (x0 : Z) (xr : list Z) (dx0 : Z) (dxr : list Z) : option (Z * Z * list Z) :=
  match wrap_rest (Lr lat) (openr lat) (shiftr lat) xr dxr with
  | Some (yr, tot) =>
      let sh0 := x0 + dx0 - tot in
      let y0 := sh0 mod L0 lat in
      if open0 lat && negb (sh0 =? y0) then None else Some (sh0, y0, yr)
  | None => None
  end.

(* ---- Lattice.coupling_shape *)
Definition cshape1 (L : Z) (op : bool) (d : Z) : Z := L - Z.abs d * (if op then 1 else 0).

Fixpoint zip3 {A B C D} (f : A -> B -> C -> D) (l1 : list A) (l2 : list B) (l3 : list C) : list D :=
  match l1, l2, l3 with
  | a :: t1, b :: t2, c :: t3 => f a b c :: zip3 f t1 t2 t3
  | _, _, _ => []
  end.

Definition coupling_shape (lat : lattice) (dx0 : Z) (dxr : list Z) : list Z :=
  zip3 cshape1 (L0 lat :: Lr lat) (open0 lat :: openr lat) (dx0 :: dxr).

(* ---- Lattice.possible_couplings (+ IrregularLattice._keep_possible_couplings):
        rows (mps_i, mps_j, lat_indices) in the order the code returns them *)
Definition coupling_row (lat : lattice) (u1 u2 dx0 : Z) (dxr : list Z) (cs : list Z) (ks : Z * site)
  : list (Z * Z * list Z) :=
  let '(k, (x0, xr, u)) := ks in
  if u =? u1 then
    match target lat x0 xr dx0 dxr with
    | Some (sh0, y0, yr) =>
        match perm_lookup lat (y0, yr, u2) with
        | Some j0 =>
            let li := zip3 (fun x d s => (x + Z.min 0 d) mod s) (x0 :: xr) (dx0 :: dxr) cs in
            if infinite lat then
              let jsh := (sh0 - y0) * nsites lat / L0 lat in
              let ijs := if jsh <? 0 then - jsh else 0 in
              [(k + ijs, j0 + jsh + ijs, li)]
            else [(k, j0, li)]
        | None => []
        end
    | None => []
    end
  else [].

Definition possible_couplings (lat : lattice) (u1 u2 dx0 : Z) (dxr : list Z) : list (Z * Z * list Z) :=
  let cs := coupling_shape lat dx0 dxr in
  if existsb (fun s => s =? 0) cs then []
  else flat_map (coupling_row lat u1 u2 dx0 dxr cs) (zenum (lorder lat)).

Definition coupling_pairs (lat : lattice) (u1 u2 dx0 : Z) (dxr : list Z) : list (Z * Z) :=
  map fst (possible_couplings lat u1 u2 dx0 dxr).

(* ---- get_order: C-style and snake winding (priority = None), rows [x_0; ...; x_{d-1}; u] *)
Definition zrange (L : Z) : list Z := map Z.of_nat (seq 0 (Z.to_nat L)).

Fixpoint cstyle (shape : list Z) : list (list Z) :=
  match shape with
  | [] => [[]]
  | L :: r => flat_map (fun x => map (cons x) (cstyle r)) (zrange L)
  end.

(* flags = snake_winding; the flag of a direction says that the block of this and all faster
   directions is traversed backwards on every second step of the next slower direction *)
Fixpoint snake (flags : list bool) (shape : list Z) : list (list Z) :=
  match shape with
  | [] => [[]]
  | L :: r =>
      let inner := snake (tl flags) r in
      let f := hd false (tl flags) in
      flat_map (fun x => map (cons x) (if f && Z.odd x then rev inner else inner)) (zrange L)
  end.

(* priority: perm = argsort(priority); order = get_order(shape[perm], snake[perm])[:, inv_perm] *)
Definition pick {A} (d : A) (perm : list nat) (l : list A) : list A := map (fun m => nth m l d) perm.

Fixpoint index_of (j : nat) (perm : list nat) : nat :=
  match perm with
  | [] => O
  | m :: t => if Nat.eqb m j then O else S (index_of j t)
  end.

Definition get_order (shape : list Z) (flags : list bool) (perm : list nat) : list (list Z) :=
  map (fun row => map (fun j => nth (index_of j perm) row 0) (seq 0 (length shape)))
      (snake (pick false perm flags) (pick 0 perm shape)).

(* all sites of a regular lattice, as `site`s *)
Definition row_site (row : list Z) : site :=
  match row with
  | x0 :: t => (x0, removelast t, last t 0)
  | [] => (0, [], 0)
  end.

Definition site_row (s : site) : list Z := let '(x0, xr, u) := s in x0 :: xr ++ [u].

(* ---- Lattice.possible_multi_couplings (+ IrregularLattice._keep_possible_multi_couplings).
        ops = [(dx0, dxr, u)]; rows (mps_ijkl, lat_indices) *)
Definition op := (Z * list Z * Z)%type.

Definition zmin_l (l : list Z) : Z := match l with [] => 0 | x :: t => fold_left Z.min t x end.
Definition zmax_l (l : list Z) : Z := match l with [] => 0 | x :: t => fold_left Z.max t x end.

Definition dx_col (ops : list op) (a : nat) : list Z :=
  map (fun o : op => nth a (fst (fst o) :: snd (fst o)) 0) ops.

Definition multi_shape (lat : lattice) (ops : list op) : list Z * list Z :=   (* (shape, shift) *)
  let d := S (length (Lr lat)) in
  let cols := map (dx_col ops) (seq 0 d) in
  (zip3 (fun L (o : bool) c => L - (zmax_l c - zmin_l c) * (if o then 1 else 0))
        (L0 lat :: Lr lat) (open0 lat :: openr lat) cols,
   map zmin_l cols).

Fixpoint opt_all {A} (l : list (option A)) : option (list A) :=
  match l with
  | [] => Some []
  | Some a :: t => option_map (cons a) (opt_all t)
  | None :: _ => None
  end.

Fixpoint zip2 {A B C} (f : A -> B -> C) (l1 : list A) (l2 : list B) : list C :=
  match l1, l2 with
  | a :: t1, b :: t2 => f a b :: zip2 f t1 t2
  | _, _ => []
  end.

Definition multi_row (lat : lattice) (ops : list op) (shift : list Z) (c : list Z) : list (list Z * list Z) :=
  match c, shift with
  | c0 :: cr, m0 :: mr =>
      let one (o : op) : option Z :=
        let '(dx0, dxr, u) := o in
        match target lat c0 cr (dx0 - m0) (zip2 Z.sub dxr mr) with
        | Some (sh0, y0, yr) =>
            match perm_lookup lat (y0, yr, u) with
            | Some j0 => Some (if infinite lat then j0 + (sh0 - y0) * nsites lat / L0 lat else j0)
            | None => None
            end
        | None => None
        end in
      match opt_all (map one ops) with
      | Some ijkl =>
          if infinite lat then
            let mn := zmin_l ijkl in
            [(map (fun i => i + (mn mod nsites lat - mn)) ijkl, c)]
          else [(ijkl, c)]
      | None => []
      end
  | _, _ => []
  end.

Definition possible_multi_couplings (lat : lattice) (ops : list op) : list (list Z * list Z) :=
  let '(shape, shift) := multi_shape lat ops in
  if existsb (fun s => s =? 0) shape then []
  else flat_map (multi_row lat ops shift) (cstyle shape).

(* ---- declarative side of the theorems (Props/C19.v) ------------------------------------------- *)

(* number of lattice indices of a shape *)
Fixpoint nprod (shape : list Z) : nat :=
  match shape with [] => 1%nat | L :: r => (Z.to_nat L * nprod r)%nat end.

(* a row of an order array lies in the box of the given shape *)
Definition in_box (row shape : list Z) : Prop := Forall2 (fun x L => 0 <= x < L) row shape.

Definition site_in_box (lat : lattice) (s : site) : Prop :=
  let '(x0, xr, u) := s in
  0 <= x0 < L0 lat /\ Forall2 (fun x L => 0 <= x < L) xr (Lr lat) /\ 0 <= u < Lu lat.

(* well-formed lattice: positive sizes, the order lists distinct sites of the box (all of them for a
   regular lattice, a subset for an IrregularLattice), one bc entry per direction, and
   test_sanity's "infinite MPS needs periodic bc along x" *)
Record wf (lat : lattice) : Prop := mkWf {
  wf_L0 : 0 < L0 lat;
  wf_Lr : Forall (fun L => 0 < L) (Lr lat);
  wf_Lu : 0 < Lu lat;
  wf_box : Forall (site_in_box lat) (lorder lat);
  wf_nodup : NoDup (lorder lat);
  wf_inf : infinite lat = true -> open0 lat = false /\ lorder lat <> []
}.

(* the site exists in the (for infinite MPS: periodically repeated) lattice *)
Definition site_exists (lat : lattice) (s : site) : Prop :=
  let '(x0, xr, u) := s in
  In ((if infinite lat then x0 mod L0 lat else x0), xr, u) (lorder lat).

(* directions 1..: y = x + d - k * L componentwise with integer winding numbers k, k = 0 across an open
   boundary; tot = sum_a k_a * bc_shift_a is the accumulated shift along x_0 *)
Inductive conn_rest : list Z -> list bool -> list Z -> list Z -> list Z -> list Z -> Z -> Prop :=
| conn_nil : conn_rest [] [] [] [] [] [] 0
| conn_cons : forall L o s x d y k Ls os ss xs ds ys tot,
    0 <= y < L -> x + d = y + k * L -> (o = true -> k = 0) ->
    conn_rest Ls os ss xs ds ys tot ->
    conn_rest (L :: Ls) (o :: os) (s :: ss) (x :: xs) (d :: ds) (y :: ys) (k * s + tot).

(* (y0, yr) is the cell reached from (x0, xr) by the displacement (dx0, dxr) under the boundary
   conditions of the lattice; along x_0 there is no wrapping for open bc and for an infinite MPS
   (where x_0 ranges over all integers) *)
Definition connected (lat : lattice) (x0 : Z) (xr : list Z) (dx0 : Z) (dxr : list Z) (y0 : Z) (yr : list Z) : Prop :=
  exists tot k0,
    conn_rest (Lr lat) (openr lat) (shiftr lat) xr dxr yr tot /\
    x0 + dx0 - tot = y0 + k0 * L0 lat /\
    (open0 lat = true \/ infinite lat = true -> k0 = 0).

(* MPS sites i, j are a coupling (u1 at x, u2 at x + dx); for an infinite MPS the representative
   of the translation class is fixed by 0 <= min(i, j) < N_sites *)
Definition coupled (lat : lattice) (u1 u2 dx0 : Z) (dxr : list Z) (i j : Z) : Prop :=
  exists x0 xr y0 yr,
    mps2lat lat i = Some (x0, xr, u1) /\ mps2lat lat j = Some (y0, yr, u2) /\
    connected lat x0 xr dx0 dxr y0 yr /\
    (infinite lat = true -> 0 <= Z.min i j < nsites lat).

(* ---- checkers used by harness/c19.py (vm_compute) *)
Fixpoint zlist_eqb (a b : list Z) : bool :=
  match a, b with
  | [], [] => true
  | x :: a', y :: b' => (x =? y) && zlist_eqb a' b'
  | _, _ => false
  end.

Fixpoint list_eqb {A} (e : A -> A -> bool) (a b : list A) : bool :=
  match a, b with
  | [], [] => true
  | x :: a', y :: b' => e x y && list_eqb e a' b'
  | _, _ => false
  end.

Definition site_eqb (a b : site) : bool :=
  let '(x0, xr, u) := a in let '(y0, yr, v) := b in (x0 =? y0) && zlist_eqb xr yr && (u =? v).

Definition opt_eqb {A} (e : A -> A -> bool) (a b : option A) : bool :=
  match a, b with
  | Some x, Some y => e x y
  | None, None => true
  | _, _ => false
  end.

Definition row_eqb (a b : Z * Z * list Z) : bool :=
  let '(i, j, l) := a in let '(i', j', l') := b in (i =? i') && (j =? j') && zlist_eqb l l'.

Definition mrow_eqb (a b : list Z * list Z) : bool :=
  zlist_eqb (fst a) (fst b) && zlist_eqb (snd a) (snd b).

Definition cquery := (Z * Z * Z * list Z * list Z * list (Z * Z * list Z))%type.
  (* u1, u2, dx0, dxr, reported coupling_shape, reported rows *)

Definition check_cquery (lat : lattice) (q : cquery) : bool :=
  let '(u1, u2, dx0, dxr, shp, rows) := q in
  zlist_eqb (coupling_shape lat dx0 dxr) shp &&
  list_eqb row_eqb (possible_couplings lat u1 u2 dx0 dxr) rows.

Definition mquery := (list op * list Z * list (list Z * list Z))%type.

Definition check_mquery (lat : lattice) (q : mquery) : bool :=
  let '(ops, shp, rows) := q in
  zlist_eqb (fst (multi_shape lat ops)) shp &&
  list_eqb mrow_eqb (possible_multi_couplings lat ops) rows.

Record lat_case := mkCase {
  c_lat : lattice;
  c_m2l : list (Z * option site);      (* i, reported mps2lat_idx(i) *)
  c_l2m : list (site * option Z);      (* lattice index, reported lat2mps_idx (None = _REMOVED) *)
  c_fixu : list (list Z);              (* reported mps_idx_fix_u(u), u = 0 .. Lu-1 *)
  c_cq : list cquery;
  c_mq : list mquery
}.

Definition check_case (c : lat_case) : bool :=
  let lat := c_lat c in
  forallb (fun q => opt_eqb site_eqb (mps2lat lat (fst q)) (snd q)) (c_m2l c) &&
  forallb (fun q => opt_eqb Z.eqb (lat2mps lat (fst q)) (snd q)) (c_l2m c) &&
  list_eqb zlist_eqb (map (mps_fix_u lat) (zrange (Lu lat))) (c_fixu c) &&
  forallb (check_cquery lat) (c_cq c) &&
  forallb (check_mquery lat) (c_mq c).

(* ordering case: shape (incl. unit cell), snake flags, argsort(priority), reported order *)
Definition check_order_case (c : list Z * list bool * list nat * list (list Z)) : bool :=
  let '(shape, flags, perm, rows) := c in list_eqb zlist_eqb (get_order shape flags perm) rows.
