(* Checkers of the correspondence streams c10_bond, c10_expdecay and c10_split of harness/c10.py:
   the models Model/BondSum.v (calc_H_bond), Model/ExpDecay.v (ExponentiallyDecayingTerms.add_to_graph,
   finite branch) and split_term of Model/AutomatonMulti.v (MultiCouplingTerms.add_multi_coupling_term)
   are executed against the implementation.  Definitions only (evaluated with vm_compute). *)
From TenpyV Require Import Base.Prelude Model.Automaton Model.AutomatonMulti Model.AutomatonSplit Model.BondSum Model.ExpDecay.
Open Scope Z_scope.

(* ------------------------------------------------------------------ H_bond
   The implementation's H_bond[j] (an npc Array) is decomposed by the harness into named operator
   products  sum_(a,b) c_ab * op_a (x) op_b  over a linearly independent set of products of the
   operator names of the model's containers (a numerical linear solve, residual checked); the
   coefficients c_ab are sent DOUBLED, as exact Gaussian integers, in the form of a `bondop`; for every
   bond also whether the implementation's entry `is None`.  The comparison is exact: coefficient of
   every product (a, b), both directions. *)
Fixpoint bcoef (b : bondop) (x y : Z) : C :=
  match b with
  | [] => c0
  | m :: b' => if (snd (fst m) =? x) && (snd m =? y) then cadd (fst (fst m)) (bcoef b' x y) else bcoef b' x y
  end.
Definition bond_agree (bm bi : bondop) : bool :=
  forallb (fun m => ceqb (bcoef bm (snd (fst m)) (snd m)) (bcoef bi (snd (fst m)) (snd m))) (bm ++ bi).
Definition is_nil {A} (l : list A) : bool := match l with [] => true | _ :: _ => false end.
Fixpoint bonds_agree (hm : hbond) (hi : list (bool * bondop)) : bool :=
  match hm, hi with
  | [], [] => true
  | bm :: hm', x :: hi' => Bool.eqb (is_nil bm) (fst x) && bond_agree bm (snd x) && bonds_agree hm' hi'
  | _, _ => false
  end.
(* (finite, L, onsite container, coupling container, implementation's H_bond) *)
Definition check_bond (c : bool * nat * list oterm * list cterm * list (bool * bondop)) : bool :=
  let '(finite, L, ots, cts, hi) := c in
  let hm := h_bond finite L ots cts in
  Nat.eqb (length hi) L &&
  forallb (oterm_ok L) ots && forallb (if finite then nn_ok L else nn_ok_inf L) cts &&
  bonds_agree hm hi &&
  (* finite chains: the model of calc_H_bond with its assertion `H_bond[0] is None` succeeds *)
  (negb finite || match calc_H_bond_fin L ots cts with Some h => bonds_agree h hi | None => false end).

(* ------------------------------------------------------------------ exponentially decaying terms
   (L, onsite container, coupling container, exp_decaying_terms with uniform Gaussian-integer lambda
   and default subsites, the implementation's graph of MPOGraph.from_terms((ot, ct, edt)), finite bc;
   the label (key_nr, 'exp-decay') is handed over as Oth key_nr; key_nr starts at 1000) *)
Definition check_expdecay_all (c : nat * list oterm * list cterm * list xterm * graph) : bool :=
  let '(L, ots, cts, xts, gi) := c in
  let g0 := fold_left add_cterm cts (fold_left add_oterm ots (empty_graph L)) in
  forallb (oterm_ok L) ots && forallb (cterm_ok L) cts && wf g0 &&
  graph_mset_eqb (close (add_exps L 1000 xts g0)) gi &&
  peqb (denote gi) (flat_map (nf_xterm L) xts ++ map nf_oterm ots ++ map nf_cterm cts) &&
  match ots, cts, xts with
  | [], [], [t] => check_expdecay (L, 1000, (xt_a t, xt_s t, xt_b t), (xt_lam t, xt_w t), gi)
  | _, _, _ => true
  end.

(* ------------------------------------------------------------------ add_multi_coupling_term
   (ops = zip(ijkl, ops_ijkl), op_string, switchLR argument, strength, the stored form read back from
   terms_left / terms_right / connections of a fresh MultiCouplingTerms);
   switchLR argument: -1 = 'middle_i', -2 = 'middle_op', n >= 0 = the integer n *)
Definition resolve_sw (ops : list (nat * Z)) (spec : Z) : nat :=
  let d : nat * Z := (0%nat, 0) in
  if spec =? -1 then Nat.div (fst (hd d ops) + fst (last ops d) + 1)%nat 2
  else if spec =? -2 then fst (nth (Nat.div (length ops) 2) ops d)
  else Z.to_nat spec.
Definition triple_eqb (x y : triple) : bool :=
  Nat.eqb (tsite x) (tsite y) && (top x =? top y) && (tstr x =? tstr y).
Definition mterm_eqb (s t : mterm) : bool :=
  list_eqb triple_eqb (mt_left s) (mt_left t) && list_eqb triple_eqb (mt_right s) (mt_right t) &&
  Nat.eqb (mt_sw s) (mt_sw t) && (mt_op s =? mt_op t) && ceqb (mt_w s) (mt_w t).
Definition check_split (c : list (nat * Z) * list Z * Z * C * mterm) : bool :=
  let '(ops, strs, spec, w, st) := c in
  let sw := resolve_sw ops spec in
  (* the preconditions of T10_split_term hold for the implementation's arguments *)
  split_ok ops strs sw &&
  mterm_eqb (split_term ops strs sw w) st &&
  mono_eqb (nf_mterm st) (w, term_word ops strs) &&
  mono_eqb (nf_mterm (split_term ops strs sw w)) (w, term_word ops strs).
