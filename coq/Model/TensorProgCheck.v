(* Executable checker of the correspondence stream `coq2` of harness/c02.py (evaluated with vm_compute on literals describing the
   storage of operand and result of ONE call of the implementation): Array.iswapaxes, Array.gauge_total_charge and Array.take_slice on
   one axis against iswapaxes / gauge_total_charge of Model/TensorProg.v and take_slice of Model/TakeSlice.v.
   The model's result must have the same legs (block sizes, charges, qconj), qtotal, _qdata rows IN THE SAME ORDER, the same claim
   _qdata_sorted and the same dense form as the result of the implementation; operand and result must be well-formed (wfb).
   Definitions only. *)
From TenpyV Require Import Base.Prelude Model.Charge Model.Tensor Model.TensorOps Model.TensorCheck Model.TakeSlice Model.TensorProg.
Open Scope Z_scope.

Definition opcode2 := (Z * list Z * list Z)%type.
Definition case2 := (list Z * opcode2 * storage * storage * list (Z * Z))%type.

Definition model_result2 (ci : chinfo) (code : opcode2) (a : arr) : option arr :=
  let '(opc, p1, p2) := code in
  let n k := Z.to_nat (nth k p1 0) in
  if opc =? 6 then Some (iswapaxes (n 0%nat) (n 1%nat) a)
  else if opc =? 7 then Some (gauge_total_charge ci (n 0%nat) p2 (nth 1 p1 0) a)
  else if opc =? 8 then Some (take_slice ci (n 0%nat) (n 1%nat) a)
  else None.

Definition check_case_c02x (c : case2) : bool :=
  let '(ci, code, sa, sr, rd) := c in
  let a := mk_arr sa in
  let r := mk_arr sr in
  match model_result2 ci code a with
  | Some m => same_struct m r && dense_eq m rd && list_eqb_gen row_eqb (rows m) (rows r) && Bool.eqb (qsorted m) (qsorted r) &&
              wfb ci a && wfb ci r
  | None => false
  end.
