(* Correspondence checkers that tie the ROOT-INPUT models of Model/TruncBook.v
        svd_theta_book (S0 r mask nn)      eigh_rho_book (W0 mask nn)
   to tenpy.linalg.truncation.svd_theta / eigh_rho (harness/c15.py, streams `svd-exact`, `eigh-exact`).
   Definitions only.

   A case carries, as exact rationals (every float is a dyadic rational; the harness sends
   float.as_integer_ratio()):
     - the singular values S0 (eigenvalues W0) that np_conserved.svd (eigh) returned for the planted matrix,
     - the two roots r = np.linalg.norm(S0), nn = norm_new supplied by the harness as exact RATIONALS
       (they are not trusted: the checker tests r > 0, nn > 0, r*r == sum S0^2, nn*nn == sum (S0/r)[mask]^2,
       i.e. exactly the hypotheses of T15_svd_theta_bookkeeping / T15_eigh_rho_bookkeeping),
     - the mask truncate chose (observed by a pass-through wrapper),
     - what the implementation returned (S, renormalization, err.eps  /  W, err.eps).
   The checker evaluates the model on (S0, r, mask, nn) and compares:
     * EXACT equality (Qeq_bool) whenever every intermediate and every output of the model is a dyadic
       rational (then every float operation of the code is exact: IEEE division, multiplication and sqrt are
       correctly rounded), decided here by `svd_all_dyadic` / `eigh_all_dyadic`;
     * otherwise (e.g. S0/r = 12/17 is not a float) the enclosure |impl - model| <= tol * |model| with
       tol = 2^-50 (svd_theta) resp. 2^-49 (eigh_rho): 8 resp. 16 units of 2^-53; a handful of correctly
       rounded operations separate the float result from the rational one.
   The flag `want_exact` sent by the harness must agree with the decision made here, so the number of
   exactly compared cases reported by the harness is checked as well. *)
From TenpyV Require Import Base.Prelude Base.PyLib Model.Truncate Model.TruncBook.
From Coq Require Import QArith.
Open Scope Q_scope.

Fixpoint pos_pow2 (p : positive) : bool :=
  match p with xH => true | xO q => pos_pow2 q | xI _ => false end.
(* x = a / 2^k *)
Definition dyadic (x : Q) : bool := pos_pow2 (Qden (Qred x)).
Definition z_is_square (z : Z) : bool := (0 <=? z)%Z && (Z.sqrt z * Z.sqrt z =? z)%Z.
(* x = (a / 2^k)^2 : np.sqrt(x) is exact *)
Definition dyadic_square (x : Q) : bool :=
  let y := Qred x in pos_pow2 (Qden y) && z_is_square (Qnum y) && z_is_square (Zpos (Qden y)).

(* |a - m| <= tol * |m| *)
Definition qencl (tol a m : Q) : bool := Qle_bool (qabs (a - m)) (tol * qabs m).
Definition qmatch (exact : bool) (tol a m : Q) : bool := if exact then Qeq_bool a m else qencl tol a m.
Fixpoint qmatch_list (exact : bool) (tol : Q) (l1 l2 : list Q) : bool :=
  match l1, l2 with
  | [], [] => true
  | a :: t1, b :: t2 => qmatch exact tol a b && qmatch_list exact tol t1 t2
  | _, _ => false
  end.
Definition qpos (x : Q) : bool := negb (Qle_bool x 0).

Definition svd_tol : Q := Qmake 1 (2 ^ 50)%positive.
Definition eigh_tol : Q := Qmake 1 (2 ^ 49)%positive.

(* ---------------------------------------------------------------- svd_theta *)
Definition svd_all_dyadic (S0 : list Q) (r : Q) (mask : list bool) (nn : Q) : bool :=
  let out := svd_theta_book S0 r mask nn in
  forallb dyadic (map (fun x => x / r) S0) && dyadic nn &&
  forallb dyadic (so_S out) && dyadic (so_renorm out) && dyadic (so_eps out).

(* hypotheses of T15_svd_theta_bookkeeping, decided *)
Definition svd_hyps (S0 : list Q) (r : Q) (mask : list bool) (nn : Q) : bool :=
  Nat.eqb (length mask) (length S0) && qpos r && qpos nn &&
  Qeq_bool (r * r) (sumQ (map qsq S0)) &&
  Qeq_bool (nn * nn) (sumQ (map qsq (select mask (map (fun x => x / r) S0)))).

(* case = (S0, r, mask, nn, want_exact, (S_impl, renormalization_impl, eps_impl)) *)
Definition check_svd_theta_exact
  (c : list (Z * Z) * (Z * Z) * list bool * (Z * Z) * bool * (list (Z * Z) * (Z * Z) * (Z * Z))) : bool :=
  let '(s0, rp, mask, np, want_exact, (Sn, ren, eps)) := c in
  let S0 := map q_of s0 in
  let r := q_of rp in
  let nn := q_of np in
  let out := svd_theta_book S0 r mask nn in
  let ex := svd_all_dyadic S0 r mask nn in
  svd_hyps S0 r mask nn &&
  Bool.eqb ex want_exact &&
  qmatch_list ex svd_tol (map q_of Sn) (so_S out) &&
  qmatch ex svd_tol (q_of ren) (so_renorm out) &&
  qmatch ex svd_tol (q_of eps) (so_eps out).

(* ---------------------------------------------------------------- eigh_rho *)
Definition eigh_all_dyadic (W0 : list Q) (mask : list bool) (nn : Q) : bool :=
  let out := eigh_rho_book W0 mask nn in
  dyadic (sumQ W0) &&
  forallb dyadic_square (map (fun w => w / sumQ W0) W0) && dyadic nn &&
  forallb dyadic (eo_W out) && dyadic (eo_eps out).

(* hypotheses of T15_eigh_rho_bookkeeping, decided (plus W0 >= 0: the code takes np.sqrt) *)
Definition eigh_hyps (W0 : list Q) (mask : list bool) (nn : Q) : bool :=
  Nat.eqb (length mask) (length W0) && forallb (Qle_bool 0) W0 && qpos (sumQ W0) && qpos nn &&
  Qeq_bool (nn * nn) (sumQ (select mask (map (fun w => w / sumQ W0) W0))).

(* case = (W0, mask, nn, want_exact, (W_impl, eps_impl)) *)
Definition check_eigh_rho_exact
  (c : list (Z * Z) * list bool * (Z * Z) * bool * (list (Z * Z) * (Z * Z))) : bool :=
  let '(w0, mask, np, want_exact, (Wn, eps)) := c in
  let W0 := map q_of w0 in
  let nn := q_of np in
  let out := eigh_rho_book W0 mask nn in
  let ex := eigh_all_dyadic W0 mask nn in
  eigh_hyps W0 mask nn &&
  Bool.eqb ex want_exact &&
  qmatch_list ex eigh_tol (map q_of Wn) (eo_W out) &&
  qmatch ex eigh_tol (q_of eps) (eo_eps out).
