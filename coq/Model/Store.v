(* Store (heap) model of the aliasing behaviour of tenpy.linalg.np_conserved.Array.
   Definitions only; proofs in Proofs/StoreP.v, statements in Props/C03.v.
   Tie to the code: correspondence (K) -- harness/c03.py replays every generated history on this model
   (`check_history`) and compares the set of live tensors whose observable value changed in the
   implementation with the model's prediction `may_change`.

   The heap holds, with identities (= list positions; allocation appends, so identities are stable):
     bufs : the numpy block buffers         (np.ndarray objects in Array._data)
     tabs : the _qdata tables
     legs : the LegCharge objects           (shared by shallow AND deep copies, by design)
     objs : the Array objects, each a record of references
   An operation is a heap transformer that writes exactly where the code writes:
     copy(deep=False) shares buffers, table, legs      copy(deep=True) shares only legs
     compiled iscale_prefactor / iadd_prefactor_other   write INTO the existing buffers        (OMapWrite / OBinWrite)
     python iscale_prefactor, itranspose, iconj         bind fresh buffers/table to the receiver (OMapRebind)
     iproject                                           copies _qdata first, fresh legs and buffers (OProject)
     scale_axis, a*s, conj(), a+b, tensordot            work on a shallow/deep copy              (OScaleAxis/OUnary/OAdd/OTensordot) *)
From TenpyV Require Import Base.Prelude.
Open Scope Z_scope.

Definition legrec : Type := (list nat * list (list Z) * Z)%type.      (* slices, charges, qconj *)
Definition dleg : legrec := ([], [], 1).

Record arr := mkArr {
  blk : list nat;      (* ids of the block buffers, in _data order *)
  tab : nat;           (* id of the _qdata table *)
  lg : list nat;       (* ids of the LegCharge objects *)
  lab : list nat;      (* labels (encoded) *)
  qt : list Z          (* qtotal *)
}.
Definition darr : arr := mkArr [] 0 [] [] [].

Record heap := mkHeap {
  bufs : list (list Z);
  tabs : list (list (list nat));
  legs : list legrec;
  objs : list arr
}.

(* the observable value of a tensor: block contents, block indices, leg contents, labels, qtotal *)
Definition value : Type := (list (list Z) * list (list nat) * list legrec * list nat * list Z)%type.
Definition buf (h : heap) (i : nat) : list Z := nth i (bufs h) [].
Definition denote_arr (h : heap) (a : arr) : value :=
  (map (buf h) (blk a), nth (tab a) (tabs h) [], map (fun i => nth i (legs h) dleg) (lg a), lab a, qt a).
Definition obj (h : heap) (x : nat) : arr := nth x (objs h) darr.
Definition denote (h : heap) (x : nat) : value := denote_arr h (obj h x).

(* well-formed: every reference points into the heap *)
Definition wf_arr (h : heap) (a : arr) : Prop :=
  Forall (fun i => (i < length (bufs h))%nat) (blk a) /\ (tab a < length (tabs h))%nat /\
  Forall (fun i => (i < length (legs h))%nat) (lg a).
Definition wf (h : heap) : Prop := Forall (wf_arr h) (objs h).

(* replace position i *)
Fixpoint upd {A} (l : list A) (i : nat) (v : A) : list A :=
  match l, i with
  | [], _ => []
  | _ :: t, O => v :: t
  | x :: t, S i' => x :: upd t i' v
  end.

(* write f(old content) into each of the listed buffers, one after the other (a loop over _data) *)
Fixpoint write_all (ids : list nat) (f : list Z -> list Z) (bs : list (list Z)) : list (list Z) :=
  match ids with
  | [] => bs
  | i :: t => write_all t f (upd bs i (f (nth i bs [])))
  end.
(* ... the i-th buffer of the receiver combined with the i-th value of a list read BEFORE the loop *)
Fixpoint write_zip (ids : list nat) (vals : list (list Z)) (g : list Z -> list Z -> list Z)
         (bs : list (list Z)) : list (list Z) :=
  match ids, vals with
  | i :: t, v :: vt => write_zip t vt g (upd bs i (g (nth i bs []) v))
  | _, _ => bs
  end.

Inductive op :=
| ONew (nb : nat) (lgs : list nat)                                   (* a fresh tensor with nb blocks over existing legs *)
| OCopy (deep : bool) (r : nat)
| OMapWrite (r : nat) (f : list Z -> list Z)                       (* cy: a.iscale_prefactor(s), a *= s *)
| OBinWrite (r b : nat) (g : list Z -> list Z -> list Z)           (* cy: a.iadd_prefactor_other(s, b), same block structure *)
| OMapRebind (r : nat) (f : list Z -> list Z) (gt : list (list nat) -> list (list nat))
             (perm : list nat)                                      (* itranspose / py iscale_prefactor / iconj *)
| OMeta (r : nat) (gt : list (list nat) -> list (list nat)) (perm : list nat)
             (* in-place methods that keep the block MEMORY: py itranspose (np.transpose views), iconj of real data,
                ireplace_label, isort_qdata, ipurge_zeros: new _qdata table / list objects, permuted legs and labels *)
| OProject (r : nat) (f : list Z -> list Z) (gt : list (list nat) -> list (list nat))
           (newlegs : list legrec)                                  (* iproject *)
| OUnary (r : nat) (f : list Z -> list Z)                           (* a * s, a.conj(), a.transpose(): deep copy, then in place on the copy *)
| OScaleAxis (r : nat) (f : list Z -> list Z)                       (* a.scale_axis(s): shallow copy, _qdata copied, fresh blocks *)
| OAdd (a b : nat) (g : list Z -> list Z -> list Z)                 (* a + b: deep copy of a, then in place on the copy *)
| OTensordot (a b : nat) (pa pb : list nat)
             (F : value -> value -> list (list Z) * list (list nat)).   (* shallow copies, itranspose on them, fresh result *)

Definition inplace_receiver (o : op) : option nat :=
  match o with
  | OMapWrite r _ | OBinWrite r _ _ | OMapRebind r _ _ _ | OMeta r _ _ | OProject r _ _ _ => Some r
  | _ => None
  end.
(* in-place methods that write into existing buffers (visible through shallow copies) *)
Definition writes_buffers (o : op) : bool :=
  match o with OMapWrite _ _ | OBinWrite _ _ _ => true | _ => false end.

Definition set_obj (h : heap) (x : nat) (a : arr) : heap :=
  mkHeap (bufs h) (tabs h) (legs h) (upd (objs h) x a).
Definition add_obj (h : heap) (a : arr) : heap :=
  mkHeap (bufs h) (tabs h) (legs h) (objs h ++ [a]).
Definition fresh_ids (start n : nat) : list nat := seq start n.

(* deep copy of object a: fresh buffers and table with the same contents, same legs *)
Definition deep_copy (h : heap) (a : arr) : heap * arr :=
  let nb := map (buf h) (blk a) in
  let a' := mkArr (fresh_ids (length (bufs h)) (length nb)) (length (tabs h)) (lg a) (lab a) (qt a) in
  (mkHeap (bufs h ++ nb) (tabs h ++ [nth (tab a) (tabs h) []]) (legs h) (objs h), a').

(* bind fresh buffers f(old), a fresh table gt(old) and permuted legs/labels to a *)
Definition rebind (h : heap) (a : arr) (f : list Z -> list Z) (gt : list (list nat) -> list (list nat))
           (perm : list nat) : heap * arr :=
  let nb := map (fun i => f (buf h i)) (blk a) in
  let a' := mkArr (fresh_ids (length (bufs h)) (length nb)) (length (tabs h))
                  (map (fun k => nth k (lg a) 0%nat) perm) (map (fun k => nth k (lab a) 0%nat) perm) (qt a) in
  (mkHeap (bufs h ++ nb) (tabs h ++ [gt (nth (tab a) (tabs h) [])]) (legs h) (objs h), a').
Definition id_perm (a : arr) : list nat := seq 0 (length (lg a)).

(* exec returns the new heap and the object holding the result (the receiver for in-place methods) *)
Definition exec (h : heap) (o : op) : heap * nat :=
  match o with
  | ONew nb lgs =>
      (mkHeap (bufs h ++ repeat [1] nb) (tabs h ++ [[]]) (legs h)
              (objs h ++ [mkArr (fresh_ids (length (bufs h)) nb) (length (tabs h)) lgs [] []]), length (objs h))
  | OCopy false r => (add_obj h (obj h r), length (objs h))
  | OCopy true r => let '(h1, a') := deep_copy h (obj h r) in (add_obj h1 a', length (objs h))
  | OMapWrite r f =>
      (mkHeap (write_all (blk (obj h r)) f (bufs h)) (tabs h) (legs h) (objs h), r)
  | OBinWrite r b g =>
      (mkHeap (write_zip (blk (obj h r)) (map (buf h) (blk (obj h b))) g (bufs h)) (tabs h) (legs h) (objs h), r)
  | OMapRebind r f gt perm =>
      let '(h1, a') := rebind h (obj h r) f gt perm in (set_obj h1 r a', r)
  | OMeta r gt perm =>
      let a := obj h r in
      let a' := mkArr (blk a) (length (tabs h)) (map (fun k => nth k (lg a) 0%nat) perm)
                      (map (fun k => nth k (lab a) 0%nat) perm) (qt a) in
      (set_obj (mkHeap (bufs h) (tabs h ++ [gt (nth (tab a) (tabs h) [])]) (legs h) (objs h)) r a', r)
  | OProject r f gt newlegs =>
      let a := obj h r in
      let nb := map (fun i => f (buf h i)) (blk a) in
      let a' := mkArr (fresh_ids (length (bufs h)) (length nb)) (length (tabs h))
                      (fresh_ids (length (legs h)) (length newlegs)) (lab a) (qt a) in
      (set_obj (mkHeap (bufs h ++ nb) (tabs h ++ [gt (nth (tab a) (tabs h) [])]) (legs h ++ newlegs) (objs h)) r a', r)
  | OUnary r f =>
      let '(h1, a') := deep_copy h (obj h r) in
      let h2 := add_obj h1 a' in
      (mkHeap (write_all (blk a') f (bufs h2)) (tabs h2) (legs h2) (objs h2), length (objs h))
  | OScaleAxis r f =>
      let '(h1, a') := rebind h (obj h r) f (fun t => t) (id_perm (obj h r)) in (add_obj h1 a', length (objs h))
  | OAdd a b g =>
      let '(h1, a') := deep_copy h (obj h a) in
      let h2 := add_obj h1 a' in
      (mkHeap (write_zip (blk a') (map (buf h2) (blk (obj h2 b))) g (bufs h2)) (tabs h2) (legs h2) (objs h2),
       length (objs h))
  | OTensordot a b pa pb F =>
      (* _tensordot_transpose_axes: a = a.copy(deep=False); a.itranspose(...)   (same for b) *)
      let h1 := add_obj h (obj h a) in
      let xa := length (objs h) in
      let '(h2, a') := rebind h1 (obj h1 xa) (fun v => v) (fun t => t) pa in
      let h3 := set_obj h2 xa a' in
      let h4 := add_obj h3 (obj h3 b) in
      let xb := S xa in
      let '(h5, b') := rebind h4 (obj h4 xb) (fun v => v) (fun t => t) pb in
      let h6 := set_obj h5 xb b' in
      let '(rb, rt) := F (denote h6 xa) (denote h6 xb) in
      let res := mkArr (fresh_ids (length (bufs h6)) (length rb)) (length (tabs h6)) [] [] [] in
      (add_obj (mkHeap (bufs h6 ++ rb) (tabs h6 ++ [rt]) (legs h6) (objs h6)) res, S xb)
  end.

(* two tensors share a block buffer *)
Definition shares_buffer (h : heap) (x y : nat) : bool :=
  existsb (fun i => existsb (Nat.eqb i) (blk (obj h y))) (blk (obj h x)).

(* the model's prediction: which existing tensors MAY change observably when o runs on h *)
Definition may_change (h : heap) (o : op) : list nat :=
  match inplace_receiver o with
  | None => []
  | Some r => if writes_buffers o
              then filter (fun x => Nat.eqb x r || shares_buffer h x r) (seq 0 (length (objs h)))
              else [r]
  end.

(* ---- replay of a history (harness/c03.py).  The harness numbers its registers consecutively (every
   step appends one); `regs` maps a register to the object of the model.  A step names the kind of
   operation, its operand registers and the registers the implementation observed as changed. *)
Inductive hop := HNew (nb : nat) (lgs : list nat) | HCopy (deep : bool) | HMapWrite | HBinWrite | HRebind | HMeta
               | HProject | HUnary | HScaleAxis | HAdd | HTensordot.
Definition hstep : Type := (hop * nat * nat * list nat)%type.

Definition dbl (v : list Z) : list Z := map (Z.mul 2) v.
Definition to_op (h : heap) (k : hop) (a b : nat) : op :=
  match k with
  | HNew nb lgs => ONew nb lgs
  | HCopy d => OCopy d a
  | HMapWrite => OMapWrite a dbl
  | HBinWrite => OBinWrite a b (fun x y => x ++ y)
  | HRebind => OMapRebind a dbl (fun t => t) (id_perm (obj h a))
  | HMeta => OMeta a (fun t => t) (id_perm (obj h a))
  | HProject => OProject a dbl (fun t => t) (map (fun _ => dleg) (lg (obj h a)))
  | HUnary => OUnary a dbl
  | HScaleAxis => OScaleAxis a dbl
  | HAdd => OAdd a b (fun x y => x ++ y)
  | HTensordot => OTensordot a b (id_perm (obj h a)) (id_perm (obj h b)) (fun _ _ => ([[1]], [[]]))
  end.

Definition subset (a b : list nat) : bool := forallb (fun x => existsb (Nat.eqb x) b) a.

Fixpoint check_history_from (h : heap) (regs : list nat) (steps : list hstep) : bool :=
  match steps with
  | [] => true
  | (k, ra, rb, changed) :: t =>
      let o := to_op h k (nth ra regs 0%nat) (nth rb regs 0%nat) in
      let '(h', res) := exec h o in
      subset (map (fun r => nth r regs 0%nat) changed) (may_change h o)
      && check_history_from h' (regs ++ [res]) t
  end.
Definition check_history (c : nat * list hstep) : bool :=
  check_history_from (mkHeap [] [] (repeat dleg (fst c)) []) [] (snd c).

(* ---- histories of model operations (statement T03_history in Props/C03.v; not used by check_history).
   An operation is applicable when its operands are live tensors, the legs of a new tensor exist and
   the axis permutations index the legs of their tensor.  Operands may coincide or be copies of each other. *)
Definition live (h : heap) (x : nat) : Prop := (x < length (objs h))%nat.
Definition perm_ok (h : heap) (x : nat) (perm : list nat) : Prop :=
  Forall (fun k => (k < length (lg (obj h x)))%nat) perm.
Definition op_ok (h : heap) (o : op) : Prop :=
  match o with
  | ONew _ lgs => Forall (fun i => (i < length (legs h))%nat) lgs
  | OCopy _ r | OMapWrite r _ | OProject r _ _ _ | OUnary r _ | OScaleAxis r _ => live h r
  | OBinWrite r b _ | OAdd r b _ => live h r /\ live h b
  | OMapRebind r _ _ perm | OMeta r _ perm => live h r /\ perm_ok h r perm
  | OTensordot a b pa pb _ => live h a /\ live h b /\ perm_ok h a pa /\ perm_ok h b pb
  end.
Fixpoint run (h : heap) (os : list op) : heap :=
  match os with [] => h | o :: t => run (fst (exec h o)) t end.
Fixpoint ops_ok (h : heap) (os : list op) : Prop :=
  match os with [] => True | o :: t => op_ok h o /\ ops_ok (fst (exec h o)) t end.

(* the operations executed by the replay of a harness history (same recursion as check_history_from), and
   the applicability of its steps: operand registers exist, the legs of new tensors are among the nlegs initial legs *)
Fixpoint history_ops (h : heap) (regs : list nat) (steps : list hstep) : list op :=
  match steps with
  | [] => []
  | (k, ra, rb, _) :: t =>
      let o := to_op h k (nth ra regs 0%nat) (nth rb regs 0%nat) in
      o :: history_ops (fst (exec h o)) (regs ++ [snd (exec h o)]) t
  end.
Definition hstep_ok (nlegs nregs : nat) (s : hstep) : bool :=
  let '(k, ra, rb, _) := s in
  match k with
  | HNew _ lgs => forallb (fun i => Nat.ltb i nlegs) lgs
  | HBinWrite | HAdd | HTensordot => Nat.ltb ra nregs && Nat.ltb rb nregs
  | _ => Nat.ltb ra nregs
  end.
Fixpoint history_ok (nlegs nregs : nat) (steps : list hstep) : bool :=
  match steps with [] => true | s :: t => hstep_ok nlegs nregs s && history_ok nlegs (S nregs) t end.
(* the checker used by harness/c03.py: the history is applicable (so T03_history covers it) and every observed
   change is allowed by the model *)
Definition check_history_applicable (c : nat * list hstep) : bool :=
  history_ok (fst c) 0 (snd c) && check_history c.
