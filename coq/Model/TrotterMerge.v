(* Model for C14 (T14_trotter_merge): merging adjacent schedule entries of equal parity.
   exp(a H_k) exp(b H_k) = exp((a+b) H_k), so two consecutive entries (p, k), (q, k) of a timed schedule
   (Model/Trotter.v: `timed`) act as the single entry (p + q, k).  `merge` computes the normal form in which
   no two adjacent entries have the same parity (fold from the right, structural recursion); times are the
   polynomials of Base/PyLib.v (`poly`, `padd`, `peqb`).

   TIE: `merge` (applied to `timed` of the regenerated tables) is executed against the steps real TEBD
   engines perform by check_merge of Model/TrotterMergeCheck.v (stream `merge` of harness/c14.py).
   `sched_eqb` / `sched_eq` are the equality of the theorems (times as polynomials) and are not executed
   against the code. *)
From TenpyV Require Import Base.Prelude Base.PyLib Model.Trotter.
From Coq Require Import QArith String.
Open Scope Z_scope.

Definition sched := list (poly * Z).

(* put one entry in front of an already merged schedule *)
Definition mcons (e : poly * Z) (m : sched) : sched :=
  match m with
  | [] => [e]
  | (q, k') :: t' => if snd e =? k' then (padd (fst e) q, k') :: t' else e :: m
  end.

Fixpoint merge (l : sched) : sched :=
  match l with
  | [] => []
  | e :: t => mcons e (merge t)
  end.

(* normal form: adjacent entries have different parities *)
Fixpoint alternating (l : sched) : bool :=
  match l with
  | [] => true
  | e :: t => match t with
              | [] => true
              | e' :: _ => negb (snd e =? snd e') && alternating t
              end
  end.

(* equality of schedules: same length, same parities, times equal as polynomials
   (PyLib.peqb: all coefficients Qeq, zero padding) *)
Definition ent_eqb (u v : poly * Z) : bool := peqb (fst u) (fst v) && (snd u =? snd v).
Fixpoint sched_eqb (a b : sched) : bool :=
  match a, b with
  | [], [] => true
  | x :: a', y :: b' => ent_eqb x y && sched_eqb a' b'
  | _, _ => false
  end.

(* the same as propositions (coefficientwise Qeq) *)
Definition tpeq (p q : poly) : Prop := forall i : nat, (nth i p 0 == nth i q 0)%Q.
Definition ent_eq (u v : poly * Z) : Prop := tpeq (fst u) (fst v) /\ snd u = snd v.
Definition sched_eq (a b : sched) : Prop := Forall2 ent_eq a b.

(* time applied to parity class k by a timed schedule, at the value x of the symbol
   (parity_time of Model/Trotter.v is sched_time of `timed`) *)
Definition ent_weight (x : Q) (k : Z) (e : poly * Z) : Q :=
  if snd e =? k then peval (fst e) x else 0%Q.
Definition sched_time (x : Q) (k : Z) (l : sched) : Q := sumQ (map (ent_weight x k) l).
