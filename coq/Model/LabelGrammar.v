(* The grammar of leg labels of np_conserved.Array as a syntax tree (definitions only):
     label ::= atom | atom STAR | LPAR label (DOT label)... RPAR
   atom = non-empty string without the four structure characters LPAR RPAR DOT STAR (this includes the placeholders ?0, ?1, ...).
   `render` is the string of a tree (pipes are rendered with Model/Labels.combine_labels, i.e. as _combine_leg_labels does),
   `tconj` is the documented conjugation: toggle the star of every atom, keep the parentheses
   (the example of the docstring of Array._conj_leg_label, a pipe of a and a pipe of b-starred and c, is an Example in Props/C01.v).
   Tie to the code: only through Model/Labels.v (correspondence-checked, harness/c01.py stream 'labels'):
   Proofs/LabelsP2.v proves  conj_label (render t) = render (tconj t)  for the model conj_label of the code's algorithm. *)
From TenpyV Require Import Base.Prelude Model.Labels.
From Coq Require Import Ascii.
Open Scope char_scope.

Inductive ltree := LAtom (a : label) (starred : bool) | LPipe (ts : list ltree).

Fixpoint render (t : ltree) : label :=
  match t with
  | LAtom a st => a ++ (if st then ["*"] else [])
  | LPipe ts => combine_labels (map render ts)
  end.

Fixpoint tconj (t : ltree) : ltree :=
  match t with
  | LAtom a st => LAtom a (negb st)
  | LPipe ts => LPipe (map tconj ts)
  end.

(* well-formed tree: atoms non-empty and made of atom characters, pipes have at least one component *)
Fixpoint twf (t : ltree) : bool :=
  match t with
  | LAtom a _ => negb (Nat.eqb (length a) 0) && forallb atom_char a
  | LPipe ts => negb (Nat.eqb (length ts) 0) && forallb twf ts
  end.
