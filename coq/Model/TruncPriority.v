(* The documented priority of the truncation constraints (tenpy/linalg/truncation.py, truncate:
   "If a constraint can not be fulfilled (without violating a previous one), it is ignored"),
   written as sets of cut positions, independently of the boolean-array code modelled in
   Model/Truncate.v.  Definitions only; Proofs/TruncPriorityP.v proves that final_good / cut of
   Model/Truncate.v (the correspondence-checked model) compute exactly these sets.

   A cut c (0 <= c < n) discards the c smallest values of the ascending spectrum ss and keeps n - c. *)
From TenpyV Require Import Base.Prelude Base.PyLib Model.Truncate.
Open Scope Z_scope.

(* the five constraint sets G_k, as the code decides them *)
Definition G_chi_max (n : nat) (m : Z) (c : nat) : bool :=
  slice_start (Z.of_nat n) (- m) <=? Z.of_nat c.                (* good2[-chi_max:] = True *)
Definition G_chi_min (n : nat) (m : Z) (c : nat) : bool :=
  negb (slice_start (Z.of_nat n) (- m + 1) <=? Z.of_nat c).     (* good2[-chi_min+1:] = False *)
Definition G_deg (ss : list Z) (pq : Z * Z) (c : nat) : bool :=
  match c with O => true | S c' => deg_ok (fst pq) (snd pq) (nthZ ss c') (nthZ ss c) end.
Definition G_svd_min (ss : list Z) (m : Z) (c : nat) : bool := m <=? nthZ ss c.
Definition G_trunc_cut (ss : list Z) (t : Z) (c : nat) : bool :=
  t <? sumZ (map sq (firstn (S c) ss)).                         (* cumsum(S^2)[c] > trunc_cut^2 *)

Definition opt_set {T} (o : option T) (G : T -> nat -> bool) : list (nat -> bool) :=
  match o with Some a => [G a] | None => [] end.

(* active constraints in code order; None (and chi_min <= 1) contributes nothing *)
Definition constraints (ss : list Z) (o : opts) : list (nat -> bool) :=
  let n := length ss in
  opt_set (chi_max o) (G_chi_max n) ++
  (match chi_min o with Some m => if 1 <? m then [G_chi_min n m] else [] | None => [] end) ++
  opt_set (deg_tol o) (G_deg ss) ++
  opt_set (svd_min o) (G_svd_min ss) ++
  opt_set (trunc_cut2 o) (G_trunc_cut ss).

(* A_k = A_(k-1) /\ G_k if that is non-empty on 0..n-1, else A_(k-1) *)
Definition stage (n : nat) (A G : nat -> bool) : nat -> bool :=
  if existsb (fun c => A c && G c) (seq 0 n) then (fun c => A c && G c) else A.
Definition A_all (n : nat) (c : nat) : bool := (c <? n)%nat.
Definition A_final (ss : list Z) (o : opts) : nat -> bool :=
  fold_left (stage (length ss)) (constraints ss o) (A_all (length ss)).
