(* The form algebra of tenpy's MPS (tenpy/networks/mps.py): every stored tensor is  s^nuL Gamma s^nuR  and carries a
   label form[i]; get_B / set_B / convert_form / get_theta / set_svd_theta and the structural operations of
   spatial_inversion / roll_mps_unit_cell / enlarge_mps_unit_cell move labels and exponents around.
   Exponents are integers in units of 1/2 (A=(2,0), B=(0,2), C=(1,1), G=(0,0), Th=(2,2)).
   A model site keeps BOTH the label (None = 'non-canonical') and the ACTUAL exponents of the stored tensor, so
   that "the label tells the truth" is a statement that can fail.  Definitions only (proofs: Proofs/MpsFormP.v).
   Not modelled: the numerical content of Gamma and s, charges, dtype, norm. *)
From TenpyV Require Import Base.Prelude Model.MpsIndex.
Open Scope Z_scope.

Definition form := (Z * Z)%type.
Definition fA : form := (2, 0).
Definition fB : form := (0, 2).
Definition fC : form := (1, 1).
Definition fG : form := (0, 0).
Definition fTh : form := (2, 2).

Record site := mkSite { lab : option form; act : form; pdim : Z; chiL : Z; chiR : Z }.
Definition mps := list site.

Definition len (st : mps) : Z := Z.of_nat (length st).

(* B.scale_axis(S ** (new - old)) on one side; a None entry of the requested form leaves the side alone *)
Definition scale1 (a old : Z) (new : option Z) : Z :=
  match new with None => a | Some n => a + (n - old) end.

(* actual exponents of the tensor returned by get_B(i, form): form=None returns the tensor as stored; otherwise the
   code scales by (new - LABEL) on each side and raises ValueError for a site labelled None. *)
Definition get_B_act (s : site) (new : option (option Z * option Z)) : option form :=
  match new with
  | None => Some (act s)
  | Some (nl, nr) =>
      match lab s with
      | Some (ol, orr) => Some (scale1 (fst (act s)) ol nl, scale1 (snd (act s)) orr nr)
      | None => None
      end
  end.

Definition full (f : form) : option (option Z * option Z) := Some (Some (fst f), Some (snd f)).

Definition site_pos (fin : bool) (st : mps) (i : Z) : option nat :=
  match to_valid_site_index fin (len st) i with
  | Some (r, _) => Some (Z.to_nat r)
  | None => None
  end.

Fixpoint set_nth (p : nat) (x : site) (st : mps) : mps :=
  match p, st with
  | O, _ :: t => x :: t
  | Datatypes.S p', y :: t => y :: set_nth p' x t
  | _, [] => []
  end.

(* set_B(i, tensor with actual exponents a, form=f) *)
Definition set_B (p : nat) (a : form) (f : option form) (st : mps) : mps :=
  match nth_error st p with
  | Some s => set_nth p (mkSite f a (pdim s) (chiL s) (chiR s)) st
  | None => st
  end.

(* convert_form(list of forms): for i: set_B(i, get_B(i, f_i), f_i) *)
Fixpoint convert_all (fs : list form) (st : mps) : option mps :=
  match fs, st with
  | [], [] => Some []
  | f :: fs', s :: st' =>
      match get_B_act s (full f), convert_all fs' st' with
      | Some a, Some r => Some (mkSite (Some f) a (pdim s) (chiL s) (chiR s) :: r)
      | _, _ => None
      end
  | _, _ => None
  end.

Definition swap2 (f : form) : form := (snd f, fst f).
Definition flip (s : site) : site := mkSite (option_map swap2 (lab s)) (swap2 (act s)) (pdim s) (chiR s) (chiL s).
Definition inversion (st : mps) : mps := rev (map flip st).

Definition dsite : site := mkSite None (0, 0) 0 0 0.

(* roll_mps_unit_cell(shift=k) as documented: new site j is old site j - k; the tensors are taken as stored *)
Definition roll (k : Z) (st : mps) : mps :=
  map (fun j => nth (Z.to_nat ((Z.of_nat j - k) mod len st)) st dsite) (seq 0 (length st)).

(* the variant that first permutes the labels and then fetches every tensor with get_B(i) in the DEFAULT form 'B'
   (scaling by (B - label found in the already permuted list)) but keeps the permuted labels *)
Definition roll_default_form (k : Z) (st : mps) : option mps :=
  let labs := map lab (roll k st) in
  let fetch := fun j =>
    let src := Z.to_nat ((Z.of_nat j - k) mod len st) in
    let s := nth src st dsite in
    match get_B_act (mkSite (nth src labs None) (act s) (pdim s) (chiL s) (chiR s)) (full fB) with
    | Some a => Some (mkSite (lab s) a (pdim s) (chiL s) (chiR s))
    | None => None
    end in
  fold_right (fun j acc => match fetch j, acc with Some x, Some r => Some (x :: r) | _, _ => None end)
             (Some []) (seq 0 (length st)).

Fixpoint repeat_list (n : nat) (st : mps) : mps :=
  match n with O => [] | Datatypes.S n' => st ++ repeat_list n' st end.

Definition enlarge (n : nat) (st : mps) : mps := repeat_list n st.

Inductive fop :=
| OConvert (fs : list form)            (* psi.convert_form([...]) *)
| OSetBScaled (i : Z) (f : form)       (* B = psi.get_B(i, f); psi.set_B(i, c * B, f) *)
| OSetSvdTheta (i : Z)                 (* psi.set_svd_theta(i, psi.get_theta(i, 2)) *)
| OCanonical                           (* psi.canonical_form(): right-canonical, every label 'B' *)
| ORoll (k : Z)
| OEnlarge (n : nat)
| OInversion.

Definition is_some {A : Type} (o : option A) : bool := match o with Some _ => true | None => false end.

Definition apply_op (fin : bool) (op : fop) (st : mps) : option mps :=
  match op with
  | OConvert fs => convert_all fs st
  | OSetBScaled i f =>
      match site_pos fin st i with
      | Some p => match nth_error st p with
                  | Some s => match get_B_act s (full f) with
                              | Some a => Some (set_B p a (Some f) st)
                              | None => None
                              end
                  | None => None
                  end
      | None => None
      end
  | OSetSvdTheta i =>
      match site_pos fin st i, site_pos fin st (i + 1) with
      | Some p, Some q =>
          match nth_error st p, nth_error st q with
          | Some s, Some t =>
              if is_some (lab s) && is_some (lab t) && negb (p =? q)%nat
              then Some (set_B q fB (Some fB) (set_B p fA (Some fA) st))   (* U isometric, V^dagger isometric *)
              else None
          | _, _ => None
          end
      | _, _ => None
      end
  | OCanonical => Some (map (fun s => mkSite (Some fB) fB (pdim s) (chiL s) (chiR s)) st)
  | ORoll k => if fin then None else Some (roll k st)
  | OEnlarge n => if fin || (n <=? 1)%nat then None else Some (enlarge n st)
  | OInversion => Some (inversion st)
  end.

Fixpoint run_ops (fin : bool) (ops : list fop) (st : mps) : option mps :=
  match ops with
  | [] => Some st
  | op :: rest => match apply_op fin op st with Some st' => run_ops fin rest st' | None => None end
  end.

(* the label tells the truth *)
Definition truthful (s : site) : Prop := forall f, lab s = Some f -> act s = f.
Definition canonical (s : site) : Prop := exists f, lab s = Some f /\ act s = f.

(* ---- get_theta(i, n, formL, formR): exponents on the left end, on the n-1 inner bonds and on the right end *)
Fixpoint theta_rest (prev_labR prev_actR : Z) (ss : list site) (formR : Z) : option (list Z * Z) :=
  match ss with
  | [] => None
  | s :: rest =>
      match rest with
      | [] => match get_B_act s (Some (Some (2 - prev_labR), Some formR)) with
              | Some (aL, aR) => Some ([prev_actR + aL], aR)
              | None => None
              end
      | _ :: _ =>
          match get_B_act s (Some (Some (2 - prev_labR), None)), lab s with
          | Some (aL, aR), Some (_, lr) =>
              match theta_rest lr aR rest formR with
              | Some (bonds, r) => Some ((prev_actR + aL) :: bonds, r)
              | None => None
              end
          | _, _ => None
          end
      end
  end.

Definition theta_exps (ss : list site) (formL formR : Z) : option (Z * list Z * Z) :=
  match ss with
  | [] => None
  | s :: rest =>
      match rest with
      | [] => match get_B_act s (Some (Some formL, Some formR)) with
              (* n = 1, as documented: s^formL Gamma s^formR.  (The unchanged code ignores formL/formR for n = 1
                 and returns the 'Th' form; the harness probes n = 1 only with the default formL = formR = 1, the
                 deviation is caught by the oracle of c09.py through group_sites.) *)
              | Some (a, b) => Some (a, [], b)
              | None => None
              end
      | _ :: _ =>
          match get_B_act s (Some (Some formL, None)), lab s with
          | Some (aL, aR), Some (_, lr) =>
              match theta_rest lr aR rest formR with
              | Some (bonds, r) => Some (aL, bonds, r)
              | None => None
              end
          | _, _ => None
          end
      end
  end.

Fixpoint window (fin : bool) (st : mps) (i : Z) (n : nat) : option (list site) :=
  match n with
  | O => Some []
  | Datatypes.S n' =>
      match site_pos fin st i, window fin st (i + 1) n' with
      | Some p, Some r => match nth_error st p with Some s => Some (s :: r) | None => None end
      | _, _ => None
      end
  end.

Definition get_theta (fin : bool) (st : mps) (i : Z) (n : nat) (formL formR : Z) : option (Z * list Z * Z) :=
  match window fin st i n with
  | Some ss => theta_exps ss formL formR
  | None => None
  end.

(* ---- correspondence checker: one operation on the observed state of the implementation.
   obs = list of (label, pdim, chiL, chiR); the observed labels are taken as the actual exponents (their truth
   is checked numerically by the oracle).  `cmp_chi` = compare bond dimensions too. *)
Definition obs := (option form * Z * Z * Z)%type.
Definition site_of_obs (o : obs) : site :=
  let '(l, d, cl, cr) := o in mkSite l (match l with Some f => f | None => (0, 0) end) d cl cr.

Definition eqb_form (a b : form) : bool := (fst a =? fst b) && (snd a =? snd b).
Definition eqb_olab (a b : option form) : bool :=
  match a, b with None, None => true | Some x, Some y => eqb_form x y | _, _ => false end.

Fixpoint eqb_obs (cmp_chi : bool) (st : mps) (os : list obs) : bool :=
  match st, os with
  | [], [] => true
  | s :: st', (l, d, cl, cr) :: os' =>
      eqb_olab (lab s) l && (pdim s =? d) && (negb cmp_chi || ((chiL s =? cl) && (chiR s =? cr))) &&
      eqb_obs cmp_chi st' os'
  | _, _ => false
  end.

Definition check_form_case (c : bool * list obs * fop * bool * option (list obs)) : bool :=
  let '(fin, before, op, cmp_chi, after) := c in
  match apply_op fin op (map site_of_obs before), after with
  | Some st, Some os => eqb_obs cmp_chi st os
  | None, None => true
  | _, _ => false
  end.

(* get_theta probe: (fin, observed state, i, n, formL, formR, the implementation raised?) *)
Definition check_theta_case (c : bool * list obs * Z * nat * Z * Z * bool) : bool :=
  let '(fin, before, i, n, fl, fr, raised) := c in
  match get_theta fin (map site_of_obs before) i n fl fr with
  | Some (l, bonds, r) =>
      negb raised && (l =? fl) && (r =? fr) &&
      forallb (fun b => b =? 2) bonds && (length bonds =? n - 1)%nat
  | None => raised
  end.
