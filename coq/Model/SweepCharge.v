(* Total-charge bookkeeping of DMRGEngine.update_local (tenpy/algorithms/dmrg.py), property C13, clause "the state
   returned is in the charge sector of the initial state".  Definitions only (proofs in Proofs/SweepChargeP.v).

   State: the `qtotal` of every site tensor psi._B[i] (a charge vector over Model/Charge.v's chinfo = list of mods).
   MPS.get_total_charge() = chinfo.make_valid(sum_i B_i.qtotal)  [- the charges of the two trivial outer legs for
   only_physical_legs=True; update_local never touches those legs: U keeps a.legs[0], VH keeps a.legs[1]].

   What is transcribed, with make_valid exactly where the code has it:
     npc.tensordot                      qtotal = make_valid(a.qtotal + b.qtotal)
     npc.svd(a, qtotal_LR=[qL, qR])     both None: qR = a.qtotal; qL None: qL = make_valid(a.qtotal - qR);
                                        qR None: qR = make_valid(a.qtotal - qL);
                                        both given: ValueError unless a.qtotal == make_valid(qL + qR);
                                        U.qtotal = make_valid(qL), VH.qtotal = make_valid(qR)   (Array.__init__)
     Mixer.determine_qtotal_L_R         RAW arithmetic (no make_valid): None/None: (0, theta); one None: theta - other;
                                        ValueError unless qL + qR == theta (raw ==)
     Array.gauge_total_charge(ax, q)    qtotal = make_valid(q)
     TwoSiteDMRGEngine.mixed_svd        mixer None: svd_theta(theta, qtotal_LR=[B[i0].qtotal, None])
                                        mixer: qtotal_LR = [old, theta.qtotal - old] (raw), mix_and_decompose_2site
     SingleSiteDMRGEngine.mixed_svd     mixer None: svd_theta(theta, [theta.qtotal, None]) (right move) /
                                        [None, theta.qtotal] (left move), then VH := VH.next_B / U := next_A.U;
                                        SubspaceExpansion (can_decompose_1site): VH := next_B / U := next_A;
                                        DensityMatrixMixer: two-site theta, qtotal_LR = [B[iL].qtotal, B[iR].qtotal]
     DensityMatrixMixer.svd_from_rho    U.gauge_total_charge(1, qL), VH.gauge_total_charge(0, qR)
     SubspaceExpansion.mix_and_decompose_1site
                                        right move: svd_theta(theta_expand, [theta.qtotal, None]); left: [None, theta.qtotal];
                                        theta_expand.qtotal = make_valid(LHeff.qtotal + theta.qtotal)
     Mixer.mix_and_decompose_2site      falls back to mix_and_decompose_1site for SubspaceExpansion (3 cases of
                                        (mix_left, mix_right) = update_LP_RP of the schedule entry)
     set_B                              psi.set_B(i_L, U.split_legs), psi.set_B(i_R, VH.split_legs): qtotal unchanged
   Environment convention: LP/RP/W carry qtotal 0 (init_LP/init_RP are built with qtotal 0 and an MPO `W` built by
   the models has qtotal 0), so LHeff.qtotal = RHeff.qtotal = 0 = `env_q`.
   The eigensolver is an oracle: `None` = theta keeps its qtotal (lanczos, arpack, ED_block and optimize=False),
   `Some q` = diag_method='ED_all' returned a vector of another sector q ("the qtotal of theta may change").
   Site indices are taken modulo L as MPS.get_B / set_B do (infinite bc: i0 + 1 = L is site 0 of the next cell).
   Tie to the code: these definitions are hand-transcribed; the extra correspondence stream `check_charge_run`
   (harness/c13.py, if wired) replays instrumented runs.  *)
From TenpyV Require Import Base.Prelude Model.Charge Model.Sweep.
Open Scope Z_scope.

Definition charge := list Z.
Definition vsub (a b : charge) : charge := vadd a (vneg b).
Definition vsum (ci : chinfo) (qs : list charge) : charge := fold_right vadd (zero_charge ci) qs.
(* MPS.get_total_charge(only_physical_legs=False) *)
Definition total_charge (ci : chinfo) (qs : list charge) : charge := make_valid ci (vsum ci qs).

Inductive mixk := MixNone | MixDM | MixSub.
(* per local update: which mixer is active (it is switched off after some sweeps), what the eigensolver did *)
Definition cfg := (mixk * option charge)%type.

Definition getq (qs : list charge) (i : nat) : charge := nth (i mod length qs) qs [].
Definition setq (qs : list charge) (i : nat) (q : charge) : list charge := set_nth qs (i mod length qs) q.

Definition env_q (ci : chinfo) : charge := zero_charge ci.
Definition tdot_q (ci : chinfo) (a b : charge) : charge := make_valid ci (vadd a b).
Definition diag_q (ci : chinfo) (dg : option charge) (th : charge) : charge :=
  match dg with None => th | Some q => make_valid ci q end.

(* npc.svd: (U.qtotal, VH.qtotal) or None = ValueError *)
Definition svd_q (ci : chinfo) (a : charge) (ql qr : option charge) : option (charge * charge) :=
  match ql, qr with
  | None, None => Some (make_valid ci (make_valid ci (vsub a a)), make_valid ci a)
  | None, Some r => Some (make_valid ci (make_valid ci (vsub a r)), make_valid ci r)
  | Some l, None => Some (make_valid ci l, make_valid ci (make_valid ci (vsub a l)))
  | Some l, Some r => if list_eqb a (make_valid ci (vadd l r)) then Some (make_valid ci l, make_valid ci r) else None
  end.

(* Mixer.determine_qtotal_L_R: raw arithmetic *)
Definition determine_q (ci : chinfo) (th : charge) (ql qr : option charge) : option (charge * charge) :=
  let lr := match ql, qr with
            | None, None => (zero_charge ci, th)
            | None, Some r => (vsub th r, r)
            | Some l, None => (l, vsub th l)
            | Some l, Some r => (l, r)
            end in
  if list_eqb (vadd (fst lr) (snd lr)) th then Some lr else None.

(* SubspaceExpansion.mix_and_decompose_1site: (U.qtotal, VH.qtotal) *)
Definition sub1_q (ci : chinfo) (th : charge) (move_right : bool) : option (charge * charge) :=
  let te := tdot_q ci (env_q ci) th in
  if move_right then svd_q ci te (Some th) None else svd_q ci te None (Some th).

(* DensityMatrixMixer.mixed_svd_2site = svd_from_rho *)
Definition dm2_q (ci : chinfo) (th : charge) (ql qr : option charge) : option (charge * charge) :=
  match determine_q ci th ql qr with
  | None => None
  | Some (l, r) => Some (make_valid ci l, make_valid ci r)
  end.

(* Mixer.mix_and_decompose_2site for SubspaceExpansion (mixed_svd_2site raises NotImplementedError) *)
Definition sub2_q (ci : chinfo) (th : charge) (mix_left mix_right : bool) (ql qr : option charge)
  : option (charge * charge) :=
  if (mix_left && mix_right)%bool then
    match determine_q ci th ql qr, sub1_q ci th true, sub1_q ci th false with
    | Some (l, r), Some _, Some _ => Some (make_valid ci l, make_valid ci r)
    | _, _, _ => None
    end
  else if mix_left then sub1_q ci th true
  else if mix_right then sub1_q ci th false
  else None.                                              (* ValueError('Expected mix_left=True and/or ...') *)

(* TwoSiteDMRGEngine.update_local at i0: new (B[i0].qtotal, B[i0+1].qtotal) *)
Definition upd2_q (ci : chinfo) (qs : list charge) (i0 : nat) (upl upr : bool) (c : cfg) : option (list charge) :=
  let q0 := getq qs i0 in
  let q1 := getq qs (i0 + 1) in
  let th := diag_q ci (snd c) (tdot_q ci q0 q1) in
  let r := match fst c with
           | MixNone => svd_q ci th (Some q0) None
           | MixDM => dm2_q ci th (Some q0) (Some (vsub th q0))
           | MixSub => sub2_q ci th upl upr (Some q0) (Some (vsub th q0))
           end in
  match r with
  | None => None
  | Some (u, vh) => Some (setq (setq qs i0 u) (i0 + 1) vh)
  end.

(* SingleSiteDMRGEngine.update_local at i0; i_L, i_R = _update_env_inds() *)
Definition upd1_q (ci : chinfo) (qs : list charge) (i0 : nat) (mr upl upr : bool) (c : cfg) : option (list charge) :=
  let iL := fst (env_inds 1 i0 mr) in
  let iR := snd (env_inds 1 i0 mr) in
  let th := diag_q ci (snd c) (getq qs i0) in
  let nxt := if mr then getq qs (i0 + 1) else getq qs (i0 - 1) in
  let r := match fst c with
           | MixNone =>
               if mr then match svd_q ci th (Some th) None with
                          | Some (u, vh) => Some (u, tdot_q ci vh nxt) | None => None end
               else match svd_q ci th None (Some th) with
                    | Some (u, vh) => Some (tdot_q ci nxt u, vh) | None => None end
           | MixSub =>
               match sub1_q ci th mr with
               | Some (u, vh) => Some (if mr then (u, nxt) else (nxt, vh))
               | None => None
               end
           | MixDM =>
               let th2 := if mr then tdot_q ci th nxt else tdot_q ci nxt th in
               dm2_q ci th2 (Some (getq qs iL)) (Some (getq qs iR))
           end in
  match r with
  | None => None
  | Some (u, vh) => Some (setq (setq qs iL u) iR vh)
  end.

Definition upd_q (ci : chinfo) (n : nat) (qs : list charge) (e : entry) (c : cfg) : option (list charge) :=
  match e with (i0, mr, (upl, upr)) =>
    if (n =? 2)%nat then upd2_q ci qs i0 upl upr c else upd1_q ci qs i0 mr upl upr c end.

(* run the local updates of a list of schedule entries, one cfg per entry; None = some update raised *)
Fixpoint run_q (ci : chinfo) (n : nat) (qs : list charge) (es : list entry) (cs : list cfg) : option (list charge) :=
  match es, cs with
  | e :: es', c :: cs' => match upd_q ci n qs e c with
                          | None => None
                          | Some qs' => run_q ci n qs' es' cs'
                          end
  | _, _ => Some qs
  end.

(* ---- correspondence checker: (mods, n, initial qtotals, executed entries with mixer kind (0 none, 1 density matrix,
   2 subspace expansion), qtotals after every update) *)
Definition mixk_of_nat (k : nat) : mixk := match k with O => MixNone | S O => MixDM | _ => MixSub end.
Fixpoint qs_eqb (a b : list charge) : bool :=
  match a, b with
  | [], [] => true
  | x :: a', y :: b' => list_eqb x y && qs_eqb a' b'
  | _, _ => false
  end.
Fixpoint check_charge_steps (ci : chinfo) (n : nat) (qs : list charge) (steps : list (entry * nat * list charge)) : bool :=
  match steps with
  | [] => true
  | (e, k, want) :: t =>
      match upd_q ci n qs e (mixk_of_nat k, None) with
      | Some qs' => qs_eqb qs' want && check_charge_steps ci n qs' t
      | None => false
      end
  end.
Definition check_charge_run (x : chinfo * nat * list charge * list (entry * nat * list charge)) : bool :=
  match x with (ci, n, qs, steps) => check_charge_steps ci n qs steps end.
