(* Correspondence checker for Model/CacheClose.v (property C20, close() of ThreadedStorage + Worker).
   Definitions only.  Used by harness/c20_sched.py, stream "sched-close".

   The harness (harness/impl/c20_impl.py, kind 'sched') controls two events only, as for Model/CacheThread.v:
     C  "let the caller start the next item of its program" (a storage operation or close()/__exit__) and run until it
        returns or blocks (Queue.put, Queue.join, worker_thread.join inside close()),
     W  "open the gate of the task the worker holds".
   Everything else happens by itself; `cl_settle` runs these uncontrolled steps (each of them IS a `cl_step` of
   Model/CacheClose.v) to quiescence and records which thread moved.  The replay therefore produces, besides the events
   the harness must have seen, a fine-grained schedule `fine : list bool`; all final observations are read off
   `cl_run qmax fail_at fine (cl_init prog)`.

   Events (first number):
     10 o..   C: the operation returned; o = out_code (0 None | 1 v value | 2 WorkerDied | 3 AssertionError)
     11 / 12  C: the operation blocks in put / in join
     13       C: the caller is still blocked        14   C: the program is finished
     15 r     C: close() returned; r = 0 fine | 1 ValueError (already closed)
     16       C: close() blocks in worker_thread.join()
     20       W: the worker holds no task
     21 t k.. W: the worker ran task t (0 load | 1 save | 2 delete) of key k, followed by what the blocked caller did:
              30 o.. operation returned | 31 / 32 still blocked in put / join | 35 r close() returned | 36 close() still blocked *)
From TenpyV Require Import Base.Prelude Model.Cache Model.CacheThread Model.CacheClose.
Open Scope Z_scope.

Section CloseReplay.
  Variable qmax : nat.
  Variable fail_at : option nat.

  (* the caller is inside an operation or inside close() *)
  Definition caller_busy (st : cstate) : bool :=
    match c_pc st, t_pc (c_base st) with CNone, PIdle => false | _, _ => true end.

  (* the thread that moves by itself (true = caller, false = worker); None: quiescent *)
  Definition cl_choice (st : cstate) : option bool :=
    let b := c_base st in
    let caller := if caller_busy st
                  then match caller_step_c qmax st with Some _ => Some true | None => None end
                  else None in
    match t_status b with
    | WIdle => match t_queue b with
               | _ :: _ => Some false
               | [] => if c_exit st then Some false else caller
               end
    | WDying => Some false
    | _ => caller
    end.

  (* acc: the steps taken so far, latest first *)
  Fixpoint cl_settle (fuel : nat) (st : cstate) (acc : list bool) : cstate * list bool :=
    match fuel with
    | O => (st, acc)
    | S f => match cl_choice st with
             | Some c => cl_settle f (cl_step qmax fail_at st c) (c :: acc)
             | None => (st, acc)
             end
    end.

  Definition close_code (o : cl_out) : Z := match o with CClosedOk => 0 | CAlreadyClosed => 1 end.
  Definition cl_fuel (st : cstate) : nat := 4 * length (t_queue (c_base st)) + 12.
  Definition last_op_out (st : cstate) : list Z :=
    match t_outs (c_base st) with o :: _ => out_code o | [] => [] end.
  Definition last_close_out (st : cstate) : list Z :=
    match c_outs st with o :: _ => [close_code o] | [] => [] end.

  (* one token of the harness schedule: new state, the cl_steps taken (latest first), the observable event *)
  Definition cl_tok (st : cstate) (c : bool) : cstate * list bool * list Z :=
    if c then
      if caller_busy st then (st, [], [13])
      else match c_prog st with
           | [] => (st, [], [14])
           | item :: _ =>
               let st1 := cl_step qmax fail_at st true in
               let (st2, sch) := cl_settle (cl_fuel st1) st1 [true] in
               (st2, sch,
                match item with
                | COp _ => match t_pc (c_base st2) with
                           | PIdle => 10 :: last_op_out st2
                           | PPut _ _ => [11]
                           | _ => [12]
                           end
                | CClose => match c_pc st2 with CNone => 15 :: last_close_out st2 | CJoin => [16] end
                end)
           end
    else
      match t_status (c_base st) with
      | WRun t =>
          let st1 := cl_step qmax fail_at st false in
          let (st2, sch) := cl_settle (cl_fuel st1) st1 [false] in
          (st2, sch,
           21 :: task_code t ++
           (if caller_busy st then
              if caller_busy st2
              then match c_pc st2 with CJoin => [36] | CNone => block_code (c_base st2) end
              else match c_pc st with CJoin => 35 :: last_close_out st2 | CNone => 30 :: last_op_out st2 end
            else []))
      | _ => (st, [], [20])
      end.

  (* returns the final state, the fine-grained schedule (in order) and the events *)
  Fixpoint cl_replay (st : cstate) (toks : list bool) : cstate * list bool * list (list Z) :=
    match toks with
    | [] => (st, [], [])
    | c :: t =>
        let '(st1, sch, e) := cl_tok st c in
        let '(st2, fine, es) := cl_replay st1 t in
        (st2, rev sch ++ fine, e :: es)
    end.
End CloseReplay.

Fixpoint lZZ_eqb (a b : list (Z * Z)) : bool :=
  match a, b with
  | [], [] => true
  | (k, v) :: a', (k', v') :: b' => (k =? k') && (v =? v') && lZZ_eqb a' b'
  | _, _ => false
  end.

(* case: queue size, injected failure, program, schedule tokens, observed events,
   keys of _loaded and _waiting_for_load at the end (sorted), worker thread alive at the end,
   content of the disk directory at the end (sorted by key; [] when the directory is gone),
   ThreadedStorage._opened and disk_storage._opened at the end, Worker.exit.is_set() at the end,
   everything the storage operations returned (in program order, out_code), everything close() returned *)
Definition check_cl_run
  (c : nat * option nat * list c_item * list bool * list (list Z) * list Z * list Z * bool *
       list (Z * Z) * bool * bool * bool * list (list Z) * list Z) : bool :=
  let '(qmax, fail_at, prog, toks, events, loaded, waiting, alive, disk, opened, disk_opened, exit_set,
        op_outs, close_outs) := c in
  let '(_, fine, es) := cl_replay qmax fail_at (cl_init prog) toks in
  let st := cl_run qmax fail_at fine (cl_init prog) in
  let b := c_base st in
  llZ_eqb es events && lZ_eqb (map fst (t_loaded b)) loaded && lZ_eqb (t_waiting b) waiting
  && Bool.eqb (negb (dead b)) alive && lZZ_eqb (t_disk b) disk
  && Bool.eqb (c_opened st) opened && Bool.eqb (c_opened st) disk_opened
  && Bool.eqb (c_exit st || dead b) exit_set
  && llZ_eqb (map out_code (rev (t_outs b))) op_outs
  && lZ_eqb (map close_code (rev (c_outs st))) close_outs.
