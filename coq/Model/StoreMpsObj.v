(* Container layer of the store model for property C03: MPS OBJECTS and the Python LIST objects bound to their `_B` attribute.
   Model/StoreMps.v treats an MPS as a functional record of tensor references; here the record itself lives on a heap, because
   tenpy makes SHALLOW copies of MPS objects (copy.copy(psi): a new object whose attributes are the same objects, in particular
   the same list psi._B) and then calls in-place methods on them.  Definitions only; proofs in Proofs/StoreMpsObjP.v,
   statements in Props/C03.v (T03_mpsobj_...).

   A reading of tenpy/networks/mps.py:

     MPS._gauge_compatible_vL_vR(self, other)     (used by MPSEnvironment.__init__ -> MPS.overlap, MPOEnvironment, MPS.add)
         if self.chinfo.qnumber == 0: return other
         need_gauge = self.outer_virtual_legs() != other.outer_virtual_legs()
         if need_gauge:
             other = copy.copy(other)               CShallow other      (new object c, c._B IS other._B)
             other._B = other._B[:]                 COwnList c          (a new list object with the same items is bound to c._B)
             other.gauge_total_charge(None, vL, vR) CSetItem c i t ...  (self._B[i] = B.gauge_total_charge(...): writes list items)
         return other
     MPS.get_total_charge(self)
         tensors = self._B
         if U is not None: tensors = tensors + [U, V]   CConcat m [u; v]   (a NEW list; `tensors += [U, V]` would be CExtend m)

   Tie to the code: the stream `mps-object` of harness/c03.py observes for every call res = a._gauge_compatible_vL_vR(b) whether
   the outer legs differ, whether `res is b`, whether `res._B is b._B`, which items differ and whether the list b._B still has its
   items, and for get_total_charge the length of psi._B afterwards; `check_gauge_compatible` / `check_query_list` below
   recompute these from the model (vm_compute). *)
From TenpyV Require Import Base.Prelude.
Open Scope nat_scope.

Record oheap := mkOH {
  lsts : list (list nat);      (* Python list objects: lists of tensor references *)
  mobj : list nat              (* MPS objects: the index of the list object bound to their attribute _B *)
}.
Definition lref (h : oheap) (m : nat) : nat := nth m (mobj h) 0.
(* what `m._B` reads *)
Definition B_of (h : oheap) (m : nat) : list nat := nth (lref h m) (lsts h) [].
Definition owf (h : oheap) : Prop := Forall (fun r => r < length (lsts h)) (mobj h).
(* m._B is m'._B *)
Definition shares_list (h : oheap) (m m' : nat) : bool := Nat.eqb (lref h m) (lref h m').

Fixpoint lupd {A} (l : list A) (i : nat) (v : A) : list A :=
  match l, i with
  | [], _ => []
  | _ :: t, O => v :: t
  | x :: t, S i' => x :: lupd t i' v
  end.

Inductive cop :=
| CShallow (m : nat)                  (* copy.copy(m) *)
| COwnList (m : nat)                  (* m._B = m._B[:] *)
| CSetItem (m i t : nat)              (* m._B[i] = t *)
| CExtend (m : nat) (ts : list nat)   (* x = m._B; x += ts     (list.__iadd__: extends the list object in place) *)
| CConcat (m : nat) (ts : list nat).  (* x = m._B + ts          (a new list object, bound to no MPS) *)

Definition cexec (h : oheap) (o : cop) : oheap :=
  match o with
  | CShallow m => mkOH (lsts h) (mobj h ++ [lref h m])
  | COwnList m => mkOH (lsts h ++ [B_of h m]) (lupd (mobj h) m (length (lsts h)))
  | CSetItem m i t => mkOH (lupd (lsts h) (lref h m) (lupd (B_of h m) i t)) (mobj h)
  | CExtend m ts => mkOH (lupd (lsts h) (lref h m) (B_of h m ++ ts)) (mobj h)
  | CConcat m ts => mkOH (lsts h ++ [B_of h m ++ ts]) (mobj h)
  end.
Fixpoint crun (h : oheap) (os : list cop) : oheap :=
  match os with [] => h | o :: t => crun (cexec h o) t end.
(* the MPS object through which a list object is WRITTEN *)
Definition cwriter (o : cop) : option nat :=
  match o with CSetItem m _ _ | CExtend m _ => Some m | _ => None end.
Definition cop_ok (h : oheap) (o : cop) : Prop :=
  match o with CShallow m | COwnList m | CSetItem m _ _ | CExtend m _ | CConcat m _ => m < length (mobj h) end.
(* a history is admissible for the observer x when no step writes a list through an object whose _B is x._B at that moment *)
Fixpoint cadm (h : oheap) (x : nat) (os : list cop) : Prop :=
  match os with
  | [] => True
  | o :: t => cop_ok h o /\ match cwriter o with Some m => shares_list h x m = false | None => True end /\ cadm (cexec h o) x t
  end.

(* the body of _gauge_compatible_vL_vR when need_gauge holds; c = number of MPS objects before the call = the shallow copy *)
Definition set_items (c : nat) (writes : list (nat * nat)) : list cop := map (fun w => CSetItem c (fst w) (snd w)) writes.
Definition gauge_prog (other c : nat) (writes : list (nat * nat)) : list cop :=
  CShallow other :: COwnList c :: set_items c writes.
(* the same WITHOUT the list copy (what the helper must not be) *)
Definition gauge_prog_shared (other c : nat) (writes : list (nat * nat)) : list cop :=
  CShallow other :: set_items c writes.

(* ---- checkers for the correspondence stream *)
Fixpoint list_eqb (a b : list nat) : bool :=
  match a, b with
  | [], [] => true
  | x :: s, y :: t => Nat.eqb x y && list_eqb s t
  | _, _ => false
  end.
(* (need_gauge, L, indices i where res._B[i] is not b._B[i], (res is b, res._B is b._B, b._B is the same list with the same items)) *)
Definition gc_obs : Type := (bool * nat * list nat * (bool * bool * bool))%type.
Definition check_gauge_compatible (c : gc_obs) : bool :=
  let '(need, L, repl, (same_obj, same_list, b_unchanged)) := c in
  let h0 := mkOH [seq 0 L] [0] in
  if need then
    let h1 := crun h0 (gauge_prog 0 1 (map (fun i => (i, L + i)) repl)) in
    negb same_obj && Bool.eqb same_list (shares_list h1 0 1) && Bool.eqb b_unchanged (list_eqb (B_of h1 0) (seq 0 L))
    && forallb (fun i => i <? L) repl
  else same_obj && same_list && b_unchanged && match repl with [] => true | _ => false end.
(* (L, segment boundaries set, len(psi._B) after the query) *)
Definition check_query_list (c : nat * bool * nat) : bool :=
  let '(L, bnd, len_after) := c in
  let h0 := mkOH [seq 0 L] [0] in
  let h1 := if bnd then cexec h0 (CConcat 0 [L; S L]) else h0 in
  Nat.eqb len_after (length (B_of h1 0)).
