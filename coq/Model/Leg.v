(* Model of tenpy/linalg/charges.py: LegCharge (C06).  Definitions only.
   A leg is a list of blocks (size, charge vector) plus qconj; slices = cumulative sizes.
   Sizes and flat indices are integers (Z), block numbers (qindices) are nat.
   Modelled: slices, get_qindex (as documented: IndexError outside [-ind_len, ind_len)),
   to_qflat, sort (np.lexsort = stable, last charge primary), bunch, project, extend,
   flip_charges_qconj, conj, perm_flat_from_perm_qind, test_equal / test_contractible.
   Not modelled: the cached flags `sorted`/`bunched` (checked by the oracle through test_sanity
   at TENPY_OPTIMIZE=0), the ChargeInfo names. *)
From TenpyV Require Import Base.Prelude Model.ChargeL.
Open Scope Z_scope.

Definition block := (Z * cvec)%type.
Record leg := mkLeg { blocks : list block; qc : Z }.

Definition bsz (l : leg) : list Z := map fst (blocks l).
Definition bch (l : leg) : list cvec := map snd (blocks l).
Definition nblocks (l : leg) : nat := length (blocks l).
Definition ind_len (l : leg) : Z := sumZ (bsz l).
Definition blk (l : leg) (i : nat) : block := nth i (blocks l) (0, []).

(* slices[j] = sum of the first j sizes *)
Fixpoint offs (szs : list Z) (j : nat) : Z :=
  match j, szs with
  | S j', s :: t => s + offs t j'
  | _, _ => 0
  end.
Definition slices_of (szs : list Z) : list Z := map (offs szs) (seq 0 (S (length szs))).
Definition slices (l : leg) : list Z := slices_of (bsz l).

(* bisect.bisect(slices, k) - 1 for 0 <= k < sum: the block containing k (blocks of size 0
   are skipped), and the position inside it *)
Fixpoint locate (szs : list Z) (k : Z) : option (nat * Z) :=
  match szs with
  | [] => None
  | s :: t => if k <? s then Some (O, k)
              else match locate t (k - s) with Some (j, w) => Some (S j, w) | None => None end
  end.

(* get_qindex as documented: negative indices count from behind, IndexError (None) outside *)
Definition get_qindex (l : leg) (i : Z) : option (nat * Z) :=
  let n := ind_len l in
  let i' := if i <? 0 then i + n else i in
  if (i' <? 0) || (n <=? i') then None else locate (bsz l) i'.

Definition block_flat (b : block) : list cvec := repeat (snd b) (Z.to_nat (fst b)).
Definition qflat_blocks (bs : list block) : list cvec := flat_map block_flat bs.
Definition qflat (l : leg) : list cvec := qflat_blocks (blocks l).

(* ---- sort: stable insertion sort of (old qindex, block) by the lexsort key *)
Fixpoint sinsert (x : nat * block) (l : list (nat * block)) : list (nat * block) :=
  match l with
  | [] => [x]
  | y :: t => if key_leb (snd (snd x)) (snd (snd y)) then x :: l else y :: sinsert x t
  end.
Definition ssort (l : list (nat * block)) : list (nat * block) := fold_right sinsert [] l.

(* ---- bunch: merge contiguous blocks of equal charge (keeps the first charge, adds sizes) *)
Fixpoint bunch_blocks (bs : list block) : list block :=
  match bs with
  | [] => []
  | b :: t => match bunch_blocks t with
              | b' :: t' => if veqb (snd b) (snd b') then (fst b + fst b', snd b) :: t'
                            else b :: b' :: t'
              | [] => [b]
              end
  end.
(* idx[:-1] of LegCharge.bunch: the old qindices that are kept (first of every run) *)
Fixpoint bunch_idx_from (prev : cvec) (j : nat) (bs : list block) : list nat :=
  match bs with
  | [] => []
  | b :: t => (if veqb prev (snd b) then [] else [j]) ++ bunch_idx_from (snd b) (S j) t
  end.
Definition bunch_idx (bs : list block) : list nat :=
  match bs with [] => [] | b :: t => O :: bunch_idx_from (snd b) 1 t end.

Definition bunch_leg (l : leg) : list nat * leg :=
  (bunch_idx (blocks l) ++ [nblocks l], mkLeg (bunch_blocks (blocks l)) (qc l)).

Definition sort_leg (bunch : bool) (l : leg) : list nat * leg :=
  let s := ssort (combine (seq 0 (nblocks l)) (blocks l)) in
  let bs := map snd s in
  (map fst s, mkLeg (if bunch then bunch_blocks bs else bs) (qc l)).

(* perm_flat_from_perm_qind *)
Fixpoint zrange (start : Z) (n : nat) : list Z :=
  match n with O => [] | S n' => start :: zrange (start + 1) n' end.
Definition perm_flat (l : leg) (perm : list nat) : list Z :=
  flat_map (fun i => zrange (offs (bsz l) i) (Z.to_nat (fst (blk l i)))) perm.

(* ---- project: mask has one bool per flat index *)
Fixpoint count_true (m : list bool) : Z :=
  match m with [] => 0 | b :: t => (if b then 1 else 0) + count_true t end.
(* returns per old block: (number kept, charge) *)
Fixpoint project_blocks (bs : list block) (mask : list bool) : list block :=
  match bs with
  | [] => []
  | b :: t => let n := Z.to_nat (fst b) in
              (count_true (firstn n mask), snd b) :: project_blocks t (skipn n mask)
  end.
(* map_qind: new qindex of every old block, -1 for blocks projected out *)
Fixpoint map_qind_from (next : Z) (pb : list block) : list Z :=
  match pb with
  | [] => []
  | b :: t => if fst b =? 0 then (-1) :: map_qind_from next t else next :: map_qind_from (next + 1) t
  end.
Definition project_leg (l : leg) (mask : list bool) : list Z * leg :=
  let pb := project_blocks (blocks l) mask in
  (map_qind_from 0 pb, mkLeg (filter (fun b => negb (fst b =? 0)) pb) (qc l)).
(* the surviving part of a per-index list *)
Fixpoint select {A} (mask : list bool) (xs : list A) : list A :=
  match mask, xs with
  | b :: m, x :: t => if b then x :: select m t else select m t
  | _, _ => []
  end.

(* ---- conj / flip_charges_qconj / extend *)
Definition conj_leg (l : leg) : leg := mkLeg (blocks l) (- qc l).
Definition flip_leg (ci : chinfo) (l : leg) : leg :=
  mkLeg (map (fun b => (fst b, make_valid ci (vneg (snd b)))) (blocks l)) (- qc l).
Definition extend_leg (ci : chinfo) (l extra : leg) : leg :=
  mkLeg (blocks l ++ (if qc l =? qc extra then blocks extra
                      else map (fun b => (fst b, make_valid ci (vneg (snd b)))) (blocks extra)))
        (qc l).

(* physical charge of a block: make_valid (qconj * charge) *)
Definition phys (ci : chinfo) (q : Z) (c : cvec) : cvec := make_valid ci (vscale q c).
Fixpoint all2 {A B} (f : A -> B -> bool) (a : list A) (b : list B) : bool :=
  match a, b with
  | [], [] => true
  | x :: a', y :: b' => f x y && all2 f a' b'
  | _, _ => false
  end.
(* test_equal: same slices, same charges up to qconj *)
Definition leg_equal (ci : chinfo) (a b : leg) : bool :=
  all2 (fun x y => (fst x =? fst y) && veqb (phys ci (qc a) (snd x)) (phys ci (qc b) (snd y)))
       (blocks a) (blocks b).
Definition contractible (ci : chinfo) (a b : leg) : bool := leg_equal ci a (conj_leg b).

Definition leg_ok (ci : chinfo) (l : leg) : bool :=
  forallb (fun b => (0 <=? fst b) && valid_charge ci (snd b)) (blocks l)
  && ((qc l =? 1) || (qc l =? -1)).
