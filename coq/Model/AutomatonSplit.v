(* Preconditions of MultiCouplingTerms.add_multi_coupling_term (tenpy/networks/terms.py) for the model
   split_term of Model/AutomatonMulti.v: `i < j < k < ...`, len(ijkl) == len(ops_ijkl) == len(op_string) + 1,
   ijkl[0] <= switchLR <= ijkl[-1].  Definitions only (proofs in Proofs/AutomatonMultiP2.v). *)
From TenpyV Require Import Base.Prelude Model.Automaton Model.AutomatonMulti.
Open Scope Z_scope.

(* sites strictly ascending *)
Fixpoint ops_asc (ops : list (nat * Z)) : bool :=
  match ops with
  | [] => true
  | x :: ops' => match ops' with [] => true | y :: _ => (fst x <? fst y)%nat end && ops_asc ops'
  end.
Definition dflt_op : nat * Z := (0%nat, 0).
Definition split_ok (ops : list (nat * Z)) (strs : list Z) (sw : nat) : bool :=
  ops_asc ops && Nat.eqb (length ops) (S (length strs)) &&
  (fst (hd dflt_op ops) <=? sw)%nat && (sw <=? fst (last ops dflt_op))%nat.
