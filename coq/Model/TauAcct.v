(* Complex time bookkeeping of the TEBD family (property C14): calc_U(order, delta_t, type_evo) records
   tau = (a + b i) * delta_t and evolve / update_imag advance evolved_time by N_steps * tau.
   The table type_evo -> (a, b) and the shape of the two increments are read from tenpy/algorithms/tebd.py
   into Gen/G_tau.v on every run (translator/export_c14_tau.py, tie T); the run_GS / run_imaginary call
   sequences of real engines are replayed through run_time by the harness (tie K).
   Complex numbers with integer parts in ticks: (re, im). *)
From TenpyV Require Import Base.Prelude Gen.G_tau.
From Coq Require Import String.
Open Scope Z_scope.

Fixpoint lookup_tau (k : string) (l : list (string * (Z * Z))) : option (Z * Z) :=
  match l with
  | [] => None
  | (k', v) :: r => if String.eqb k k' then Some v else lookup_tau k r
  end.

(* one  calc_U(order, dt, ty) ; evolve(n, dt) | update_imag(n)  pair *)
Definition tcall := (string * Z * Z)%type.   (* (type_evo, delta_t ticks, N_steps) *)

Definition step_time (tbl : list (string * (Z * Z))) (t : Z * Z) (c : tcall) : option (Z * Z) :=
  let '(ty, dt, n) := c in
  match lookup_tau ty tbl with
  | None => None                                        (* calc_U raises ValueError *)
  | Some (a, b) => Some (fst t + n * (a * dt), snd t + n * (b * dt))
  end.

Fixpoint run_time (tbl : list (string * (Z * Z))) (t : Z * Z) (h : list tcall) : option (Z * Z) :=
  match h with
  | [] => Some t
  | c :: r => match step_time tbl t c with None => None | Some t' => run_time tbl t' r end
  end.

(* the documented convention: real time advances the real part, imaginary time lowers the imaginary part *)
Definition documented_tau : list (string * (Z * Z)) := [("real"%string, (1, 0)); ("imag"%string, (0, -1))].

Definition steps_of (ty : string) (h : list tcall) : Z :=
  sumZ (map (fun c : tcall => let '(ty', dt, n) := c in if String.eqb ty' ty then n * dt else 0) h).

Definition known_type (c : tcall) : bool :=
  let '(ty, _, _) := c in String.eqb ty "real" || String.eqb ty "imag".

(* both increment statements of the source have the shape  + N_steps * tau *)
Definition incr_ok : bool := forallb (fun x : string * bool => snd x) tebd_incr && (2 <=? List.length tebd_incr)%nat.

(* correspondence: (history, re ticks, im ticks) observed on a real engine *)
Definition check_tau (x : list tcall * Z * Z) : bool :=
  let '(h, re, im) := x in
  match run_time tebd_tau (0, 0) h with
  | Some (r, i) => (r =? re) && (i =? im)
  | None => false
  end.
