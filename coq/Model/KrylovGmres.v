(* Model of the restart bookkeeping of tenpy/linalg/krylov_based.py GMRES.run / GMRES.reset (property C16).
   Definitions only (proofs in Proofs/KrylovGmresP.v).  Tie to the code: correspondence (K), harness/c16.py
   stream `gmresr`: the solver is observed from outside (counting operator, wrapped reset, traced x).

   The float kernel (Arnoldi coefficients, Givens rotations, back substitution) is NOT modelled.  Inputs of the
   model taken from the run: for every cycle c and Arnoldi step k whether the residual estimate was below the
   tolerance (`error < res`) and whether it had reached the rounding level of the residual at the start of the cycle
   (`error <= eps * total_error[-1][0]`), and whether the residual of the initial guess was below the tolerance.

   Events (tag, a, b, c) recorded by the instrumented run:
     (14,c,0,0)   A.matvec(x) for the residual r_c = b - A x      (c = 0: __init__, c > 0: reset after cycle c-1)
     (10,c,s,0)   state after the (re)start of cycle c; s = 0 iff ALL of: qs holds one vector; r_norm is the float
                  npc.norm(r_c) (the ABSOLUTE norm); e1 = r_norm * (1,0,..,0) of length N_max+1; qs[0] is r_c scaled by
                  1/norm(r_c); H, sine, cosine are zeros of size N_max; total_error got the new entry [norm(r_c)/norm(b)]
                  and rs the new residual.  (s is a bit mask of the violated items.)
     (11,c,k,l)   A.matvec(qs[-1]) in Arnoldi step k of cycle c, with l Krylov vectors in qs before the call
     (12,c,i,0)   x += y[i] * qs[i]   (update at the end of cycle c)
     (13,c,0,0)   reset() called after cycle c
     (15,0,0,0)   A.matvec(x) for the returned residual *)
From TenpyV Require Import Base.Prelude Model.Truncate Model.Krylov.

(* per Arnoldi step two observed booleans (below, exhausted):
     below     = `error < res`
     exhausted = `error <= eps * total_error[-1][0]`: the estimate reached the rounding level of the residual the cycle started
                 from, i.e. the Krylov space is exhausted (continuing would divide 0/0)
   the stop test of step k:  below and (k >= N_min or exhausted) *)
Definition gm_below (fl : list (bool * bool)) (k : nat) : bool := fst (nth k fl (false, false)).
Definition gm_exh (fl : list (bool * bool)) (k : nat) : bool := snd (nth k fl (false, false)).
Definition gm_hit (N_min : nat) (fl : list (bool * bool)) (k : nat) : bool :=
  gm_below fl k && ((N_min <=? k)%nat || gm_exh fl k).

(* for k in range(k0, k0+n): ...; if hit: converged = True; break     returns (k_last + 1, converged) *)
Fixpoint gm_inner (N_min k n : nat) (fl : list (bool * bool)) : nat * bool :=
  match n with
  | O => (k, false)
  | S n' => if gm_hit N_min fl k then (S k, true) else gm_inner N_min (S k) n' fl
  end.

(* for _ in range(restart): one cycle; if not converged: reset() else break *)
Fixpoint gm_cycles (N_min N_max r : nat) (fls : list (list (bool * bool))) : list (nat * bool) :=
  match r with
  | O => []
  | S r' =>
    let p := gm_inner N_min 0 N_max (hd [] fls) in
    p :: (if snd p then [] else gm_cycles N_min N_max r' (tl fls))
  end.

Definition gm_cycle_events (c K : nat) : list ev :=
  map (fun k => (11, c, k, S k)%nat) (seq 0 K) ++ map (fun i => (12, c, i, 0)%nat) (seq 0 K).

Definition gm_restart_events (c : nat) : list ev := [(13, c, 0, 0); (14, S c, 0, 0); (10, S c, 0, 0)]%nat.

Fixpoint gm_run_events (c : nat) (l : list (nat * bool)) : list ev :=
  match l with
  | [] => []
  | (K, cv) :: t => gm_cycle_events c K ++ (if cv then [] else gm_restart_events c) ++ gm_run_events (S c) t
  end.

(* GMRES.__init__ followed by GMRES.run *)
Definition gmres_events (N_min N_max restart : nat) (init_below : bool) (fls : list (list (bool * bool))) : list ev :=
  (14, 0, 0, 0)%nat :: (10, 0, 0, 0)%nat ::
  (if init_below then [] else gm_run_events 0 (gm_cycles N_min N_max restart fls) ++ [(15, 0, 0, 0)%nat]).

Definition gmres_iters (N_min N_max restart : nat) (init_below : bool) (fls : list (list (bool * bool))) : list nat :=
  if init_below then [] else map fst (gm_cycles N_min N_max restart fls).

(* observables used in the theorems *)
Definition ev_tag (e : ev) : nat := match e with (t, _, _, _) => t end.
Definition count_tag (t : nat) (l : list ev) : nat := length (filter (fun e => (ev_tag e =? t)%nat) l).
Definition gm_resets (l : list (nat * bool)) : nat := length (filter (fun p => negb (snd p)) l).
Definition sum_nat (l : list nat) : nat := fold_right Nat.add 0%nat l.
(* the event directly after position i *)
Definition ev_at (l : list ev) (i : nat) : ev := nth i l (0, 0, 0, 0)%nat.

(* what a (re)start looks like in the trace *)
Definition ev_fresh (e : ev) : Prop :=
  match e with (t, c, s, l) =>
    (t = 10%nat -> s = 0%nat) /\        (* every start state satisfies all restart invariants *)
    (t = 11%nat -> l = S s)              (* Arnoldi step k works on k+1 Krylov vectors: one after a (re)start *)
  end.

(* ---- correspondence checker: (N_min, N_max, restart, init_below, flags, events of the run, total_iters) *)
Definition check_gmres (x : nat * nat * nat * bool * list (list (bool * bool)) * list ev * list nat) : bool :=
  match x with (N_min, N_max, restart, ib, fls, evs, iters) =>
    list_eqb ev_eqb evs (gmres_events N_min N_max restart ib fls) &&
    list_eqb Nat.eqb iters (gmres_iters N_min N_max restart ib fls) end.
