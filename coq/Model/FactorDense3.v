(* C05: the assembled Q of qr(mode='complete') incl. the identity fill-in, and VH of svd(full_matrices=True)
   (definitions only; conventions of Model/FactorDense.v / FactorDense2.v).
   np_conserved.qr, mode 'complete':  q._qdata[:, 1] = q._qdata[:, 0]; then
       for qi in range(a_leg0.block_number): if no stored block has row qi:
           extra_q_qdata.append([qi, qi]); q_data.append(np.eye(size of block qi))
   _svd_worker, full_matrices:  VH_qdata = [qi_R, qi_R] for the stored blocks (U_qdata = [qi_L, qi_L] is svd_U_full).
   Tie to the code: executed against npc.qr / npc.svd by Model/FactorCase3.v in the 'plan' stream of harness/c05.py
   (check_qr_fill_case, check_svd_vfull_case). *)
From TenpyV Require Import Base.Prelude Model.FactorDense Model.FactorDense2.
Open Scope Z_scope.

Definition erow (e : bent) : nat := fst (fst e).
Definition ecol (e : bent) : nat := snd (fst e).
Definition emat (e : bent) : dmat := snd e.
(* the entry of the transposed matrix *)
Definition tent (e : bent) : bent := (ecol e, erow e, mT (emat e)).

(* the row blocks (in increasing order) that have no stored block *)
Definition qr_fill (nrows : nat) (stored : list nat) : list nat :=
  filter (fun q => negb (existsb (Nat.eqb q) stored)) (seq 0 nrows).
(* Q of mode='complete': blocks (i_k, i_k, Q_k) of the stored blocks in _data order, then the identity blocks *)
Definition qr_complete_Q (rs : list nat) (ps : list mpair) : list bent :=
  pairs_L ps ++ map (fun q => (q, q, delta)) (qr_fill (length rs) (map p_i ps)).

(* VH of full_matrices=True *)
Definition svd_V_full (fs : list sblock) : list bent :=
  map (fun e => (sb_col e, sb_col e, f_V (sb_fac e))) fs.
