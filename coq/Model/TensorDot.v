(* Values of tensordot(a, b, axes=k) on the storage model of Model/Tensor.v (definitions only).
   Model/TensorOps.v models tensordot only on the level of _qdata rows / charges (tdot_rows, tdot_legs, tdot_qtot; these are the
   definitions the correspondence stream of harness/c01.py compares with the implementation).  Here the block VALUES are added:

     tdot_block   the block matrix product of one block of a with one block of b (same contracted qindices):
                  entry [ia ++ ib] = sum over the multi-index c INSIDE the contracted charge block of  A[ia ++ c] * B[c ++ ib]
     tdot_pairs   one such product per pair of blocks whose contracted qindices agree; map fst (tdot_pairs k a b) = tdot_rows k a b
     collect      products with the same result row (kept qindices of a ++ kept qindices of b) are added up
                  (the sum over k in  C_{i,j} = sum_k A_{i,k} B_{k,j}  of _tensordot_worker)
     tensordot    legs / qtotal as tdot_legs / tdot_qtot, blocks = collected products sorted by row, _qdata_sorted = True
                  (the worker loops over the lexsorted distinct kept rows of b and, inside, of a, and sets _qdata_sorted = True)
     d_tensordot  np.tensordot on dense arrays given as functions of the multi-index: finite sum over the contracted multi-index.

   NOT modelled: the look-up of compatible (row_a, col_b) by charge (a_lookup_charges / b_charges_match), which skips pairs of
   kept rows violating the charge rule before looking for common contracted blocks; T02_charge_rule_tensordot proves that every
   pair with a common contracted block passes this filter.
   Tie to the code: through tdot_rows / tdot_legs / tdot_qtot of Model/TensorOps.v (correspondence-checked) and the theorems of
   Proofs/TensorDotP.v linking these definitions to them. *)
From TenpyV Require Import Base.Prelude Model.Charge Model.Tensor Model.TensorOps.
Open Scope Z_scope.

Definition csum (l : list C) : C := fold_right cadd c0 l.

(* all multi-indices of a box of the given shape, C order *)
Definition multi_idx (shape : list nat) : list (list nat) :=
  fold_right (fun n acc => flat_map (fun i => map (cons i) acc) (seq 0 n)) [[]] shape.

(* sizes of the charge blocks qs of the legs ls *)
Definition box (ls : list leg) (qs : list nat) : list nat := map (fun p => bsize (fst p) (snd p)) (combine ls qs).

(* nk = number of kept legs of a, k = number of contracted legs, lc = the contracted legs (of a) *)
Definition tdot_block (nk k : nat) (lc : list leg) (ba bb : block) : block :=
  (firstn nk (fst ba) ++ skipn k (fst bb),
   fun idx => csum (map (fun c => cmul (snd ba (firstn nk idx ++ c)) (snd bb (c ++ skipn nk idx)))
                        (multi_idx (box lc (skipn nk (fst ba)))))).

Definition tdot_pairs (k : nat) (a b : arr) : list block :=
  flat_map (fun bb => flat_map (fun ba =>
     if row_eqb (skipn (rank a - k) (fst ba)) (firstn k (fst bb))
     then [tdot_block (rank a - k) k (skipn (rank a - k) (legs a)) ba bb] else [])
     (blks a)) (blks b).

Fixpoint add_block (b : block) (l : list block) : list block :=
  match l with
  | [] => [b]
  | c :: t => if row_eqb (fst c) (fst b) then (fst c, badd (snd c) (snd b)) :: t else c :: add_block b t
  end.
Definition collect (l : list block) : list block := fold_right add_block [] l.

Definition tensordot (ci : chinfo) (k : nat) (a b : arr) : arr :=
  mkArr (tdot_legs k a b) (tdot_qtot ci a b) (sort_blocks (collect (tdot_pairs k a b))) true.

(* dense: A has nk + length cshape indices, B has length cshape + ... indices *)
Definition d_tensordot (A B : list nat -> C) (cshape : list nat) (nk : nat) (idx : list nat) : C :=
  csum (map (fun c => cmul (A (firstn nk idx ++ c)) (B (c ++ skipn nk idx))) (multi_idx cshape)).
