(* C08 -- correspondence checker for the WEIGHT LOOP of Model/Sample.v (stream `sample_loop` of harness/c08.py).
   Definitions only.

   The abstract model (sample_loop / sample_weight / sample_factors, parametrised by amplitudes K and tensors V) is
   INSTANTIATED here with exact data: K = Gaussian rationals (pairs of Q), V = rank-3 tensors theta[vL][p][vR] of Gaussian
   rationals (after take_slice the p-leg is kept with dimension 1),
       proj i s   = take_slice(s, 'p')                  (ops=None: no rotation; i is not used)
       attach i   = tensordot(theta, B_(i mod L), axes=['vR','vL'])   with the tensors B the implementation's get_B returned
       vnorm      = Frobenius norm (exact rational square root; a value that is not a perfect square is mapped to -1 so that
                    it can never be equal to an observed norm)
       vscale, vscalar = entrywise scaling, theta[0,0].
   The checker runs the MODEL functions sample_factors and sample_weight of Model/Sample.v (not a re-implementation) on the
   theta0 = get_theta(first_site, n=1) and the tensors get_B(i) observed in the implementation run and on the outcome the
   implementation drew, and compares EXACTLY with what the implementation computed: the list of the per-site `weight`s
   (values of npc.norm(theta) in the loop) and the returned total_weight, for both values of complex_amplitude and with
   full = (bc == 'finite' and first_site == 0 and last_site == L - 1).  The generated states have amplitudes of the form
   unit * 2^-k with unit in {1, -1, i, -i} and all squared norms powers of 4, hence every floating-point operation of the
   implementation is exact and equality of rationals is the right comparison. *)
From TenpyV Require Import Base.Prelude Model.Sample.
From Coq Require Import QArith.
Open Scope Z_scope.

Definition GQ : Type := (Q * Q)%type.
Definition gq_zero : GQ := (0%Q, 0%Q).
Definition gq_one : GQ := (1%Q, 0%Q).
Definition gq_add (a b : GQ) : GQ := (Qred (fst a + fst b)%Q, Qred (snd a + snd b)%Q).
Definition gq_mul (a b : GQ) : GQ :=
  (Qred (fst a * fst b - snd a * snd b)%Q, Qred (fst a * snd b + snd a * fst b)%Q).
Definition gq_n2 (a : GQ) : Q := Qred (fst a * fst a + snd a * snd a)%Q.
Definition gq_inv (a : GQ) : GQ := (Qred (fst a / gq_n2 a)%Q, Qred (- snd a / gq_n2 a)%Q).
Definition gq_abs2 (a : GQ) : GQ := (gq_n2 a, 0%Q).
Definition gq_eqb (a b : GQ) : bool := Qeq_bool (fst a) (fst b) && Qeq_bool (snd a) (snd b).

(* exact square root of a non-negative rational that is a perfect square; -1 otherwise *)
Definition q_sqrt (q : Q) : Q :=
  let r := Qred q in
  let s := Qmake (Z.sqrt (Qnum r)) (Pos.sqrt (Qden r)) in
  if Qeq_bool (s * s)%Q r then s else (-1)%Q.

Definition GT : Type := list (list (list GQ)).   (* theta[vL][p][vR] *)

Definition gt_sum2 (t : GT) : Q :=
  fold_right (fun row acc => fold_right (fun v acc1 => fold_right (fun x acc2 => Qred (gq_n2 x + acc2)%Q) acc1 v) acc row) 0%Q t.
Definition gt_norm (t : GT) : GQ := (q_sqrt (gt_sum2 t), 0%Q).
Definition gt_scale (c : GQ) (t : GT) : GT := map (map (map (gq_mul c))) t.
Definition gt_scalar (t : GT) : GQ := nth 0 (nth 0 (nth 0 t []) []) gq_zero.
Definition gt_proj (i s : Z) (t : GT) : GT := map (fun row => [nth (Z.to_nat s) row []]) t.

Fixpoint vec_add (a b : list GQ) : list GQ :=
  match a, b with x :: a', y :: b' => gq_add x y :: vec_add a' b' | _, _ => [] end.
Fixpoint mat_add (a b : list (list GQ)) : list (list GQ) :=
  match a, b with x :: a', y :: b' => vec_add x y :: mat_add a' b' | _, _ => [] end.
(* sum_b m[b] * B[b]  (B[b] : matrix [p][vR']) *)
Fixpoint vec_mat (zero : list (list GQ)) (m : list GQ) (B : GT) : list (list GQ) :=
  match m, B with
  | x :: m', Bb :: B' => mat_add (map (map (gq_mul x)) Bb) (vec_mat zero m' B')
  | _, _ => zero
  end.
Definition gt_attach (Bs : list GT) (L : Z) (i : Z) (t : GT) : GT :=
  let B := nth (Z.to_nat (i mod L)) Bs [] in
  let zero := map (map (fun _ => gq_zero)) (nth 0 B []) in
  map (fun row => vec_mat zero (nth 0 row []) B) t.

Definition gt_factors (Bs : list GT) (L : Z) :=
  sample_factors GQ GT gq_inv gt_norm gt_scale gt_proj (gt_attach Bs L).
Definition gt_weight (Bs : list GT) (L : Z) :=
  sample_weight GQ GT gq_one gq_mul gq_inv gq_abs2 gt_norm gt_scale gt_scalar gt_proj (gt_attach Bs L).

(* bc == 'finite' and first_site == 0 and last_site == self.L - 1 *)
Definition sample_full (finite : bool) (first last L : Z) : bool := finite && (first =? 0) && (last =? L - 1).

(* literals: a rational is (numerator, denominator > 0) *)
Definition RQ : Type := (Z * Z)%type.
Definition RG : Type := (RQ * RQ)%type.
Definition mkq (r : RQ) : Q := Qmake (fst r) (Z.to_pos (snd r)).
Definition mkg (g : RG) : GQ := (mkq (fst g), mkq (snd g)).
Definition mkt (t : list (list (list RG))) : GT := map (map (map mkg)) t.

Fixpoint gq_list_eqb (a b : list GQ) : bool :=
  match a, b with
  | [], [] => true
  | x :: a', y :: b' => gq_eqb x y && gq_list_eqb a' b'
  | _, _ => false
  end.

(* one call: (first_site, complex_amplitude, theta0, outcome sigma_first.., observed weights, observed total_weight) *)
Definition sample_query : Type := (Z * bool * list (list (list RG)) * list Z * list RQ * RG)%type.

Definition check_sample_query (finite : bool) (L : Z) (Bs : list GT) (q : sample_query) : bool :=
  let '(first, camp, th0, sig, ws, tot) := q in
  let theta0 := mkt th0 in
  let last := first + Z.of_nat (length sig) - 1 in
  let full := sample_full finite first last L in
  match sig with
  | [] => false
  | _ :: _ =>
      gq_list_eqb (gt_factors Bs L first theta0 sig) (map (fun w => (mkq w, 0%Q)) ws)
      && gq_eqb (gt_weight Bs L full camp first theta0 sig) (mkg tot)
  end.

(* one state with several calls: (finite, L, [get_B(0); ..; get_B(L-1)], calls) *)
Definition check_sample_case (c : bool * Z * list (list (list (list RG))) * list sample_query) : bool :=
  let '(finite, L, bs, qs) := c in
  let Bs := map mkt bs in
  match qs with [] => false | _ :: _ => forallb (check_sample_query finite L Bs) qs end.
