(* Simulation.fix_output_filenames (tenpy/simulations/simulation.py), choice of the output filename (property C18).
   Definitions only; proofs in Proofs/FixNamesP.v.
   `ex i` = does candidate i exist on disk: candidate 0 is the configured output_filename, candidate i >= 1 is
   root + '_' + str(i) + ext.  The code looks at the output candidates only (never at their backups):
     if out_fn.exists():
         if skip_if_exists: raise Skip
         if not overwrite_output and not self.loaded_from_checkpoint:
             for i in range(1, 100): if not new_out_fn.exists(): break
             else: raise ValueError('Refuse to make another copy. CLEAN UP!')
   Afterwards the marker text is written to the BACKUP name of the chosen candidate if that backup does not exist
   (Model/Fs.v `init_ops` models the two files of the chosen name).
   Tie to the code: correspondence stream `fix-name` of harness/c18.py (checker Model/FixNamesCheck.v `check_fix_name`):
   Simulation.fix_output_filenames of the current source is called (through Simulation.__init__ and directly) in
   temporary directories pre-populated with generated subsets of the candidate names (random, dense prefixes with a hole,
   0..98, 0..99, 0..99 minus one, 1..99) plus names it must ignore (backup / __old__ / zero-padded / _0 / _100 / other
   extension), for all settings of skip_if_output_exists, overwrite_output, loaded_from_checkpoint; the recorded
   Skip / ValueError / index of the chosen output_filename is compared with `fix_name` (ex = membership of the index in the
   list of existing candidates). *)
From TenpyV Require Import Base.Prelude.

Fixpoint first_free (ex : nat -> bool) (i fuel : nat) : option nat :=
  match fuel with
  | O => None
  | S f => if ex i then first_free ex (S i) f else Some i
  end.

Inductive fix_res := FSkip | FRaise | FName (i : nat).

Definition fix_name (ex : nat -> bool) (skip_if_exists overwrite loaded_from_checkpoint : bool) : fix_res :=
  if ex 0%nat then
    if skip_if_exists then FSkip
    else if (negb overwrite && negb loaded_from_checkpoint)%bool then
      match first_free ex 1 99 with Some i => FName i | None => FRaise end
    else FName 0
  else FName 0.
