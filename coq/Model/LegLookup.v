(* Look-ups of tenpy.linalg.charges.LegCharge by charge.  Definitions only.
     get_charge(qindex)             = charges[qindex] * qconj                       (Model/TakeSlice.v: leg_charge)
     get_qindex_of_charges(charges) = the unique block whose stored charge equals make_valid(qconj * charges); ValueError
                                      (here None) when there is none or more than one.  Documented as the inverse of get_charge.
   sparse.FlatLinearOperator (compact flat mode) uses this look-up to find the single block of a vector of total charge
   `charge_sector` on its leg and builds the vector by hand (_qdata = [[qi]], qtotal = charge_sector): the vector obeys the
   charge rule iff make_valid(get_charge(qi)) = charge_sector.
   Tie to the code: correspondence (K), stream leg-lookups of harness/c02.py (checker Model/LegLookupCheck.v). *)
From TenpyV Require Import Base.Prelude Model.Charge Model.Tensor Model.TakeSlice.
Open Scope Z_scope.

(* indices (counted from i) of the rows equal to c:  np.nonzero(np.all(c == self.charges, axis=1))[0] *)
Fixpoint find_rows (c : list Z) (rows : list (list Z)) (i : nat) : list nat :=
  match rows with
  | [] => []
  | r :: rows' => if list_eqb c r then i :: find_rows c rows' (S i) else find_rows c rows' (S i)
  end.

Definition qindex_of_charges (ci : chinfo) (l : leg) (c : list Z) : option nat :=
  match find_rows (make_valid ci (vscale (qc l) c)) (bch l) 0%nat with
  | [i] => Some i
  | _ => None
  end.

(* the same look-up WITHOUT the factor qconj (what a regression that drops it computes) *)
Definition qindex_of_charges_noconj (ci : chinfo) (l : leg) (c : list Z) : option nat :=
  match find_rows (make_valid ci c) (bch l) 0%nat with
  | [i] => Some i
  | _ => None
  end.

(* documented invariants of a LegCharge: qconj = +-1, one reduced entry per charge in every row (LegCharge.test_sanity) *)
Definition leg_ok (ci : chinfo) (l : leg) : Prop :=
  (qc l = 1 \/ qc l = -1) /\ Forall (fun r => check_valid ci r = true) (bch l).
(* blocked by charge: the map qindex -> charge is injective *)
Definition blocked (l : leg) : Prop := NoDup (bch l).

(* the one-block vector FlatLinearOperator.flat_to_npc builds in compact mode: legs [l], qtotal = sector, _qdata = [[qi]] *)
Definition compact_vector (l : leg) (sector : list Z) (qi : nat) : arr :=
  mkArr [l] sector [([qi], fun _ => c0)] true.
