(* Model of tenpy/tools/cache.py: DictCache over an abstract Storage (property C20).
   Definitions only; proofs in Proofs/CacheP.v.  Tie to the code: correspondence (K),
   harness/c20.py streams "cache" / "cache-threaded" / "sched".

   Keys and values are integers (the harness uses the keys "k0", "k1", ... and integer values).
   The model states what the class documents (a dictionary that keeps some values in RAM):
     __setitem__   long_term_keys.add, storage.save, refresh short_term_cache if a short-term key
     __getitem__   short_term_cache hit | KeyError if not in long_term_keys | storage.load (+ cache it)
     get           default if not in long_term_keys, else __getitem__
     __delitem__   if present: long_term_keys.remove, storage.delete AND forget the short-term copy
     preload       short_term_keys.add for all keys, then storage.preload for the present ones
                   (KeyError at the first missing one if raise_missing)
     set_short_term_keys   replace short_term_keys, evict everything else from short_term_cache
   The storage is abstract: four operations on a state; `storage_ok` is the contract a storage has
   to meet (stated with an abstraction function to a partial map and an invariant, so that storages
   whose load changes their state, like ThreadedStorage, are instances).  *)
From TenpyV Require Import Base.Prelude.
Open Scope Z_scope.

(* ---- association lists and key sets (sorted insertion so that keys() is canonical) *)
Fixpoint d_get (k : Z) (d : list (Z * Z)) : option Z :=
  match d with
  | [] => None
  | (k', v') :: t => if k =? k' then Some v' else d_get k t
  end.
Fixpoint d_set (k v : Z) (d : list (Z * Z)) : list (Z * Z) :=
  match d with
  | [] => [(k, v)]
  | (k', v') :: t => if k <? k' then (k, v) :: d
                     else if k =? k' then (k, v) :: t else (k', v') :: d_set k v t
  end.
Definition d_del (k : Z) (d : list (Z * Z)) : list (Z * Z) := filter (fun p => negb (fst p =? k)) d.
Definition d_has (k : Z) (d : list (Z * Z)) : bool := match d_get k d with Some _ => true | None => false end.

Definition ks_mem (k : Z) (s : list Z) : bool := existsb (fun x => x =? k) s.
Fixpoint ks_add (k : Z) (s : list Z) : list Z :=
  match s with
  | [] => [k]
  | x :: t => if k <? x then k :: s else if k =? x then s else x :: ks_add k t
  end.
Definition ks_del (k : Z) (s : list Z) : list Z := filter (fun x => negb (x =? k)) s.
Definition ks_of_list (l : list Z) : list Z := fold_left (fun a k => ks_add k a) l [].

(* ---- the storage interface *)
Record storage_ops (St : Type) := mkSOps {
  s_load : St -> Z -> St * option Z;       (* None: the storage cannot produce the value *)
  s_save : St -> Z -> Z -> St;
  s_delete : St -> Z -> St;
  s_preload : St -> Z -> St
}.
Arguments mkSOps {St}. Arguments s_load {St}. Arguments s_save {St}. Arguments s_delete {St}. Arguments s_preload {St}.

(* contract: `abs s` is the partial map the storage denotes; DictCache only ever loads, preloads
   and deletes keys it has saved, so the contract is only needed for those *)
Definition storage_ok {St} (o : storage_ops St) (abs : St -> Z -> option Z) (inv : St -> Prop) : Prop :=
  (forall s k v, inv s -> abs s k = Some v ->
     snd (s_load o s k) = Some v /\ inv (fst (s_load o s k)) /\
     forall k', abs (fst (s_load o s k)) k' = abs s k') /\
  (forall s k v, inv s ->
     inv (s_save o s k v) /\ abs (s_save o s k v) k = Some v /\
     forall k', k' <> k -> abs (s_save o s k v) k' = abs s k') /\
  (forall s k, inv s -> abs s k <> None ->
     inv (s_delete o s k) /\ forall k', k' <> k -> abs (s_delete o s k) k' = abs s k') /\
  (forall s k, inv s -> abs s k <> None ->
     inv (s_preload o s k) /\ forall k', abs (s_preload o s k) k' = abs s k').

(* the trivial Storage (a dict), also the model of a correct disk storage *)
Definition dict_storage : storage_ops (list (Z * Z)) :=
  mkSOps (fun s k => (s, d_get k s)) (fun s k v => d_set k v s) (fun s k => d_del k s) (fun s _ => s).

(* ---- DictCache *)
Record cache (St : Type) := mkC {
  c_store : St;                 (* long_term_storage *)
  c_ltk : list Z;               (* long_term_keys *)
  c_stc : list (Z * Z);         (* short_term_cache *)
  c_stk : list Z                (* short_term_keys *)
}.
Arguments mkC {St}. Arguments c_store {St}. Arguments c_ltk {St}. Arguments c_stc {St}. Arguments c_stk {St}.

Inductive c_op :=
| CSet (k v : Z)
| CGetItem (k : Z)
| CGet (k : Z)
| CDel (k : Z)
| CContains (k : Z)
| CPreload (ks : list Z) (raise_missing : bool)
| CShort (ks : list Z)
| CKeys.

Inductive c_out :=
| ONone
| OVal (v : Z)
| OAbsent                 (* get() returned the default *)
| OKeyError
| OBool (b : bool)
| OKeys (ks : list Z)     (* sorted(cache.keys()) *)
| OStorageError.          (* the storage failed to return a value it was given; never happens
                             over a storage that meets the contract (proved) *)

Section WithStorage.
  Context {St : Type} (o : storage_ops St).

  Definition c_getitem (c : cache St) (k : Z) : cache St * c_out :=
    match d_get k (c_stc c) with
    | Some v => (c, OVal v)
    | None =>
        if ks_mem k (c_ltk c) then
          let (s', r) := s_load o (c_store c) k in
          match r with
          | Some v => (mkC s' (c_ltk c) (if ks_mem k (c_stk c) then d_set k v (c_stc c) else c_stc c)
                           (c_stk c), OVal v)
          | None => (mkC s' (c_ltk c) (c_stc c) (c_stk c), OStorageError)
          end
        else (c, OKeyError)
    end.

  (* second loop of preload(): returns the storage and whether a KeyError was raised *)
  Fixpoint preload_loop (s : St) (ltk ks : list Z) (rm : bool) : St * bool :=
    match ks with
    | [] => (s, false)
    | k :: t => if ks_mem k ltk then preload_loop (s_preload o s k) ltk t rm
                else if rm then (s, true) else preload_loop s ltk t rm
    end.

  Definition c_step (c : cache St) (op : c_op) : cache St * c_out :=
    match op with
    | CSet k v =>
        (mkC (s_save o (c_store c) k v) (ks_add k (c_ltk c))
             (if ks_mem k (c_stk c) then d_set k v (c_stc c) else c_stc c) (c_stk c), ONone)
    | CGetItem k => c_getitem c k
    | CGet k => if ks_mem k (c_ltk c) then c_getitem c k else (c, OAbsent)
    | CDel k =>
        if ks_mem k (c_ltk c)
        then (mkC (s_delete o (c_store c) k) (ks_del k (c_ltk c)) (d_del k (c_stc c)) (c_stk c), ONone)
        else (c, ONone)
    | CContains k => (c, OBool (ks_mem k (c_ltk c)))
    | CPreload ks rm =>
        let stk := fold_left (fun a k => ks_add k a) ks (c_stk c) in
        let (s', err) := preload_loop (c_store c) (c_ltk c) ks rm in
        (mkC s' (c_ltk c) (c_stc c) stk, if err then OKeyError else ONone)
    | CShort ks =>
        let stk := ks_of_list ks in
        (mkC (c_store c) (c_ltk c) (filter (fun p => ks_mem (fst p) stk) (c_stc c)) stk, ONone)
    | CKeys => (c, OKeys (c_ltk c))
    end.

  Fixpoint c_run (c : cache St) (ops : list c_op) : cache St * list c_out :=
    match ops with
    | [] => (c, [])
    | op :: t => let (c1, x) := c_step c op in let (c2, xs) := c_run c1 t in (c2, x :: xs)
    end.
End WithStorage.

Definition c_empty {St} (s : St) : cache St := mkC s [] [] [].

(* ---- the specification: a plain dictionary *)
Definition d_step (d : list (Z * Z)) (op : c_op) : list (Z * Z) * c_out :=
  match op with
  | CSet k v => (d_set k v d, ONone)
  | CGetItem k => (d, match d_get k d with Some v => OVal v | None => OKeyError end)
  | CGet k => (d, match d_get k d with Some v => OVal v | None => OAbsent end)
  | CDel k => (d_del k d, ONone)            (* like the class: deleting an absent key is a no-op *)
  | CContains k => (d, OBool (d_has k d))
  | CPreload ks rm => (d, if rm && existsb (fun k => negb (d_has k d)) ks then OKeyError else ONone)
  | CShort _ => (d, ONone)
  | CKeys => (d, OKeys (map fst d))
  end.

Fixpoint d_run (d : list (Z * Z)) (ops : list c_op) : list (Z * Z) * list c_out :=
  match ops with
  | [] => (d, [])
  | op :: t => let (d1, x) := d_step d op in let (d2, xs) := d_run d1 t in (d2, x :: xs)
  end.

(* does the operation change what is stored under k *)
Definition writes_key (k : Z) (op : c_op) : bool :=
  match op with CSet k' _ => k' =? k | CDel k' => k' =? k | _ => false end.

(* ---- several caches (a root and its sub-caches): each has its own container *)
Inductive m_op :=
| MOp (i : nat) (op : c_op)      (* operation on cache number i *)
| MSub (parent : nat).           (* create_subcache: a new, empty cache is appended *)

Fixpoint upd_nth {A} (n : nat) (x : A) (l : list A) : list A :=
  match l, n with
  | [], _ => []
  | _ :: t, O => x :: t
  | y :: t, S n' => y :: upd_nth n' x t
  end.

Definition m_step (cs : list (cache (list (Z * Z)))) (op : m_op) : list (cache (list (Z * Z))) * c_out :=
  match op with
  | MOp i op' =>
      match nth_error cs i with
      | Some c => let (c', x) := c_step dict_storage c op' in (upd_nth i c' cs, x)
      | None => (cs, OStorageError)
      end
  | MSub p => (cs ++ [c_empty []], ONone)
  end.

Fixpoint m_run (cs : list (cache (list (Z * Z)))) (ops : list m_op) : list (cache (list (Z * Z))) * list c_out :=
  match ops with
  | [] => (cs, [])
  | op :: t => let (c1, x) := m_step cs op in let (c2, xs) := m_run c1 t in (c2, x :: xs)
  end.

(* the operations addressed to cache i, and the outputs they produced *)
Fixpoint m_proj (i : nat) (ops : list m_op) : list c_op :=
  match ops with
  | [] => []
  | MOp j op :: t => if Nat.eqb i j then op :: m_proj i t else m_proj i t
  | MSub _ :: t => m_proj i t
  end.
Fixpoint m_proj_out (i : nat) (ops : list m_op) (outs : list c_out) : list c_out :=
  match ops, outs with
  | MOp j _ :: t, x :: xs => if Nat.eqb i j then x :: m_proj_out i t xs else m_proj_out i t xs
  | MSub _ :: t, _ :: xs => m_proj_out i t xs
  | _, _ => []
  end.

(* ---- correspondence checker *)
Fixpoint lZ_eqb (a b : list Z) : bool :=
  match a, b with
  | [], [] => true
  | x :: a', y :: b' => (x =? y) && lZ_eqb a' b'
  | _, _ => false
  end.
Definition c_out_eqb (a b : c_out) : bool :=
  match a, b with
  | ONone, ONone => true
  | OVal x, OVal y => x =? y
  | OAbsent, OAbsent => true
  | OKeyError, OKeyError => true
  | OBool x, OBool y => Bool.eqb x y
  | OKeys x, OKeys y => lZ_eqb x y
  | OStorageError, OStorageError => true
  | _, _ => false
  end.

(* expected outputs: None = this step was not observed on the implementation *)
Fixpoint outs_match (model : list c_out) (impl : list (option c_out)) : bool :=
  match model, impl with
  | [], [] => true
  | x :: t, None :: t' => outs_match t t'
  | x :: t, Some y :: t' => c_out_eqb x y && outs_match t t'
  | _, _ => false
  end.

Definition check_cache (c : list m_op * list (option c_out)) : bool :=
  outs_match (snd (m_run [c_empty []] (fst c))) (snd c).
