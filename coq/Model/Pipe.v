(* Model of tenpy/linalg/charges.py: LegPipe (C06).  Definitions only.
   pipe_init follows LegPipe.__init__/_init_from_legs: the C-order grid of incoming block tuples,
   block size = product, fused charge make_valid(qconj * sum_l qconj_l * charge_l), stable lexsort
   (if sort and qnumber > 0), cumulative slices, bunch (contiguous equal charges form one outgoing
   block), q_map rows [b_j, b_{j+1}, I_s, i_1..i_n] with the slice taken relative to the outgoing
   block, q_map_slices.  map_incoming_flat follows the code line by line.
   The single-block fast path of __init__ yields the same attributes and is not modelled apart;
   _perm/_strides are private: map_incoming_flat looks the block tuple up in q_map. *)
From TenpyV Require Import Base.Prelude Model.ChargeL Model.Leg.
Open Scope Z_scope.

Record row := mkRow { r_ch : cvec; r_sz : Z; r_q : list nat }.
Definition row0 : row := mkRow [] 0 [].

Fixpoint prodZ (l : list Z) : Z := match l with [] => 1 | x :: t => x * prodZ t end.

(* np.indices(shape).reshape(nlegs, -1).T : all block tuples, last leg fastest *)
Fixpoint grid (shape : list nat) : list (list nat) :=
  match shape with
  | [] => [[]]
  | n :: t => flat_map (fun i => map (cons i) (grid t)) (seq 0 n)
  end.

(* block sizes / signed charges of the incoming blocks selected by the tuple q *)
Fixpoint dims (legs : list leg) (q : list nat) : list Z :=
  match legs, q with
  | l :: lt, i :: qt => fst (blk l i) :: dims lt qt
  | _, _ => []
  end.
Fixpoint tuple_charges (legs : list leg) (q : list nat) : list cvec :=
  match legs, q with
  | l :: lt, i :: qt => vscale (qc l) (snd (blk l i)) :: tuple_charges lt qt
  | _, _ => []
  end.
(* the fusion rule *)
Definition fused (ci : chinfo) (legs : list leg) (qconj : Z) (q : list nat) : cvec :=
  make_valid ci (vscale qconj (vsum (length ci) (tuple_charges legs q))).

Definition rows0 (ci : chinfo) (legs : list leg) (qconj : Z) : list row :=
  map (fun q => mkRow (fused ci legs qconj q) (prodZ (dims legs q)) q) (grid (map nblocks legs)).

Fixpoint rinsert (x : row) (l : list row) : list row :=
  match l with
  | [] => [x]
  | y :: t => if key_leb (r_ch x) (r_ch y) then x :: l else y :: rinsert x t
  end.
Definition rsort (l : list row) : list row := fold_right rinsert [] l.

Definition pipe_rows (ci : chinfo) (legs : list leg) (qconj : Z) (sort : bool) : list row :=
  if sort && negb (Nat.eqb (length ci) 0) then rsort (rows0 ci legs qconj) else rows0 ci legs qconj.

(* bunch: runs of contiguous rows with equal charge; without bunch every row is its own block *)
Fixpoint group_rows (bunch : bool) (rows : list row) : list (list row) :=
  match rows with
  | [] => []
  | r :: t => match group_rows bunch t with
              | (r' :: g) :: gs => if bunch && veqb (r_ch r) (r_ch r') then (r :: r' :: g) :: gs
                                   else [r] :: (r' :: g) :: gs
              | _ => [[r]]
              end
  end.
Definition gsize (g : list row) : Z := sumZ (map r_sz g).
Definition glen (g : list row) : Z := Z.of_nat (length g).
Definition ghead (g : list row) : cvec := r_ch (hd row0 g).
(* the outgoing block I_s of every row *)
Fixpoint tag_from (I : nat) (gs : list (list row)) : list nat :=
  match gs with [] => [] | g :: t => repeat I (length g) ++ tag_from (S I) t end.

Record qrow := mkQ { q_b0 : Z; q_b1 : Z; q_Is : nat; q_q : list nat }.

Record pipe := mkPipe {
  p_legs : list leg; p_qconj : Z;
  p_rows : list row;                  (* sorted incoming block tuples *)
  p_blocks : list block;              (* outgoing blocks: (size, charge) *)
  p_qmap : list qrow;
  p_qmap_slices : list Z }.

Definition pipe_init (ci : chinfo) (legs : list leg) (qconj : Z) (sort bunch : bool) : pipe :=
  let rows := pipe_rows ci legs qconj sort in
  let gs := group_rows bunch rows in
  let szs := map r_sz rows in
  let osz := map gsize gs in
  let tags := tag_from 0 gs in
  let qm := map (fun j => let I := nth j tags O in
                          mkQ (offs szs j - offs osz I) (offs szs (S j) - offs osz I) I
                              (r_q (nth j rows row0)))
                (seq 0 (length rows)) in
  mkPipe legs qconj rows (combine osz (map ghead gs)) qm (slices_of (map glen gs)).

Definition pipe_leg (p : pipe) : leg := mkLeg (p_blocks p) (p_qconj p).   (* to_LegCharge *)

(* ---- map_incoming_flat *)
Fixpoint list_eqb (a b : list nat) : bool :=
  match a, b with
  | [], [] => true
  | x :: a', y :: b' => Nat.eqb x y && list_eqb a' b'
  | _, _ => false
  end.
Fixpoint find_row (q : list nat) (rows : list row) : option nat :=
  match rows with
  | [] => None
  | r :: t => if list_eqb (r_q r) q then Some O
              else match find_row q t with Some j => Some (S j) | None => None end
  end.
(* C-order position inside a block of shape ds *)
Fixpoint ravel (ds ws : list Z) : Z :=
  match ds, ws with
  | _ :: dt, w :: wt => w * prodZ dt + ravel dt wt
  | _, _ => 0
  end.
Fixpoint unravel (ds : list Z) (k : Z) : list Z :=
  match ds with
  | [] => []
  | _ :: dt => (k / prodZ dt) :: unravel dt (k mod prodZ dt)
  end.
(* get_qindex on every leg: Some (block tuple, positions inside the blocks) *)
Fixpoint split_indices (legs : list leg) (t : list Z) : option (list nat * list Z) :=
  match legs, t with
  | [], [] => Some ([], [])
  | l :: lt, i :: tr =>
      match get_qindex l i, split_indices lt tr with
      | Some (q, w), Some (qs, ws) => Some (q :: qs, w :: ws)
      | _, _ => None
      end
  | _, _ => None
  end.
Definition map_incoming_flat (p : pipe) (t : list Z) : option Z :=
  match split_indices (p_legs p) t with
  | None => None
  | Some (qs, ws) =>
      match find_row qs (p_rows p) with
      | None => None
      | Some j => let qr := nth j (p_qmap p) (mkQ 0 0 O []) in
                  Some (offs (map fst (p_blocks p)) (q_Is qr) + q_b0 qr + ravel (dims (p_legs p) qs) ws)
      end
  end.

(* the outgoing block of an index tuple *)
Definition block_of (p : pipe) (t : list Z) : option nat :=
  match split_indices (p_legs p) t with
  | None => None
  | Some (qs, _) => match find_row qs (p_rows p) with
                    | None => None
                    | Some j => Some (q_Is (nth j (p_qmap p) (mkQ 0 0 O [])))
                    end
  end.

(* explicit inverse: outgoing flat index -> incoming index tuple *)
Fixpoint join_indices (legs : list leg) (q : list nat) (ws : list Z) : list Z :=
  match legs, q, ws with
  | l :: lt, i :: qt, w :: wt => (offs (bsz l) i + w) :: join_indices lt qt wt
  | _, _, _ => []
  end.
Definition map_outgoing_flat (p : pipe) (k : Z) : option (list Z) :=
  if k <? 0 then None else
  match locate (map r_sz (p_rows p)) k with
  | None => None
  | Some (j, w) => let q := r_q (nth j (p_rows p) row0) in
                   Some (join_indices (p_legs p) q (unravel (dims (p_legs p) q) w))
  end.

(* all index tuples of the incoming legs in C order (for the harness) *)
Fixpoint zgrid (shape : list Z) : list (list Z) :=
  match shape with
  | [] => [[]]
  | n :: t => flat_map (fun i => map (cons i) (zgrid t)) (zrange 0 (Z.to_nat n))
  end.

(* ---- conj: flips the pipe and every incoming leg; attributes unchanged *)
Definition conj_pipe (p : pipe) : pipe :=
  mkPipe (map conj_leg (p_legs p)) (- p_qconj p) (p_rows p) (p_blocks p) (p_qmap p) (p_qmap_slices p).

(* ---- what the harness compares: documented attributes + map_incoming_flat on every tuple *)
Definition qrow_obs (r : qrow) : list Z := q_b0 r :: q_b1 r :: Z.of_nat (q_Is r) :: map Z.of_nat (q_q r).
Definition pipe_obs (p : pipe) :=
  (map snd (p_blocks p), slices_of (map fst (p_blocks p)), map qrow_obs (p_qmap p), p_qmap_slices p,
   map (map_incoming_flat p) (zgrid (map ind_len (p_legs p)))).
