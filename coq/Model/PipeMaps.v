(* Additional definitions for C06 (statements of T06_sort, T06_qmap_tiling, T06_split_combine).
   Definitions only; nothing here is used by the correspondence checkers of Model/PipeCase.v. *)
From TenpyV Require Import Base.Prelude Model.ChargeL Model.Leg Model.Pipe.
Open Scope Z_scope.

(* ---- reading a per-index list at the positions of a flat permutation: xs[perm_flat] *)
Definition take_flat {A} (d : A) (xs : list A) (pf : list Z) : list A :=
  map (fun k => nth (Z.to_nat k) xs d) pf.

(* ---- tiling: the half-open slices [x, y) of the list, in the order given, start at a, every stop is the
   next start, the last stop is b (no gap, no overlap; x <= y, so the starts are nondecreasing) *)
Fixpoint tiles (a : Z) (l : list (Z * Z)) (b : Z) : Prop :=
  match l with
  | [] => a = b
  | xy :: t => fst xy = a /\ fst xy <= snd xy /\ tiles (snd xy) t b
  end.

(* the q_map rows of the outgoing block I, in the order of q_map *)
Definition qmap_rows_of (p : pipe) (I : nat) : list qrow := filter (fun qr => Nat.eqb (q_Is qr) I) (p_qmap p).
Definition qslice (qr : qrow) : Z * Z := (q_b0 qr, q_b1 qr).

(* block-wise form of q_map: the rows of the group g (= outgoing block I) carry the running offsets inside g *)
Definition qm_group (I : nat) (g : list row) : list qrow :=
  map (fun k => mkQ (offs (map r_sz g) k) (offs (map r_sz g) (S k)) I (r_q (nth k g row0))) (seq 0 (length g)).
Fixpoint qm_blocks (I0 : nat) (gs : list (list row)) : list qrow :=
  match gs with [] => [] | g :: t => qm_group I0 g ++ qm_blocks (S I0) t end.

(* ---- combine_legs / split_legs on dense tensors seen as functions of the index:
   f : incoming index tuple -> entry, g : outgoing flat index -> entry.  Outside the index range
   (where the maps are undefined) the value is 0. *)
Definition combine_fn (p : pipe) (f : list Z -> Z) : Z -> Z :=
  fun k => match map_outgoing_flat p k with Some t => f t | None => 0 end.
Definition split_fn (p : pipe) (g : Z -> Z) : list Z -> Z :=
  fun t => match map_incoming_flat p t with Some k => g k | None => 0 end.
