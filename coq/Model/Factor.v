(* Model of the charge / leg bookkeeping of tenpy.linalg.np_conserved.svd (_svd_worker) and qr / lq (C05).
   Definitions only.  The matrix is the completely blocked rank-2 Array the routines work on
   (after as_completely_blocked): two legs, total charge, the (row block, column block) pairs of the
   stored blocks.  The numeric kernel (LAPACK) enters only through the number of singular values /
   columns kept per stored block, which is an arbitrary input of the plan. *)
From TenpyV Require Import Base.Prelude Model.ChargeL Model.Leg.
Open Scope Z_scope.

Record mat := mkMat { mL : leg; mR : leg; mq : cvec; mdata : list (nat * nat) }.

Definition vsub (a b : cvec) : cvec := vadd a (vneg b).
(* LegCharge.get_charge(qindex) = charges[qindex] * qconj *)
Definition leg_charge (l : leg) (i : nat) : cvec := vscale (qc l) (snd (blk l i)).

(* ---- svd: qtotal_LR request -> (qtotal_L, qtotal_R); None = ValueError *)
Definition resolve_LR (ci : chinfo) (a : mat) (oL oR : option cvec) : option (cvec * cvec) :=
  match oL, oR with
  | None, None => Some (make_valid ci (vsub (mq a) (mq a)), mq a)
  | None, Some r => Some (make_valid ci (vsub (mq a) r), r)
  | Some l, None => Some (l, make_valid ci (vsub (mq a) l))
  | Some l, Some r => if veqb (mq a) (make_valid ci (vadd l r)) then Some (l, r) else None
  end.

(* one kept stored block: (row block of a, column block of a, block of the new inner leg) *)
Definition krow := (nat * nat * block)%type.

(* blocks with at least one kept singular value, in storage order; charge of the new leg
   make_valid((qtotal_R - legs[1].get_charge(qi_R)) * inner_qconj) *)
Fixpoint svd_rows (ci : chinfo) (a : mat) (qR : cvec) (iq : Z) (data : list (nat * nat)) (nums : list Z) : list krow :=
  match data, nums with
  | (i, j) :: dt, n :: nt =>
      (if 0 <? n then [(i, j, (n, make_valid ci (vscale iq (vsub qR (leg_charge (mR a) j)))))] else [])
      ++ svd_rows ci a qR iq dt nt
  | _, _ => []
  end.

Record svd_plan := mkSvd {
  s_rows : list krow;
  s_legR : leg;            (* VH.legs[0] *)
  s_legL : leg;            (* U.legs[1] = conj *)
  s_qU : cvec; s_qV : cvec }.

Definition svd_charges (ci : chinfo) (a : mat) (nums : list Z) (oL oR : option cvec) (iq : Z) : option svd_plan :=
  match resolve_LR ci a oL oR with
  | None => None
  | Some (qL, qR) =>
      let rows := svd_rows ci a qR iq (mdata a) nums in
      let lr := mkLeg (map snd rows) iq in
      Some (mkSvd rows lr (conj_leg lr) (make_valid ci qL) (make_valid ci qR))
  end.

(* the charge rule of a rank-2 block: make_valid(c_row + c_col) = qtotal, with signed charges *)
Definition rule2 (ci : chinfo) (cl cr q : cvec) : bool := veqb (make_valid ci (vadd cl cr)) q.

(* ---- qr: the inner leg is legs[0] projected on the first K columns of every stored block
   (mode 'reduced'; all of legs[0] for 'complete'), its charges shifted by qtotal_Q and flipped
   to the requested direction *)
Fixpoint lookup_k (i : nat) (data : list (nat * nat)) (ks : list Z) : Z :=
  match data, ks with
  | (i', _) :: dt, k :: kt => if Nat.eqb i i' then k else lookup_k i dt kt
  | _, _ => 0
  end.
Definition shift_charge (ci : chinfo) (q0 iq : Z) (qQ : option cvec) (c : cvec) : cvec :=
  let c1 := match qQ with None => c | Some q => make_valid ci (vsub c (vscale q0 (make_valid ci q))) end in
  if q0 =? iq then c1 else make_valid ci (vneg c1).

Record qr_plan := mkQr {
  r_inner : leg;           (* R.legs[0] *)
  r_qQ : cvec; r_qR : cvec;
  r_map : list (nat * block) (* old block number of legs[0] -> inner block (reduced: only kept ones) *) }.

Definition qr_charges (ci : chinfo) (a : mat) (ks : list Z) (complete : bool) (qQ : option cvec) (iq : Z) : qr_plan :=
  let l0 := mL a in
  let sized := map (fun ib => let '(i, b) := ib in
                              (i, ((if complete then fst b else lookup_k i (mdata a) ks), snd b)))
                   (combine (seq 0 (nblocks l0)) (blocks l0)) in
  let kept := filter (fun ib => complete || negb (fst (snd ib) =? 0)) sized in
  let inner := map (fun ib => (fst ib, (fst (snd ib), shift_charge ci (qc l0) iq qQ (snd (snd ib))))) kept in
  let q := match qQ with None => make_valid ci (vsub (mq a) (mq a)) | Some q => make_valid ci q end in
  mkQr (mkLeg (map snd inner) iq) q (make_valid ci (vsub (mq a) q)) inner.
