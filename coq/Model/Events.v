(* Model of tenpy/tools/events.py: EventHandler (property C20).  Definitions only; proofs in
   Proofs/EventsP.v.  Tie to the code: correspondence (K), harness/c20.py stream "events".

   The model states what the class documents:  connect() hands out the ids 0, 1, 2, ... and appends;
   disconnect(id) deletes the listener with THAT id (warning when there is none); emit() re-sorts
   the listener list (python's stable `sorted` with key -priority), stores it, and calls every
   listener in that order; emit_until_result() stops after the first listener that returns something
   other than None; copy() is a snapshot.  Callbacks are abstracted to their return value. *)
From TenpyV Require Import Base.Prelude.
Open Scope Z_scope.

Record listener := mkL { l_id : Z; l_prio : Z; l_ret : option Z }.
Record handler := mkH { h_listeners : list listener; h_counter : Z }.

Definition empty_handler : handler := mkH [] 0.

Inductive ev_op :=
| EConnect (prio : Z) (ret : option Z)
| EDisconnect (id : Z)
| EEmit
| EEmitUntil
| ECopy.

Inductive ev_out :=
| OConnected (id : Z)                                        (* id_of_last_connected *)
| ODisconnected (found : bool)                                (* false: only a warning was issued *)
| OEmit (called : list Z) (results : list (option Z))         (* ids in call order, list of results *)
| OEmitUntil (called : list Z) (result : option Z)
| OCopied.

(* sorted(listeners, key=lambda l: -l.priority): stable, descending priority.
   fold_right inserts earlier elements last, in front of everything of lower or equal priority. *)
Fixpoint insert_l (x : listener) (l : list listener) : list listener :=
  match l with
  | [] => [x]
  | y :: t => if l_prio y <=? l_prio x then x :: l else y :: insert_l x t
  end.
Definition sort_l (l : list listener) : list listener := fold_right insert_l [] l.

(* for i, listener in enumerate(listeners): if listener.listener_id == listener_id: del listeners[i]; return *)
Fixpoint remove_id (i : Z) (l : list listener) : list listener :=
  match l with
  | [] => []
  | y :: t => if l_id y =? i then t else y :: remove_id i t
  end.
Definition has_id (i : Z) (l : list listener) : bool := existsb (fun y => l_id y =? i) l.

Fixpoint call_until (l : list listener) : list Z * option Z :=
  match l with
  | [] => ([], None)
  | y :: t => match l_ret y with
              | Some r => ([l_id y], Some r)
              | None => let (c, r) := call_until t in (l_id y :: c, r)
              end
  end.

Definition ev_step (h : handler) (op : ev_op) : handler * ev_out :=
  match op with
  | EConnect p r =>
      (mkH (h_listeners h ++ [mkL (h_counter h) p r]) (h_counter h + 1), OConnected (h_counter h))
  | EDisconnect i =>
      (mkH (remove_id i (h_listeners h)) (h_counter h), ODisconnected (has_id i (h_listeners h)))
  | EEmit =>
      let s := sort_l (h_listeners h) in (mkH s (h_counter h), OEmit (map l_id s) (map l_ret s))
  | EEmitUntil =>
      let s := sort_l (h_listeners h) in
      let (c, r) := call_until s in (mkH s (h_counter h), OEmitUntil c r)
  | ECopy => (h, OCopied)
  end.

Fixpoint ev_run (h : handler) (ops : list ev_op) : handler * list ev_out :=
  match ops with
  | [] => (h, [])
  | op :: t => let (h1, o) := ev_step h op in let (h2, os) := ev_run h1 t in (h2, o :: os)
  end.

(* ---- independent specification: who is connected after a history, no sorting, no state *)
Definition not_id (i : Z) (x : listener) : bool := negb (l_id x =? i).

Fixpoint spec_connected (ops : list ev_op) (n : Z) (acc : list listener) : list listener :=
  match ops with
  | [] => acc
  | EConnect p r :: t => spec_connected t (n + 1) (acc ++ [mkL n p r])
  | EDisconnect i :: t => spec_connected t n (filter (not_id i) acc)
  | _ :: t => spec_connected t n acc
  end.

(* call order required by the property: descending priority, ties in connection order (= id order) *)
Definition before (a b : listener) : Prop :=
  l_prio b < l_prio a \/ (l_prio a = l_prio b /\ l_id a < l_id b).

Definition connected_ids (outs : list ev_out) : list Z :=
  flat_map (fun o => match o with OConnected i => [i] | _ => [] end) outs.

(* ---- correspondence checker (vm_compute on literals written by harness/c20.py) *)
Fixpoint listZ_eqb (a b : list Z) : bool :=
  match a, b with
  | [], [] => true
  | x :: a', y :: b' => (x =? y) && listZ_eqb a' b'
  | _, _ => false
  end.
Definition optZ_eqb (a b : option Z) : bool :=
  match a, b with None, None => true | Some x, Some y => x =? y | _, _ => false end.
Fixpoint listO_eqb (a b : list (option Z)) : bool :=
  match a, b with
  | [], [] => true
  | x :: a', y :: b' => optZ_eqb x y && listO_eqb a' b'
  | _, _ => false
  end.
Definition ev_out_eqb (a b : ev_out) : bool :=
  match a, b with
  | OConnected i, OConnected j => i =? j
  | ODisconnected f, ODisconnected g => Bool.eqb f g
  | OEmit c r, OEmit c' r' => listZ_eqb c c' && listO_eqb r r'
  | OEmitUntil c r, OEmitUntil c' r' => listZ_eqb c c' && optZ_eqb r r'
  | OCopied, OCopied => true
  | _, _ => false
  end.

(* one observation of the implementation: output, listener ids and priorities after the call *)
Definition ev_obs := (ev_out * list Z * list Z)%type.

Fixpoint ev_check (h : handler) (ops : list ev_op) (obs : list ev_obs) : bool :=
  match ops, obs with
  | [], [] => true
  | op :: t, (o, ids, prios) :: t' =>
      let (h1, o1) := ev_step h op in
      ev_out_eqb o1 o && listZ_eqb (map l_id (h_listeners h1)) ids
      && listZ_eqb (map l_prio (h_listeners h1)) prios && ev_check h1 t t'
  | _, _ => false
  end.

Definition check_events (c : list ev_op * list ev_obs) : bool := ev_check empty_handler (fst c) (snd c).
