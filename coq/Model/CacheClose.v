(* close() / __exit__ of tenpy/tools/cache.py ThreadedStorage and tenpy/tools/thread.py Worker as an extension of the
   labelled transition system of Model/CacheThread.v (property C20, clause "closing is clean and never deadlocks").
   Definitions only; proofs in Proofs/CacheCloseP.v.

   ThreadedStorage.close():  _common_close()  -> ValueError('storage was already closed') if not _opened, else
                                                 _opened = False
                             worker.__exit__() -> if worker_thread.is_alive(): exit.set(); worker_thread.join()
                             disk_storage.close(); _loaded.clear(); _waiting_for_load.clear()
   Worker.run() tests `exit.is_set()` at the top of its loop, i.e. whenever it is idle (before taking the next task):
   it returns, and the `finally` clause drains the queue (get + task_done per item) - tasks still queued at close()
   are DROPPED, not executed.  A task that is running when exit is set is finished first.
   The caller's program is a list of storage operations and close() calls; close() starts between two operations (the
   caller is sequential).  While the caller waits in worker_thread.join() (pc CJoin) it does nothing else.
   The operations of ThreadedStorage do not test `_opened`: after close() they end in Worker._test_worker_alive,
   i.e. WorkerDied("either exception occurred or close() was called") - except preload(k) of a key that an earlier
   (failed) load/preload already put into _waiting_for_load, which returns silently.
   Not modelled: sub-containers (they share the worker; Storage._common_close closes them with the parent), the
   DictCache / CacheFile layer (short_term_cache.clear()), PickleStorage / Hdf5Storage file handles.
   Tie to the code: correspondence (K), stream "sched-close" of harness/c20_sched.py: programs with close() / __exit__
   calls run on the real ThreadedStorage + Worker under schedules enforced by gates and are compared with `cl_run`
   through `check_cl_run` of Model/CacheCloseCheck.v (events of every schedule token, final _loaded / _waiting_for_load /
   liveness / Worker.exit / _opened / files on disk); Proofs/CacheCloseCheckP.v shows that the replay of the checker is
   cl_run of the schedule it reports.  The definitions of Model/CacheThread.v are used unchanged (start_op, caller_step,
   worker_step).  DO NOT change the definitions below without re-running that stream. *)
From TenpyV Require Import Base.Prelude Model.Cache Model.CacheThread.
Open Scope Z_scope.

Inductive c_item := COp (op : s_op) | CClose.
Inductive cpc := CNone | CJoin.
Inductive cl_out := CClosedOk | CAlreadyClosed.

Record cstate := mkC {
  c_base : tstate;            (* state of the LTS of Model/CacheThread.v; its t_prog stays empty *)
  c_exit : bool;              (* Worker.exit set by the caller *)
  c_opened : bool;            (* Storage._opened *)
  c_pc : cpc;
  c_prog : list c_item;
  c_outs : list cl_out         (* results of the close() calls, latest first *)
}.

Definition cl_init (prog : list c_item) : cstate := mkC (init []) false true CNone prog [].

Definition with_base (st : cstate) (b : tstate) : cstate :=
  mkC b (c_exit st) (c_opened st) (c_pc st) (c_prog st) (c_outs st).

(* disk_storage.close(); _loaded.clear(); _waiting_for_load.clear() *)
Definition close_finish (b : tstate) : tstate :=
  mkT [] (t_queue b) (t_unfinished b) (t_status b) (t_started b) [] [] (t_pc b) (t_prog b) (t_outs b).

Definition is_dead (b : tstate) : bool := match t_status b with WDead => true | _ => false end.

Section CloseLts.
  Variable qmax : nat.
  Variable fail_at : option nat.

  Definition caller_step_c (st : cstate) : option cstate :=
    let b := c_base st in
    match c_pc st with
    | CJoin =>
        if is_dead b then Some (mkC (close_finish b) (c_exit st) (c_opened st) CNone (c_prog st) (CClosedOk :: c_outs st))
        else None
    | CNone =>
        match t_pc b with
        | PIdle =>
            match c_prog st with
            | [] => None
            | COp op :: rest => Some (mkC (start_op qmax b op) (c_exit st) (c_opened st) CNone rest (c_outs st))
            | CClose :: rest =>
                if negb (c_opened st) then Some (mkC b (c_exit st) false CNone rest (CAlreadyClosed :: c_outs st))
                else if is_dead b then Some (mkC (close_finish b) (c_exit st) false CNone rest (CClosedOk :: c_outs st))
                else Some (mkC b true false CJoin rest (c_outs st))
            end
        | _ => match caller_step qmax b with Some b' => Some (with_base st b') | None => None end
        end
    end.

  Definition set_status (b : tstate) (s : wstatus) : tstate :=
    mkT (t_disk b) (t_queue b) (t_unfinished b) s (t_started b) (t_loaded b) (t_waiting b) (t_pc b) (t_prog b) (t_outs b).

  Definition worker_step_c (st : cstate) : option cstate :=
    let b := c_base st in
    match c_exit st, t_status b with
    | true, WIdle => Some (with_base st (set_status b WDying))
    | _, _ => match worker_step fail_at b with Some b' => Some (with_base st b') | None => None end
    end.

  Definition cl_step (st : cstate) (c : bool) : cstate :=
    match (if c then caller_step_c st else worker_step_c st) with Some st' => st' | None => st end.
  Definition cl_run (sched : list bool) (st : cstate) : cstate := fold_left cl_step sched st.
End CloseLts.

(* number of worker steps until the thread has terminated once exit is set *)
Definition wsteps (b : tstate) : nat :=
  match t_status b with
  | WIdle => length (t_queue b) + 2
  | WRun _ => length (t_queue b) + 3
  | WDying => length (t_queue b) + 1
  | WDead => 0
  end.
Definition count_worker (sched : list bool) : nat := length (filter negb sched).

(* close() has returned: closed, worker thread gone, nothing cached *)
Definition pc_quiet (b : tstate) : Prop := t_pc b = PIdle \/ exists k, t_pc b = PLoadB k.
Definition closed_st (st : cstate) : Prop :=
  c_opened st = false /\ c_pc st = CNone /\ t_status (c_base st) = WDead /\ t_loaded (c_base st) = [] /\
  pc_quiet (c_base st).
