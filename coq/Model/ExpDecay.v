(* Model of tenpy/networks/terms.py: ExponentiallyDecayingTerms.add_to_graph, FINITE branch (the `else:` of
   `if not finite`), for entries of `exp_decaying_terms` with a scalar (uniform) lambda_ and the default
   subsites = subsites_start = all sites [0..L-1] (first_subsite = 0, last_subsite = L-1, in_subsites and
   in_subsites_start all True):

       if last_subsite > first_subsite:
           graph.add(0, 'IdL', label, op_i, lam)
           for i in range(1, L-1):
               graph.add(i, label, label, op_string, lam)
               graph.add(i, label, 'IdR', op_j, strength)
               graph.add(i, 'IdL', label, op_i, lam)
           graph.add(L-1, label, 'IdR', op_j, strength)

   `graph.add` (skip_existing=False) is `add_edge` of Model/Automaton.v; label = (key_nr, 'exp-decay') is
   the key `Oth n`.  lambda_ is a Gaussian INTEGER here (like every strength in Model/Automaton.v), so all
   edge weights stay in C and `denote` of Automaton.v applies unchanged.
   Definitions only; proofs in Proofs/ExpDecayP.v. *)
From TenpyV Require Import Base.Prelude Model.Automaton.
Open Scope Z_scope.

(* lam^k *)
Fixpoint cpow (c : C) (k : nat) : C :=
  match k with O => c1 | S k' => cmul c (cpow c k') end.

(* the three kinds of edges of one exponentially decaying term with label Oth n *)
Definition xstart (n a : Z) (lam : C) : edge := mkE IdL (Oth n) a lam.      (* IdL -> label, op_i, lambda *)
Definition xstr (n s : Z) (lam : C) : edge := mkE (Oth n) (Oth n) s lam.    (* label -> label, op_string, lambda *)
Definition xend (n b : Z) (w : C) : edge := mkE (Oth n) IdR b w.            (* label -> IdR, op_j, strength *)

(* body of `for i in range(first_subsite + 1, last_subsite)` *)
Definition add_exp_bulk (n a s b : Z) (lam w : C) (g : graph) (i : nat) : graph :=
  add_edge i (xstart n a lam) (add_edge i (xend n b w) (add_edge i (xstr n s lam) g)).

(* the finite branch for one term on a chain of L sites, in the order of the calls of graph.add *)
Definition add_exp (L : nat) (n : Z) (a s b : Z) (lam w : C) (g : graph) : graph :=
  if (0 <? L - 1)%nat then                       (* last_subsite > first_subsite *)
    add_edge (L - 1) (xend n b w)
      (fold_left (add_exp_bulk n a s b lam w) (seq 1 (L - 2)) (add_edge 0 (xstart n a lam) g))
  else g.

(* the operator the term stands for:  sum_{i<j<L} w * lam^(j-i) * a_i s_{i+1} ... s_{j-1} b_j *)
Definition exp_mono (a s b : Z) (lam w : C) (i j : nat) : mono :=
  (cmul w (cpow lam (j - i)), consop i a (wstring (S i) (j - i - 1) s ++ consop j b [])).
Definition nf_exp (L : nat) (a s b : Z) (lam w : C) : poly :=
  flat_map (fun i => map (exp_mono a s b lam w i) (seq (S i) (L - S i))) (seq 0 L).

(* freshness of the label Oth n in a graph in upper-triangular form: no edge touches Oth n, no edge
   enters IdL, no edge leaves IdR (weaker than `wf`: allows other Oth labels, e.g. of earlier
   exponentially decaying terms) *)
Definition plain_edge (n : Z) (e : edge) : bool :=
  negb (key_eqb (eL e) (Oth n)) && negb (key_eqb (eR e) (Oth n)) &&
  negb (key_eqb (eR e) IdL) && negb (key_eqb (eL e) IdR).
Definition fresh_in (n : Z) (g : graph) : bool := forallb (forallb (plain_edge n)) g.

(* several terms (the loop over self.exp_decaying_terms): key_nr is increased for every term *)
Record xterm := mkXT { xt_a : Z; xt_s : Z; xt_b : Z; xt_lam : C; xt_w : C }.
Fixpoint add_exps (L : nat) (n : Z) (ts : list xterm) (g : graph) : graph :=
  match ts with
  | [] => g
  | t :: ts' => add_exps L (n + 1) ts' (add_exp L n (xt_a t) (xt_s t) (xt_b t) (xt_lam t) (xt_w t) g)
  end.
Definition nf_xterm (L : nat) (t : xterm) : poly := nf_exp L (xt_a t) (xt_s t) (xt_b t) (xt_lam t) (xt_w t).

(* checker (not wired into the harness): the implementation's closed graph gi for one term added to the
   empty graph is the model's graph edge for edge and denotes the expected operator *)
Definition check_expdecay (c : nat * Z * (Z * Z * Z) * (C * C) * graph) : bool :=
  let '(L, n, (a, s, b), (lam, w), gi) := c in
  graph_mset_eqb (close (add_exp L n a s b lam w (empty_graph L))) gi &&
  peqb (denote gi) (nf_exp L a s b lam w).
