(* MPS layer on the store (heap) model Model/Store.v: tenpy.networks.mps.MPS as a record of tensor REFERENCES
   into the heap of Store.v, per-site canonical-form labels, the norm and the singular values.
   Definitions only; proofs in Proofs/StoreMpsP.v, statements in Props/C03.v (theorems T03_mps_...).
   Every heap effect below is one of the eleven transformers `exec h o` of Store.v (which harness/c03.py ties to
   the code by replaying histories); the definitions of this file are replayed on MPS-level histories executed by the
   code (stream `mps-history` of harness/c03.py, Model/StoreMpsCheck.v `check_mps_history`: mps_init, get_B, set_B,
   run_meas and exec against the observed changes of the caller's tensors and of psi._B[j]).  They are
   a reading of tenpy/networks/mps.py, case of trivial charge shift (shift_Array_unit_cells returns its argument:
   `if self.chinfo.trivial_shift or dx_0 == 0: return self`) and label_p=None:

     MPS.__init__   self._B = [B.astype(dtype, copy=True).itranspose(self._B_labels) for B in Bs]
                    astype(copy=True) = fresh _qdata + fresh blocks, legs shared  (OCopy true);
                    itranspose on that copy: new _qdata, np.transpose views of its own blocks (OMeta)
     get_B          B = self._B[i]; if copy: B = B.copy()  (OCopy true);
                    new_form None -> B as it is; old_form None and new_form given -> ValueError (None below);
                    per axis with new_form[k]-old_form[k] != 0: B = B.scale_axis(S**diff, axis)  (OScaleAxis: a NEW tensor);
                    otherwise B itself: with copy=False and matching form the STORED Array object is returned
     set_B          self.form[i] = form; self._B[i] = B.itranspose(self._B_labels)   (OMeta on the caller's B, then the
                    reference is stored: "No copy is made!")
     measurements   programs of get_B calls and operations of Store.v that are not in-place, plus in-place methods
                    that bind fresh blocks (itranspose, iconj, ireplace_label, iproject ...) on tensors created during the
                    measurement. *)
From TenpyV Require Import Base.Prelude Model.Store.
Open Scope Z_scope.

(* canonical form of a site: None = not canonical, Some (nuL, nuR) = exponents of the singular values on the two
   bonds, in units of 1/2:  B = (0,2)  A = (2,0)  C = (1,1)  G = (0,0)  Th = (2,2) *)
Definition form : Type := option (Z * Z).
Definition form_B : form := Some (0, 2).
Definition form_A : form := Some (2, 0).
Definition form_C : form := Some (1, 1).
Definition form_G : form := Some (0, 0).
Definition form_Th : form := Some (2, 2).

Record mps := mkMps {
  sites : list nat;        (* self._B : references to Array objects of the heap *)
  forms : list form;       (* self.form *)
  nrm : Z;                 (* self.norm *)
  svs : list (list Z)      (* self._S : singular values on the bonds 0 .. L (plain values) *)
}.
Definition site (m : mps) (i : nat) : nat := nth i (sites m) 0%nat.

(* what a caller can observe of the MPS: the values of its site tensors, forms, norm, singular values *)
Definition mps_view (h : heap) (m : mps) : list value * list form * Z * list (list Z) :=
  (map (denote h) (sites m), forms m, nrm m, svs m).

Definition mps_wf (h : heap) (m : mps) : Prop :=
  Forall (live h) (sites m) /\ length (forms m) = length (sites m).

(* the site tensors are pairwise different objects with pairwise disjoint block buffers *)
Definition sep_refs (h : heap) (cs : list nat) : Prop :=
  NoDup cs /\ forall x y, In x cs -> In y cs -> x <> y -> shares_buffer h x y = false.
Definition mps_sep (h : heap) (m : mps) : Prop := sep_refs h (sites m).

(* ---- MPS.__init__ *)
Definition perm_cols (perm : list nat) (t : list (list nat)) : list (list nat) :=
  map (fun row => map (fun k => nth k row 0%nat) perm) t.          (* _qdata[:, axes] *)
(* one input tensor (reference b, axes permutation bringing its labels to vL, p, vR) *)
Definition init_site (h : heap) (bp : nat * list nat) : heap * nat :=
  let hc := exec h (OCopy true (fst bp)) in
  exec (fst hc) (OMeta (snd hc) (perm_cols (snd bp)) (snd bp)).
Fixpoint init_sites (h : heap) (Bs : list (nat * list nat)) : heap * list nat :=
  match Bs with
  | [] => (h, [])
  | bp :: t => let hc := init_site h bp in
               let r := init_sites (fst hc) t in (fst r, snd hc :: snd r)
  end.
Definition mps_init (h : heap) (Bs : list (nat * list nat)) (fms : list form) (n : Z) (sv : list (list Z))
  : heap * mps :=
  let r := init_sites h Bs in (fst r, mkMps (snd r) fms n sv).

(* ---- MPS.get_B(i, form, copy); sc S d is the block function of scale_axis(S**d) *)
Definition scale_step (sc : list Z -> Z -> list Z -> list Z) (hr : heap * nat) (sv : list Z) (d : Z) : heap * nat :=
  if Z.eqb d 0 then hr else exec (fst hr) (OScaleAxis (snd hr) (sc sv d)).
Definition get_B (sc : list Z -> Z -> list Z -> list Z) (h : heap) (m : mps) (i : nat) (fm : form) (copy : bool)
  : option (heap * nat) :=
  let hr := if copy then exec h (OCopy true (site m i)) else (h, site m i) in
  match fm with
  | None => Some hr
  | Some (nl, nr) =>
      match nth i (forms m) None with
      | None => None
      | Some (pl, pr) =>
          Some (scale_step sc (scale_step sc hr (nth i (svs m) []) (nl - pl)) (nth (S i) (svs m) []) (nr - pr))
      end
  end.
(* the requested form needs no conversion *)
Definition form_matches (m : mps) (i : nat) (fm : form) : Prop :=
  fm = None \/ (fm <> None /\ fm = nth i (forms m) None).

(* ---- MPS.set_B(i, B, form) *)
Definition set_B (h : heap) (m : mps) (i b : nat) (fm : form) (perm : list nat) : heap * mps :=
  (fst (exec h (OMeta b (perm_cols perm) perm)),
   mkMps (upd (sites m) i b) (upd (forms m) i fm) (nrm m) (svs m)).

(* ---- measurement programs *)
Inductive mstep :=
| MsGet (i : nat) (fm : form) (copy : bool)
| MsOp (o : op).
(* an operation allowed inside a measurement that started when the heap had n0 tensors: not in-place, or an in-place
   method binding fresh blocks to a tensor created during the measurement *)
Definition meas_op_ok (n0 : nat) (o : op) : Prop :=
  match inplace_receiver o with
  | None => True
  | Some r => writes_buffers o = false /\ (n0 <= r)%nat
  end.
Fixpoint run_meas (sc : list Z -> Z -> list Z -> list Z) (h : heap) (m : mps) (prog : list mstep) : heap :=
  match prog with
  | [] => h
  | MsGet i fm cp :: t =>
      match get_B sc h m i fm cp with
      | Some hr => run_meas sc (fst hr) m t
      | None => h                                   (* the exception ends the measurement *)
      end
  | MsOp o :: t => run_meas sc (fst (exec h o)) m t
  end.
Fixpoint meas_ok (sc : list Z -> Z -> list Z -> list Z) (n0 : nat) (h : heap) (m : mps) (prog : list mstep) : Prop :=
  match prog with
  | [] => True
  | MsGet i fm cp :: t =>
      (i < length (sites m))%nat /\
      match get_B sc h m i fm cp with
      | Some hr => meas_ok sc n0 (fst hr) m t
      | None => True
      end
  | MsOp o :: t => op_ok h o /\ meas_op_ok n0 o /\ meas_ok sc n0 (fst (exec h o)) m t
  end.

(* ---- LegCharge objects as seen through a tensor: the contents of the legs of x *)
Definition legs_view (h : heap) (x : nat) : list legrec := map (fun i => nth i (legs h) dleg) (lg (obj h x)).
(* the value a transposed copy must have *)
Definition transpose_value (perm : list nat) (v : value) : value :=
  let '(b, t, l, lb, q) := v in
  (b, perm_cols perm t, map (fun k => nth k l dleg) perm, map (fun k => nth k lb 0%nat) perm, q).

(* ---- histories at the MPS level: the owner of the MPS and other callers interleave get_B calls, measurement
   programs and arbitrary operations of the store model on tensors they hold.  A step `POp o` is admissible when o is
   applicable and no site tensor of the MPS is in may_change h o, i.e. o is not an in-place method on a site or on a
   tensor sharing a block buffer with a site (the contract of get_B(copy=False): "it should not be inplace modified"). *)
Inductive mps_op :=
| PGet (i : nat) (fm : form) (cp : bool)
| PMeas (prog : list mstep)
| POp (o : op).
Definition mps_step (sc : list Z -> Z -> list Z -> list Z) (h : heap) (m : mps) (p : mps_op) : heap :=
  match p with
  | PGet i fm cp => match get_B sc h m i fm cp with Some hr => fst hr | None => h end
  | PMeas prog => run_meas sc h m prog
  | POp o => fst (exec h o)
  end.
Fixpoint mps_run (sc : list Z -> Z -> list Z -> list Z) (h : heap) (m : mps) (ps : list mps_op) : heap :=
  match ps with [] => h | p :: t => mps_run sc (mps_step sc h m p) m t end.
Definition mps_step_ok (sc : list Z -> Z -> list Z -> list Z) (h : heap) (m : mps) (p : mps_op) : Prop :=
  match p with
  | PGet i _ _ => (i < length (sites m))%nat
  | PMeas prog => meas_ok sc (length (objs h)) h m prog
  | POp o => op_ok h o /\ forall c, In c (sites m) -> ~ In c (may_change h o)
  end.
Fixpoint mps_run_ok (sc : list Z -> Z -> list Z -> list Z) (h : heap) (m : mps) (ps : list mps_op) : Prop :=
  match ps with [] => True | p :: t => mps_step_ok sc h m p /\ mps_run_ok sc (mps_step sc h m p) m t end.
