(* Graded weighted-automaton model of MPO.make_U_I (tenpy/networks/mpo.py), property C11.
   Definitions only (proofs in Proofs/PropUIP.v).

   For a finite MPO H whose W tensors are the grid of a graph g (Model/Automaton.v) in standard sum
   form, make_U_I(dt) does on every site i:  column IdL (right bond) += dt * column IdR;  column IdR
   is projected out;  row IdR (left bond) is projected out;  afterwards IdL = IdR = the old IdL on
   every bond.  In graph terms, per site: an edge leaving IdR is dropped; a remaining edge entering
   IdR becomes an edge entering IdL with weight dt * w ("redirected"); every other edge is kept.
   The operator of the result is the sum over all paths from IdL (left of site 0) to IdL (right of the
   last site).

   All weights of U_I are monomials c * dt^n, so a GRADED automaton (every edge carries the power of
   dt: 1 for redirected edges, 0 otherwise) is exact:  make_U_I(H, dt) = sum_d dt^d * ui_den d g. *)
From TenpyV Require Import Base.Prelude Model.Automaton.
Open Scope Z_scope.

(* an edge with the power of dt it carries; a graded graph *)
Definition gedge := (edge * nat)%type.
Definition ggraph := list (list gedge).

(* the make_U_I transformation of one edge: None = dropped (row IdR), degree 1 = redirected *)
Definition ui_edge (e : edge) : option gedge :=
  if key_eqb (eL e) IdR then None
  else if key_eqb (eR e) IdR then Some (mkE (eL e) IdL (eop e) (ew e), 1%nat)
  else Some (e, 0%nat).
Definition ui_site (es : list edge) : list gedge :=
  flat_map (fun e => match ui_edge e with Some x => [x] | None => [] end) es.
Definition ui_graph (g : graph) : ggraph := map ui_site g.

(* graded paths: (product of weights, word, final state, total degree) *)
Definition gpath := (C * word * key * nat)%type.
Definition gpstep (i : nat) (x : gedge) (p : gpath) : gpath :=
  (pstep i (fst x) (fst p), (snd x + snd p)%nat).
Fixpoint gpaths (g : ggraph) (i : nat) (k : key) : list gpath :=
  match g with
  | [] => [(c1, [], k, 0%nat)]
  | es :: g' =>
    flat_map (fun x => if key_eqb (eL (fst x)) k
                       then map (gpstep i x) (gpaths g' (S i) (eR (fst x))) else []) es
  end.
(* the (weight, word) of the graded paths that end in kf and have total degree exactly d *)
Definition gending (kf : key) (d : nat) (l : list gpath) : poly :=
  map (fun p => fst (fst p))
      (filter (fun p => key_eqb (snd (fst p)) kf && Nat.eqb (snd p) d) l).

(* coefficient of dt^d of the operator of make_U_I, started in state k on the bond left of site i
   of the suffix graph g *)
Definition ui_rden (d : nat) (g : graph) (i : nat) (k : key) : poly :=
  gending IdL d (gpaths (ui_graph g) i k).
(* coefficient of dt^d of make_U_I(H, dt) *)
Definition ui_den (d : nat) (g : graph) : poly := ui_rden d g 0%nat IdL.

(* ---- the evaluated (ungraded) U_I graph for a concrete time step t *)
Fixpoint cpow (t : C) (n : nat) : C :=
  match n with O => c1 | S n' => cmul t (cpow t n') end.
Definition ui_eval_edge (t : C) (e : edge) : option edge :=
  if key_eqb (eL e) IdR then None
  else if key_eqb (eR e) IdR then Some (mkE (eL e) IdL (eop e) (cmul t (ew e)))
  else Some e.
Definition ui_eval_site (t : C) (es : list edge) : list edge :=
  flat_map (fun e => match ui_eval_edge t e with Some x => [x] | None => [] end) es.
Definition ui_eval (t : C) (g : graph) : graph := map (ui_eval_site t) g.
(* operator of a graph whose final state is kf (for U_I: kf = IdL) *)
Definition denote_to (kf : key) (g : graph) : poly := ending kf (paths g 0%nat IdL).
(* the Taylor polynomial sum_{d = 0 .. length g} t^d * ui_den d g *)
Definition ui_taylor (t : C) (g : graph) : poly :=
  flat_map (fun d => pscale (cpow t d) (ui_den d g)) (seq 0 (S (length g))).

(* ---- second order: pairs of non-overlapping complete terms.
   pmono j p e q : the product  (path p) . (edge e on site j) . (monomial q)  *)
Definition pmono (j : nat) (p : C * word * key) (e : edge) (q : mono) : mono :=
  (cmul (fst (fst p)) (cmul (ew e) (fst q)), snd (fst p) ++ consop j (eop e) (snd q)).
(* product of polynomials (words of the left factor lie on sites left of the right factor's) *)
Definition pmul (p q : poly) : poly :=
  flat_map (fun a => map (fun b => (cmul (fst a) (fst b), snd a ++ snd b)) q) p.
(* all  T1 . q  where T1 is a path k ->* IdR of g (sites numbered from i) that enters IdR exactly on
   the m-th site of g (site i + m), and q ranges over R (rest of g after that site) (i + m + 1) *)
Definition ui_split_at (R : graph -> nat -> poly) (g : graph) (i : nat) (k : key) (m : nat) : poly :=
  flat_map (fun p =>
    if key_eqb (snd p) IdR then []
    else flat_map (fun e =>
           if key_eqb (eL e) (snd p) && key_eqb (eR e) IdR
           then map (pmono (i + m) p e) (R (skipn (S m) g) (i + S m)%nat)
           else []) (nth m g []))
    (paths (firstn m g) i k).
Definition ui_split (R : graph -> nat -> poly) (g : graph) (i : nat) (k : key) : poly :=
  flat_map (ui_split_at R g i k) (seq 0 (length g)).
(* the complete terms of g (paths k ->* IdR) that enter IdR exactly on site i + m *)
Definition ui_terms_at (g : graph) (i : nat) (k : key) (m : nat) : poly :=
  ui_split_at (fun _ _ => [(c1, [])]) g i k m.
(* all products  T1 * T2  where T1 is a complete term of g that enters IdR exactly on site i + m and T2
   is a complete term (path IdL ->* IdR) of the sites after it *)
Definition ui_pairs_at (g : graph) (i : nat) (k : key) (m : nat) : poly :=
  ui_split_at (fun g' j => rden g' j IdL) g i k m.
Definition ui_pairs (g : graph) (i : nat) (k : key) : poly :=
  ui_split (fun g' j => rden g' j IdL) g i k.
(* H restricted to the terms that start on a site >= m *)
Definition denote_from (m : nat) (g : graph) : poly := rden (skipn m g) m IdL.
(* sum over the cut position m of  (terms ending exactly on site m) * (terms starting after site m) *)
Definition ui_order2 (g : graph) : poly :=
  flat_map (fun m => pmul (ui_terms_at g 0%nat IdL m) (denote_from (S m) g)) (seq 0 (length g)).

(* ---- checker for a correspondence stream: (t, graph of H, grid of make_U_I(t) of the implementation
   read as a graph whose IdL = IdR index is called IdL) *)
Definition check_UI (c : C * graph * graph) : bool :=
  let '(t, g, gi) := c in
  peqb (denote_to IdL gi) (denote_to IdL (ui_eval t g)) &&
  peqb (denote_to IdL gi) (ui_taylor t g).
