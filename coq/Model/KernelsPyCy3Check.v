(* Correspondence checkers for the two kernel models that had no executed tie:
     (d) the block merge of iadd_prefactor_other   (Model/KernelsPyCy2.v: iadd_merge_py / iadd_merge_cy)
     (c) Array.itranspose                          (Model/KernelsPyCy3.v: itranspose_py / itranspose_cy)
   harness/impl/c04_impl.py ('merge' and 'itrans' kernel cases) records, in BOTH configurations,
     merge:  the _qdata tables of the two operands as the loop sees them (after isort_qdata, or -- 'raw' cases --
             unsorted tables with the _qdata_sorted flag forced), the leg block numbers (-> F-strides), the resulting
             _qdata and, read off from marker values stored in the blocks (block i of a holds i+1, block j of b holds
             1024*(j+1), prefactor 1), which operand(s) contributed each output row;
     itrans: legs (identities), labels, _qdata, every block (buffer, shape, element strides) and the sorted flag
             before the call, the resolved axes, and the same observables after the call (or the ValueError).
   check3_py is evaluated on the results of the pure-Python configuration, check3_cy on the results of the
   configuration with the extension rebuilt from the current .pyx.  Definitions only. *)
From TenpyV Require Import Base.Prelude Model.KernelsPyCy Model.KernelsPyCy2 Model.KernelsPyCy3.
Open Scope Z_scope.

(* which operand(s): tag 0 = Both i j, 1 = OnlyA i, 2 = OnlyB j (as integers from the harness) *)
Definition which_of (t : Z * Z * Z) : which :=
  let '(k, i, j) := t in
  if k =? 0 then Both (Z.to_nat i) (Z.to_nat j)
  else if k =? 1 then OnlyA (Z.to_nat i) else OnlyB (Z.to_nat j).
Definition which_eqb (x y : which) : bool :=
  match x, y with
  | Both i j, Both i' j' => Nat.eqb i i' && Nat.eqb j j'
  | OnlyA i, OnlyA i' => Nat.eqb i i'
  | OnlyB j, OnlyB j' => Nat.eqb j j'
  | _, _ => false
  end.
Fixpoint lw_eqb (a b : list which) : bool :=
  match a, b with
  | [], [] => true
  | x :: a', y :: b' => which_eqb x y && lw_eqb a' b'
  | _, _ => false
  end.
Definition merged_eqb (m : merged) (q : list (list Z)) (w : list (Z * Z * Z)) : bool :=
  match m with
  | Some (q', w') => llz_eqb q' q && lw_eqb w' (map which_of w)
  | None => false
  end.

(* an Array state as the harness serialises it: everything integer-valued *)
Record arrZ := mkArrZ {
  z_legs : list Z; z_labels : list (option Z); z_qdata : list (list Z);
  z_blocks : list (list Z * list Z * list Z);        (* buffer, shape, element strides *)
  z_sorted : bool }.
Definition arr_of (a : arrZ) : arr :=
  mkArr (map Z.to_nat (z_legs a)) (map (option_map Z.to_nat) (z_labels a)) (z_qdata a)
        (map (fun b => mkView (fst (fst b)) (map Z.to_nat (snd (fst b))) (map Z.to_nat (snd b))) (z_blocks a))
        (z_sorted a).

Definition ln_eqb (a b : list nat) : bool := if list_eq_dec Nat.eq_dec a b then true else false.
Fixpoint llab_eqb (a b : list (option nat)) : bool :=
  match a, b with
  | [], [] => true
  | x :: a', y :: b' => lab_eqb x y && llab_eqb a' b'
  | _, _ => false
  end.
(* strides are compared on the axes of extent > 1 only (numpy is free to report anything for extent <= 1) *)
Fixpoint strides_eqb (shape s1 s2 : list nat) : bool :=
  match shape, s1, s2 with
  | [], [], [] => true
  | n :: st, x :: t1, y :: t2 => ((n <=? 1)%nat || Nat.eqb x y) && strides_eqb st t1 t2
  | _, _, _ => false
  end.
Definition view_eqb (v w : view) : bool :=
  ln_eqb (v_shape v) (v_shape w) && lz_eqb (dense v) (dense w)
  && ((Nat.eqb (prodN (v_shape v)) 0) || strides_eqb (v_shape v) (v_strides v) (v_strides w)).
Fixpoint lview_eqb (a b : list view) : bool :=
  match a, b with
  | [], [] => true
  | x :: a', y :: b' => view_eqb x y && lview_eqb a' b'
  | _, _ => false
  end.
Definition arr_eqb (a b : arr) : bool :=
  ln_eqb (a_legs a) (a_legs b) && llab_eqb (a_labels a) (a_labels b) && llz_eqb (a_qdata a) (a_qdata b)
  && lview_eqb (a_blocks a) (a_blocks b) && Bool.eqb (a_sorted a) (a_sorted b).
(* None = ValueError *)
Definition oarr_eqb (x : option arr) (y : option arrZ) : bool :=
  match x, y with
  | Some u, Some w => arr_eqb u (arr_of w)
  | None, None => true
  | _, _ => false
  end.

Inductive kernel_case3 :=
| KMerge (shape : list Z) (aq bq : list (list Z)) (q : list (list Z)) (w : list (Z * Z * Z))
| KItrans (pre : arrZ) (axes : list Z) (post : option arrZ).

Definition rank_of (shape : list Z) : nat := length shape.

Definition check3_py (c : kernel_case3) : bool :=
  match c with
  | KMerge shape aq bq q w =>
      match make_stride_py shape false with
      | Some stride => merged_eqb (iadd_merge_py stride aq bq) q w
      | None => false
      end
  | KItrans pre axes post => oarr_eqb (itranspose_py (arr_of pre) (map Z.to_nat axes)) post
  end.
(* the uninitialised table of the compiled merge is filled with a value that is not a valid qindex *)
Definition check3_cy (c : kernel_case3) : bool :=
  match c with
  | KMerge shape aq bq q w =>
      match make_stride_cy shape false with
      | Some stride => merged_eqb (iadd_merge_cy (-7) (rank_of shape) stride aq bq) q w
      | None => false
      end
  | KItrans pre axes post => oarr_eqb (itranspose_cy (arr_of pre) (map Z.to_nat axes)) post
  end.
