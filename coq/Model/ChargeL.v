(* Charge vectors for the leg / pipe / factorisation models (C06, C05).
   chinfo = list of mods, 1 = U(1) (no reduction), N > 1 = Z_N.   Definitions only.
   Model of tenpy/linalg/charges.py: ChargeInfo.make_valid (x % 1 := x). *)
From TenpyV Require Import Base.Prelude.
Open Scope Z_scope.

Definition chinfo := list Z.
Definition cvec := list Z.

Definition mv1 (m q : Z) : Z := if m =? 1 then q else q mod m.

(* make_valid: one entry per charge of the chinfo *)
Fixpoint make_valid (ci : chinfo) (q : cvec) : cvec :=
  match ci, q with
  | m :: ci', x :: q' => mv1 m x :: make_valid ci' q'
  | _, _ => []
  end.

Fixpoint vadd (a b : cvec) : cvec :=
  match a, b with
  | x :: a', y :: b' => (x + y) :: vadd a' b'
  | _, _ => []
  end.
Definition vscale (s : Z) (a : cvec) : cvec := map (Z.mul s) a.
Definition vneg (a : cvec) : cvec := map Z.opp a.
Definition vzero (n : nat) : cvec := repeat 0 n.
Definition vsum (n : nat) (l : list cvec) : cvec := fold_right vadd (vzero n) l.

Fixpoint veqb (a b : cvec) : bool :=
  match a, b with
  | [], [] => true
  | x :: a', y :: b' => (x =? y) && veqb a' b'
  | _, _ => false
  end.

(* np.lexsort(charges.T): the LAST charge is the primary key.  key = reversed vector,
   compared lexicographically. *)
Fixpoint lex_leb (a b : cvec) : bool :=
  match a, b with
  | [], _ => true
  | _ :: _, [] => false
  | x :: a', y :: b' => if x <? y then true else if y <? x then false else lex_leb a' b'
  end.
Definition key_leb (a b : cvec) : bool := lex_leb (rev a) (rev b).

Definition valid_charge (ci : chinfo) (q : cvec) : bool := veqb (make_valid ci q) q.
