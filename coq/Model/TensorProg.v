(* Programs (finite histories / compositions) of the np_conserved operations modelled in Model/TensorOps.v, TensorDot.v, TakeSlice.v
   (definitions only).

     top            one public operation applied to entries of an environment (operands are POSITIONS, so operands may alias and
                    results are re-used by later steps):
                      OTranspose x p      transpose(env[x], p)            / itranspose
                      OConj x             env[x].conj()                   / iconj
                      OScale x s          s * env[x]                      / iscale_prefactor
                      OAdd x y alpha      env[x] + alpha * env[y]         / iadd_prefactor_other
                      OOuter x y          outer(env[x], env[y])
                      OTensordot x y k    tensordot(env[x], env[y], axes=k)  (last k legs of env[x] with the first k legs of env[y])
                      OTakeSlice x ax i   env[x].take_slice(i, ax)
                      OSwapaxes x i j     env[x].iswapaxes(i, j)            (np.swapaxes)
                      OGauge x ax q qc    env[x].gauge_total_charge(ax, q, qc)   (dense form unchanged)
     instr          an operation + where the result goes: None = a new entry is appended (functional form, `c = op(a, b)`),
                    Some d = entry d is OVERWRITTEN (the in-place form `a.iop(...)`, or re-binding a name); a destination
                    outside the environment discards the result.  Entries are VALUES: the sharing of _data / _qdata between a
                    shallow copy (e.g. the result of gauge_total_charge) and its original under later in-place steps is NOT modelled
     applicable     the documented preconditions of the operation (operand positions exist, p is a permutation of the axes, equal legs
                    and qtotal for add, contractible legs for tensordot, axis / index in range and one charge entry per charge for
                    take_slice, axes in range for iswapaxes, gauge_ok for gauge_total_charge)
     run            executes a program; applicable_prog = every instruction is applicable in the environment in which it runs
     qtot_doc       the documented total charge of the result as a function of the operands' total charges
                    (unchanged / negated / sum / difference with the charge of the removed index / the requested one)

   Dense side: a dense array is (shape, function of the multi-index); d_step / d_run interpret the SAME program with the numpy-level
   definitions only (np.transpose, np.conj, *, +, np.multiply.outer, np.tensordot = d_tensordot of Model/TensorDot.v, D[..., i, ...]);
   they never look at charges, blocks or flags.

   Tie to the code: the program layer only COMPOSES the operation models of TensorOps.v (correspondence-checked by harness/c01.py /
   c02.py), TensorDot.v, TakeSlice.v and the models iswapaxes / gauge_total_charge of this file (written after the source and
   correspondence-checked by the stream coq2 of harness/c02.py, checker check_case_c02x of Model/TensorProgCheck.v). *)
From TenpyV Require Import Base.Prelude Model.Charge Model.Tensor Model.TensorOps Model.TensorDot Model.TakeSlice.
Open Scope Z_scope.

Fixpoint replace_at {A} (d : nat) (r : A) (l : list A) {struct l} : list A :=
  match l, d with
  | [], _ => []
  | _ :: t, O => r :: t
  | x :: t, S d' => x :: replace_at d' r t
  end.

(* ---------------------------------------------------------------- flag handling of the transposing operations
   Array.itranspose(axes): `if axes == list(range(self.rank)): return self` (nothing to do, claim kept), otherwise the columns of
   _qdata are permuted and `self._qdata_sorted = False`.  Array.iswapaxes(i, j): `if axis1 == axis2: return self`, otherwise the
   transposition of the two axes and `self._qdata_sorted = False`. *)
Definition itranspose (p : list nat) (a : arr) : arr :=
  if row_eqb p (seq 0 (rank a)) then a else transpose p a.
Definition swap_perm (r i j : nat) : list nat :=
  map (fun k => if (k =? i)%nat then j else if (k =? j)%nat then i else k) (seq 0 r).
Definition iswapaxes (i j : nat) (a : arr) : arr :=
  if (i =? j)%nat then a else transpose (swap_perm (rank a) i j) a.
(* the code WITHOUT the line `self._qdata_sorted = False` (a seeded change of exactly this kind): same data, claim kept *)
Definition transpose_keepflag (p : list nat) (a : arr) : arr :=
  mkArr (legs (transpose p a)) (qtot (transpose p a)) (blks (transpose p a)) (qsorted a).

(* ---------------------------------------------------------------- Array.gauge_total_charge(axis, newqtotal, new_qconj)
     newqtotal = make_valid(newqtotal);  chdiff = newqtotal - qtotal
     new_charges = legs[ax].charges + old_qconj * chdiff;  if old_qconj != new_qconj: new_charges = -new_charges
     new_charges = make_valid(new_charges);  legs[ax] = LegCharge.from_qind(chinfo, slices, new_charges, new_qconj)
   _data, _qdata and _qdata_sorted are shared with self (shallow copy).
   `asdoc` = which direction multiplies chdiff: the code is gauge_total_charge = gauge_gen true (old_qconj * chdiff);
   gauge_gen false is the code with `new_qconj * chdiff` (a seeded change of exactly this kind: it only differs, by the sign of the
   shift, in the branch old_qconj != new_qconj). *)
Definition gauge_charges (ci : chinfo) (asdoc : bool) (oldqc newqc : Z) (chdiff : list Z) (c : list Z) : list Z :=
  let c1 := vadd c (vscale (if asdoc then oldqc else newqc) chdiff) in
  make_valid ci (if (oldqc =? newqc) then c1 else vneg c1).
Definition gauge_gen (asdoc : bool) (ci : chinfo) (ax : nat) (newq : list Z) (newqc : Z) (a : arr) : arr :=
  let l := nth ax (legs a) dleg in
  let nq := make_valid ci newq in
  let chdiff := vadd nq (vneg (qtot a)) in
  mkArr (replace_at ax (mkLeg (bsz l) (map (gauge_charges ci asdoc (qc l) newqc chdiff) (bch l)) newqc) (legs a))
        nq (blks a) (qsorted a).
Definition gauge_total_charge := gauge_gen true.

(* ---------------------------------------------------------------- programs *)
Inductive top : Type :=
| OTranspose (x : nat) (p : list nat)
| OConj (x : nat)
| OScale (x : nat) (s : C)
| OAdd (x y : nat) (alpha : C)
| OOuter (x y : nat)
| OTensordot (x y k : nat)
| OTakeSlice (x ax i : nat)
| OSwapaxes (x i j : nat)
| OGauge (x ax : nat) (newq : list Z) (newqc : Z).

Definition instr := (top * option nat)%type.

Definition darr : arr := mkArr [] [] [] true.
Definition get (e : list arr) (x : nat) : arr := nth x e darr.

Definition step (ci : chinfo) (o : top) (e : list arr) : arr :=
  match o with
  | OTranspose x p => transpose p (get e x)
  | OConj x => conj ci (get e x)
  | OScale x s => scale s (get e x)
  | OAdd x y alpha => add alpha (get e x) (get e y)
  | OOuter x y => outer ci (get e x) (get e y)
  | OTensordot x y k => tensordot ci k (get e x) (get e y)
  | OTakeSlice x ax i => take_slice ci ax i (get e x)
  | OSwapaxes x i j => iswapaxes i j (get e x)
  | OGauge x ax newq newqc => gauge_total_charge ci ax newq newqc (get e x)
  end.

Definition store {A} (dst : option nat) (r : A) (l : list A) : list A :=
  match dst with None => l ++ [r] | Some d => replace_at d r l end.

Definition exec (ci : chinfo) (ins : instr) (e : list arr) : list arr := store (snd ins) (step ci (fst ins) e) e.
Fixpoint run (ci : chinfo) (prog : list instr) (e : list arr) : list arr :=
  match prog with [] => e | ins :: t => run ci t (exec ci ins e) end.

(* the removed index i of axis ax exists, and the charge block containing it has one charge entry per charge *)
Definition slice_ok (ci : chinfo) (ax i : nat) (a : arr) : Prop :=
  (ax < rank a)%nat /\ (i < ind_len (nth ax (legs a) dleg))%nat /\
  length (nth (get_qindex (nth ax (legs a) dleg) i) (bch (nth ax (legs a) dleg)) []) = length ci.

(* the leg to be re-gauged exists and has a direction, its charge rows have one entry per charge, the _qdata rows refer to blocks of the
   leg; the new total charge has one entry per charge and the new direction is +-1 *)
Definition gauge_ok (ci : chinfo) (ax : nat) (newq : list Z) (newqc : Z) (a : arr) : Prop :=
  (ax < rank a)%nat /\ length newq = length ci /\
  (qc (nth ax (legs a) dleg) = 1 \/ qc (nth ax (legs a) dleg) = -1) /\ (newqc = 1 \/ newqc = -1) /\
  Forall (fun c => length c = length ci) (bch (nth ax (legs a) dleg)) /\
  (forall r, In r (rows a) -> (nth ax r 0 < length (bch (nth ax (legs a) dleg)))%nat).

Definition applicable (ci : chinfo) (o : top) (e : list arr) : Prop :=
  match o with
  | OTranspose x p => (x < length e)%nat /\ Permutation p (seq 0 (rank (get e x)))
  | OConj x => (x < length e)%nat
  | OScale x s => (x < length e)%nat
  | OAdd x y alpha => (x < length e)%nat /\ (y < length e)%nat /\
                      legs (get e x) = legs (get e y) /\ qtot (get e x) = qtot (get e y)
  | OOuter x y => (x < length e)%nat /\ (y < length e)%nat
  | OTensordot x y k => (x < length e)%nat /\ (y < length e)%nat /\
                        (k <= rank (get e x))%nat /\ (k <= rank (get e y))%nat /\
                        Forall2 (contractible ci) (skipn (rank (get e x) - k) (legs (get e x))) (firstn k (legs (get e y)))
  | OTakeSlice x ax i => (x < length e)%nat /\ slice_ok ci ax i (get e x)
  | OSwapaxes x i j => (x < length e)%nat /\ (i < rank (get e x))%nat /\ (j < rank (get e x))%nat
  | OGauge x ax newq newqc => (x < length e)%nat /\ gauge_ok ci ax newq newqc (get e x)
  end.

Fixpoint applicable_prog (ci : chinfo) (prog : list instr) (e : list arr) : Prop :=
  match prog with
  | [] => True
  | ins :: t => applicable ci (fst ins) e /\ applicable_prog ci t (exec ci ins e)
  end.

(* documented total charge of the result *)
Definition qtot_doc (ci : chinfo) (o : top) (e : list arr) : list Z :=
  match o with
  | OTranspose x _ => qtot (get e x)
  | OScale x _ => qtot (get e x)
  | OAdd x _ _ => qtot (get e x)
  | OConj x => make_valid ci (vneg (qtot (get e x)))
  | OOuter x y => make_valid ci (vadd (qtot (get e x)) (qtot (get e y)))
  | OTensordot x y _ => make_valid ci (vadd (qtot (get e x)) (qtot (get e y)))
  | OTakeSlice x ax i =>
      let l := nth ax (legs (get e x)) dleg in
      make_valid ci (vadd (qtot (get e x)) (vneg (leg_charge l (get_qindex l i))))
  | OSwapaxes x _ _ => qtot (get e x)
  | OGauge _ _ newq _ => make_valid ci newq
  end.

(* ---------------------------------------------------------------- dense (numpy-level) interpreter *)
Definition dense := (list nat * (list nat -> C))%type.
Definition ddense : dense := ([], fun _ => c0).
Definition to_dense (a : arr) : dense := (map ind_len (legs a), to_ndarray a).
Definition dget (E : list dense) (x : nat) : dense := nth x E ddense.

(* np.transpose(D, p)[j] = D[i] with j_k = i_{p_k} *)
Definition d_transpose (p : list nat) (A : dense) : dense :=
  (gather 0%nat p (fst A), fun idx => snd A (gather 0%nat (invperm p) idx)).
Definition d_conj (A : dense) : dense := (fst A, fun idx => cconj (snd A idx)).
Definition d_scale (s : C) (A : dense) : dense := (fst A, fun idx => cmul s (snd A idx)).
Definition d_add (alpha : C) (A B : dense) : dense := (fst A, fun idx => cadd (snd A idx) (cmul alpha (snd B idx))).
(* np.multiply.outer(A, B)[i ++ j] = A[i] * B[j] *)
Definition d_outer (A B : dense) : dense :=
  (fst A ++ fst B, fun idx => cmul (snd A (firstn (length (fst A)) idx)) (snd B (skipn (length (fst A)) idx))).
(* np.tensordot(A, B, axes=k) *)
Definition d_tdot (k : nat) (A B : dense) : dense :=
  let nk := (length (fst A) - k)%nat in
  (firstn nk (fst A) ++ skipn k (fst B), d_tensordot (snd A) (snd B) (skipn nk (fst A)) nk).
(* D[:, ..., i, ..., :] with i at position ax *)
Definition d_take_slice (ax i : nat) (A : dense) : dense :=
  (remove_at ax (fst A), fun idx => snd A (insert_at ax i idx)).

Definition d_step (o : top) (E : list dense) : dense :=
  match o with
  | OTranspose x p => d_transpose p (dget E x)
  | OConj x => d_conj (dget E x)
  | OScale x s => d_scale s (dget E x)
  | OAdd x y alpha => d_add alpha (dget E x) (dget E y)
  | OOuter x y => d_outer (dget E x) (dget E y)
  | OTensordot x y k => d_tdot k (dget E x) (dget E y)
  | OTakeSlice x ax i => d_take_slice ax i (dget E x)
  | OSwapaxes x i j => d_transpose (swap_perm (length (fst (dget E x))) i j) (dget E x)
  | OGauge x _ _ _ => dget E x
  end.
Definition d_exec (ins : instr) (E : list dense) : list dense := store (snd ins) (d_step (fst ins) E) E.
Fixpoint d_run (prog : list instr) (E : list dense) : list dense :=
  match prog with [] => E | ins :: t => d_run t (d_exec ins E) end.

(* equality of dense arrays: same shape and same value at every multi-index with one entry per axis *)
Definition deq (A B : dense) : Prop :=
  fst A = fst B /\ forall idx, length idx = length (fst A) -> snd A idx = snd B idx.

