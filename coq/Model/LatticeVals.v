(* Model of the value-reshaping part of tenpy/models/lattice.py (property C19): the caches
   `_mps2lat_vals_idx`, `_mps2lat_vals_idx_fix_u` built by the `order` setter and `Lattice.mps2lat_values`.
   Definitions only (proofs in Proofs/LatticeP2.v).  Tie to the code: correspondence (K), stream
   "model-values" of harness/c19.py (check_values below), and the theorems of Proofs/LatticeP2.v that link
   these definitions to mps2lat / lat2mps / mps_fix_u of Model/Lattice.v.

   order setter:
       self._mps2lat_vals_idx = np.empty(self.shape, np.intp)
       self._mps2lat_vals_idx[tuple(order_.T)] = np.arange(self.N_sites)
   is a scatter assignment: the entry at lattice index order_[k] becomes k, later rows overwrite earlier
   ones, entries of lattice indices that are no row of the order stay uninitialised (None here).
       mps_fix_u = np.nonzero(order_[:, -1] == u)[0]
       mps2lat_vals_idx = np.empty(self.Ls, np.intp)
       mps2lat_vals_idx[tuple(order_[mps_fix_u, :-1].T)] = np.arange(self.N_cells)
   is the same scatter over the rows with unit cell index u.
   mps2lat_values(A, axes=0, u):  np.take(A, idx, axis=0),  i.e.  res[x] = A[idx[x]]. *)
From TenpyV Require Import Base.Prelude Model.Lattice.
Open Scope Z_scope.

(* the value written last at lattice index s by  table[rows[k]] = k  (k in program order) *)
Fixpoint scatter (rows : list (Z * site)) (s : site) (acc : option Z) : option Z :=
  match rows with
  | [] => acc
  | (k, r) :: t => scatter t s (if site_eqb r s then Some k else acc)
  end.

Definition scatter_lookup (rows : list site) (s : site) : option Z := scatter (zenum rows) s None.

(* _mps2lat_vals_idx[x_0, ..., x_{d-1}, u] *)
Definition vals_idx (lat : lattice) (s : site) : option Z := scatter_lookup (lorder lat) s.

(* mps2lat_values(A)[x_0, ..., x_{d-1}, u]   (A a 1D array, given as a list) *)
Definition mps2lat_values {V} (lat : lattice) (a : list V) (s : site) : option V :=
  match vals_idx lat s with Some k => nth_error a (Z.to_nat k) | None => None end.

(* order_[mps_fix_u]  (the rows keep their u, which is compared as part of the site) *)
Definition order_fix_u (lat : lattice) (u : Z) : list site := filter (fun s => snd s =? u) (lorder lat).

(* _mps2lat_vals_idx_fix_u[u][x_0, ..., x_{d-1}] *)
Definition vals_idx_u (lat : lattice) (u : Z) (x0 : Z) (xr : list Z) : option Z :=
  scatter_lookup (order_fix_u lat u) (x0, xr, u).

(* mps2lat_values(A, u=u)[x_0, ..., x_{d-1}] *)
Definition mps2lat_values_u {V} (lat : lattice) (u : Z) (a : list V) (x0 : Z) (xr : list Z) : option V :=
  match vals_idx_u lat u x0 xr with Some k => nth_error a (Z.to_nat k) | None => None end.

(* ---- checker used by harness/c19.py (vm_compute): the whole result arrays in C order *)
Definition values_flat (lat : lattice) (a : list Z) : list (option Z) :=
  map (fun row => mps2lat_values lat a (row_site row)) (cstyle (L0 lat :: Lr lat ++ [Lu lat])).

Definition values_u_flat (lat : lattice) (u : Z) (a : list Z) : list (option Z) :=
  map (fun row => match row with x0 :: xr => mps2lat_values_u lat u a x0 xr | [] => None end)
      (cstyle (L0 lat :: Lr lat)).

(* A[mps_idx_fix_u(u)] *)
Definition take_fix_u (lat : lattice) (u : Z) (a : list Z) : list Z :=
  map (fun i => nth (Z.to_nat i) a 0) (mps_fix_u lat u).

(* case: lattice, A, reported mps2lat_values(A) flattened, reported mps2lat_values(A[mps_idx_fix_u(u)], u=u)
   flattened for u = 0 .. Lu-1 *)
Definition check_values (c : lattice * list Z * list Z * list (list Z)) : bool :=
  let '(lat, a, flat, flats_u) := c in
  list_eqb (opt_eqb Z.eqb) (values_flat lat a) (map Some flat) &&
  list_eqb (list_eqb (opt_eqb Z.eqb))
           (map (fun u => values_u_flat lat u (take_fix_u lat u a)) (zrange (Lu lat)))
           (map (map Some) flats_u).
