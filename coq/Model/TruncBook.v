(* Model of the renormalisation bookkeeping in tenpy/linalg/truncation.py around `truncate`:
   svd_theta (lines "renormalization = np.linalg.norm(S)" ... "renormalization *= new_norm"),
   eigh_rho ("renormalization = np.sum(W)" ... "W = W[piv] / new_norm**2 * renormalization"),
   and the class TruncationError (from_norm, from_S, __add__).
   Definitions only (proofs in Proofs/TruncBookP.v).

   No square roots are computed.  The two square roots of the code,
        r  = np.linalg.norm(S)            (svd_theta)
        nn = np.linalg.norm(S[mask])      (the `norm_new` returned by truncate)
   are INPUTS of svd_theta_book / eigh_rho_book; the theorems constrain them by r*r == sum S^2 and
   nn*nn == sum S[mask]^2.  The variants *_sq / *_z take only integers (numerators of dyadic
   rationals, as Model/Truncate.v), carry the squares, and are the ones compared with the
   implementation (harness/c15.py, stream `book`, tolerance 1e-9 because the code rounds).

   Numbers are exact rationals Q; equality in the theorems is Qeq. *)
From TenpyV Require Import Base.Prelude Base.PyLib Model.Truncate.
From Coq Require Import QArith.
Open Scope Q_scope.

Fixpoint sumQ (l : list Q) : Q := match l with [] => 0 | x :: t => x + sumQ t end.
Fixpoint prodQ (l : list Q) : Q := match l with [] => 1 | x :: t => x * prodQ t end.
Definition qsq (x : Q) : Q := x * x.

(* a[mask] for a boolean index array *)
Fixpoint select {A} (mask : list bool) (l : list A) : list A :=
  match mask, l with
  | b :: m, x :: t => if b then x :: select m t else select m t
  | _, _ => []
  end.
Definition nmask (mask : list bool) : list bool := map negb mask.   (* np.logical_not(mask) *)

(* ---------------------------------------------------------------- svd_theta *)
Record svd_out := mkSvdOut {
  so_S : list Q;          (* returned S *)
  so_renorm : Q;          (* returned renormalization *)
  so_eps : Q              (* err.eps *)
}.

(* S0 = singular values from npc.svd;  mask, nn, eps = what truncate(S0 / r) returns
   (truncate: norm_new = norm(S[mask]); err = from_S(S[~mask]) = sum of squares, norm_old=None) *)
Definition svd_theta_book (S0 : list Q) (r : Q) (mask : list bool) (nn : Q) : svd_out :=
  let S1 := map (fun x => x / r) S0 in                         (* S = S / renormalization *)
  let eps := sumQ (map qsq (select (nmask mask) S1)) in         (* from_S(S[~mask]) *)
  mkSvdOut (map (fun x => x / nn) (select mask S1))             (* S = S[piv] / new_norm *)
           (r * nn)                                             (* renormalization *= new_norm *)
           eps.

(* the same with squares only, from an integer spectrum: (S_new^2, renormalization^2, eps) *)
Definition svd_book_sq (xs : list Z) (mask : list bool) : list Q * Q * Q :=
  let R2 := inject_Z (sumZ (map sq xs)) in
  let S2 := map (fun x => inject_Z (sq x) / R2) xs in
  let nn2 := sumQ (select mask S2) in
  (map (fun s => s / nn2) (select mask S2), R2 * nn2, sumQ (select (nmask mask) S2)).

(* ---------------------------------------------------------------- eigh_rho *)
Record eigh_out := mkEighOut {
  eo_W : list Q;          (* returned W *)
  eo_eps : Q              (* err.eps *)
}.

(* W0 = eigenvalues after `W[W < 1e-14] = 0`;  truncate is called on sqrt(W0 / R): a spectrum S with
   S_i^2 = W_i, hence norm_new^2 = sum W[mask] and eps = sum W[~mask] -- no root is needed *)
Definition eigh_rho_book (W0 : list Q) (mask : list bool) (nn : Q) : eigh_out :=
  let R := sumQ W0 in                                           (* renormalization = np.sum(W) *)
  let W1 := map (fun w => w / R) W0 in                          (* W = W / renormalization *)
  mkEighOut (map (fun w => w / (nn * nn) * R) (select mask W1)) (* W[piv] / new_norm**2 * renormalization *)
            (sumQ (select (nmask mask) W1)).

(* the slip seeded by an independent tester: division by new_norm instead of new_norm**2 *)
Definition eigh_rho_book_wrong (W0 : list Q) (mask : list bool) (nn : Q) : list Q :=
  let R := sumQ W0 in
  let W1 := map (fun w => w / R) W0 in
  map (fun w => w / nn * R) (select mask W1).

(* integer eigenvalues, new_norm^2 computed: (W_new, eps) *)
Definition eigh_book_z (ws : list Z) (mask : list bool) : list Q * Q :=
  let W0 := map inject_Z ws in
  let R := sumQ W0 in
  let W1 := map (fun w => w / R) W0 in
  let nn2 := sumQ (select mask W1) in
  (map (fun w => w / nn2 * R) (select mask W1), sumQ (select (nmask mask) W1)).

(* ---------------------------------------------------------------- TruncationError *)
Record terr := mkTerr { te_eps : Q; te_ov : Q }.
Definition te_zero : terr := mkTerr 0 1.                         (* TruncationError() *)
Definition te_make (eps : Q) : terr := mkTerr eps (1 - 2 * eps).  (* cls(eps, 1. - 2. * eps) *)
Definition te_add (a b : terr) : terr := mkTerr (te_eps a + te_eps b) (te_ov a * te_ov b).
Definition te_from_norm (norm_new norm_old : Q) : terr :=
  te_make (1 - norm_new * norm_new / (norm_old * norm_old)).
(* `if norm_old:` is false for None and for 0.0 *)
Definition te_from_S (disc : list Q) (norm_old : option Q) : terr :=
  let e := sumQ (map qsq disc) in
  te_make match norm_old with
          | Some n => if Qeq_bool n 0 then e else e / (n * n)
          | None => e
          end.
(* err = err_1 + err_2 + ... accumulated from the left, starting from TruncationError() *)
Definition te_sum (l : list terr) : terr := fold_left te_add l te_zero.

(* ---------------------------------------------------------------- correspondence checkers *)
Definition q_of (p : Z * Z) : Q := Qmake (fst p) (Z.to_pos (snd p)).   (* exact value of a float *)
Definition qabs (x : Q) : Q := if Qle_bool 0 x then x else - x.
Definition qclose (tol a b : Q) : bool := Qle_bool (qabs (a - b)) (tol * (1 + qabs b)).
Fixpoint qclose_list (tol : Q) (l1 l2 : list Q) : bool :=
  match l1, l2 with
  | [], [] => true
  | a :: t1, b :: t2 => qclose tol a b && qclose_list tol t1 t2
  | _, _ => false
  end.
Definition book_tol : Q := 1 # 1000000000.

(* svd_theta on diag(xs / 2^k): impl returns S (floats), renormalization * 2^k, err.eps; mask recorded *)
Definition check_svd_book (c : list Z * list bool * (list (Z * Z) * (Z * Z) * (Z * Z))) : bool :=
  let '(xs, mask, (Sn, ren, eps)) := c in
  let '(S2, ren2, e) := svd_book_sq xs mask in
  Nat.eqb (length mask) (length xs) &&
  qclose_list book_tol (map (fun p => qsq (q_of p)) Sn) S2 &&
  qclose book_tol (qsq (q_of ren)) ren2 && qclose book_tol (q_of eps) e.

(* eigh_rho on diag(ws / 2^k): impl returns W * 2^k (floats), err.eps *)
Definition check_eigh_book (c : list Z * list bool * (list (Z * Z) * (Z * Z))) : bool :=
  let '(ws, mask, (Wn, eps)) := c in
  let '(W, e) := eigh_book_z ws mask in
  Nat.eqb (length mask) (length ws) &&
  qclose_list book_tol (map q_of Wn) W && qclose book_tol (q_of eps) e.

(* TruncationError arithmetic; the harness picks dyadic inputs for which the floats are exact *)
Definition check_terr (c : list (Z * Z) * list (Z * Z) * option (Z * Z) * (Z * Z)
                          * ((Z * Z) * (Z * Z) * (Z * Z))) : bool :=
  let '(epss, disc, nold, nnew, (esum, fs, fn)) := c in
  let no := match nold with Some p => Some (q_of p) | None => None end in
  Qeq_bool (q_of esum) (te_eps (te_sum (map (fun p => te_make (q_of p)) epss))) &&
  Qeq_bool (q_of fs) (te_eps (te_from_S (map q_of disc) no)) &&
  Qeq_bool (q_of fn) (te_eps (te_from_norm (q_of nnew) (match no with Some n => n | None => 1 end))).
