(* C17 - correspondence checker for Model/PipeReinit.v, evaluated by harness/c17.py (stream `pipe-reinit`, vm_compute).
   The runner (harness/impl/c17_impl.py, kind `pipe_reinit`) builds LegPipe(legs, qconj, sort, bunch) with the real
   code, writes it with Hdf5Saver into an h5py file (LegCharge formats blocks / compact), reads the file RAW with h5py
   (group attributes `sorted`, `bunched`, `qconj`, subgroup `chinfo`, the tuple `legs`, and the LegCharge part
   slices / charges of the pipe), loads it back with Hdf5Loader (LegPipe.from_hdf5) and through pickle, and records the
   attributes of the constructed, the HDF5-loaded and the unpickled pipe.  The case literal carries the constructor
   arguments and these recordings; the checker recomputes them with pipe_save / pipe_load / pipe_construct.
   Definitions only.  New observations defined here (derived from the model object, nothing in PipeReinit.v changes):
     po_strides : the private _strides (zeros on the single-block fast path, C strides of subqshape otherwise)
     po_perm    : the private _perm (inverse of the lexsort permutation: position in q_map of every incoming block
                  tuple in C order), None on the fast path / without charges / when the pipe is not sorted. *)
From TenpyV Require Import Base.Prelude Model.ChargeL Model.Leg Model.Pipe Model.PipeCase Model.PipeReinit.
Open Scope Z_scope.

Definition legs_eqb (a b : list leg) : bool :=
  all2 (fun x y => blocks_eqb (blocks x) (blocks y) && (qc x =? qc y)) a b.

Definition ozl_eqb (a b : option (list Z)) : bool :=
  match a, b with Some x, Some y => zl_eqb x y | None, None => true | _, _ => false end.

(* _make_stride(subqshape, cstyle=True) *)
Fixpoint cstrides (shape : list nat) : list Z :=
  match shape with [] => [] | _ :: t => prodZ (map Z.of_nat t) :: cstrides t end.

Definition po_strides (o : pipe_obj) : list Z :=
  let legs := p_legs (po_pipe o) in
  if single_block legs then repeat 0 (length legs) else cstrides (map nblocks legs).

(* _perm = inverse_permutation(perm_qind) when `sort and qnumber > 0` on the general path, else None;
   on the general path with qnumber > 0 the cached flag `sorted` IS the sort argument *)
Definition po_perm (ci : chinfo) (o : pipe_obj) : option (list Z) :=
  let p := po_pipe o in
  if single_block (p_legs p) || Nat.eqb (length ci) 0 || negb (po_sorted o) then None
  else Some (map (fun q => match find_row q (p_rows p) with Some j => Z.of_nat j | None => -1 end)
                 (grid (map nblocks (p_legs p)))).

(* recorded attributes of a pipe object of the implementation:
   (charges, slices, q_map, q_map_slices, _perm, _strides, sorted, bunched, legs, qconj) *)
Definition pipe_rec : Type :=
  (list cvec * list Z * list (list Z) * list Z * option (list Z) * list Z * bool * bool * list (list block * Z) * Z)%type.

Definition obs_eqb (ci : chinfo) (o : pipe_obj) (r : pipe_rec) : bool :=
  let '(ch, sl, qm, qs, pm, st, so, bu, lg, qcj) := r in
  zll_eqb (po_charges o) ch && zl_eqb (po_slices o) sl && zll_eqb (po_qmap o) qm && zl_eqb (po_qmap_slices o) qs
  && ozl_eqb (po_perm ci o) pm && zl_eqb (po_strides o) st
  && Bool.eqb (po_sorted o) so && Bool.eqb (po_bunched o) bu
  && legs_eqb (p_legs (po_pipe o)) (mk_legs lg) && (p_qconj (po_pipe o) =? qcj).

(* what h5py finds in the group written by LegPipe.save_hdf5:
   (attr sorted, attr bunched, attr qconj, chinfo mods, legs, charges, slices) *)
Definition file_rec : Type := (bool * bool * Z * chinfo * list (list block * Z) * list cvec * list Z)%type.

(* (chinfo, legs, qconj, sort, bunch, file, constructed pipe, HDF5-loaded pipe, unpickled pipe) *)
Definition check_pipe_reinit
  (c : chinfo * list (list block * Z) * Z * bool * bool * file_rec * pipe_rec * pipe_rec * pipe_rec) : bool :=
  let '(ci, ls, qconj, srt, bnch, fr, ob0, obh, obp) := c in
  let '(fsorted, fbunched, fqconj, fci, flegs, fcharges, fslices) := fr in
  let a := mkPipeArgs ci (mk_legs ls) qconj srt bnch in
  let s := pipe_save a in
  let o := pipe_construct a in
  (* the file as from_hdf5 reads it *)
  let f := mkPipeSaved fci (mk_legs flegs) fqconj fsorted fbunched in
  (* (a) save_hdf5 wrote pipe_save a (+ the LegCharge part of the constructed pipe) *)
  Bool.eqb (s_sorted s) fsorted && Bool.eqb (s_bunched s) fbunched && (s_qconj s =? fqconj)
  && zl_eqb (s_chinfo s) fci && legs_eqb (s_legs s) (mk_legs flegs)
  && zll_eqb (po_charges o) fcharges && zl_eqb (po_slices o) fslices
  (* the constructed object: pipe_construct (attr_sorted / attr_bunched) *)
  && obs_eqb ci o ob0
  (* (b) from_hdf5 of the file = pipe_load of its content; the unpickled pipe = pipe_load (pipe_save a) *)
  && obs_eqb fci (pipe_load f) obh
  && obs_eqb ci (pipe_load s) obp.
