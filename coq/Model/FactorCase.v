(* Case checkers evaluated by harness/c05.py (vm_compute). *)
From TenpyV Require Import Base.Prelude Model.ChargeL Model.Leg Model.Factor.
Open Scope Z_scope.

Definition zl_eqb (a b : list Z) : bool := all2 Z.eqb a b.
Definition blocks_eqb (a b : list block) : bool :=
  all2 (fun x y => (fst x =? fst y) && zl_eqb (snd x) (snd y)) a b.
Definition leg_of (x : list block * Z) : leg := mkLeg (fst x) (snd x).

(* (chinfo, legL, legR, qtotal, qdata, kept per block, request L, request R, inner_qconj,
    (VH.legs[0], U.qtotal, VH.qtotal)) *)
Definition check_svd_case
  (c : chinfo * (list block * Z) * (list block * Z) * cvec * list (nat * nat) * list Z *
       option cvec * option cvec * Z * ((list block * Z) * cvec * cvec)) : bool :=
  let '(ci, lL, lR, q, qd, nums, oL, oR, iq, (inner, qU, qV)) := c in
  let a := mkMat (leg_of lL) (leg_of lR) q qd in
  match svd_charges ci a nums oL oR iq with
  | None => false
  | Some p =>
      blocks_eqb (fst inner) (blocks (s_legR p)) && (snd inner =? qc (s_legR p)) &&
      zl_eqb qU (s_qU p) && zl_eqb qV (s_qV p) &&
      (* the proved rule, executed: every block of U and VH obeys the charge rule *)
      forallb (fun r => let '(i, j, b) := r in
                        rule2 ci (leg_charge (mL a) i) (vscale (- iq) (snd b)) (s_qU p) &&
                        rule2 ci (vscale iq (snd b)) (leg_charge (mR a) j) (s_qV p)) (s_rows p)
  end.

(* (chinfo, legL, legR, qtotal, qdata, columns per block, complete, qtotal_Q, inner_qconj,
    (R.legs[0], Q.qtotal, R.qtotal)) *)
Definition check_qr_case
  (c : chinfo * (list block * Z) * (list block * Z) * cvec * list (nat * nat) * list Z *
       bool * option cvec * Z * ((list block * Z) * cvec * cvec)) : bool :=
  let '(ci, lL, lR, q, qd, ks, complete, qQ, iq, (inner, qtQ, qtR)) := c in
  let a := mkMat (leg_of lL) (leg_of lR) q qd in
  let p := qr_charges ci a ks complete qQ iq in
  blocks_eqb (fst inner) (blocks (r_inner p)) && (snd inner =? qc (r_inner p)) &&
  zl_eqb qtQ (r_qQ p) && zl_eqb qtR (r_qR p).
