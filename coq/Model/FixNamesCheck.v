(* Correspondence checker for Model/FixNames.v `fix_name` (property C18).
   Definitions only.  Used by harness/c18.py, stream `fix-name`:
   the runner (harness/impl/c18_impl.py `fix_names`) calls Simulation.fix_output_filenames of the current source tree
   in a temporary directory that was pre-populated with a generated subset of the candidate names
   (candidate 0 = the configured output_filename root+ext, candidate i = root + '_' + str(i) + ext) plus files the
   code must ignore for the choice (backup names, zero-padded / out-of-range / other-extension look-alikes),
   with generated skip_if_output_exists / overwrite_output / loaded_from_checkpoint, and records
   Skip / ValueError / the index of the chosen output_filename.
   A case is (indices of the candidates that exist on disk, skip_if_exists, overwrite, loaded_from_checkpoint,
   recorded result); the checker recomputes `fix_name` with `ex` = membership in the list and compares. *)
From TenpyV Require Import Base.Prelude.
From TenpyV Require Import Model.FixNames.

Definition ex_of_list (l : list nat) (i : nat) : bool := existsb (Nat.eqb i) l.

Definition fix_res_eqb (a b : fix_res) : bool :=
  match a, b with
  | FSkip, FSkip => true
  | FRaise, FRaise => true
  | FName i, FName j => Nat.eqb i j
  | _, _ => false
  end.

Definition fix_case := (list nat * bool * bool * bool * fix_res)%type.

Definition check_fix_name (c : fix_case) : bool :=
  match c with
  | (existing, skip, overwrite, loaded, observed) =>
      fix_res_eqb (fix_name (ex_of_list existing) skip overwrite loaded) observed
  end.
