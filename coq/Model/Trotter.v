(* Model for C14 (schedule part).  The Suzuki-Trotter tables themselves are NOT written here: they are
   Gen/G_trotter.v, regenerated from tenpy/algorithms/tebd.py on every run (tie T).  Here: how a schedule is
   read (time applied per parity class) and which bonds one evolve_step touches. *)
From TenpyV Require Import Base.Prelude Base.PyLib.
From Coq Require Import QArith String.
Open Scope Z_scope.

Fixpoint sumQ (l : list Q) : Q := match l with [] => 0%Q | x :: t => Qplus x (sumQ t) end.

(* time (in units of dt) a step (j, k') contributes to parity class k, for the value x of the symbol *)
Definition step_weight (ds : list poly) (x : Q) (k : Z) (st : Z * Z) : Q :=
  if snd st =? k then peval (nth (Z.to_nat (fst st)) ds []) x else 0%Q.

Definition parity_time (ds : list poly) (x : Q) (k : Z) (steps : list (Z * Z)) : Q :=
  sumQ (map (step_weight ds x k) steps).

Definition orders : list pyorder := [OInt 1; OInt 2; OInt 4; OStr "4_opt"%string].

(* TEBDEngine.evolve_step(U_idx_dt, odd):  for i_bond in arange(int(odd) % 2, L, 2): skip if Us[i_bond] is None.
   bond i couples sites (i-1, i); for finite chains Us[0] is None, for infinite ones bond 0 = (L-1, 0). *)
Fixpoint arange2 (start : nat) (n : nat) (L : nat) : list nat :=
  match n with
  | O => []
  | S n' => if Nat.ltb start L then start :: arange2 (start + 2) n' L else []
  end.
Definition step_bonds (L : nat) (finite : bool) (odd : nat) : list nat :=
  filter (fun i => negb (finite && Nat.eqb i 0)) (arange2 (Nat.modulo odd 2) L L).

(* the schedule as a list of (time polynomial, parity) -- used for the palindrome (symmetry) statement *)
Definition timed (ds : list poly) (steps : list (Z * Z)) : list (poly * Z) :=
  map (fun st => (nth (Z.to_nat (fst st)) ds [], snd st)) steps.
