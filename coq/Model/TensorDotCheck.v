(* Executable checker for the VALUES of Model/TensorDot.tensordot against the implementation (extra conjunct of the
   correspondence stream of harness/c01.py): on a recorded tensordot the dense form of the model's result, computed from the
   recorded storage of the operands, must equal the recorded dense form of the implementation's result.  Definitions only. *)
From TenpyV Require Import Base.Prelude Model.Charge Model.Tensor Model.TensorOps Model.TensorCheck Model.TensorDot.
Open Scope Z_scope.

Definition check_tdot_values (c : case) : bool :=
  let '(ci, code, sa, sb, sr, rd) := c in
  let a := mk_arr sa in
  let b := mk_arr sb in
  match model_result ci code a b with
  | Some _ => true
  | None => let '(k, a', b') := tdot_operands code a b in
            let m := tensordot ci k a' b' in
            same_struct m (mk_arr sr) && dense_eq m rd
  end.

Definition check_case_c01v (c : case) : bool := check_case_c01 c && check_tdot_values c.
