(* C12 -- additions to Model/JW.v (definitions only; composed from the correspondence-checked functions of Model/JW.v).
   1. out_flag: the Jordan-Wigner content of site k of the MPO term, read off the ACTUAL OUTPUT (res, strs) of
      multi_coupling_term_handle_JW:  the flag "JW appended to ops[x]" on the sites ijkl[x], the string new_op_str[x] on the
      sites strictly between ijkl[x] and ijkl[x+1], nothing outside.
   2. coupling_words: the per-site words of the two-site term built by CouplingTerms.coupling_term_handle_JW +
      add_coupling_term(strength, i, j, op_i, op_j, op_string):  op_i (with ' JW' appended by multiply_op_names([op_i, 'JW'])) on
      site i, op_string on the sites i < k < j, op_j on site j. *)
From TenpyV Require Import Base.Prelude Model.JW.
Open Scope Z_scope.

Fixpoint out_flag (res : list (list Z * Z * bool)) (strs : list bool) (k : Z) : bool :=
  match res with
  | [] => false
  | (_, i, f) :: r =>
      if k =? i then f else
      match r, strs with
      | (_, j, _) :: _, s :: strs' => if (i <? k) && (k <? j) then s else out_flag r strs' k
      | _, _ => false
      end
  end.

(* site k of the MPO term as given by the output of the handler *)
Definition out_word (term : list item) (res : list (list Z * Z * bool)) (strs : list bool) (k : Z) : word :=
  item_letters (filter (fun t => it_site t =? k) (order_sort term)) ++ (if out_flag res strs k then [JWl] else []).

Definition coupling_words (a : Z) (fi : bool) (b : Z) (fj : bool) (i j k : Z) : option word :=
  match coupling_term_handle_JW fi fj with
  | None => None
  | Some (app, str) =>
      Some (if k =? i then Op a fi :: (if app then [JWl] else [])
            else if (i <? k) && (k <? j) then (if str then [JWl] else [])
            else if k =? j then [Op b fj] else [])
  end.

(* checker of the extra correspondence cases of harness/c12.py (stream `terms`, two-site combined terms): the flags of the two
   combined operators and the canonicalised output of CouplingTerms.coupling_term_handle_JW (None = ValueError) *)
Definition check_coupling_case (c : bool * bool * option (bool * bool)) : bool :=
  let '(fi, fj, r) := c in
  match coupling_term_handle_JW fi fj, r with
  | None, None => true
  | Some (a, s), Some (a', s') => Bool.eqb a a' && Bool.eqb s s'
  | _, _ => false
  end.

(* checker of the correspondence stream `mpsterm` (jobs `ops_list`) of harness/c12.py: the triple (ops, i_min, has_extra_JW)
   returned by MPS._term_to_ops_list(term, autoJW, 0, JW_from_right) with the operators left as NAMES, for JW_from_right in
   {None, False, True}, versus the word model term_to_ops_list of Model/JW.v.  Letters are encoded as (id, odd), id = 0 for 'JW'. *)
Definition enc_letter12 (l : letter) : Z * bool := match l with Op a o => (a, o) | JWl => (0, true) end.
Fixpoint pairs_eqb12 (a b : list (Z * bool)) : bool :=
  match a, b with
  | [], [] => true
  | (x, p) :: a', (y, q) :: b' => (x =? y) && Bool.eqb p q && pairs_eqb12 a' b'
  | _, _ => false
  end.
Fixpoint words_eqb12 (a : list word) (b : list (list (Z * bool))) : bool :=
  match a, b with
  | [], [] => true
  | w :: a', v :: b' => pairs_eqb12 (map enc_letter12 w) v && words_eqb12 a' b'
  | _, _ => false
  end.
Definition check_tol_case (c : list (Z * Z * bool) * bool * option bool * (list (list (Z * bool)) * Z * bool)) : bool :=
  let '(its, autoJW, jfr, (ops, imin, extra)) := c in
  let '(mops, mimin, mextra) := term_to_ops_list (mk_items its) autoJW jfr in
  words_eqb12 mops ops && (mimin =? imin) && Bool.eqb mextra extra &&
  (* the flag convention every caller relies on: parity of the term, xor the string coming in from the right *)
  (if autoJW then Bool.eqb extra (match jfr with Some b => xorb (total_parity (mk_items its)) b | None => total_parity (mk_items its) end)
   else true).
