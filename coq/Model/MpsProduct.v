(* MPS.from_product_state (tenpy/networks/mps.py) at the level of charges, for integer local states (C07,
   T07_product_state).  Definitions only; tensors are the block-sparse arrays of Model/Tensor.v.
   from_product_state: chargeL = ci.make_valid(chargeL); legL = LegCharge.from_qflat(ci, [chargeL]) (qconj +1);
   B_i = zeros((d_i, 1, 1)); B_i[p_i, 0, 0] = 1;  then from_Bflat, per site:
       legs = npc.detect_legcharge(B, ci, [site.leg, legL, None], None, qconj=-1)
              -- detect_qtotal of the slice = make_valid(site.leg.get_charge(block of p_i) + legL.get_charge(0)),
                 charges of the new leg = make_valid((qtotal(=0) - that) * qconj(=-1)), qconj = -1
       legL = legs[-1].conj()        (conj flips qconj only)
   and for bc = 'infinite' the last tensor is re-gauged, Bs[-1].gauge_total_charge('vR', make_valid(chdiff)) with
   chdiff = Bs[-1].vR.charges[0] - Bs[0].vL.charges[0]:
       newqtotal = make_valid(chdiff'); new charges of vR = make_valid(charges + qconj * (newqtotal - qtotal)).
   MPS.__init__ stores every tensor with legs (vL, p, vR).  All bond dimensions are 1, all singular values [1.].
   A site is (site.leg, block of the leg containing the chosen state, position of the state inside the block).
   Not modelled: p_state given as 1D array (local superposition), site.perm (the harness passes the index after
   permutation), dtype, the form argument (labels only).
   get_total_charge(only_physical_legs): sum of the qtotal of all tensors, for only_physical_legs (finite bc only)
   minus vL.get_charge(0) of the first and vR.get_charge(0) of the last tensor, then make_valid.
   Tie to the code: correspondence (K): harness/c07.py `product_stream` replays every generated from_product_state call
   (all site families with charges, L = 1..7, finite and infinite bc, random chargeL) on `from_product_state` /
   `get_total_charge` below through Model/MpsProductCheck.v (legs, qconj, qtotal, block of every tensor, total charge). *)
From TenpyV Require Import Base.Prelude Model.Charge Model.Tensor Model.TensorOps.
Open Scope Z_scope.

Record psite := mkPsite { pleg : leg; pq : nat; ppos : nat }.

Definition vsub (a b : list Z) : list Z := vadd a (vneg b).

(* leg.get_charge(q) as a vector *)
Definition leg_charge (ci : chinfo) (l : leg) (q : nat) : list Z := map (fun j => chg l q j) (seq 0 (length ci)).
Definition state_charge (ci : chinfo) (s : psite) : list Z := leg_charge ci (pleg s) (pq s).

Definition bond_leg (c : list Z) (q : Z) : leg := mkLeg [1%nat] [c] q.

(* charges of the right leg found by detect_legcharge; cL = charges of legL (qconj +1) *)
Definition detect_vR (ci : chinfo) (q cL : list Z) : list Z :=
  let tot := make_valid ci (vadd q (leg_charge ci (bond_leg cL 1) 0)) in
  make_valid ci (vscale (-1) (vsub (zero_charge ci) tot)).

Definition one_at (pos : nat) : list nat -> C := fun idx => if (nth 1 idx 0 =? pos)%nat then (1, 0) else c0.

Definition mkB (ci : chinfo) (cL : list Z) (s : psite) (cR : list Z) : arr :=
  mkArr [bond_leg cL 1; pleg s; bond_leg cR (-1)] (zero_charge ci) [([0%nat; pq s; 0%nat], one_at (ppos s))] true.

Fixpoint build (ci : chinfo) (cL : list Z) (sites : list psite) : list arr :=
  match sites with
  | [] => []
  | s :: t => let cR := detect_vR ci (state_charge ci s) cL in mkB ci cL s cR :: build ci cR t
  end.

Definition legL_of (b : arr) : leg := nth 0 (legs b) dleg.
Definition legR_of (b : arr) : leg := nth 2 (legs b) dleg.

(* Array.gauge_total_charge('vR', newqtotal) with new_qconj = None *)
Definition gauge_vR (ci : chinfo) (newq : list Z) (b : arr) : arr :=
  let vR := legR_of b in
  let nq := make_valid ci newq in
  let chd := vsub nq (qtot b) in
  let newc := make_valid ci (vadd (nth 0 (bch vR) []) (vscale (qc vR) chd)) in
  mkArr [legL_of b; nth 1 (legs b) dleg; mkLeg (bsz vR) [newc] (qc vR)] nq (blks b) (qsorted b).

Fixpoint map_last {A} (f : A -> A) (l : list A) : list A :=
  match l with
  | [] => []
  | x :: t => match t with [] => [f x] | _ :: _ => x :: map_last f t end
  end.

Definition from_product_state (fin : bool) (ci : chinfo) (chargeL : list Z) (sites : list psite) : list arr :=
  let c0 := make_valid ci chargeL in
  let Bs := build ci c0 sites in
  if fin then Bs
  else let chdiff := vsub (nth 0 (bch (legR_of (last Bs (mkArr [] [] [] true)))) []) c0 in
       map_last (gauge_vR ci (make_valid ci chdiff)) Bs.

Definition vsum (ci : chinfo) (l : list (list Z)) : list Z := fold_right vadd (zero_charge ci) l.

Definition get_total_charge (ci : chinfo) (only_physical_legs : bool) (Bs : list arr) : list Z :=
  let q := vsum ci (map qtot Bs) in
  let q1 := if only_physical_legs
            then vsub (vsub q (leg_charge ci (legL_of (hd (mkArr [] [] [] true) Bs)) 0))
                      (leg_charge ci (legR_of (last Bs (mkArr [] [] [] true))) 0)
            else q in
  make_valid ci q1.
