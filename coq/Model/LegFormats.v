(* C17 - the three HDF5 encodings of a LegCharge (charges.py: LegCharge.save_hdf5 / from_hdf5).
   A leg is (ind_len, qconj, slices, charges, sorted, bunched): `slices` has block_number + 1 entries, `charges` has
   block_number rows of qnumber integers.
     blocks  : slices and charges stored as they are, block_number/sorted/bunched as attributes
     compact : one array  hstack(slices[:-1], slices[1:], charges)  (one row per block)
     flat    : only to_qflat() (one charge row per index); block structure is NOT recoverable (documented) *)
From TenpyV Require Import Base.Prelude.
Open Scope Z_scope.

Record leg := mkLeg {
  l_ind_len : Z; l_qconj : Z; l_slices : list Z; l_charges : list (list Z);
  l_sorted : bool; l_bunched : bool }.

Definition block_number (l : leg) : nat := length (l_charges l).

(* ---- compact *)
Fixpoint rows (sl : list Z) (ch : list (list Z)) : list (list Z) :=
  match sl, ch with
  | lo :: ((hi :: _) as t), c :: ch' => (lo :: hi :: c) :: rows t ch'
  | _, _ => []
  end.

Record compact_file := mkCompact {
  c_ind_len : Z; c_qconj : Z; c_block_number : nat; c_sorted : bool; c_bunched : bool;
  c_blockcharges : list (list Z) }.

Definition to_compact (l : leg) : compact_file :=
  mkCompact (l_ind_len l) (l_qconj l) (block_number l) (l_sorted l) (l_bunched l) (rows (l_slices l) (l_charges l)).

(* slices[:-1] = blockcharges[:, 0]; slices[-1] = blockcharges[-1, 1]; charges = blockcharges[:, 2:] *)
Definition from_compact (f : compact_file) : leg :=
  let bc := c_blockcharges f in
  mkLeg (c_ind_len f) (c_qconj f)
        (map (fun r => nth 0 r 0) bc ++ [nth 1 (last bc []) 0])
        (map (skipn 2) bc) (c_sorted f) (c_bunched f).

(* ---- blocks *)
Record blocks_file := mkBlocks {
  b_ind_len : Z; b_qconj : Z; b_block_number : nat; b_sorted : bool; b_bunched : bool;
  b_slices : list Z; b_charges : list (list Z) }.

Definition to_blocks (l : leg) : blocks_file :=
  mkBlocks (l_ind_len l) (l_qconj l) (block_number l) (l_sorted l) (l_bunched l) (l_slices l) (l_charges l).
Definition from_blocks (f : blocks_file) : leg :=
  mkLeg (b_ind_len f) (b_qconj f) (b_slices f) (b_charges f) (b_sorted f) (b_bunched f).

(* ---- flat *)
Fixpoint qflat (sl : list Z) (ch : list (list Z)) : list (list Z) :=
  match sl, ch with
  | lo :: ((hi :: _) as t), c :: ch' => repeat c (Z.to_nat (hi - lo)) ++ qflat t ch'
  | _, _ => []
  end.

Definition to_qflat (l : leg) : list (list Z) := qflat (l_slices l) (l_charges l).

(* np.arange(n + 1) starting at s *)
Fixpoint iota (s : Z) (n : nat) : list Z :=
  match n with O => [s] | S k => s :: iota (s + 1) k end.

Record flat_file := mkFlat { f_ind_len : Z; f_qconj : Z; f_charges : list (list Z) }.

Definition to_flat (l : leg) : flat_file := mkFlat (l_ind_len l) (l_qconj l) (to_qflat l).

(* is_sorted / is_bunched are recomputed by the loader: parameters of the model *)
Definition from_flat (srt bun : list (list Z) -> bool) (f : flat_file) : leg :=
  mkLeg (f_ind_len f) (f_qconj f) (iota 0 (length (f_charges f))) (f_charges f)
        (srt (f_charges f)) (bun (f_charges f)).

Definition leg_wf (l : leg) : Prop :=
  length (l_slices l) = S (length (l_charges l)) /\ l_charges l <> [].
