(* C18: crash model of the result files of tenpy.simulations.simulation.Simulation.

   Two files matter for one simulation: the output file `Out` and its backup `Bak`
   (get_backup_filename: `name.backup.ext`, present only with safe_write).  A file is
     Absent | Marker (the one-line text written by fix_output_filenames) |
     Partial k (a write of checkpoint k was interrupted: not loadable) | Complete k (loadable).
   Primitive steps: exists, unlink, rename (atomic, replaces the target: assumption A-fs), write
   (atomic in the list of steps; a crash *inside* a write is modelled by `crash_state ... true`,
   which leaves `Partial k`), marker write.

   `save_results_prog` is the body of Simulation.save_results as a program over these steps; the
   same term is regenerated from the source by translator/export_c18_save.py (Gen/G_save_results.v)
   and proved equal in Proofs/FsP.v.  `init_ops` is fix_output_filenames restricted to the two files.
   A *segment* is one process life time: __init__ (init_ops) followed by saves k0+1, k0+2, ...;
   a *history* is a fresh segment followed by (crash, resume)*, where resume loads Out if it is
   Complete, else Bak if it is Complete (what a user can do) and continues with
   loaded_from_checkpoint = True.  Definitions only; proofs in Proofs/FsP.v. *)
From TenpyV Require Import Base.Prelude.

Inductive fstate := Absent | Marker | Partial (k : nat) | Complete (k : nat).
Inductive fname := Out | Bak.
Record fs := mkFs { f_out : fstate; f_bak : fstate }.

Definition fs0 : fs := mkFs Absent Absent.

Definition getf (st : fs) (f : fname) : fstate := match f with Out => f_out st | Bak => f_bak st end.
Definition setf (st : fs) (f : fname) (v : fstate) : fs :=
  match f with Out => mkFs v (f_bak st) | Bak => mkFs (f_out st) v end.

Definition present (x : fstate) : bool := match x with Absent => false | _ => true end.

Definition fstate_eqb (a b : fstate) : bool :=
  match a, b with
  | Absent, Absent => true | Marker, Marker => true
  | Partial _, Partial _ => true       (* which write was torn is not observable on disk *)
  | Complete i, Complete j => Nat.eqb i j
  | _, _ => false
  end.
Definition fname_eqb (a b : fname) : bool :=
  match a, b with Out, Out => true | Bak, Bak => true | _, _ => false end.
Definition fs_eqb (a b : fs) : bool := fstate_eqb (f_out a) (f_out b) && fstate_eqb (f_bak a) (f_bak b).

(* primitive steps as they appear in a trace (exists carries the observed answer) *)
Inductive op :=
| OpExists (f : fname) (r : bool)
| OpUnlink (f : fname)
| OpRename (src dst : fname)
| OpWrite (f : fname) (k : nat)
| OpMarker (f : fname).

Definition op_eqb (a b : op) : bool :=
  match a, b with
  | OpExists f r, OpExists g s => fname_eqb f g && Bool.eqb r s
  | OpUnlink f, OpUnlink g => fname_eqb f g
  | OpRename a1 a2, OpRename b1 b2 => fname_eqb a1 b1 && fname_eqb a2 b2
  | OpWrite f k, OpWrite g j => fname_eqb f g && Nat.eqb k j
  | OpMarker f, OpMarker g => fname_eqb f g
  | _, _ => false
  end.

Fixpoint ops_eqb (a b : list op) : bool :=
  match a, b with
  | [], [] => true
  | x :: a', y :: b' => op_eqb x y && ops_eqb a' b'
  | _, _ => false
  end.

Definition apply_op (st : fs) (o : op) : fs :=
  match o with
  | OpExists _ _ => st
  | OpUnlink f => setf st f Absent
  | OpRename a b => if fname_eqb a b then st else setf (setf st b (getf st a)) a Absent
  | OpWrite f k => setf st f (Complete k)
  | OpMarker f => setf st f Marker
  end.

(* python raises (FileNotFoundError) when unlinking / renaming a missing file *)
Definition op_ok (st : fs) (o : op) : bool :=
  match o with
  | OpUnlink f => present (getf st f)
  | OpRename a _ => present (getf st a)
  | OpExists f r => Bool.eqb r (present (getf st f))
  | _ => true
  end.

Definition apply_ops (l : list op) (st : fs) : fs := fold_left apply_op l st.

Fixpoint all_ok (l : list op) (st : fs) : bool :=
  match l with [] => true | o :: t => op_ok st o && all_ok t (apply_op st o) end.

(* ---------------------------------------------------------------------------------------- *)
(* programs over primitive steps                                                             *)
(* ---------------------------------------------------------------------------------------- *)
Inductive cond :=
| CExists (f : fname)            (* f.exists() *)
| CSafe                          (* backup_filename is not None *)
| CAnd (a b : cond)              (* a and b   (short circuit) *)
| CNot (a : cond).

Inductive prog :=
| PSkip
| PSeq (p q : prog)
| PIf (c : cond) (p q : prog)
| PUnlink (f : fname)
| PRename (a b : fname)
| PSave (f : fname).             (* self._save_to_file(results, f) *)

(* evaluation of a condition: the exists-queries performed (in order) and the value *)
Fixpoint eval_cond (safe : bool) (c : cond) (st : fs) : list op * bool :=
  match c with
  | CExists f => ([OpExists f (present (getf st f))], present (getf st f))
  | CSafe => ([], safe)
  | CAnd a b => let '(oa, va) := eval_cond safe a st in
                if va then let '(ob, vb) := eval_cond safe b st in (oa ++ ob, vb) else (oa, false)
  | CNot a => let '(oa, va) := eval_cond safe a st in (oa, negb va)
  end.

(* run a program that saves checkpoint k: trace and final state *)
Fixpoint run_prog (safe : bool) (k : nat) (p : prog) (st : fs) : list op * fs :=
  match p with
  | PSkip => ([], st)
  | PSeq a b => let '(oa, s1) := run_prog safe k a st in
                let '(ob, s2) := run_prog safe k b s1 in (oa ++ ob, s2)
  | PIf c a b => let '(oc, v) := eval_cond safe c st in
                 let '(ob, s1) := run_prog safe k (if v then a else b) st in (oc ++ ob, s1)
  | PUnlink f => ([OpUnlink f], apply_op st (OpUnlink f))
  | PRename a b => ([OpRename a b], apply_op st (OpRename a b))
  | PSave f => ([OpWrite f k], apply_op st (OpWrite f k))
  end.

(* Simulation.save_results (after the `output_filename is None` early return):

     if output_filename.exists():
         if backup_filename is not None:
             if backup_filename.exists():
                 backup_filename.unlink()
             output_filename.rename(backup_filename)
         else:
             output_filename.unlink()
     self._save_to_file(results, output_filename)
     if backup_filename is not None and backup_filename.exists():
         backup_filename.unlink()                                                           *)
Definition save_results_prog : prog :=
  PSeq (PIf (CExists Out)
            (PIf CSafe
                 (PSeq (PIf (CExists Bak) (PUnlink Bak) PSkip) (PRename Out Bak))
                 (PUnlink Out))
            PSkip)
       (PSeq (PSave Out)
             (PIf (CAnd CSafe (CExists Bak)) (PUnlink Bak) PSkip)).

Definition save_ops (safe : bool) (k : nat) (st : fs) : list op * fs := run_prog safe k save_results_prog st.

(* fix_output_filenames restricted to the pair of files (a fresh run that finds an existing output
   and must not overwrite it switches to another, untouched pair of names: not part of this model,
   the harness checks it separately): exists(out); the marker is written into the *backup* name when
   safe_write is on and the backup does not exist. *)
Definition init_ops (safe : bool) (st : fs) : list op * fs :=
  let e := [OpExists Out (present (f_out st))] in
  if safe then
    if present (f_bak st) then (e ++ [OpExists Bak true], st)
    else (e ++ [OpExists Bak false; OpMarker Bak], apply_op st (OpMarker Bak))
  else (e, st).

(* n consecutive saves numbered k0+1 .. k0+n *)
Fixpoint saves_ops (safe : bool) (k0 n : nat) (st : fs) : list op * fs :=
  match n with
  | 0 => ([], st)
  | S n' => let '(o1, s1) := save_ops safe (k0 + 1) st in
            let '(o2, s2) := saves_ops safe (k0 + 1) n' s1 in (o1 ++ o2, s2)
  end.

(* one process life time *)
Definition seg_ops (safe : bool) (k0 n : nat) (st : fs) : list op * fs :=
  let '(o0, s0) := init_ops safe st in
  let '(o1, s1) := saves_ops safe k0 n s0 in (o0 ++ o1, s1).

(* ---------------------------------------------------------------------------------------- *)
(* crashes                                                                                   *)
(* ---------------------------------------------------------------------------------------- *)

(* the process dies before step number s of the trace; with inside = true and step s a write, it
   dies inside that write *)
Definition crash_state (ops : list op) (st : fs) (s : nat) (inside : bool) : fs :=
  let st' := apply_ops (firstn s ops) st in
  if inside then
    match nth_error ops s with
    | Some (OpWrite f k) => setf st' f (Partial k)
    | _ => st'
    end
  else st'.

(* every state a crash can leave behind, tagged with the number j of the last checkpoint whose
   write has been completed (j0 before the trace starts).  Includes the final state. *)
Fixpoint crash_points (ops : list op) (j : nat) (st : fs) : list (nat * fs) :=
  match ops with
  | [] => [(j, st)]
  | OpWrite f k :: t => (j, st) :: (j, setf st f (Partial k)) :: crash_points t k (apply_op st (OpWrite f k))
  | o :: t => (j, st) :: crash_points t j (apply_op st o)
  end.

(* what a user can load after a crash: the output file if complete, else the backup if complete *)
Definition loadable (st : fs) : option (fname * nat) :=
  match f_out st with
  | Complete k => Some (Out, k)
  | _ => match f_bak st with Complete k => Some (Bak, k) | _ => None end
  end.

Definition has_complete (st : fs) (k : nat) : Prop := f_out st = Complete k \/ f_bak st = Complete k.

Definition is_partial (x : fstate) : bool := match x with Partial _ => true | _ => false end.

(* crash points of a fresh run with n saves on an empty pair of names *)
Definition fresh_points (safe : bool) (n : nat) : list (nat * fs) :=
  crash_points (fst (seg_ops safe 0 n fs0)) 0 fs0.

(* crash points of a run resumed from checkpoint k on disk state st, doing n saves *)
Definition resumed_points (safe : bool) (k n : nat) (st : fs) : list (nat * fs) :=
  crash_points (fst (seg_ops safe k n st)) k st.

(* A history: the fresh run does n0 saves and is killed at crash point c0 (index into the list of
   crash points); then repeatedly: load what is loadable, resume, n saves, killed at crash point c.
   `strict` forbids resuming while the output file is a Partial (the user removes a broken output
   file before resuming).  Result: tag and disk state after the last crash; None if an index is out
   of range, nothing is loadable, or a strict resume is refused. *)
Fixpoint run_resumes (safe strict : bool) (h : list (nat * nat)) (cur : nat * fs) : option (nat * fs) :=
  match h with
  | [] => Some cur
  | (n, c) :: h' =>
      let st := snd cur in
      if strict && is_partial (f_out st) then None else
      match loadable st with
      | None => None
      | Some (_, k) =>
          match nth_error (resumed_points safe k n st) c with
          | None => None
          | Some nxt => run_resumes safe strict h' nxt
          end
      end
  end.

Definition run_history (safe strict : bool) (n0 c0 : nat) (h : list (nat * nat)) : option (nat * fs) :=
  match nth_error (fresh_points safe n0) c0 with
  | None => None
  | Some cur => run_resumes safe strict h cur
  end.

(* ---------------------------------------------------------------------------------------- *)
(* checker used by the harness (vm_compute): the observed trace and disk state of every segment *)
(* of a real history (run, crash, resume)* against the model                                  *)
(* ---------------------------------------------------------------------------------------- *)
Record seg_obs := mkSeg {
  so_loaded : option (fname * nat);   (* None: fresh run *)
  so_nsaves : nat;                    (* saves the segment would perform if not killed *)
  so_crash : option (nat * bool);     (* Some (s, inside): killed before / inside step s; None: ran to the end *)
  so_ops : list op;                   (* observed steps performed *)
  so_disk : fs                        (* observed disk state afterwards *)
}.

Definition check_seg (safe : bool) (st : fs) (o : seg_obs) : bool * fs :=
  let k0 := match so_loaded o with None => 0 | Some (_, k) => k end in
  let ld_ok := match so_loaded o with
               | None => true
               | Some (f, k) => match loadable st with
                                | Some (g, j) => fname_eqb f g && Nat.eqb k j
                                | None => false end
               end in
  let ops := fst (seg_ops safe k0 (so_nsaves o) st) in
  let '(exp_ops, exp_st) :=
    match so_crash o with
    | None => (ops, apply_ops ops st)
    | Some (s, inside) => (firstn s ops, crash_state ops st s inside)
    end in
  (ld_ok && ops_eqb exp_ops (so_ops o) && fs_eqb exp_st (so_disk o) && all_ok exp_ops st, exp_st).

Fixpoint check_segs (safe : bool) (st : fs) (l : list seg_obs) : bool :=
  match l with
  | [] => true
  | o :: t => let '(b, st') := check_seg safe st o in b && check_segs safe st' t
  end.

Definition check_history (c : bool * list seg_obs) : bool := check_segs (fst c) fs0 (snd c).

(* save_results alone from an arbitrary disk state: (safe, k, initial state, crash, observed ops, observed disk) *)
Definition check_save (c : bool * nat * fs * option (nat * bool) * list op * fs) : bool :=
  let '(safe, k, st, cr, obs_ops, obs_st) := c in
  let ops := fst (save_ops safe k st) in
  let '(exp_ops, exp_st) :=
    match cr with
    | None => (ops, apply_ops ops st)
    | Some (s, inside) => (firstn s ops, crash_state ops st s inside)
    end in
  ops_eqb exp_ops obs_ops && fs_eqb exp_st obs_st.

(* fix_output_filenames (resumed, or fresh with overwrite / no existing output) from an arbitrary state *)
Definition check_init (c : bool * fs * list op * fs) : bool :=
  let '(safe, st, obs_ops, obs_st) := c in
  let '(ops, st') := init_ops safe st in
  ops_eqb ops obs_ops && fs_eqb st' obs_st.
