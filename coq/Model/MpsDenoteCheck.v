(* Correspondence checkers for Model/MpsDenote.v (C07, stream `valued` of harness/c07.py): the valued form algebra
   (vget_B / vconv / vapply_op / vget_B_at / window_den) is instantiated at a CONCRETE structure and executed against
   MPS.get_B / set_B / convert_form / get_theta on MPS whose tensors have dyadic entries and whose singular values are
   even powers of two, so that every number the implementation computes is exact in binary floating point:
     M        = xm : a diagonal matrix 2^(d_j) (XD) or a site/window tensor t[vL][p][vR] with dyadic entries (XT),
     mul      = diagonal scaling of the rows (XD * XT), of the columns (XT * XD), product of diagonals, and the
                contraction of the bond between two tensors with the physical indices flattened row-major (XT * XT),
     sv b e   = XD [k_j * e]_j   where the singular values of bond b are s_j = 4^(k_j), i.e. s_j^(e/2) = 2^(k_j e)
                (exponents e in units of 1/2 as everywhere in MpsForm.v / MpsDenote.v).
   The checkers call the functions of MpsDenote.v themselves (not re-implementations).  Definitions only. *)
From TenpyV Require Import Base.Prelude Model.MpsIndex Model.MpsForm Model.MpsDenote.
Open Scope Z_scope.

(* dyadic numbers (m, k) = m * 2^k, not normalised *)
Definition dy := (Z * Z)%type.
Definition dy_mul (a b : dy) : dy := (fst a * fst b, snd a + snd b).
Definition dy_add (a b : dy) : dy :=
  let k := Z.min (snd a) (snd b) in (fst a * 2 ^ (snd a - k) + fst b * 2 ^ (snd b - k), k).
Definition dy_eqb (a b : dy) : bool :=
  let k := Z.min (snd a) (snd b) in fst a * 2 ^ (snd a - k) =? fst b * 2 ^ (snd b - k).
Definition dy_shift (e : Z) (a : dy) : dy := (fst a, snd a + e).

Definition tens := list (list (list dy)).       (* [vL][p][vR] *)
Inductive xm := XD (d : list Z) | XT (t : tens).

Definition dnth (l : list dy) (j : nat) : dy := nth j l (0, 0).
Definition sum_dy (l : list dy) : dy := fold_right dy_add (0, 0) l.

(* number of columns / physical dimension of a tensor (taken from its first entries) *)
Definition t_cols (t : tens) : nat := length (hd [] (hd [] t)).

(* (t1 . t2)[a][p * d2 + q][c'] = sum_c t1[a][p][c] * t2[c][q][c'] *)
Definition contract (t1 t2 : tens) : tens :=
  let d2 := length (hd [] t2) in
  let c2 := t_cols t2 in
  map (fun rowa : list (list dy) =>
         flat_map (fun vp : list dy =>            (* vp = t1[a][p][.] *)
                     map (fun q => map (fun c' =>
                                          sum_dy (map (fun ic => dy_mul (snd ic) (dnth (nth q (nth (fst ic) t2 []) []) c'))
                                                      (combine (seq 0 (length vp)) vp)))
                                       (seq 0 c2))
                         (seq 0 d2))
                  rowa)
      t1.

Definition xmul (a b : xm) : xm :=
  match a, b with
  | XD d, XD d' => XD (map (fun xy => fst xy + snd xy) (combine d d'))
  | XD d, XT t => XT (map (fun er => map (map (dy_shift (fst er))) (snd er)) (combine d t))
  | XT t, XD d => XT (map (map (fun v => map (fun ex => dy_shift (fst ex) (snd ex)) (combine d v))) t)
  | XT t1, XT t2 => XT (contract t1 t2)
  end.

(* svlog : for every bond the list of k_j with s_j = 4^(k_j) *)
Definition xsv (svlog : list (list Z)) (b e : Z) : xm :=
  XD (map (fun k => k * e) (nth (Z.to_nat b) svlog [])).

(* ---- comparison *)
Fixpoint eqb_list {A : Type} (eq : A -> A -> bool) (l l' : list A) : bool :=
  match l, l' with
  | [], [] => true
  | x :: r, y :: r' => eq x y && eqb_list eq r r'
  | _, _ => false
  end.
Definition tens_eqb (t t' : tens) : bool := eqb_list (eqb_list (eqb_list dy_eqb)) t t'.
Definition xm_eqb_tens (x : xm) (t : tens) : bool := match x with XT t' => tens_eqb t' t | XD _ => false end.

(* ---- observed state: (label, tensor) per site; the actual exponents of the erased site are taken to be the label
   (they play no role in vget_B / vconv, which read the label only) *)
Definition vobs := (option form * tens)%type.
Definition vsite_of_obs (o : vobs) : vsite xm :=
  let '(l, t) := o in
  (mkSite l (match l with Some f => f | None => (0, 0) end)
          (Z.of_nat (length (hd [] t))) (Z.of_nat (length t)) (Z.of_nat (t_cols t)), XT t).

Fixpoint eqb_vobs (st : vmps xm) (os : list vobs) : bool :=
  match st, os with
  | [], [] => true
  | (s, v) :: st', (l, t) :: os' => eqb_olab (lab s) l && xm_eqb_tens v t && eqb_vobs st' os'
  | _, _ => false
  end.

(* one form conversion (OConvert fs = convert_form(fs); OSetBScaled i f = set_B(i, get_B(i, f), f)):
   (finite?, svlog, observed state before, operation, observed state after or None when the implementation raised) *)
Definition check_valued_case (c : bool * list (list Z) * list vobs * fop * option (list vobs)) : bool :=
  let '(fin, svlog, before, op, after) := c in
  match vapply_op xm xmul (xsv svlog) fin op (map vsite_of_obs before), after with
  | Some st, Some os => eqb_vobs st os
  | None, None => true
  | _, _ => false
  end.

(* probe psi.get_B(i, form) with form = None | (x, y), x, y = None | exponent *)
Definition check_valued_get_B (c : bool * list (list Z) * list vobs * Z * option (option Z * option Z) * option tens) : bool :=
  let '(fin, svlog, before, i, new, res) := c in
  match vget_B_at xm xmul (xsv svlog) fin (map vsite_of_obs before) i new, res with
  | Some v, Some t => xm_eqb_tens v t
  | None, None => true
  | _, _ => false
  end.

(* the dense object of the window i .. i+n-1 (window_den = product of get_B(j, 'B')) against
   psi.get_theta(i, n, formL=0, formR=1) with the physical legs flattened row-major *)
Definition check_valued_window (c : bool * list (list Z) * list vobs * Z * nat * option tens) : bool :=
  let '(fin, svlog, before, i, n, res) := c in
  match window_den xm xmul (xsv svlog) fin (map vsite_of_obs before) i n, res with
  | Some v, Some t => xm_eqb_tens v t
  | None, None => true
  | _, _ => false
  end.
