(* C18, second model: the checkpoint / measurement protocol of a simulation as a small-step machine.

   TE = RealTimeEvolution.run_algorithm inside Simulation.run / resume_run:
          measure (initial);  while evolved_time < final_time: engine.run() [t += N, trunc_err += e];
          make_measurements(); checkpoint.emit() [-> save_at_checkpoint: snapshot];   final save.
   GS = GroundStateSearch with measure_at_algorithm_checkpoints (IterativeSweeps.run):
          measure (initial);  loop: stop if sweeps > max_sweeps; if not first iteration: checkpoint
          [measure, then save: snapshot]; run_iteration [sweeps += N];   final measurement, final save.
   A record is (t, acc): the time / sweep counter and the accumulated truncation error that the
   measurement reads.  A snapshot contains what get_resume_data + results['measurements'] contain:
   t, the records, and acc only if `c_restore` (before /repo commit b662f88 TimeEvolutionAlgorithm.
   get_resume_data did NOT contain trunc_err, i.e. c_restore = false; since that fix c_restore = true).
   resume = re-enter the loop head as a first iteration with the snapshot's data.

   Options that interact with a resume and are part of the machine:
   * c_minit = option `measure_initial` (init_measurements measures only if it is set; resume_run never
     repeats the initial measurement);
   * c_group = option `group_sites`.  Simulation.group_sites_for_algorithm runs in run() AND in resume_run():
         if group_sites > 1:
             if not self.loaded_from_checkpoint or self.psi.grouped < group_sites:  psi.group_sites(group_sites)
             model.group_sites(group_sites)
     The psi of a checkpoint IS the grouped psi of the engine (group_sites works in place on results['psi']),
     the model is rebuilt ungrouped from its parameters.  s_g is the stack of grouping factors of psi
     (MPS.group_sites(n) pushes n, psi.grouped = product; MPS.group_split pops the outermost factor);
     Simulation.group_split (before the final measurement/save) splits iff group_sites > 1. *)
From TenpyV Require Import Base.Prelude.

Inductive pkind := TE | GS.
Inductive ppc := PInit | PHead (first : bool) | PEvolved | PMeasured | PCkpt | PSaved | PFinal | PDone.

Record pcfg := mkCfg {
  c_kind : pkind;
  c_T : nat;              (* TE: final time in units of dt;  GS: max_sweeps *)
  c_N : nat;              (* TE: N_steps;  GS: N_sweeps_check *)
  c_err : nat -> nat;     (* truncation error added by the engine run that ends at time t *)
  c_restore : bool;       (* is the accumulated error part of the resume data? *)
  c_minit : bool;         (* option measure_initial *)
  c_group : nat           (* option group_sites (1 = no grouping) *)
}.

Record pst := mkSt { s_pc : ppc; s_t : nat; s_acc : nat; s_recs : list (nat * nat); s_g : list nat }.

Definition p_init : pst := mkSt PInit 0 0 [] [].

(* psi.grouped for a stack of grouping factors *)
Definition prod_nat (l : list nat) : nat := fold_right Nat.mul 1 l.

(* Simulation.group_sites_for_algorithm on the grouping stack of psi *)
Definition g_enter (loaded : bool) (gs : nat) (st : list nat) : list nat :=
  if 1 <? gs then (if negb loaded || (prod_nat st <? gs) then gs :: st else st) else st.

(* does group_sites_for_algorithm group the model?  (always when group_sites > 1) *)
Definition g_model (gs : nat) : bool := 1 <? gs.

(* Simulation.group_split: psi.group_split() iff the option is > 1; MPS.group_split undoes the outermost
   grouping (on a stack that is empty it would raise: not reachable after g_enter with the same gs) *)
Definition g_split (gs : nat) (st : list nat) : list nat := if 1 <? gs then tl st else st.

Definition p_step (c : pcfg) (s : pst) : pst :=
  let '(mkSt pc t a r g) := s in
  match c_kind c, pc with
  | _, PInit => mkSt (PHead true) t a (if c_minit c then r ++ [(t, a)] else r) (g_enter false (c_group c) g)
  | TE, PHead _ => if c_T c <=? t then mkSt PFinal t a r g
                   else mkSt PEvolved (t + c_N c) (a + c_err c (t + c_N c)) r g
  | TE, PEvolved => mkSt PMeasured t a (r ++ [(t, a)]) g
  | TE, PMeasured => mkSt (PHead true) t a r g            (* checkpoint: the save happens here *)
  | TE, PFinal => mkSt PDone t a r (g_split (c_group c) g)   (* group_split; final_measurements does nothing *)
  | GS, PHead first => if c_T c <? t then mkSt PFinal t a r g
                       else if first then mkSt (PHead false) (t + c_N c) a r g
                       else mkSt PCkpt t a r g
  | GS, PCkpt => mkSt PSaved t a (r ++ [(t, a)]) g        (* measurement at the checkpoint *)
  | GS, PSaved => mkSt (PHead false) (t + c_N c) a r g    (* save happens here; then run_iteration *)
  | GS, PFinal => mkSt PDone t a (r ++ [(t, a)]) (g_split (c_group c) g)   (* group_split, final measurement *)
  | _, _ => s
  end.

Fixpoint p_iter (c : pcfg) (n : nat) (s : pst) : pst :=
  match n with 0 => s | S n' => p_iter c n' (p_step c s) end.

(* the state in which save_at_checkpoint runs *)
Definition at_snapshot (c : pcfg) (s : pst) : bool :=
  match c_kind c, s_pc s with
  | TE, PMeasured => true
  | GS, PSaved => true
  | _, _ => false
  end.

(* from_saved_checkpoint + resume_run: loop head, first iteration, data of the snapshot; psi of the snapshot
   passes through group_sites_for_algorithm again, now with loaded_from_checkpoint = True *)
Definition p_resume (c : pcfg) (s : pst) : pst :=
  mkSt (PHead true) (s_t s) (if c_restore c then s_acc s else 0) (s_recs s) (g_enter true (c_group c) (s_g s)).

Definition is_done (s : pst) : bool := match s_pc s with PDone => true | _ => false end.

(* the k-th (0-based) snapshot state of the uninterrupted run, searched within `fuel` steps *)
Fixpoint nth_snapshot (c : pcfg) (fuel k : nat) (s : pst) : option pst :=
  match fuel with
  | 0 => None
  | S f => if at_snapshot c s then
             match k with 0 => Some s | S k' => nth_snapshot c f k' (p_step c s) end
           else nth_snapshot c f k (p_step c s)
  end.

Definition times (s : pst) : list nat := map fst (s_recs s).

Fixpoint list_nat_eqb (a b : list nat) : bool :=
  match a, b with
  | [], [] => true
  | x :: a', y :: b' => Nat.eqb x y && list_nat_eqb a' b'
  | _, _ => false
  end.

Definition cdiv (a b : nat) : nat := (a + b - 1) / b.

(* harness checker: (is_te, T, N, measure_initial, group_sites, observed times of the plain run, psi.grouped
   of the plain run's final state, interruptions), an interruption being (index of the snapshot the loaded
   checkpoint file holds, psi.grouped of the psi stored in that file, observed times of the resumed run's
   final results, psi.grouped of its final state) *)
Definition check_proto (c : bool * nat * nat * bool * nat * list nat * nat * list (nat * nat * list nat * nat)) : bool :=
  let '(is_te, T, N, minit, gs, plain, plain_g, ints) := c in
  let cfg := mkCfg (if is_te then TE else GS) T N (fun _ => 1) false minit gs in
  let fuel := 4 * (T + 4) + 8 in
  let full := p_iter cfg fuel p_init in
  is_done full && list_nat_eqb (times full) plain && Nat.eqb (prod_nat (s_g full)) plain_g &&
  forallb (fun kc => let '(k, ck_g, rtimes, r_g) := kc in
                     match nth_snapshot cfg fuel k p_init with
                     | None => false
                     | Some s => let r := p_iter cfg fuel (p_resume cfg s) in
                                 Nat.eqb (prod_nat (s_g s)) ck_g &&
                                 is_done r && list_nat_eqb (times r) rtimes && Nat.eqb (prod_nat (s_g r)) r_g
                     end) ints.

(* harness checker for one observed call of Simulation.group_sites_for_algorithm followed (optionally) by
   Simulation.group_split:  (loaded_from_checkpoint, group_sites, grouping stack of psi before,
   (L of psi, L of the model) before, (psi.grouped, L of psi, L of the model) after the call,
   psi.grouped after group_split or None) *)
Definition check_group (c : bool * nat * list nat * (nat * nat) * (nat * nat * nat) * option nat) : bool :=
  let '(loaded, gs, st, (lpsi, lmod), (g1, lpsi1, lmod1), split) := c in
  let st1 := g_enter loaded gs st in
  let pushed := negb (Nat.eqb (length st1) (length st)) in
  Nat.eqb g1 (prod_nat st1) &&
  Nat.eqb lpsi1 (if pushed then cdiv lpsi gs else lpsi) &&
  Nat.eqb lmod1 (if g_model gs then cdiv lmod gs else lmod) &&
  match split with None => true | Some g2 => Nat.eqb g2 (prod_nat (g_split gs st1)) end.
