(* C18, second model: the checkpoint / measurement protocol of a simulation as a small-step machine.

   TE = RealTimeEvolution.run_algorithm inside Simulation.run / resume_run:
          measure (initial);  while evolved_time < final_time: engine.run() [t += N, trunc_err += e];
          make_measurements(); checkpoint.emit() [-> save_at_checkpoint: snapshot];   final save.
   GS = GroundStateSearch with measure_at_algorithm_checkpoints (IterativeSweeps.run):
          measure (initial);  loop: stop if sweeps > max_sweeps; if not first iteration: checkpoint
          [measure, then save: snapshot]; run_iteration [sweeps += N];   final measurement, final save.
   A record is (t, acc): the time / sweep counter and the accumulated truncation error that the
   measurement reads.  A snapshot contains what get_resume_data + results['measurements'] contain:
   t, the records, and acc only if `c_restore` (before /repo commit b662f88 TimeEvolutionAlgorithm.
   get_resume_data did NOT contain trunc_err, i.e. c_restore = false; since that fix c_restore = true).
   resume = re-enter the loop head as a first iteration with the snapshot's data. *)
From TenpyV Require Import Base.Prelude.

Inductive pkind := TE | GS.
Inductive ppc := PInit | PHead (first : bool) | PEvolved | PMeasured | PCkpt | PSaved | PFinal | PDone.

Record pcfg := mkCfg {
  c_kind : pkind;
  c_T : nat;              (* TE: final time in units of dt;  GS: max_sweeps *)
  c_N : nat;              (* TE: N_steps;  GS: N_sweeps_check *)
  c_err : nat -> nat;     (* truncation error added by the engine run that ends at time t *)
  c_restore : bool        (* is the accumulated error part of the resume data? *)
}.

Record pst := mkSt { s_pc : ppc; s_t : nat; s_acc : nat; s_recs : list (nat * nat) }.

Definition p_init : pst := mkSt PInit 0 0 [].

Definition p_step (c : pcfg) (s : pst) : pst :=
  let '(mkSt pc t a r) := s in
  match c_kind c, pc with
  | _, PInit => mkSt (PHead true) t a (r ++ [(t, a)])
  | TE, PHead _ => if c_T c <=? t then mkSt PFinal t a r
                   else mkSt PEvolved (t + c_N c) (a + c_err c (t + c_N c)) r
  | TE, PEvolved => mkSt PMeasured t a (r ++ [(t, a)])
  | TE, PMeasured => mkSt (PHead true) t a r              (* checkpoint: the save happens here *)
  | TE, PFinal => mkSt PDone t a r                        (* final_measurements does nothing *)
  | GS, PHead first => if c_T c <? t then mkSt PFinal t a r
                       else if first then mkSt (PHead false) (t + c_N c) a r
                       else mkSt PCkpt t a r
  | GS, PCkpt => mkSt PSaved t a (r ++ [(t, a)])          (* measurement at the checkpoint *)
  | GS, PSaved => mkSt (PHead false) (t + c_N c) a r      (* save happens here; then run_iteration *)
  | GS, PFinal => mkSt PDone t a (r ++ [(t, a)])          (* final measurement *)
  | _, _ => s
  end.

Fixpoint p_iter (c : pcfg) (n : nat) (s : pst) : pst :=
  match n with 0 => s | S n' => p_iter c n' (p_step c s) end.

(* the state in which save_at_checkpoint runs *)
Definition at_snapshot (c : pcfg) (s : pst) : bool :=
  match c_kind c, s_pc s with
  | TE, PMeasured => true
  | GS, PSaved => true
  | _, _ => false
  end.

(* from_saved_checkpoint + resume_run: loop head, first iteration, data of the snapshot *)
Definition p_resume (c : pcfg) (s : pst) : pst :=
  mkSt (PHead true) (s_t s) (if c_restore c then s_acc s else 0) (s_recs s).

Definition is_done (s : pst) : bool := match s_pc s with PDone => true | _ => false end.

(* the k-th (0-based) snapshot state of the uninterrupted run, searched within `fuel` steps *)
Fixpoint nth_snapshot (c : pcfg) (fuel k : nat) (s : pst) : option pst :=
  match fuel with
  | 0 => None
  | S f => if at_snapshot c s then
             match k with 0 => Some s | S k' => nth_snapshot c f k' (p_step c s) end
           else nth_snapshot c f k (p_step c s)
  end.

Definition times (s : pst) : list nat := map fst (s_recs s).

Fixpoint list_nat_eqb (a b : list nat) : bool :=
  match a, b with
  | [], [] => true
  | x :: a', y :: b' => Nat.eqb x y && list_nat_eqb a' b'
  | _, _ => false
  end.

(* harness checker: (is_te, T, N, observed times of the plain run, interruptions), an interruption being
   (index of the checkpoint after whose save the run was stopped, observed times of the resumed run's
   final results) *)
Definition check_proto (c : bool * nat * nat * list nat * list (nat * list nat)) : bool :=
  let '(is_te, T, N, plain, ints) := c in
  let cfg := mkCfg (if is_te then TE else GS) T N (fun _ => 1) false in
  let fuel := 4 * (T + 4) + 8 in
  let full := p_iter cfg fuel p_init in
  is_done full && list_nat_eqb (times full) plain &&
  forallb (fun kc => match nth_snapshot cfg fuel (fst kc) p_init with
                     | None => false
                     | Some s => let r := p_iter cfg fuel (p_resume cfg s) in
                                 is_done r && list_nat_eqb (times r) (snd kc)
                     end) ints.
