(* Model of the lattice-transforming parts of tenpy/models/lattice.py (property C19):
     Lattice.enlarge_mps_unit_cell / Lattice.extract_segment   (order and shape of the new lattice),
     HelicalLattice.enlarge_mps_unit_cell                        (order and N_sites of the new helix),
     MultiSpeciesLattice._generate_new_pairs                     (unit cell indices of the predefined pairs).
   Definitions only (proofs in Proofs/LatticeTransformP.v).  Tie to the code: correspondence (K), harness/c19.py,
   streams model-transform and model-species. *)
From TenpyV Require Import Base.Prelude Model.Lattice.
Open Scope Z_scope.

(* ---- Lattice.enlarge_mps_unit_cell(factor):
        new_order = vstack([old_order + (i * old_Lx, 0, ..., 0) for i in range(factor)]);  Ls[0] *= factor *)
Definition shift_site (dx : Z) (s : site) : site := let '(x0, xr, u) := s in (x0 + dx, xr, u).

Definition enlarge_order (f : nat) (l0 : Z) (o : list site) : list site :=
  flat_map (fun i => map (shift_site (Z.of_nat i * l0)) o) (seq 0 f).

Definition enlarge (f : nat) (lat : lattice) : lattice :=
  mkLat (Z.of_nat f * L0 lat) (Lr lat) (Lu lat) (open0 lat) (openr lat) (shiftr lat) (infinite lat)
        (enlarge_order f (L0 lat) (lorder lat)).

(* ---- Lattice.extract_segment(first, last): the copy is enlarged by last // N_sites + 1, the MPS sites before
        `first` and after `last` are removed (IrregularLattice), bc_MPS = 'segment' (infinite in the model),
        a finite lattice becomes periodic along x *)
Definition segment_order (f : nat) (l0 : Z) (first len : nat) (o : list site) : list site :=
  firstn len (skipn first (enlarge_order f l0 o)).

Definition segment (f : nat) (first len : nat) (lat : lattice) : lattice :=
  mkLat (Z.of_nat f * L0 lat) (Lr lat) (Lu lat) (if infinite lat then open0 lat else false) (openr lat) (shiftr lat) true
        (segment_order f (L0 lat) first len (lorder lat)).

(* ---- HelicalLattice: the MPS unit cell are the first N_unit_cells * Lu rows of the order of the regular lattice;
        enlarge_mps_unit_cell(factor): N_unit_cells *= factor, the regular lattice is enlarged iff the new unit
        cell does not fit (N_cells of the regular lattice not a multiple of it) *)
Definition helical_order (ncells_mps lu : nat) (reg_order : list site) : list site := firstn (ncells_mps * lu) reg_order.

Definition helical_needs_growth (ncells_reg ncells_mps f : nat) : bool :=
  (ncells_reg <? ncells_mps * f)%nat || negb (Nat.modulo ncells_reg (ncells_mps * f) =? 0)%nat.

Definition helical_enlarge_order (f : nat) (l0 : Z) (ncells_reg ncells_mps lu : nat) (reg_order : list site) : list site :=
  helical_order (ncells_mps * f) lu
    (if helical_needs_growth ncells_reg ncells_mps f then enlarge_order f l0 reg_order else reg_order).

(* transform case of the harness:
   (factor, L0 before, first, len, order before, helical data, reported (Ls[0], N_sites, order) after)
   helical data: None for Lattice / MultiSpecies / Irregular; Some (N_cells of the regular lattice before, N_unit_cells
   before, Lu, order of the regular lattice before) for a HelicalLattice *)
Definition transform_case :=
  (nat * Z * nat * nat * list site * option (nat * nat * nat * list site) * (Z * Z * list site))%type.

Definition check_transform_case (c : transform_case) : bool :=
  let '(f, l0, first, len, o, hel, (l0', n', o')) := c in
  match hel with
  | None =>
      (l0' =? Z.of_nat f * l0) && (n' =? Z.of_nat (length o')) &&
      list_eqb site_eqb (segment_order f l0 first len o) o'
  | Some (ncr, ncm, lu, reg) =>
      (l0' =? (if helical_needs_growth ncr ncm f then Z.of_nat f * l0 else l0)) &&
      (n' =? Z.of_nat (ncm * f * lu)) && (n' =? Z.of_nat (length o')) &&
      list_eqb site_eqb (firstn len (skipn first (helical_enlarge_order f l0 ncr ncm lu reg))) o'
  end.

(* ---- MultiSpeciesLattice: unit cell index of species sp on the site su of the simple lattice
        (simple_u_to_species_u; the unit cell is list(species_sites) * simple_Lu, the positions
        np.repeat(simple positions, N_species)), and _generate_new_pairs *)
Definition ms_u (nsp su sp : Z) : Z := su * nsp + sp.
Definition ms_simple_u (nsp u : Z) : Z := u / nsp.        (* self_u_to_simple_u *)
Definition ms_species (nsp u : Z) : Z := u mod nsp.       (* self_u_to_species_idx *)

Definition upair := (Z * Z * list Z)%type.      (* (u1, u2, dx) *)

Definition ms_pairs_sp (nsp a b : Z) (ps : list upair) : list upair :=
  map (fun p : upair => let '(u1, u2, dx) := p in (ms_u nsp u1 a, ms_u nsp u2 b, dx)) ps.

(* '<key>_all-all': for a in species, for b in species: '<key>_<a>-<b>' *)
Definition ms_pairs_all (nsp : Z) (ps : list upair) : list upair :=
  flat_map (fun a => flat_map (fun b => ms_pairs_sp nsp a b ps) (zrange nsp)) (zrange nsp).

Definition ms_pairs_diag (nsp : Z) (ps : list upair) : list upair :=
  flat_map (fun a => ms_pairs_sp nsp a a ps) (zrange nsp).

(* 'onsite_<a>-<b>' (a < b) *)
Definition ms_onsite (nsp slu : Z) (dim : nat) (a b : Z) : list upair :=
  map (fun su => (ms_u nsp su a, ms_u nsp su b, repeat 0 dim)) (zrange slu).

Definition upair_eqb (p q : upair) : bool := row_eqb p q.

(* species case of the harness: (N_species, simple_Lu, dim,
     [(pairs[key] of the simple lattice, [[reported pairs[key_a-b] for b] for a], reported all-all, reported diag)],
     [[reported onsite_a-b for b > a] for a]) *)
Definition species_case :=
  (Z * Z * nat * list (list upair * list (list (list upair)) * list upair * list upair) * list (list (list upair)))%type.

Definition check_species_case (c : species_case) : bool :=
  let '(nsp, slu, dim, keys, onsite) := c in
  forallb (fun k : list upair * list (list (list upair)) * list upair * list upair =>
             let '(ps, sp, al, dg) := k in
             list_eqb (list_eqb (list_eqb upair_eqb))
               (map (fun a => map (fun b => ms_pairs_sp nsp a b ps) (zrange nsp)) (zrange nsp)) sp &&
             list_eqb upair_eqb (ms_pairs_all nsp ps) al &&
             list_eqb upair_eqb (ms_pairs_diag nsp ps) dg) keys &&
  list_eqb (list_eqb (list_eqb upair_eqb))
    (map (fun a => map (fun b => ms_onsite nsp slu dim a b) (filter (fun b => a <? b) (zrange nsp))) (zrange nsp)) onsite.
