(* Correspondence checker for the counter an engine is re-created with (property C18).  Definitions only.
   Used by harness/c18.py, streams real-resume / real-resume-options / real-resume-dmrg.

   The runner (harness/impl/c18_impl.py `real_run`) stops a simulation at an algorithm checkpoint, loads the
   file that is on disk and reads the counter stored in results['resume_data'] (`evolved_time` of a
   TimeEvolutionAlgorithm, `sweeps` of a Sweep engine); then it resumes with resume_from_checkpoint and reads the
   same counter of the engine right after Simulation.init_algorithm re-created it (before resume_run_algorithm),
   and the number of measurement records the resumed simulation starts with.

   Times are given in units of the time step counted from the option `start_time` (round((t - start_time)/dt));
   Model/ResumeProto.v starts its clock at 0, so the model is independent of the value of `start_time` - in
   particular a checkpoint at evolved_time == 0.0 of a run with start_time < 0 is the snapshot with s_t > 0.

   A case is (is_te, T, N, measure_initial, group_sites, restorations), a restoration being
   (index k of the snapshot the loaded file holds, counter stored in the file, counter of the re-created engine,
    number of records the resumed simulation starts with).  The checker recomputes the k-th snapshot state of the
   uninterrupted run and `p_resume` of it. *)
From TenpyV Require Import Base.Prelude.
From TenpyV Require Import Model.ResumeProto.

Definition restore_case := (bool * nat * nat * bool * nat * list (nat * nat * nat * nat))%type.

Definition check_restore (c : restore_case) : bool :=
  let '(is_te, T, N, minit, gs, rs) := c in
  let cfg := mkCfg (if is_te then TE else GS) T N (fun _ => 1) true minit gs in
  let fuel := 4 * (T + 4) + 8 in
  forallb (fun r => let '(k, saved, restored, nrec) := r in
                    match nth_snapshot cfg fuel k p_init with
                    | None => false
                    | Some s => let s' := p_resume cfg s in
                                Nat.eqb (s_t s) saved && Nat.eqb (s_t s') restored &&
                                Nat.eqb (length (s_recs s')) nrec
                    end) rs.
