(* Model of the sign matrix MPS.swap_sites(i, swap_op='auto') builds (tenpy/networks/mps.py):

     siteL, siteR = self.get_site(i), self.get_site(i + 1)
     dL, dR = siteL.dim, siteR.dim
     n_i = np.outer(siteL.JW_exponent, np.ones(dR)).reshape(dL * dR)
     n_j = np.outer(np.ones(dL), siteR.JW_exponent).reshape(dL * dR)
     if np.any(n_i * n_j):
         swap_op_diag = (-1.0) ** (n_i * n_j)
         swap_op = npc.Array.from_ndarray(np.diag(swap_op_diag).reshape([dL, dR, dL, dR]), legs,
                                          labels=['p1', 'p0', 'p0*', 'p1*'])
     else:
         swap_op = None            # plain relabeling p0 <-> p1 of theta
     ...
     theta = npc.tensordot(swap_op, theta, axes=[['p0*', 'p1*'], ['p0', 'p1']])

   JW exponents are integer valued (0 / 1 for all sites of tenpy; the model allows any integer, (-1.0)**k is then
   the parity sign).  Axis 0 of the array (dimension dL, state a of the LEFT site i) is labelled 'p1' - after the
   swap that state sits on position i+1 -, axis 1 (dimension dR, state b of the RIGHT site i+1) is labelled 'p0',
   axis 2 ('p0*', dimension dL) is contracted with theta's 'p0' (site i) and axis 3 ('p1*', dR) with theta's 'p1'.
   Definitions only; proofs in Proofs/SwapSignP.v; executed against the code by the stream `swap-sign`
   (harness/c09_swapsign.py, check_swap_sign_case below). *)
From TenpyV Require Import Base.Prelude Model.Perms.
Open Scope Z_scope.

(* np.outer(jwL, ones(dR)).reshape(dL*dR): row-major, entry a*dR+b is jwL[a] *)
Definition n_i (jwL jwR : list Z) : list Z := flat_map (fun x => map (fun _ => x) jwR) jwL.
(* np.outer(ones(dL), jwR).reshape(dL*dR): entry a*dR+b is jwR[b] *)
Definition n_j (jwL jwR : list Z) : list Z := flat_map (fun _ => jwR) jwL.
Definition n_prod (jwL jwR : list Z) : list Z := map (fun p => fst p * snd p) (combine (n_i jwL jwR) (n_j jwL jwR)).
Definition np_any (l : list Z) : bool := existsb (fun x => negb (x =? 0)) l.
(* (-1.0) ** k for an integer valued k *)
Definition pow_m1 (k : Z) : Z := if Z.odd k then -1 else 1.
Definition swap_diag (jwL jwR : list Z) : list Z := map pow_m1 (n_prod jwL jwR).
(* the diagonal of the swap operator that is used; None = relabeling only *)
Definition swap_op_auto (jwL jwR : list Z) : option (list Z) :=
  if np_any (n_prod jwL jwR) then Some (swap_diag jwL jwR) else None.

(* np.diag(dg).reshape([dL, dR, dL, dR])[x0, x1, x2, x3] *)
Definition diag_reshape (dg : list Z) (dR x0 x1 x2 x3 : nat) : Z :=
  if (x0 * dR + x1 =? x2 * dR + x3)%nat then nth (x0 * dR + x1) dg 0 else 0.
(* entry of the labelled array: labels ['p1', 'p0', 'p0*', 'p1*'] on the axes 0..3 *)
Definition swap_op_entry (jwL jwR : list Z) (p0 p1 p0s p1s : nat) : Z :=
  diag_reshape (swap_diag jwL jwR) (length jwR) p1 p0 p0s p1s.
(* flattened in the label order (p0, p1, p0*, p1* ), shape [dR, dL, dL, dR] *)
Definition swap_op_flat (jwL jwR : list Z) : list Z :=
  let dL := length jwL in let dR := length jwR in
  flat_map (fun p0 => flat_map (fun p1 => flat_map (fun p0s => map (fun p1s => swap_op_entry jwL jwR p0 p1 p0s p1s)
    (seq 0 dR)) (seq 0 dL)) (seq 0 dL)) (seq 0 dR).

(* what the table is claimed to be *)
Definition sign_ab (jwL jwR : list Z) (a b : nat) : Z :=
  if Z.odd (nth a jwL 0) && Z.odd (nth b jwR 0) then -1 else 1.

(* no pair of local states (a of the left, b of the right site) with two odd occupations *)
Definition no_odd_pair (jwL jwR : list Z) : Prop :=
  forall a b, (a < length jwL)%nat -> (b < length jwR)%nat -> Z.odd (nth a jwL 0) && Z.odd (nth b jwR 0) = false.
(* exponents as tenpy's sites have them: 0 or 1 *)
Definition is_parity (jw : list Z) : Prop := Forall (fun x => x = 0 \/ x = 1) jw.

(* Fock space: (c^dag_i)^{na} (c^dag_{i+1})^{nb} -> (c^dag_{i+1})^{nb} (c^dag_i)^{na}.  The word of creation operators
   (1 = an operator of site i, 0 = an operator of site i+1, which has to come first afterwards) is sorted by adjacent
   transpositions of anticommuting operators; their number is the number of inversions (ginv of Model/Perms.v, the
   counting function of T09_permute_arrangement). *)
Definition exchange_word (na nb : nat) : list nat := repeat 1%nat na ++ repeat 0%nat nb.
Definition fock_exchange_sign (na nb : nat) : Z :=
  pow_m1 (Z.of_nat (ginv (fun x y => (y <? x)%nat) (exchange_word na nb))).

(* ---- correspondence checker: (JW_exponent of get_site(i), JW_exponent of get_site(i+1), shape and entries of the
   operand of npc.tensordot transposed to the label order (p0, p1, p0*, p1* ), or None when swap_sites only relabelled) *)
Definition check_swap_sign_case (c : list Z * list Z * option (list nat * list Z)) : bool :=
  let '(jwL, jwR, impl) := c in
  match swap_op_auto jwL jwR, impl with
  | None, None => true
  | Some _, Some (shape, t) =>
      eqb_natlist shape [length jwR; length jwL; length jwL; length jwR] && eqb_zlist t (swap_op_flat jwL jwR)
  | _, _ => false
  end.
