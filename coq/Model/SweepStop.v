(* Model of the run protocol of tenpy/algorithms/mps_common.py IterativeSweeps.run / stopping_criterion, Sweep.sweep (chi_list,
   chi_list_reactivates_mixer, the sweep counter, Mixer.update_amplitude) and of the option derivation in DMRGEngine.__init__ /
   VUMPSEngine.__init__ (default of min_sweeps from N_sweeps_check and chi_list) (property C13: "chi lists and sweep counts").
   Definitions only (proofs in Proofs/SweepStopP.v).  Tie to the code: correspondence (K), harness/c13.py stream stop-trace
   (check_stop_run): the values returned by is_converged() are an oracle (recorded from the run), everything else - which chi_max and
   whether a mixer is in force in every optimisation sweep, the derived min_sweeps, the number of sweeps at which run() stops - is
   recomputed here and compared.  Tensors, energies and the convergence criterion itself are not modelled. *)
From TenpyV Require Import Base.Prelude.

(* chi_list : dict sweep -> chi_max, as an association list with distinct keys *)
Definition chi_get (l : list (nat * nat)) (k : nat) : option nat :=
  match find (fun p => (fst p =? k)%nat) l with Some p => Some (snd p) | None => None end.
Definition max_key (l : list (nat * nat)) : nat := fold_right (fun p m => Nat.max (fst p) m) 0%nat l.

Record sopts := mkSopts {
  o_nsc : nat;                          (* N_sweeps_check *)
  o_min : option nat;                   (* min_sweeps if given *)
  o_max : nat;                          (* max_sweeps *)
  o_chis : option (list (nat * nat));   (* chi_list *)
  o_chi0 : option nat;                  (* trunc_params['chi_max'] if given *)
  o_mixer : bool;                       (* a mixer is configured *)
  o_react : bool;                       (* chi_list_reactivates_mixer *)
  o_disable : option nat;               (* mixer_params['disable_after'] *)
  o_amp : option nat                    (* number of divisions by `decay` after which the amplitude is <= eps; None: no decay *)
}.

(* DMRGEngine.__init__ / VUMPSEngine.__init__:
     default_min_sweeps = int(1.5 * N_sweeps_check)
     if chi_list is not None: default_min_sweeps = max(max(chi_list.keys()), default_min_sweeps) *)
Definition default_min_sweeps (nsc : nat) (chis : option (list (nat * nat))) : nat :=
  let d := ((3 * nsc) / 2)%nat in
  match chis with None => d | Some l => Nat.max (max_key l) d end.
Definition min_sweeps (o : sopts) : nat :=
  match o_min o with Some m => m | None => default_min_sweeps (o_nsc o) (o_chis o) end.

(* mixer : (sweep_activated, number of decays so far) *)
Record sst := mkSst { s_sweeps : nat; s_chi : option nat; s_mixer : option (nat * nat) }.

(* Sweep.mixer_activate: a new Mixer(mixer_params, sweep_activated = self.sweeps) when one is configured *)
Definition activate (o : sopts) (st : sst) : option (nat * nat) :=
  if o_mixer o then Some (s_sweeps st, 0%nat) else s_mixer st.

(* Mixer.update_amplitude(sweeps), called with the incremented sweep counter *)
Definition mixer_after (o : sopts) (sw : nat) (m : option (nat * nat)) : option (nat * nat) :=
  match m with
  | None => None
  | Some (act, dec) =>
      let d1 := match o_disable o with Some da => (act + da <=? sw)%nat | None => false end in
      let d2 := match o_amp o with Some lim => (lim <=? S dec)%nat | None => false end in
      if d1 || d2 then None else Some (act, S dec)
  end.

Definition sweep_rec := (nat * option nat * bool)%type.   (* sweep counter at the start, chi_max in force, mixer active *)
Definition rec_no (r : sweep_rec) : nat := fst (fst r).
Definition rec_chi (r : sweep_rec) : option nat := snd (fst r).
Definition is_some {A} (x : option A) : bool := match x with Some _ => true | None => false end.

(* one optimisation sweep: chi_list.get(self.sweeps) -> chi_max (+ mixer_activate); the local updates; sweeps += 1; update the mixer *)
Definition one_sweep (o : sopts) (st : sst) : sst * sweep_rec :=
  let cm := match o_chis o with
            | Some l => match chi_get l (s_sweeps st) with
                        | Some c => (Some c, if o_react o then activate o st else s_mixer st)
                        | None => (s_chi st, s_mixer st)
                        end
            | None => (s_chi st, s_mixer st)
            end in
  let sw := S (s_sweeps st) in
  (mkSst sw (fst cm) (mixer_after o sw (snd cm)), (s_sweeps st, fst cm, is_some (snd cm))).

Fixpoint sweeps_n (o : sopts) (n : nat) (st : sst) : sst * list sweep_rec :=
  match n with
  | O => (st, [])
  | S n' => let sr := one_sweep o st in
            let rest := sweeps_n o n' (fst sr) in
            (fst rest, snd sr :: snd rest)
  end.

Inductive stop_reason := Converged | MaxSweeps.

(* IterativeSweeps.run: while True: if stopping_criterion(): break; run_iteration()  (N_sweeps_check optimisation sweeps).
   stopping_criterion:  if sweeps > max_sweeps: return True
                        if sweeps > min_sweeps and is_converged(): if mixer is None: return True  else: mixer_deactivate(); return False
   convs: the values returned by the successive calls of is_converged() (not called unless sweeps > min_sweeps).
   Result: reason, final state, the optimisation sweeps in order, the unused rest of convs; None: out of fuel / convs too short. *)
Fixpoint run_loop (o : sopts) (fuel : nat) (st : sst) (convs : list bool) (acc : list sweep_rec)
  : option (stop_reason * sst * list sweep_rec * list bool) :=
  match fuel with
  | O => None
  | S f =>
      let iterate st1 cs := let sr := sweeps_n o (o_nsc o) st1 in run_loop o f (fst sr) cs (acc ++ snd sr) in
      if (o_max o <? s_sweeps st)%nat then Some (MaxSweeps, st, acc, convs)
      else if (min_sweeps o <? s_sweeps st)%nat then
        match convs with
        | [] => None
        | c :: cs =>
            if c then match s_mixer st with
                      | None => Some (Converged, st, acc, cs)
                      | Some _ => iterate (mkSst (s_sweeps st) (s_chi st) None) cs
                      end
            else iterate st cs
        end
      else iterate st convs
  end.

(* pre_run_initialize: mixer_activate() with sweeps = 0 *)
Definition init_sst (o : sopts) : sst := mkSst 0 (o_chi0 o) (if o_mixer o then Some (0%nat, 0%nat) else None).
Definition run_model (o : sopts) (convs : list bool) :=
  run_loop o (o_max o + 3) (init_sst o) convs [].

(* documented meaning of chi_list: "an entry at_sweep: chi states that starting from sweep at_sweep the value chi is to be used":
   the value in force in sweep s is the one of the largest key <= s (chi0 when there is none) *)
Fixpoint latest (l : list (nat * nat)) (chi0 : option nat) (s : nat) : option nat :=
  match chi_get l s with
  | Some c => Some c
  | None => match s with O => chi0 | S s' => latest l chi0 s' end
  end.

(* ---- correspondence checker *)
Definition eqb_on (a b : option nat) : bool :=
  match a, b with Some x, Some y => (x =? y)%nat | None, None => true | _, _ => false end.
Definition eqb_rec (a b : sweep_rec) : bool :=
  (rec_no a =? rec_no b)%nat && eqb_on (rec_chi a) (rec_chi b) && Bool.eqb (snd a) (snd b).
Fixpoint eqb_recs (a b : list sweep_rec) : bool :=
  match a, b with
  | [], [] => true
  | x :: a', y :: b' => eqb_rec x y && eqb_recs a' b'
  | _, _ => false
  end.

Definition stop_case :=
  (nat * option nat * nat * option (list (nat * nat)) * option nat * (bool * bool * option nat * option nat)
   * list bool * list sweep_rec * (nat * nat * bool))%type.

Definition mk_stop_case (c : stop_case) : stop_case := c.     (* fixes the type of a literal *)

(* the is_converged() call that only chooses the log message when sweeps > max_sweeps may leave one recorded value unused *)
Definition check_stop_run (c : stop_case) : bool :=
  let '(nsc, mn, mx, chis, chi0, (mix, react, dis, amp), convs, recs, (fin_sweeps, impl_min, mixer_end)) := c in
  let o := mkSopts nsc mn mx chis chi0 mix react dis amp in
  (min_sweeps o =? impl_min)%nat &&
  match run_model o convs with
  | None => false
  | Some (reason, st, mrecs, rest) =>
      (s_sweeps st =? fin_sweeps)%nat && eqb_recs mrecs recs && Bool.eqb (is_some (s_mixer st)) mixer_end &&
      match reason with
      | Converged => match rest with [] => true | _ => false end
      | MaxSweeps => (length rest <=? 1)%nat
      end
  end.
