(* Block-sparse tensors of tenpy.linalg.np_conserved (storage schema of doc/intro/npc.rst).  Definitions only.
   Tie to the code: correspondence (K): harness/c01.py, c02.py feed the recorded storage (_data, _qdata, _qdata_sorted,
   legs, qtotal) of operands and results of the implementation to the checkers of Model/TensorCheck.v.

   leg   = block sizes (slices are their prefix sums) + charges per block + qconj
   arr   = legs, qtotal, list of stored blocks (qindices, block), the cached claim _qdata_sorted
   block = function from the index INSIDE the block to a value; values are Gaussian integers Z[i] (the
           harness uses small-integer / Gaussian-integer entries, exact in float64 / complex128).
   dense_sum   = sum over the stored blocks embedded at their slices
   to_ndarray  = Array.to_ndarray: res[slices] = block in storage order, i.e. the LAST stored block covering an index wins. *)
From TenpyV Require Import Base.Prelude Model.Charge.
Open Scope Z_scope.

(* ---- values: Gaussian integers *)
Definition C := (Z * Z)%type.
Definition c0 : C := (0, 0).
Definition cadd (x y : C) : C := (fst x + fst y, snd x + snd y).
Definition cmul (x y : C) : C := (fst x * fst y - snd x * snd y, fst x * snd y + snd x * fst y).
Definition cconj (x : C) : C := (fst x, - snd x).
Definition ceqb (x y : C) : bool := (fst x =? fst y) && (snd x =? snd y).

(* ---- legs *)
Record leg := mkLeg { bsz : list nat; bch : list (list Z); qc : Z }.
Definition dleg : leg := mkLeg [] [] 1.

Definition bstart (l : leg) (q : nat) : nat := list_sum (firstn q (bsz l)).
Definition bsize (l : leg) (q : nat) : nat := nth q (bsz l) 0%nat.
Definition ind_len (l : leg) : nat := list_sum (bsz l).
(* is the flat index x inside block q of leg l *)
Definition in1 (l : leg) (q x : nat) : bool := (bstart l q <=? x)%nat && (x <? bstart l q + bsize l q)%nat.
(* component j of  leg.get_charge(q) = charges[q] * qconj *)
Definition chg (l : leg) (q j : nat) : Z := qc l * nth j (nth q (bch l) []) 0.
Definition conj_leg (l : leg) : leg := mkLeg (bsz l) (bch l) (- qc l).

(* ---- arrays *)
Definition block := (list nat * (list nat -> C))%type.
Record arr := mkArr { legs : list leg; qtot : list Z; blks : list block; qsorted : bool }.
Definition rank (a : arr) : nat := length (legs a).
Definition rows (a : arr) : list (list nat) := map fst (blks a).

Definition inb (ls : list leg) (qs idx : list nat) : bool :=
  forallb (fun k => in1 (nth k ls dleg) (nth k qs 0%nat) (nth k idx 0%nat)) (seq 0 (length ls)).
Definition loc (ls : list leg) (qs idx : list nat) : list nat :=
  map (fun k => (nth k idx 0 - bstart (nth k ls dleg) (nth k qs 0))%nat) (seq 0 (length ls)).
(* value contributed by one stored block at the dense index idx *)
Definition bval (ls : list leg) (idx : list nat) (b : block) : option C :=
  if inb ls (fst b) idx then Some (snd b (loc ls (fst b) idx)) else None.

Definition osum (l : list (option C)) : C :=
  fold_right (fun o acc => match o with Some v => cadd v acc | None => acc end) c0 l.
Definition olast (l : list (option C)) : C :=
  fold_left (fun acc o => match o with Some v => v | None => acc end) l c0.

Definition dense_sum (a : arr) (idx : list nat) : C := osum (map (bval (legs a) idx) (blks a)).
Definition to_ndarray (a : arr) (idx : list nat) : C := olast (map (bval (legs a) idx) (blks a)).

(* ---- charge rule:  make_valid(sum_l legs[l].get_charge(q_l)) = qtotal, stated per charge component *)
Definition row_charge (ls : list leg) (qs : list nat) (j : nat) : Z :=
  sumZ (map (fun k => chg (nth k ls dleg) (nth k qs 0%nat) j) (seq 0 (length ls))).
Definition row_ok (ci : chinfo) (ls : list leg) (qt : list Z) (qs : list nat) : Prop :=
  forall j, (j < length ci)%nat -> mv1 (nth j ci 1) (row_charge ls qs j) = nth j qt 0.
Definition charge_rule (ci : chinfo) (a : arr) : Prop :=
  forall r, In r (rows a) -> row_ok ci (legs a) (qtot a) r.

(* ---- order of _qdata rows: np.lexsort(_qdata.T), the LAST column is the primary key *)
Fixpoint lex_lt (a b : list nat) : bool :=
  match a, b with
  | x :: a', y :: b' => (x <? y)%nat || ((x =? y)%nat && lex_lt a' b')
  | [], _ :: _ => true
  | _, _ => false
  end.
Definition row_lt (a b : list nat) : bool := lex_lt (rev a) (rev b).
Fixpoint row_eqb (a b : list nat) : bool :=
  match a, b with
  | [], [] => true
  | x :: a', y :: b' => (x =? y)%nat && row_eqb a' b'
  | _, _ => false
  end.
Fixpoint strictly_sorted (l : list (list nat)) : bool :=
  match l with
  | a :: ((b :: _) as t) => row_lt a b && strictly_sorted t
  | _ => true
  end.

(* ---- well-formedness (C02) *)
Definition rows_shape (a : arr) : Prop := forall r, In r (rows a) -> length r = rank a.
Definition claim_truthful (a : arr) : Prop := qsorted a = true -> strictly_sorted (rows a) = true.
Record WF (ci : chinfo) (a : arr) : Prop := mkWF {
  wf_len : length (qtot a) = length ci;
  wf_shape : rows_shape a;
  wf_nodup : NoDup (rows a);
  wf_rule : charge_rule ci a;
  wf_claim : claim_truthful a
}.
