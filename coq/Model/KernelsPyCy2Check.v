(* Correspondence checkers for the kernel models of Model/KernelsPyCy2.v / KernelsPyCy3.v that have a direct
   counterpart in the kernel stream of harness/c04.py: LegPipe construction ('pipe' cases) and _sliced_copy
   ('sliced_copy' cases).  check2_py is evaluated on the results of the pure-Python configuration, check2_cy on
   the results of the configuration with the extension rebuilt from the current .pyx. *)
From TenpyV Require Import Base.Prelude Model.KernelsPyCy Model.KernelsPyCy2 Model.KernelsPyCy3.
Open Scope Z_scope.

Inductive kernel_case2 :=
| KPipe (mods : list Z) (qconj : Z) (legs : list pleg) (sort bunch : bool)
        (q_map : list (list Z)) (q_map_slices : list Z) (charges : list (list Z)) (slices : list Z)
| KSlicedCopy (dshape sshape dbeg sbeg sl : list Z) (out : list Z).

Definition zgridT (legs : list pleg) : list (list Z) :=
  map (map Z.of_nat) (ngrid (map (fun l => length (pl_bs l)) legs)).

Definition po_eqb (p : pipe_out) (q_map : list (list Z)) (q_map_slices : list Z) (charges : list (list Z))
           (slices : list Z) : bool :=
  llz_eqb (po_qmap p) q_map && lz_eqb (po_qmap_slices p) q_map_slices
  && llz_eqb (po_charges p) charges && lz_eqb (po_slices p) slices.

(* the buffers harness/impl/c04_impl.py fills: dest = -arange(n), src = arange(n) + 1 *)
Definition sc_dest (dshape : list nat) : list Z := map (fun i => - Z.of_nat i) (seq 0 (prodN dshape)).
Definition sc_src (sshape : list nat) : list Z := map (fun i => Z.of_nat i + 1) (seq 0 (prodN sshape)).

Definition check2_py (c : kernel_case2) : bool :=
  match c with
  | KPipe mods qconj legs sort bunch qm qs ch sl =>
      po_eqb (init_from_legs_py lexsort_ins mods qconj legs (zgridT legs) sort bunch) qm qs ch sl
  | KSlicedCopy dshape sshape dbeg sbeg sl out =>
      let n := map Z.to_nat in
      lz_eqb (sliced_copy_py 0 (sc_src (n sshape)) (sc_dest (n dshape)) (cstrides (n dshape)) (n dbeg)
                             (cstrides (n sshape)) (n sbeg) (n sl)) out
  end.
Definition check2_cy (c : kernel_case2) : bool :=
  match c with
  | KPipe mods qconj legs sort bunch qm qs ch sl =>
      po_eqb (init_from_legs_cy lexsort_ins 0 mods qconj legs (zgridT legs) sort bunch) qm qs ch sl
  | KSlicedCopy dshape sshape dbeg sbeg sl out =>
      let n := map Z.to_nat in
      lz_eqb (sliced_copy_cy 0 (sc_src (n sshape)) (sc_dest (n dshape)) (cstrides (n dshape)) (n dbeg)
                             (cstrides (n sshape)) (n sbeg) (n sl)) out
  end.
