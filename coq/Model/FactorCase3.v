(* Case checkers for Model/FactorDense3.v, evaluated by harness/c05.py ('plan' stream, stubbed per-block LAPACK). *)
From TenpyV Require Import Base.Prelude Model.ChargeL Model.Leg Model.Factor Model.FactorCase Model.Factor2
  Model.FactorDense Model.FactorDense2 Model.FactorDense3 Model.FactorCase2.
Open Scope Z_scope.

(* qr(mode='complete') on a completely blocked matrix: block sizes of legs[0], row block of every stored block in
   _data order, Q._qdata, and the blocks of Q behind the stored ones (the fill-in) *)
Definition qr_fill_case_t : Type := (list nat * list nat * (list (nat * nat) * list zmat))%type.
Definition check_qr_fill_case (c : qr_fill_case_t) : bool :=
  let '(rs, rows, (qd, extra)) := c in
  let ps := map (fun i => mkPair i i 0 (fun _ _ => 0) (fun _ _ => 0)) rows in
  let Q := qr_complete_Q rs ps in
  all2 (fun (e : bent) (x : nat * nat) => Nat.eqb (erow e) (fst x) && Nat.eqb (ecol e) (snd x)) Q qd &&
  all2 (fun (e : bent) (m : zmat) => zmat_eqb (tabm (bsize rs (erow e)) (bsize rs (ecol e)) (emat e)) m)
       (skipn (length rows) Q) extra.

(* svd(full_matrices=True): VH._qdata / _data against svd_V_full *)
Definition svd_vfull_case_t : Type :=
  (list nat * list (nat * nat * (nat * zmat * list Z * zmat)) * list (nat * nat * zmat))%type.
Definition check_svd_vfull_case (c : svd_vfull_case_t) : bool :=
  let '(cs, fs0, Vo) := c in
  all2 ent_eqb (map (tab_ent cs cs) (svd_V_full (map sblock_of fs0))) Vo.
