(* The algebra of MPS.add (tenpy/networks/mps.py), C09 / T09_add_linear.  Definitions only.
   For a fixed physical configuration (p_1 .. p_L) the amplitude of a finite/segment MPS is the matrix product
   A_1^{p_1} ... A_L^{p_L}.  MPS.add builds, per physical index,
       first site : npc.grid_concat([[alpha*theta_self, beta*theta_other]])  = the row block  (alpha A_1 , beta B_1)
       inner sites: grid_concat([[B1, 0], [0, B2]])                          = the block diagonal diag(A_i, B_i)
       last site  : grid_concat([[last_B_self], [last_B_other]])             = the column block (A_L ; B_L)
   (alpha, beta already multiplied by self.norm / other.norm; the subsequent canonical_form_finite is numerics and
   NOT modelled).  Matrices are functions nat -> nat -> Z with explicit dimensions: a chain is a list of
   (number of columns, matrix); the number of rows of an entry is the number of columns of its predecessor (any
   bond dimensions; the rows of the first entry are the shared left boundary, for bc='finite' of dimension 1).
   Tied to the code by the correspondence stream `add-blocks` of harness/c09.py (harness/c09_addblocks.py,
   Model/MpsAddCheck.v): MPS.add is called on MPS with integer tensors, trivial charges and non-uniform bond
   dimensions (finite and segment bc) while canonical_form_finite is a no-op, and the tensors handed to the constructor
   of the sum are compared entry by entry with `tadd (alpha*self.norm) (beta*other.norm)` applied to get_B(0, 'Th'),
   get_B(i, 'B'); in addition the dense oracle checks add = alpha psi + beta phi on every generated pair of states. *)
From TenpyV Require Import Base.Prelude.
Open Scope Z_scope.

Definition mat := nat -> nat -> Z.

Fixpoint sumn (n : nat) (f : nat -> Z) : Z :=
  match n with O => 0 | Datatypes.S n' => sumn n' f + f n' end.

Definition mmul (n : nat) (A B : mat) : mat := fun i j => sumn n (fun k => A i k * B k j).
Definition mscale (a : Z) (A : mat) : mat := fun i j => a * A i j.

(* concatenation along the columns (axis vR), the rows (axis vL), and the block diagonal *)
Definition hcat (ca : nat) (A B : mat) : mat := fun i j => if (j <? ca)%nat then A i j else B i (j - ca)%nat.
Definition vcat (ra : nat) (A B : mat) : mat := fun i j => if (i <? ra)%nat then A i j else B (i - ra)%nat j.
Definition bdiag (ra ca : nat) (A B : mat) : mat := fun i j =>
  if (i <? ra)%nat then (if (j <? ca)%nat then A i j else 0)
  else (if (j <? ca)%nat then 0 else B (i - ra)%nat (j - ca)%nat).

Definition chain := list (nat * mat).

Fixpoint chain_prod (c : chain) : mat :=
  match c with
  | [] => fun i j => if (i =? j)%nat then 1 else 0
  | (n, A) :: rest => match rest with [] => A | _ :: _ => mmul n A (chain_prod rest) end
  end.

(* sites 2 .. L of the sum; ra = number of rows of the current A (= columns of the previous A) *)
Fixpoint add_tail (ra : nat) (As Bs : chain) : chain :=
  match As, Bs with
  | (ca, A) :: As', (cb, B) :: Bs' =>
      match As', Bs' with
      | [], [] => [(ca, vcat ra A B)]
      | _, _ => (ca + cb, bdiag ra ca A B)%nat :: add_tail ca As' Bs'
      end
  | _, _ => []
  end.

Definition add_chain (alpha beta : Z) (As Bs : chain) : chain :=
  match As, Bs with
  | (ca, A) :: As', (cb, B) :: Bs' => (ca + cb, hcat ca (mscale alpha A) (mscale beta B))%nat :: add_tail ca As' Bs'
  | _, _ => []
  end.

(* with the physical legs: a site tensor is (number of columns, p |-> matrix); a configuration selects the matrices *)
Definition tchain := list (nat * (nat -> mat)).
Fixpoint select (T : tchain) (ps : list nat) : chain :=
  match T, ps with
  | (c, t) :: T', p :: ps' => (c, t p) :: select T' ps'
  | _, _ => []
  end.
Definition amplitude (T : tchain) (ps : list nat) : mat := chain_prod (select T ps).

Fixpoint tadd_tail (ra : nat) (TA TB : tchain) : tchain :=
  match TA, TB with
  | (ca, A) :: TA', (cb, B) :: TB' =>
      match TA', TB' with
      | [], [] => [(ca, fun p => vcat ra (A p) (B p))]
      | _, _ => ((ca + cb)%nat, fun p => bdiag ra ca (A p) (B p)) :: tadd_tail ca TA' TB'
      end
  | _, _ => []
  end.
Definition tadd (alpha beta : Z) (TA TB : tchain) : tchain :=
  match TA, TB with
  | (ca, A) :: TA', (cb, B) :: TB' =>
      ((ca + cb)%nat, fun p => hcat ca (mscale alpha (A p)) (mscale beta (B p))) :: tadd_tail ca TA' TB'
  | _, _ => []
  end.
