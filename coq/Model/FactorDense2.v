(* C05: further dense models (definitions only; same conventions as Model/FactorDense.v; proof vocabulary that
   re-describes, sector by sector / pair by pair, results whose structure is executed against the code through
   eig_plan (check_eig_case) and qr_charges / lq_charges (check_qr_case, check_lq_case); not executed themselves):
   - eigh / eig: the block-diagonal input and the eigenvector matrix, sector by sector;
   - qr / lq (any mode): blocks of the two factors paired through blocks of the inner leg, whose numbers are
     map_qind[qi_L] (reduced: the projected leg) or qi_L (complete). *)
From TenpyV Require Import Base.Prelude Model.FactorDense.
Open Scope Z_scope.

(* sector q of the leg = entry number q of `es` (the sizes of the leg are inner_sizes es):
   f_n = size of the sector, f_V = block of a in the sector (the zero function if none is stored),
   f_U = the block of resv (LAPACK's rv or the identity), f_S = the values written to resw[slice(q)] (rw or zeros);
   resw = svd_S es (concatenation) *)
Definition eig_A (es : list sblock) : list bent := asm (fun m _ => m) (fun m _ => m) (fun _ e => f_V (sb_fac e)) 0 es.
Definition eig_V (es : list sblock) : list bent := asm (fun m _ => m) (fun m _ => m) (fun _ e => f_U (sb_fac e)) 0 es.

(* k-th pair: block (p_i, p_x) of the left factor and block (p_x, p_j) of the right factor *)
Record mpair := mkPair { p_i : nat; p_x : nat; p_j : nat; p_A : dmat; p_B : dmat }.
Definition mmul (n : nat) (A B : dmat) : dmat := fun r c => sumn n (fun t => A r t * B t c).
Definition pairs_L (ps : list mpair) : list bent := map (fun p => (p_i p, p_x p, p_A p)) ps.
Definition pairs_R (ps : list mpair) : list bent := map (fun p => (p_x p, p_j p, p_B p)) ps.
Definition pairs_prod (ns : list nat) (ps : list mpair) : list bent :=
  map (fun p => (p_i p, p_j p, mmul (bsize ns (p_x p)) (p_A p) (p_B p))) ps.
