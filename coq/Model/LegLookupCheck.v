(* Executable checker of the correspondence stream leg-lookups of harness/c02.py.  Definitions only.
   case = (mods, leg, queries);  query = (charges asked for, what LegCharge.get_qindex_of_charges returned: Some qindex | None = ValueError);
   the first queries are get_charge(qi) for every block qi as returned by the implementation, so that get_charge is compared as well:
   charges_of_blocks = [impl get_charge(0); impl get_charge(1); ...]. *)
From TenpyV Require Import Base.Prelude Model.Charge Model.Tensor Model.TakeSlice Model.TensorCheck Model.LegLookup.
Open Scope Z_scope.

Definition lookup_case := (list Z * sleg * list (list Z) * list (list Z * option Z))%type.

Definition opt_eqb (a : option nat) (b : option Z) : bool :=
  match a, b with
  | None, None => true
  | Some x, Some y => (Z.of_nat x =? y)
  | _, _ => false
  end.

Definition check_lookup_case (c : lookup_case) : bool :=
  let '(ci, sl, blockcharges, queries) := c in
  let l := mk_leg sl in
  (length blockcharges =? length (bch l))%nat &&
  forallb (fun k => list_eqb (leg_charge l k) (nth k blockcharges [])) (seq 0 (length (bch l))) &&
  forallb (fun q : list Z * option Z => opt_eqb (qindex_of_charges ci l (fst q)) (snd q)) queries.
