(* Model of the sweep protocol of tenpy/algorithms/mps_common.py (property C13):
   Sweep.get_sweep_schedule, Sweep._update_env_inds, Sweep.update_env, Sweep.free_no_longer_needed_envs and
   BaseEnvironment.get_LP / get_RP / del_LP / del_RP (networks/mps.py).  Definitions only (proofs in
   Proofs/SweepP.v).  Tie to the code: correspondence (K), harness/c13.py: instrumented DMRG runs.

   Every site carries a version number (bumped whenever psi.set_B writes the site); every stored environment
   carries the versions of the sites it was contracted from: LP[i] those of sites 0..i-1, RP[i] those of sites
   i+1..L-1.  A read is FRESH when these equal the current versions.  The numerical content (tensors, energies,
   truncation) is not modelled. *)
From TenpyV Require Import Base.Prelude.

(* ---- get_sweep_schedule.  m = number of right moves: L - n (finite), L (infinite) *)
Definition i0s (m : nat) : list nat := seq 0 m ++ rev (seq 1 m).
Definition move_rights (m : nat) : list bool := repeat true m ++ repeat false m.

Definition flags_finite (m : nat) : list (bool * bool) := repeat (true, false) m ++ repeat (false, true) m.
(* infinite, n = 2: [[T,T]]*2 + [[T,F]]*(L-2) + [[T,T]]*2 + [[F,T]]*(L-2) *)
Definition flags_inf2 (L : nat) : list (bool * bool) :=
  repeat (true, true) 2 ++ repeat (true, false) (L - 2) ++ repeat (true, true) 2 ++ repeat (false, true) (L - 2).
(* infinite, n = 1: [[T,T]] + [[T,F]]*(L-1) + [[T,T]] + [[F,T]]*(L-1) *)
Definition flags_inf1 (L : nat) : list (bool * bool) :=
  (true, true) :: repeat (true, false) (L - 1) ++ (true, true) :: repeat (false, true) (L - 1).

Definition entry := (nat * bool * (bool * bool))%type.     (* i0, move_right, (update_LP, update_RP) *)
Definition right_moves (finite : bool) (L n : nat) : nat := if finite then L - n else L.
Definition schedule (finite : bool) (L n : nat) : list entry :=
  let m := right_moves finite L n in
  combine (combine (i0s m) (move_rights m))
          (if finite then flags_finite m else if (n =? 2)%nat then flags_inf2 L else flags_inf1 L).

(* ---- environments of a finite chain *)
Definition tag := list nat.
Record st := mkSt { ver : list nat; lp : list (option tag); rp : list (option tag) }.

Fixpoint set_nth {A} (l : list A) (k : nat) (x : A) : list A :=
  match l, k with
  | [], _ => []
  | _ :: t, O => x :: t
  | y :: t, S k' => y :: set_nth t k' x
  end.
Definition bump (v : list nat) (i : nat) : list nat := set_nth v i (S (nth i v 0%nat)).

(* nearest stored LP at or left of i (fuel = i + 1 steps) *)
Fixpoint find_left (l : list (option tag)) (i fuel : nat) : option (nat * tag) :=
  match fuel with
  | O => None
  | S f => match nth i l None with
           | Some t => Some (i, t)
           | None => match i with O => None | S i' => find_left l i' f end
           end
  end.
(* contract sites j, j+1, .., j+cnt-1 onto an LP[j] with tag t, storing every intermediate *)
Fixpoint extend_left (s : st) (j cnt : nat) (t : tag) (store : bool) : st * tag :=
  match cnt with
  | O => (s, t)
  | S c => let t' := t ++ [nth j (ver s) 0%nat] in
           let s' := if store then mkSt (ver s) (set_nth (lp s) (S j) (Some t')) (rp s) else s in
           extend_left s' (S j) c t' store
  end.
Definition get_lp (s : st) (i : nat) (store : bool) : st * option tag :=
  match find_left (lp s) i (S i) with
  | None => (s, None)
  | Some (j, t) => let r := extend_left s j (i - j) t store in (fst r, Some (snd r))
  end.

Fixpoint find_right (l : list (option tag)) (i fuel : nat) : option (nat * tag) :=
  match fuel with
  | O => None
  | S f => match nth i l None with
           | Some t => Some (i, t)
           | None => find_right l (S i) f
           end
  end.
(* contract sites j, j-1, .., j-cnt+1 onto an RP[j] *)
Fixpoint extend_right (s : st) (j cnt : nat) (t : tag) (store : bool) : st * tag :=
  match cnt with
  | O => (s, t)
  | S c => let t' := nth j (ver s) 0%nat :: t in
           let s' := if store then mkSt (ver s) (lp s) (set_nth (rp s) (j - 1) (Some t')) else s in
           extend_right s' (j - 1) c t' store
  end.
Definition get_rp (s : st) (i : nat) (store : bool) : st * option tag :=
  match find_right (rp s) i (length (rp s) - i) with
  | None => (s, None)
  | Some (j, t) => let r := extend_right s j (j - i) t store in (fst r, Some (snd r))
  end.

Definition del_lp (s : st) (i : nat) : st := mkSt (ver s) (set_nth (lp s) i None) (rp s).
Definition del_rp (s : st) (i : nat) : st := mkSt (ver s) (lp s) (set_nth (rp s) i None).

Definition tag_eqb (a b : tag) : bool :=
  (length a =? length b)%nat && forallb (fun p => (fst p =? snd p)%nat) (combine a b).
Definition fresh_l (s : st) (i : nat) (t : option tag) : bool :=
  match t with Some t => tag_eqb t (firstn i (ver s)) | None => false end.
Definition fresh_r (s : st) (i : nat) (t : option tag) : bool :=
  match t with Some t => tag_eqb t (skipn (S i) (ver s)) | None => false end.

(* _update_env_inds *)
Definition env_inds (n i0 : nat) (mr : bool) : nat * nat :=
  if ((n =? 2)%nat || mr)%bool then (i0, S i0) else (i0 - 1, i0)%nat.

(* one entry of the sweep: make_eff_H reads LP[i0], RP[i0+n-1]; update_local writes two sites;
   update_env; free_no_longer_needed_envs.  Returns the new state and whether both reads were fresh. *)
Definition step (n : nat) (s : st) (e : entry) : st * bool :=
  match e with (i0, mr, (upl, upr)) =>
    let r1 := get_lp s i0 true in
    let r2 := get_rp (fst r1) (i0 + n - 1) true in
    let s2 := fst r2 in
    let ok := fresh_l s2 i0 (snd r1) && fresh_r s2 (i0 + n - 1) (snd r2) in
    let (iL, iR) := env_inds n i0 mr in
    let s3 := mkSt (bump (bump (ver s2) iL) iR) (lp s2) (rp s2) in
    let s4 := del_rp (del_lp s3 iR) iL in
    let s5 := if upl then fst (get_lp s4 iR true) else s4 in
    let s6 := if upr then fst (get_rp s5 iL true) else s5 in
    let s7 :=
      if (n =? 2)%nat then
        let a := if upr then del_lp s6 iL else s6 in
        if upl then del_rp a iR else a
      else
        if (mr && upr)%bool then del_lp s6 iL
        else if (negb mr && upl)%bool then del_rp s6 iR else s6 in
    (s7, ok)
  end.

Definition init_st (L : nat) : st :=
  mkSt (repeat 0%nat L) (Some [] :: repeat None (L - 1)) (repeat None (L - 1) ++ [Some []]).

Definition stored (l : list (option tag)) : list nat :=
  map fst (filter (fun p => match snd p with Some _ => true | None => false end) (combine (seq 0 (length l)) l)).

(* run entries; collect per step (fresh, stored LP indices, stored RP indices) *)
Fixpoint run (n : nat) (s : st) (es : list entry) : list (bool * list nat * list nat) * st :=
  match es with
  | [] => ([], s)
  | e :: t => let r := step n s e in
              let rest := run n (fst r) t in
              ((snd r, stored (lp (fst r)), stored (rp (fst r))) :: fst rest, snd rest)
  end.

Fixpoint repeat_list {A} (l : list A) (k : nat) : list A :=
  match k with O => [] | S k' => l ++ repeat_list l k' end.

(* all reads of `sweeps` sweeps of a finite chain are fresh and every stored environment is current *)
Definition all_current (s : st) : bool :=
  forallb (fun i => match nth i (lp s) None with Some t => tag_eqb t (firstn i (ver s)) | None => true end)
          (seq 0 (length (lp s))) &&
  forallb (fun i => match nth i (rp s) None with Some t => tag_eqb t (skipn (S i) (ver s)) | None => true end)
          (seq 0 (length (rp s))).
Fixpoint run_ok (n : nat) (s : st) (es : list entry) : bool :=
  match es with
  | [] => true
  | e :: t => let r := step n s e in snd r && all_current (fst r) && run_ok n (fst r) t
  end.
Definition no_stale (L n sweeps : nat) : bool :=
  run_ok n (init_st L) (repeat_list (schedule true L n) sweeps).

(* ---- correspondence checkers *)
Definition entry_eqb (a b : entry) : bool :=
  match a, b with (i, m, (p, q)), (i', m', (p', q')) =>
    (i =? i')%nat && Bool.eqb m m' && Bool.eqb p p' && Bool.eqb q q' end.
Fixpoint leqb {A} (eqb : A -> A -> bool) (l1 l2 : list A) : bool :=
  match l1, l2 with
  | [], [] => true
  | x :: t1, y :: t2 => eqb x y && leqb eqb t1 t2
  | _, _ => false
  end.
(* case: (finite, L, n, schedule returned by the implementation) *)
Definition check_schedule (x : bool * nat * nat * list entry) : bool :=
  match x with (fin, L, n, es) => leqb entry_eqb es (schedule fin L n) end.
(* case: (L, n, entries the implementation executed, per step: stored LP indices, stored RP indices) *)
Definition snap_eqb (a b : bool * list nat * list nat) : bool :=
  match a, b with (f, l, r), (f', l', r') => Bool.eqb f f' && leqb Nat.eqb l l' && leqb Nat.eqb r r' end.
Definition check_run (x : nat * nat * list entry * list (list nat * list nat)) : bool :=
  match x with (L, n, es, snaps) =>
    leqb snap_eqb (map (fun p => (true, fst p, snd p)) snaps) (fst (run n (init_st L) es)) end.
