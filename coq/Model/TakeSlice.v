(* Array.take_slice(i, axis) for ONE axis on the storage model of Model/Tensor.v, written after the code (definitions only):
     pos = legs[ax].get_qindex(i) = (qi, ri)             block containing the flat index i and the index inside it
     res.legs = legs without ax;  res.qtotal = make_valid(qtotal - legs[ax].get_charge(qi))
     keep_blocks = _qdata[:, ax] == qi;  res._qdata = _qdata[keep_blocks][:, keep_axes];  res._data = [block[..., ri, ...]]
     res._qdata_sorted is not changed.
   Tie to the code: correspondence (K), second stream `coq2` of harness/c02.py (harness/npc_gen.py records the storage of operand and
   result of one-axis take_slice calls; checker check_case_c02x of Model/TensorProgCheck.v compares legs, qtotal, _qdata rows in
   order, the claim and the dense form); besides the numpy oracle of harness/c01.py and the invariant oracle of c02.py. *)
From TenpyV Require Import Base.Prelude Model.Charge Model.Tensor Model.TensorOps.
Open Scope Z_scope.

Definition remove_at {A} (ax : nat) (l : list A) : list A := firstn ax l ++ skipn (S ax) l.
Definition insert_at {A} (ax : nat) (x : A) (l : list A) : list A := firstn ax l ++ x :: skipn ax l.

(* LegCharge.get_qindex: the charge block containing the flat index i (number of blocks if there is none) *)
Definition get_qindex (l : leg) (i : nat) : nat :=
  match find (fun q => in1 l q i) (seq 0 (length (bsz l))) with Some q => q | None => length (bsz l) end.
(* LegCharge.get_charge(q) = charges[q] * qconj *)
Definition leg_charge (l : leg) (q : nat) : list Z := vscale (qc l) (nth q (bch l) []).

Definition take_slice (ci : chinfo) (ax i : nat) (a : arr) : arr :=
  let l := nth ax (legs a) dleg in
  let qi := get_qindex l i in
  let ri := (i - bstart l qi)%nat in
  mkArr (remove_at ax (legs a)) (make_valid ci (vadd (qtot a) (vneg (leg_charge l qi))))
        (map (fun b : block => (remove_at ax (fst b), fun idx => snd b (insert_at ax ri idx)))
             (filter (fun b : block => (nth ax (fst b) 0 =? qi)%nat) (blks a)))
        (qsorted a).
