(* Buffer sharing on the store model Model/Store.v: which tensors own a common block buffer after a step.
   Definitions only; proofs in Proofs/StoreShareP.v, statements in Props/C03.v (T03_fresh_result_unshared,
   T03_rebind_unshares).
   Tie to the code: harness/c03.py compares after EVERY step of every history the memory of all block buffers of all
   live tensors of the implementation (np.shares_memory, harness/impl/c03_impl.py:share_pairs) and hands the observed
   pairs of registers to `check_shares`: every pair that owns common memory in the implementation must share a buffer in
   the model.  So the hypothesis `shares_buffer h x r = false` of the frame theorems is one the implementation meets
   whenever the model says so -- a result that secretly is a view of its operand (a reshape of the operand's block, a
   dropped copy) is a pair the model does not have. *)
From TenpyV Require Import Base.Prelude Model.Store.
Open Scope nat_scope.

(* operations whose result is built from fresh buffers only (everything that is not in-place, except copy(deep=False)) *)
Definition returns_fresh (o : op) : bool :=
  match o with
  | ONew _ _ | OCopy true _ | OUnary _ _ | OScaleAxis _ _ | OAdd _ _ _ | OTensordot _ _ _ _ _ => true
  | _ => false
  end.
(* in-place methods after which the receiver owns fresh buffers only *)
Definition rebinds_fresh (o : op) : bool :=
  match o with OMapRebind _ _ _ _ | OProject _ _ _ _ => true | _ => false end.

(* a step of a harness history together with the pairs of REGISTERS observed to own common block memory after it *)
Definition hstep_sh : Type := (hstep * list (nat * nat))%type.

Fixpoint check_shares_from (h : heap) (regs : list nat) (steps : list hstep_sh) : bool :=
  match steps with
  | [] => true
  | ((k, ra, rb, _), sh) :: t =>
      let o := to_op h k (nth ra regs 0) (nth rb regs 0) in
      let '(h', res) := exec h o in
      let regs' := regs ++ [res] in
      forallb (fun p => shares_buffer h' (nth (fst p) regs' 0) (nth (snd p) regs' 0)) sh
      && check_shares_from h' regs' t
  end.
Definition check_shares (c : nat * list hstep_sh) : bool :=
  history_ok (fst c) 0 (map fst (snd c)) && check_shares_from (mkHeap [] [] (repeat dleg (fst c)) []) [] (snd c).
