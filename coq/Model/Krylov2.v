From TenpyV Require Import Base.Prelude Model.Truncate Model.Krylov.
(* Second model file of property C16 (definitions only; proofs in Proofs/KrylovP2.v).
   (1) accesses to the small matrix  h = KrylovBased._h_krylov  (np.zeros([N_max+1, N_max+1])) interleaved, in program
       order, with the events of Model/Krylov.v, for LanczosGroundState / LanczosEvolution:
         _build_krylov, iteration k:   ... matvec;  h[k,k] = alpha;  _calc_result_krylov(k) reads h[0,0] (k = 0) or the
             block h[:k+1,:k+1] (k >= 1);  orthogonalisation;  h[k,k+1] = h[k+1,k] = beta  (python assigns left to right);
             LanczosGroundState._converged(k), when it is called, reads h[k,k+1]
         run:  for N == 1 the arguments of logger.debug read h[0,0], h[0,1]
         _rebuild_krylov_for_result_full, iteration k:  _to_cache; matvec;  alpha = h[k,k];  orthogonalisation;
             beta = h[k,k+1];  iscale_prefactor;  iadd_prefactor_other(psif, ..)
       Float values are abstract: Alpha k / Beta k name the value computed in iteration k of the build loop, HZero
       the initial content.  Whether _converged is called in iteration k depends on floats (norm < cutoff) and on
       N_min; it is an input  cv : list bool  (cv[k] = true iff _converged(k) of LanczosGroundState was called;
       all false for LanczosEvolution, whose _converged does not read h), like the number N of iterations.
   (2) the E_shift control flow of KrylovBased.__init__ / LanczosGroundState.run over Z, and the quadratic form of a
       symmetric tridiagonal matrix. *)

(* ------------------------------------------------------------------ (1) accesses to h *)
Inductive hval := HZero | Alpha (k : nat) | Beta (k : nat).
Definition hwrite := (nat * nat * hval)%type.

Inductive hev :=
| HW (i j : nat) (v : hval)      (* h[i,j] = v *)
| HRB (n : nat)                  (* read of the block h[:n,:n] *)
| HR (i j : nat)                 (* read of h[i,j] *)
| HO (e : ev).                   (* an event of Model/Krylov.v *)

Definition conv_read (cv : list bool) (k : nat) : list hev :=
  if nth k cv false then [HR k (S k)] else [].
Definition krylov_read (k : nat) : hev := match k with O => HR 0 0 | S _ => HRB (S k) end.

(* LanczosGroundState._build_krylov with the accesses to h *)
Fixpoint build_loop_h (nc : nat) (reortho : bool) (cv : list bool) (k n : nat) (c : list nat) : list hev :=
  match n with
  | O => []
  | S n' =>
    let c' := to_cache nc c k in
    [HO (0, k, 0, 0); HO (1, k, length c', hd 0 c'); HO (2, k, 0, 0); HW k k (Alpha k); krylov_read k]%nat
      ++ map HO (ortho_events reortho c' k)
      ++ [HW k (S k) (Beta k); HW (S k) k (Beta k)] ++ conv_read cv k
      ++ build_loop_h nc reortho cv (S k) n' c'
  end.

(* LanczosGroundState._rebuild_krylov_for_result_full with the accesses to h *)
Fixpoint rebuild_loop_h (nc : nat) (reortho : bool) (k n : nat) (c : list nat) : list hev :=
  match n with
  | O => []
  | S n' =>
    let c' := to_cache nc c k in
    [HO (1, k, length c', hd 0 c'); HO (2, k, 0, 0); HR k k]%nat ++ map HO (ortho_events reortho c' k)
      ++ [HR k (S k); HO (0, S k, 0, 0); HO (4, S k, S k, 0)]%nat
      ++ rebuild_loop_h nc reortho (S k) n' c'
  end.

Definition result_hevents (nc : nat) (reortho : bool) (N : nat) : list hev :=
  let c := cache_after nc N in
  HO (6, 0, 0, 0)%nat :: map (fun t => HO (4, fst t, snd t, 0)%nat) (cached_terms N c)
  ++ rebuild_loop_h nc reortho 0 (N - length c - 1) [] ++ [HO (5, 0, 0, 0)%nat].

(* the whole run with N iterations *)
Definition lanczos_hevents (nc : nat) (reortho : bool) (N : nat) (cv : list bool) : list hev :=
  build_loop_h nc reortho cv 0 N []
  ++ (if (N =? 1)%nat then [HR 0 0; HR 0 1]%nat else result_hevents nc reortho N).

(* projections *)
Definition h_writes (l : list hev) : list hwrite :=
  flat_map (fun e => match e with HW i j v => [(i, j, v)] | _ => [] end) l.
Definition h_erase (l : list hev) : list ev :=
  flat_map (fun e => match e with HO e' => [e'] | _ => [] end) l.
Definition h_only (l : list hev) : list hev :=
  filter (fun e => match e with HO _ => false | _ => true end) l.

(* content of the array after the writes w (program order), last write wins, np.zeros initialisation *)
Fixpoint h_find (w : list hwrite) (i j : nat) : option hval :=
  match w with
  | [] => None
  | (i', j', v) :: t =>
    match h_find t i j with
    | Some u => Some u
    | None => if ((i' =? i) && (j' =? j))%nat then Some v else None
    end
  end.
Definition h_lookup (w : list hwrite) (i j : nat) : hval :=
  match h_find w i j with Some v => v | None => HZero end.

(* the symmetric tridiagonal matrix with diagonal Alpha i and off-diagonals Beta (min i j) *)
Definition tri_entry (i j : nat) : hval :=
  if (i =? j)%nat then Alpha i
  else if (j =? S i)%nat then Beta i
  else if (i =? S j)%nat then Beta j
  else HZero.

Definition iter_writes (k : nat) : list hwrite := [(k, k, Alpha k); (k, S k, Beta k); (S k, k, Beta k)].
Definition build_writes (N : nat) : list hwrite := flat_map iter_writes (seq 0 N).
Definition wpos (w : hwrite) : nat * nat := fst w.

(* all accesses to h in program order (closed form) *)
Definition build_h_iter (cv : list bool) (k : nat) : list hev :=
  [HW k k (Alpha k); krylov_read k; HW k (S k) (Beta k); HW (S k) k (Beta k)] ++ conv_read cv k.
Definition rebuild_h_iter (k : nat) : list hev := [HR k k; HR k (S k)].
Definition h_accesses (nc N : nat) (cv : list bool) : list hev :=
  flat_map (build_h_iter cv) (seq 0 N)
  ++ (if (N =? 1)%nat then [HR 0 0; HR 0 1]%nat
      else flat_map rebuild_h_iter (seq 0 (N - length (cache_after nc N) - 1))).

(* ---- correspondence checker: (N_cache, reortho, N, cv, interleaved events of the instrumented run)
   codes:  (7,i,j,0) h[i,j] = ..   (8,n,0,0) read of h[:n,:n]   (9,i,j,0) read of h[i,j];  others as in Model/Krylov.v *)
Definition hev_code (e : hev) : ev :=
  match e with
  | HW i j _ => (7, i, j, 0)%nat
  | HRB n => (8, n, 0, 0)%nat
  | HR i j => (9, i, j, 0)%nat
  | HO e' => e'
  end.
Definition check_hevents (x : nat * bool * nat * list bool * list ev) : bool :=
  match x with (nc, reortho, N, cv, evs) =>
    list_eqb ev_eqb evs (map hev_code (lanczos_hevents nc reortho N cv)) end.

(* the H.matvec events of Model/Krylov.v *)
Definition is_matvec (e : ev) : bool := match e with (t, _, _, _) => (t =? 2)%nat end.

(* the indices v of the Krylov vectors one iteration's orthogonalisation events (3,t,v,c) subtract from w_t *)
Definition ortho_targets (l : list ev) : list nat := map (fun e : ev => match e with (_, _, v, _) => v end) l.

(* ------------------------------------------------------------------ (2) E_shift *)
Open Scope Z_scope.
Definition es_shift (es : option Z) : Z := match es with Some s => s | None => 0 end.

(* operators as expressions: the object the caller passes, ShiftNpcLinearOperator(o, s),
   OrthogonalNpcLinearOperator(o, vecs) *)
Inductive opx := OBase | OShift (o : opx) (s : Z) | OOrtho (o : opx).

(* sum of all shifts inside an operator expression: the operator acts as  H + total_shift  (inside the projected
   subspace for OOrtho: P (H + s) P = P H P + s P) *)
Fixpoint total_shift (o : opx) : Z :=
  match o with OBase => 0 | OShift o' s => total_shift o' + s | OOrtho o' => total_shift o' end.

(* KrylovBased.__init__: (self.H, the caller's operator object after __init__).
     if self.E_shift is not None:
         if isinstance(self.H, OrthogonalNpcLinearOperator): self.H.orig_operator = Shift(self.H.orig_operator, E_shift)
         else: self.H = Shift(self.H, E_shift)
   The first branch assigns an attribute of the object that was passed in: the caller's object changes too. *)
Definition krylov_init (H : opx) (es : option Z) : opx * opx :=
  match es with
  | None => (H, H)
  | Some s =>
    match H with
    | OOrtho o => (OOrtho (OShift o s), OOrtho (OShift o s))
    | _ => (OShift H s, H)
    end
  end.

(* LanczosGroundState.run after N = _build_krylov():   E0 = Es[N-1,0];  if E_shift is not None: E0 -= E_shift;
   if N == 1: return E0, psi0.copy(), N;   return E0, _calc_result_full(N), N.
   Result: (returned energy, true iff _calc_result_full is called) *)
Definition run_return (es : option Z) (N : nat) (e_ritz : Z) : Z * bool :=
  let E0 := e_ritz in
  let E0 := match es with Some s => E0 - s | None => E0 end in
  if (N =? 1)%nat then (E0, false) else (E0, true).

(* a solver instance on operator object H: e = Ritz value Es[N-1,0] the iteration would produce for the operator
   without any shift; shift covariance (Proofs: shift_rayleigh) gives  e + total_shift  for the operator used *)
Definition solve_energy (H : opx) (es : option Z) (N : nat) (e : Z) : Z :=
  fst (run_return es N (e + total_shift (fst (krylov_init H es)))).

(* two solver instances built one after the other on the same operator object *)
Definition solve_twice (H : opx) (es : option Z) (N1 N2 : nat) (e : Z) : Z * Z :=
  let H' := snd (krylov_init H es) in
  (solve_energy H es N1 e, solve_energy H' es N2 e).

(* x^T T x  for the symmetric tridiagonal T = tridiag(al, be) (be[i] couples i and i+1) and the matrix-vector product *)
Fixpoint tri_mv (prev : Z) (al be x : list Z) : list Z :=
  match al, x with
  | a :: al', xi :: x' =>
    let b := hd 0 be in
    (prev + a * xi + b * hd 0 x') :: tri_mv (b * xi) al' (tl be) x'
  | _, _ => []
  end.
Fixpoint dotZ (x y : list Z) : Z :=
  match x, y with xi :: x', yi :: y' => xi * yi + dotZ x' y' | _, _ => 0 end.
Definition tri_form (al be x : list Z) : Z := dotZ x (tri_mv 0 al be x).

(* one step of the three-term recurrence for a diagonal operator d:  w = d v - a v - b u *)
Fixpoint lanczos_step (d v u : list Z) (a b : Z) : list Z :=
  match d, v, u with
  | di :: d', vi :: v', ui :: u' => (di * vi - a * vi - b * ui) :: lanczos_step d' v' u' a b
  | _, _, _ => []
  end.
