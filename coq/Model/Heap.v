(* C17 - python object graphs as finite heaps; saving and loading as memoised depth-first copies.

   A heap is a list of nodes, the id of a node is its index.  `visit` is the common skeleton of
     Hdf5Saver.save     (memo_save : id(obj) -> HDF5 group, a revisit creates a hard link),
     Hdf5Loader.load    (memo_load : HDF5 object id -> python object),
     pickle's Pickler/Unpickler memo and copy.deepcopy's memo:
   a node that is already in the memo is returned as it is (this is what preserves sharing);  an "early" node is
   allocated and entered into the memo BEFORE its children are visited (create_group_for_obj / memorize_load at the
   top of load_list, load_dict, Hdf5Exportable.from_hdf5: this is what makes cycles terminate);  a "late" node (tuples
   in the loader: a tuple can only be built when its elements exist) is allocated AFTER its children, with pickle's
   re-check of the memo (save_tuple: "if id(obj) in memo").  The HDF5 loader has no such re-check but memoises a
   temporary list at entry; the two agree unless a tuple is re-entered while it is being loaded (a cycle through a
   tuple that is first reached at the tuple) - the code documents that case as a BUG, harness/c17.py has a stream
   for it.  Fuel bounds the recursion depth. *)
From TenpyV Require Import Base.Prelude.

Inductive node :=
| Leaf (v : Z)                                (* int, float, str, None, numpy scalar, dtype, range ...: a value *)
| NList (cs : list nat)
| NTuple (cs : list nat)
| NSet (cs : list nat)                        (* elements in a canonical order *)
| NDict (kvs : list (nat * nat))              (* (key, value) in order; saved as all keys, then all values *)
| NObj (cls : Z) (attrs : list (Z * nat)).    (* instance: class code, (attribute name code, value) *)

Definition heap := list node.

Definition children (n : node) : list nat :=
  match n with
  | Leaf _ => []
  | NList cs => cs
  | NTuple cs => cs
  | NSet cs => cs
  | NDict kvs => map fst kvs ++ map snd kvs
  | NObj _ ats => map snd ats
  end.

Definition with_children (n : node) (cs : list nat) : node :=
  match n with
  | Leaf v => Leaf v
  | NList _ => NList cs
  | NTuple _ => NTuple cs
  | NSet _ => NSet cs
  | NDict kvs => NDict (combine (firstn (length kvs) cs) (skipn (length kvs) cs))
  | NObj c ats => NObj c (combine (map fst ats) cs)
  end.

Definition memo := list (nat * nat).

Fixpoint lookup (x : nat) (m : memo) : option nat :=
  match m with
  | [] => None
  | (k, v) :: t => if Nat.eqb k x then Some v else lookup x t
  end.

Record state := mkState { st_memo : memo; st_out : heap }.

Fixpoint set_nth (l : heap) (i : nat) (v : node) : heap :=
  match l, i with
  | [], _ => []
  | _ :: t, O => v :: t
  | a :: t, S k => a :: set_nth t k v
  end.

Fixpoint visit_list (f : nat -> state -> option (state * nat)) (cs : list nat) (st : state)
  : option (state * list nat) :=
  match cs with
  | [] => Some (st, [])
  | c :: t =>
    match f c st with
    | None => None
    | Some (st1, c') =>
      match visit_list f t st1 with
      | None => None
      | Some (st2, t') => Some (st2, c' :: t')
      end
    end
  end.

Section Copy.
  Variable late : node -> bool.
  Variable h : heap.

  Fixpoint visit (fuel : nat) (x : nat) (st : state) : option (state * nat) :=
    match lookup x (st_memo st) with
    | Some x' => Some (st, x')
    | None =>
      match fuel with
      | O => None
      | S f =>
        match nth_error h x with
        | None => None
        | Some nd =>
          if late nd then
            match visit_list (visit f) (children nd) st with
            | None => None
            | Some (st1, cs') =>
              match lookup x (st_memo st1) with
              | Some x' => Some (st1, x')
              | None =>
                let x' := length (st_out st1) in
                Some (mkState ((x, x') :: st_memo st1) (st_out st1 ++ [with_children nd cs']), x')
              end
            end
          else
            let x' := length (st_out st) in
            let st0 := mkState ((x, x') :: st_memo st) (st_out st ++ [nd]) in
            match visit_list (visit f) (children nd) st0 with
            | None => None
            | Some (st1, cs') =>
              Some (mkState (st_memo st1) (set_nth (st_out st1) x' (with_children nd cs')), x')
            end
        end
      end
    end.
End Copy.

Definition copy (late : node -> bool) (fuel : nat) (h : heap) (r : nat) : option (heap * nat) :=
  match visit late h fuel r (mkState [] []) with
  | Some (st, r') => Some (st_out st, r')
  | None => None
  end.

Definition never (_ : node) : bool := false.
Definition is_tuple (n : node) : bool := match n with NTuple _ => true | _ => false end.

(* Hdf5Saver.save / pickle.dump : everything is memoised on entry *)
Definition save (fuel : nat) (h : heap) (r : nat) := copy never fuel h r.
(* Hdf5Loader.load / pickle.load : tuples are completed before they are memoised *)
Definition load (fuel : nat) (h : heap) (r : nat) := copy is_tuple fuel h r.

Definition roundtrip (f1 f2 : nat) (h : heap) (r : nat) : option (heap * nat) :=
  match save f1 h r with
  | Some (h1, r1) => load f2 h1 r1
  | None => None
  end.

(* ---- specification vocabulary *)

Definition rel_ids (m : nat -> option nat) (cs cs' : list nat) : Prop :=
  Forall2 (fun c c' => m c = Some c') cs cs'.

(* same kind, same leaf value / class / attribute names, children related in order *)
Definition node_rel (m : nat -> option nat) (n n' : node) : Prop :=
  match n, n' with
  | Leaf v, Leaf v' => v = v'
  | NList cs, NList cs' => rel_ids m cs cs'
  | NTuple cs, NTuple cs' => rel_ids m cs cs'
  | NSet cs, NSet cs' => rel_ids m cs cs'
  | NDict kvs, NDict kvs' =>
      rel_ids m (map fst kvs) (map fst kvs') /\ rel_ids m (map snd kvs) (map snd kvs')
  | NObj c ats, NObj c' ats' =>
      c = c' /\ map fst ats = map fst ats' /\ rel_ids m (map snd ats) (map snd ats')
  | _, _ => False
  end.

(* m is an isomorphism from the part of h that is reachable from r (its domain contains r and is closed under
   children because node_rel relates every child) onto the whole of h' *)
Record iso (m : nat -> option nat) (h : heap) (r : nat) (h' : heap) (r' : nat) : Prop := mkIso {
  iso_root : m r = Some r';
  iso_node : forall x x', m x = Some x' ->
             exists n n', nth_error h x = Some n /\ nth_error h' x' = Some n' /\ node_rel m n n';
  iso_inj : forall x y v, m x = Some v -> m y = Some v -> x = y;
  iso_surj : forall i, i < length h' -> exists x, m x = Some i
}.

Definition closed (h : heap) : Prop :=
  forall x n, nth_error h x = Some n -> Forall (fun c => c < length h) (children n).

(* ---- executable comparison used by the correspondence stream of harness/c17.py *)

Fixpoint list_eqb {A} (e : A -> A -> bool) (a b : list A) : bool :=
  match a, b with
  | [], [] => true
  | x :: a', y :: b' => e x y && list_eqb e a' b'
  | _, _ => false
  end.

Definition pair_nat_eqb (p q : nat * nat) := Nat.eqb (fst p) (fst q) && Nat.eqb (snd p) (snd q).
Definition pair_zn_eqb (p q : Z * nat) := Z.eqb (fst p) (fst q) && Nat.eqb (snd p) (snd q).

Definition node_eqb (a b : node) : bool :=
  match a, b with
  | Leaf v, Leaf w => Z.eqb v w
  | NList x, NList y => list_eqb Nat.eqb x y
  | NTuple x, NTuple y => list_eqb Nat.eqb x y
  | NSet x, NSet y => list_eqb Nat.eqb x y
  | NDict x, NDict y => list_eqb pair_nat_eqb x y
  | NObj c x, NObj d y => Z.eqb c d && list_eqb pair_zn_eqb x y
  | _, _ => false
  end.

(* canonical form: depth-first preorder renumbering from the root *)
Definition canon (h : heap) (r : nat) : option (heap * nat) := save (S (length h)) h r.

(* a case is (original heap, root, canonical heap of what the implementation loaded, its root):
   the model's round trip, brought to canonical form, must be exactly what the implementation produced *)
Definition check_case (c : heap * nat * heap * nat) : bool :=
  match c with
  | (h, r, lh, lr) =>
    match roundtrip (S (length h)) (S (length h) * S (length h)) h r with
    | Some (h2, r2) =>
      match canon h2 r2 with
      | Some (h3, r3) => list_eqb node_eqb h3 lh && Nat.eqb r3 lr
      | None => false
      end
    | None => false
    end
  end.

(* ---- vocabulary of the totality statement for `load` (T17_load_total; not used by check_case).
   late_step x c: x is a late node (a tuple, for `load`) of h and c is one of its children;
   late_reach x y: y is reached from x by one or more such steps, i.e. along a reference path on which every node
   that is left is late.  late_reach x x is a reference cycle consisting only of late nodes (a tuple that contains
   itself through tuples only - python cannot build one; a cycle through a list, dict, set or instance is fine). *)
Definition late_step (late : node -> bool) (h : heap) (x c : nat) : Prop :=
  exists nd, nth_error h x = Some nd /\ late nd = true /\ In c (children nd).
Inductive late_reach (late : node -> bool) (h : heap) : nat -> nat -> Prop :=
| lr_step x c : late_step late h x c -> late_reach late h x c
| lr_trans x y c : late_reach late h x y -> late_step late h y c -> late_reach late h x c.
Definition no_late_cycle (late : node -> bool) (h : heap) : Prop := forall x, ~ late_reach late h x x.
(* the special case the harness generates: the children of late nodes are not late (tuples of containers / leaves) *)
Definition late_flat (late : node -> bool) (h : heap) : Prop :=
  forall x c nd', late_step late h x c -> nth_error h c = Some nd' -> late nd' = false.
