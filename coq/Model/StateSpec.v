(* C17 - what must hold of the tables regenerated from the source into Gen/G_states.v.
   The exception lists name the entries that are KNOWN, recorded defects of the tree (KNOWN_FINDINGS.json F17.1; F1 was
   excepted here until it was repaired in /repo, commit 2782092, and is now checked like every other entry);
   an entry in an exception list is allowed to fail, every other entry must pass.  After the defect is
   repaired in the source the regenerated entry passes and the theorem holds unchanged, so this file never needs an
   edit for a repair; harness/c17.py reports an excepted entry that still fails as the known finding. *)
From TenpyV Require Import Base.Prelude.
From Coq Require Import String.
Open Scope string_scope.

Fixpoint str_list_eqb (a b : list string) : bool :=
  match a, b with
  | [], [] => true
  | x :: a', y :: b' => String.eqb x y && str_list_eqb a' b'
  | _, _ => false
  end.

Definition mem_str (x : string) (l : list string) : bool := existsb (String.eqb x) l.
Definition subset_str (a b : list string) : bool := forallb (fun x => mem_str x b) a.

(* __getstate__ produces exactly what __setstate__ consumes, in the same order and nesting *)
Definition state_ok (e : string * list string * list string) : bool :=
  match e with (_, produced, consumed) => str_list_eqb produced consumed end.

(* from_hdf5 reads (unconditionally) only what save_hdf5 wrote for that format *)
Definition hdf5_ok (e : string * string * list string * list string) : bool :=
  match e with (_, _, written, read) => subset_str read written end.

Definition call_ok (e : string * string * nat * nat) : bool :=
  match e with (_, _, given, expected) => Nat.eqb given expected end.

Definition pair_mem (c f : string) (l : list (string * string)) : bool :=
  existsb (fun p => String.eqb (fst p) c && String.eqb (snd p) f) l.

(* (class, method): empty since F1 (DipolarChargeInfo.from_hdf5 passed two state arguments) was repaired *)
Definition known_arity_exceptions : list (string * string) := [].
(* (class, format): F17.1 - LegPipe.from_hdf5 reads 'sorted'/'bunched', which format 'flat' does not write *)
Definition known_subset_exceptions : list (string * string) := [("LegPipe", "flat")].

Definition hdf5_ok_or_known (e : string * string * list string * list string) : bool :=
  match e with (c, f, _, _) => hdf5_ok e || pair_mem c f known_subset_exceptions end.
Definition call_ok_or_known (e : string * string * nat * nat) : bool :=
  match e with (c, m, _, _) => call_ok e || pair_mem c m known_arity_exceptions end.

Definition tables_ok (st : list (string * list string * list string))
                     (hd : list (string * string * list string * list string))
                     (cl : list (string * string * nat * nat)) : bool :=
  forallb state_ok st && forallb hdf5_ok_or_known hd && forallb call_ok_or_known cl.

Definition has_class (c : string) (st : list (string * list string * list string)) : bool :=
  existsb (fun e => match e with (c', _, _) => String.eqb c c' end) st.
