(* Both ALGORITHMS of the tensor kernels that exist twice in tenpy: the pure-Python fallbacks of
   tenpy/linalg/charges.py (suffix _py) and the compiled versions of tenpy/linalg/_npc_helper.pyx
   (suffix _cy).  Definitions only; proofs in Proofs/KernelsPyCyP.v, statements in Props/C04.v.
   Tie to the code: correspondence (K), twice -- harness/c04.py evaluates `check_py` on the results of
   the pure-Python configuration and `check_cy` on the results of the compiled configuration, on the same
   generated arguments.

   Charges, block sizes and strides are mathematical integers.  The compiled code computes in C int64
   (QTYPE_t / intp_t): every arithmetic result of a _cy kernel goes through `wrap64`, so C wrap-around is
   part of the model and the theorems state explicitly the range in which it does not happen. *)
From TenpyV Require Import Base.Prelude.
Open Scope Z_scope.

Definition two63 : Z := 9223372036854775808.
Definition two64 : Z := 18446744073709551616.
Definition two62 : Z := 4611686018427387904.
(* two's complement interpretation of a C int64 result *)
Definition wrap64 (x : Z) : Z := (x + two63) mod two64 - two63.
Definition fits64 (x : Z) : bool := (- two63 <=? x) && (x <? two63).

(* ---------------------------------------------------------------------------------------------
   ChargeInfo.make_valid   (mods: 1 = U(1) charge, N > 1 = Z_N)
   py:  charges[..., mask] = np.mod(charges[..., mask], mod_masked)        numpy floor modulo
   cy:  q = charges[i, j] % qm   (cdivision: C truncated remainder);  if q < 0: q += qm            *)
Definition mv1_py (m q : Z) : Z := if m =? 1 then q else q mod m.
Definition mv1_cy (m q : Z) : Z :=
  if m =? 1 then q
  else let r := wrap64 (Z.rem q m) in if r <? 0 then wrap64 (r + m) else r.

(* one row of charges against the list of mods (zip: numpy broadcasting over the last axis) *)
Fixpoint row_map2 (f : Z -> Z -> Z) (mods row : list Z) : list Z :=
  match mods, row with
  | m :: ms, q :: qs => f m q :: row_map2 f ms qs
  | _, _ => []
  end.
Definition make_valid_py (mods : list Z) (rows : list (list Z)) : list (list Z) :=
  map (row_map2 mv1_py mods) rows.
(* the compiled loop runs over the columns j first and over the rows i inside; the result matrix is
   the same array written in place, entry (i, j) only depends on entry (i, j) *)
Definition make_valid_cy (mods : list Z) (rows : list (list Z)) : list (list Z) :=
  map (row_map2 mv1_cy mods) rows.

(* ---------------------------------------------------------------------------------------------
   ChargeInfo.check_valid
   py: np.all(np.logical_and(0 <= charges[..., mask], charges[..., mask] < mod_masked))  row-major, no exit
   cy: for j in range(qnumber): if mod[j] == 1: continue; for i in range(L): if x < 0 or x >= q: return False *)
Definition ok1 (m x : Z) : bool := (m =? 1) || ((0 <=? x) && (x <? m)).
Definition nthZ (l : list Z) (k : nat) : Z := nth k l 0.
Definition check_valid_py (mods : list Z) (rows : list (list Z)) : bool :=
  forallb (fun row => forallb (fun j => ok1 (nth j mods 1) (nthZ row j)) (seq 0 (length mods))) rows.
(* explicit loops with early exit: column loop outside, row loop inside *)
Fixpoint cv_rows (m : Z) (j : nat) (rows : list (list Z)) : bool :=
  match rows with
  | [] => true
  | row :: t => let x := nthZ row j in
                if (x <? 0) || (m <=? x) then false else cv_rows m j t
  end.
Fixpoint cv_cols (mods : list Z) (j : nat) (rows : list (list Z)) : bool :=
  match mods with
  | [] => true
  | m :: ms => if m =? 1 then cv_cols ms (S j) rows
               else if cv_rows m j rows then cv_cols ms (S j) rows else false
  end.
Definition check_valid_cy (mods : list Z) (rows : list (list Z)) : bool := cv_cols mods 0 rows.

(* ---------------------------------------------------------------------------------------------
   _find_row_differences(qflat)   qflat has shape (L, M) = (length rows, M)
   py:  if M == 0: [0, L]
        diff = np.ones(L + 1, bool); diff[1:-1] = np.any(qflat[1:] != qflat[:-1], axis=1); np.nonzero(diff)
   cy:  if M == 0: [0, L]
        if L == 0: [0]
        res[0] = 0; n = 1; for i in 1 .. L-1: (compare row i-1 and i entry by entry, break at the first
        difference) if different: res[n] = i; n += 1;   res[n] = L; return res[:n+1]                  *)
Fixpoint row_neq (r1 r2 : list Z) : bool :=          (* np.any(r1 != r2) on equal-length rows *)
  match r1, r2 with
  | x :: t1, y :: t2 => negb (x =? y) || row_neq t1 t2
  | _, _ => false
  end.
Fixpoint changes (prev : list Z) (rest : list (list Z)) : list bool :=
  match rest with [] => [] | r :: t => row_neq r prev :: changes r t end.
(* a[1:-1] = v on a boolean array a: only when a has at least two entries there is room *)
Definition assign_inner (a v : list bool) : list bool :=
  match a with
  | x :: (_ :: _) as t => x :: v ++ [last t true]
  | _ => a
  end.
Fixpoint nonzero_from (k : Z) (l : list bool) : list Z :=
  match l with
  | [] => []
  | b :: t => if b then k :: nonzero_from (k + 1) t else nonzero_from (k + 1) t
  end.
Definition frd_py (M : Z) (rows : list (list Z)) : list Z :=
  let L := Z.of_nat (length rows) in
  if M =? 0 then [0; L]
  else nonzero_from 0 (assign_inner (repeat true (S (length rows)))
                                    (match rows with [] => [] | r :: t => changes r t end)).
(* entry-by-entry comparison with break *)
Fixpoint rows_equal_cy (M : nat) (j : nat) (r1 r2 : list Z) : bool :=
  match M with
  | O => true
  | S M' => if nthZ r1 j =? nthZ r2 j then rows_equal_cy M' (S j) r1 r2 else false
  end.
Fixpoint frd_loop (M : nat) (i : Z) (prev : list Z) (rest : list (list Z)) : list Z :=
  match rest with
  | [] => []
  | r :: t => if rows_equal_cy M 0 prev r then frd_loop M (i + 1) r t
              else i :: frd_loop M (i + 1) r t
  end.
Definition frd_cy (M : Z) (rows : list (list Z)) : list Z :=
  let L := Z.of_nat (length rows) in
  if M =? 0 then [0; L]
  else match rows with
       | [] => [0]
       | r :: t => 0 :: frd_loop (Z.to_nat M) 1 r t ++ [L]
       end.

(* ---------------------------------------------------------------------------------------------
   _make_stride(shape, cstyle)            (shape non-empty; for shape = [] py raises IndexError and the
                                           compiled code writes out of bounds: excluded from the model)
   py:  python ints (unbounded); the store into the np.intp result raises OverflowError beyond int64
   cy:  intp_t stride; stride *= d wraps                                                            *)
Fixpoint c_loop_cy (ds : list Z) (stride : Z) (res : list Z) : list Z :=
  match ds with
  | [] => res
  | d :: t => let s := wrap64 (stride * d) in c_loop_cy t s (s :: res)
  end.
Fixpoint f_loop_cy (ds : list Z) (stride : Z) (res : list Z) : list Z :=
  match ds with
  | [] => res
  | d :: t => let s := wrap64 (stride * d) in f_loop_cy t s (res ++ [s])
  end.
Fixpoint c_loop_py (ds : list Z) (stride : Z) (res : list Z) : option (list Z) :=
  match ds with
  | [] => Some res
  | d :: t => let s := stride * d in if fits64 s then c_loop_py t s (s :: res) else None
  end.
Fixpoint f_loop_py (ds : list Z) (stride : Z) (res : list Z) : option (list Z) :=
  match ds with
  | [] => Some res
  | d :: t => let s := stride * d in if fits64 s then f_loop_py t s (res ++ [s]) else None
  end.
(* cstyle: for a in range(L-1, 0, -1): stride *= shape[a]; res[a-1] = stride   -> runs over rev (tl shape)
   else:   for a in range(0, L-1):     stride *= shape[a]; res[a+1] = stride   -> runs over removelast shape *)
Definition make_stride_cy (shape : list Z) (cstyle : bool) : option (list Z) :=
  Some (if cstyle then c_loop_cy (rev (tl shape)) 1 [1] else f_loop_cy (removelast shape) 1 [1]).
Definition make_stride_py (shape : list Z) (cstyle : bool) : option (list Z) :=
  if cstyle then c_loop_py (rev (tl shape)) 1 [1] else f_loop_py (removelast shape) 1 [1].

Fixpoint prodZ (l : list Z) : Z := match l with [] => 1 | x :: t => x * prodZ t end.

(* ---------------------------------------------------------------------------------------------
   _map_blocks(blocksizes)
   py: np.concatenate([np.ones(s, intp) * i for i, s in enumerate(blocksizes)])   ([] for no blocks)
   cy: result[j] = i for j in range(s, s + N); s += N                                                 *)
Fixpoint mb_py (i : Z) (bs : list Z) : list Z :=
  match bs with [] => [] | s :: t => map (fun one => one * i) (repeat 1 (Z.to_nat s)) ++ mb_py (i + 1) t end.
Definition map_blocks_py (bs : list Z) : list Z := mb_py 0 bs.
(* the compiled version fills a preallocated array of length sum(bs) from position s on *)
Fixpoint fill (res : list Z) (start : nat) (n : nat) (v : Z) : list Z :=
  match n with
  | O => res
  | S n' => fill (firstn start res ++ v :: skipn (S start) res) (S start) n' v
  end.
Fixpoint mb_cy (i : Z) (s : nat) (bs : list Z) (res : list Z) : list Z :=
  match bs with
  | [] => res
  | b :: t => mb_cy (i + 1) (s + Z.to_nat b)%nat t (fill res s (Z.to_nat b) i)
  end.
Definition map_blocks_cy (bs : list Z) : list Z :=
  mb_cy 0 0 bs (repeat 0 (Z.to_nat (sumZ bs))).

(* ---------------------------------------------------------------------------------------------
   what harness/c04.py evaluates: one constructor per kernel, input and the implementation's output *)
Inductive kernel_case :=
| KMakeValid (mods : list Z) (rows out : list (list Z))
| KCheckValid (mods : list Z) (rows : list (list Z)) (out : bool)
| KFindRowDiff (M : Z) (rows : list (list Z)) (out : list Z)
| KMapBlocks (bs out : list Z)
| KMakeStride (shape : list Z) (cstyle : bool) (out : list Z).

Definition lz_eqb (a b : list Z) : bool := if list_eq_dec Z.eq_dec a b then true else false.
Definition llz_eqb (a b : list (list Z)) : bool :=
  if list_eq_dec (list_eq_dec Z.eq_dec) a b then true else false.
Definition olz_eqb (a : option (list Z)) (b : list Z) : bool :=
  match a with Some x => lz_eqb x b | None => false end.

Definition check_py (c : kernel_case) : bool :=
  match c with
  | KMakeValid mods rows out => llz_eqb (make_valid_py mods rows) out
  | KCheckValid mods rows out => Bool.eqb (check_valid_py mods rows) out
  | KFindRowDiff M rows out => lz_eqb (frd_py M rows) out
  | KMapBlocks bs out => lz_eqb (map_blocks_py bs) out
  | KMakeStride shape cstyle out => olz_eqb (make_stride_py shape cstyle) out
  end.
Definition check_cy (c : kernel_case) : bool :=
  match c with
  | KMakeValid mods rows out => llz_eqb (make_valid_cy mods rows) out
  | KCheckValid mods rows out => Bool.eqb (check_valid_cy mods rows) out
  | KFindRowDiff M rows out => lz_eqb (frd_cy M rows) out
  | KMapBlocks bs out => lz_eqb (map_blocks_cy bs) out
  | KMakeStride shape cstyle out => olz_eqb (make_stride_cy shape cstyle) out
  end.
