(* C12 -- local Hilbert spaces: data model of the exported site tables (coq/Gen/G_sites.v, regenerated from
   tenpy/networks/site.py on every run by translator/export_c12_sites.py) and the DECIDABLE checks run on them.
   Definitions only; the theorems "every exported configuration passes" are in Proofs/SiteTabP.v.

   Exact representation of matrix entries (DEN = 4096 is the common power-of-two denominator):
     kind 0  "exact":  (r, c, a, b)    entry = (a + i b) / DEN            (all dyadic Gaussian rationals)
     kind 1  "sqrt" :  (r, c, ph, s)   entry = i^ph * sqrt (s / DEN)      (ladder operators: spin S>=1, bosons)
     kind 2  "clock":  (r, c, e1, e2)  entry = w^e1 (+ w^e2 if e2 >= 0),  w = exp(2 pi i / q)
   Only non-zero entries are listed, sorted by (r, c).  The rows/columns refer to the basis of the configuration at hand,
   i.e. AFTER the permutation c_perm induced by charge sorting. *)
From TenpyV Require Import Base.Prelude.
From Coq Require Import String.
Open Scope Z_scope.

Definition DEN : Z := 4096.

Definition entry := (Z * Z * Z * Z)%type.

Record op_tab := mkOp { o_name : string; o_kind : Z; o_qtotal : list Z; o_ent : list entry }.

Record site_cfg := mkCfg {
  c_class : string;               (* python class name *)
  c_key : string;                 (* class + parameters: equal for all `conserve` options of one physical site *)
  c_cons : string;                (* the conserve option (+ "/nosort"); "None" is the reference configuration *)
  c_dim : Z;
  c_twoS : Z;                     (* 2S for spin sites, else 0 *)
  c_q : Z;                        (* q of the clock site, else 0 *)
  c_fill : Z;                     (* filling * DEN, else 0 *)
  c_perm : list Z;                (* Site.perm *)
  c_labels : list (string * Z);   (* Site.state_labels *)
  c_mod : list Z;                 (* chinfo.mod *)
  c_charges : list (list Z);      (* leg.to_qflat(): one row per basis state *)
  c_jwexp : list Z;               (* Site.JW_exponent (0/1) *)
  c_needjw : list string;         (* Site.need_JW_string *)
  c_hc : list (string * string);  (* Site.hc_ops *)
  c_ops : list op_tab }.

(* ---------- generic helpers ---------- *)
Definition e_r (e : entry) : Z := fst (fst (fst e)).
Definition e_c (e : entry) : Z := snd (fst (fst e)).
Definition e_a (e : entry) : Z := snd (fst e).
Definition e_b (e : entry) : Z := snd e.

Definition nthZ (l : list Z) (i : Z) : Z := if i <? 0 then (-1) else nth (Z.to_nat i) l (-1).
Definition nthL (l : list (list Z)) (i : Z) : list Z := if i <? 0 then [] else nth (Z.to_nat i) l [].

Fixpoint find_op (ops : list op_tab) (n : string) : option op_tab :=
  match ops with
  | [] => None
  | o :: t => if String.eqb (o_name o) n then Some o else find_op t n
  end.

Fixpoint mem_str (n : string) (l : list string) : bool :=
  match l with [] => false | x :: t => String.eqb x n || mem_str n t end.

Fixpoint assoc_str (n : string) (l : list (string * Z)) : option Z :=
  match l with [] => None | (x, v) :: t => if String.eqb x n then Some v else assoc_str n t end.

Definition entry_eqb (x y : entry) : bool :=
  (e_r x =? e_r y) && (e_c x =? e_c y) && (e_a x =? e_a y) && (e_b x =? e_b y).

Fixpoint ents_eqb (l1 l2 : list entry) : bool :=
  match l1, l2 with
  | [], [] => true
  | x :: t1, y :: t2 => entry_eqb x y && ents_eqb t1 t2
  | _, _ => false
  end.

Definition ent_le (x y : entry) : bool :=
  (e_r x <? e_r y) || ((e_r x =? e_r y) && (e_c x <=? e_c y)).

Fixpoint ins_ent (x : entry) (l : list entry) : list entry :=
  match l with
  | [] => [x]
  | y :: t => if ent_le x y then x :: l else y :: ins_ent x t
  end.

Definition sort_ents (l : list entry) : list entry := fold_right ins_ent [] l.

Definition rangeZ (n : Z) : list Z := map Z.of_nat (seq 0 (Z.to_nat n)).

Fixpoint memZ (x : Z) (l : list Z) : bool :=
  match l with [] => false | y :: t => (x =? y) || memZ x t end.

Fixpoint nodupZ (l : list Z) : bool :=
  match l with [] => true | y :: t => negb (memZ y t) && nodupZ t end.

Definition is_perm_of_range (p : list Z) (n : Z) : bool :=
  (Z.of_nat (List.length p) =? n) && nodupZ p && forallb (fun x => (0 <=? x) && (x <? n)) p.

Definition in_range (c : site_cfg) (e : entry) : bool :=
  (0 <=? e_r e) && (e_r e <? c_dim c) && (0 <=? e_c e) && (e_c e <? c_dim c).

(* ---------- well-formedness of one configuration ---------- *)
Definition kind_ok (c : site_cfg) (o : op_tab) : bool :=
  forallb (in_range c) (o_ent o) &&
  ents_eqb (sort_ents (o_ent o)) (o_ent o) &&
  nodupZ (map (fun e => e_r e * c_dim c + e_c e) (o_ent o)) &&
  (Z.of_nat (List.length (o_qtotal o)) =? Z.of_nat (List.length (c_mod c))) &&
  match o_kind o with
  | 0 => forallb (fun e => negb ((e_a e =? 0) && (e_b e =? 0))) (o_ent o)
  | 1 => forallb (fun e => (0 <=? e_a e) && (e_a e <? 4) && (0 <? e_b e)) (o_ent o)
  | 2 => forallb (fun e => (0 <=? e_a e) && (e_a e <? c_q c) && (-1 <=? e_b e) && (e_b e <? c_q c) &&
                           ((e_b e =? -1) || (e_a e <=? e_b e))) (o_ent o)
  | _ => false
  end.

Definition check_wf (c : site_cfg) : bool :=
  (1 <? c_dim c) &&
  is_perm_of_range (c_perm c) (c_dim c) &&
  (Z.of_nat (List.length (c_charges c)) =? c_dim c) &&
  forallb (fun row => Z.of_nat (List.length row) =? Z.of_nat (List.length (c_mod c))) (c_charges c) &&
  (Z.of_nat (List.length (c_jwexp c)) =? c_dim c) &&
  forallb (fun x => (x =? 0) || (x =? 1)) (c_jwexp c) &&
  forallb (fun lv => (0 <=? snd lv) && (snd lv <? c_dim c)) (c_labels c) &&
  forallb (kind_ok c) (c_ops c) &&
  forallb (fun n => match find_op (c_ops c) n with Some _ => true | None => false end) (c_needjw c) &&
  match find_op (c_ops c) "Id" with
  | Some o => match o_kind o with
              | 0 => ents_eqb (o_ent o) (map (fun i => (i, i, DEN, 0)) (rangeZ (c_dim c)))
              | 2 => ents_eqb (o_ent o) (map (fun i => (i, i, 0, -1)) (rangeZ (c_dim c)))
              | _ => false
              end
  | None => false
  end.

(* ---------- T12_same_operator_up_to_perm ----------
   documented meaning of Site.perm:  OP_conserved = OP_nonconserved[np.ix_(perm, perm)]  and
   perm[state_labels_conserved[s]] == state_labels_nonconserved[s]. *)
Fixpoint find_ref (all : list site_cfg) (key : string) : option site_cfg :=
  match all with
  | [] => None
  | c :: t => if String.eqb (c_key c) key && String.eqb (c_cons c) "None" then Some c else find_ref t key
  end.

Definition map_perm (p : list Z) (e : entry) : entry := (nthZ p (e_r e), nthZ p (e_c e), e_a e, e_b e).

Definition op_matches_ref (c c0 : site_cfg) (o : op_tab) : bool :=
  match find_op (c_ops c0) (o_name o) with
  | Some o0 => (o_kind o =? o_kind o0) && ents_eqb (sort_ents (map (map_perm (c_perm c)) (o_ent o))) (o_ent o0)
  | None => false
  end.

Definition check_perm (all : list site_cfg) (c : site_cfg) : bool :=
  match find_ref all (c_key c) with
  | None => false
  | Some c0 =>
      (c_dim c =? c_dim c0) &&
      forallb (fun i => nthZ (c_perm c0) i =? i) (rangeZ (c_dim c0)) &&
      forallb (op_matches_ref c c0) (c_ops c) &&
      forallb (fun lv => match assoc_str (fst lv) (c_labels c0) with
                         | Some v0 => nthZ (c_perm c) (snd lv) =? v0
                         | None => false end) (c_labels c) &&
      (Z.of_nat (List.length (c_labels c)) =? Z.of_nat (List.length (c_labels c0))) &&
      forallb (fun i => nthZ (c_jwexp c) i =? nthZ (c_jwexp c0) (nthZ (c_perm c) i)) (rangeZ (c_dim c)) &&
      forallb (fun n => mem_str n (c_needjw c0)) (c_needjw c)
  end.

(* ---------- T12_hc_pairs ---------- *)
Definition conjT (kind q : Z) (e : entry) : entry :=
  match kind with
  | 0 => (e_c e, e_r e, e_a e, - e_b e)
  | 1 => (e_c e, e_r e, (4 - e_a e) mod 4, e_b e)
  | _ => let n1 := (- e_a e) mod q in
         if e_b e <? 0 then (e_c e, e_r e, n1, -1)
         else let n2 := (- e_b e) mod q in
              if n1 <=? n2 then (e_c e, e_r e, n1, n2) else (e_c e, e_r e, n2, n1)
  end.

Definition hc_pair_ok (c : site_cfg) (ab : string * string) : bool :=
  match find_op (c_ops c) (fst ab), find_op (c_ops c) (snd ab) with
  | Some oa, Some ob =>
      (o_kind oa =? o_kind ob) && ents_eqb (sort_ents (map (conjT (o_kind oa) (c_q c)) (o_ent oa))) (o_ent ob)
  | _, _ => false
  end.

Fixpoint mem_pair (a b : string) (l : list (string * string)) : bool :=
  match l with [] => false | (x, y) :: t => (String.eqb x a && String.eqb y b) || mem_pair a b t end.

Definition check_hc (c : site_cfg) : bool :=
  forallb (hc_pair_ok c) (c_hc c) &&
  forallb (fun ab => mem_pair (snd ab) (fst ab) (c_hc c)) (c_hc c) &&
  (* every operator of the site has a declared partner *)
  forallb (fun o => existsb (fun ab => String.eqb (fst ab) (o_name o)) (c_hc c)) (c_ops c).

(* ---------- T12_charges_consistent ---------- *)
Definition charge_ok (m x : Z) : bool := if m =? 1 then x =? 0 else (x mod m =? 0).

Fixpoint charges_ok3 (ms qr qc qt : list Z) : bool :=
  match ms, qr, qc, qt with
  | [], [], [], [] => true
  | m :: ms', a :: qr', b :: qc', t :: qt' => charge_ok m (a - b - t) && charges_ok3 ms' qr' qc' qt'
  | _, _, _, _ => false
  end.

Definition entry_charge_ok (c : site_cfg) (o : op_tab) (e : entry) : bool :=
  charges_ok3 (c_mod c) (nthL (c_charges c) (e_r e)) (nthL (c_charges c) (e_c e)) (o_qtotal o).

Definition check_charges (c : site_cfg) : bool :=
  forallb (fun o => forallb (entry_charge_ok c o) (o_ent o)) (c_ops c).

(* ---------- T12_JW_flags ---------- *)
Definition is_diag (o : op_tab) : bool := forallb (fun e => e_r e =? e_c e) (o_ent o).

(* entry is +1 or -1 *)
Definition unit_sign (kind q : Z) (e : entry) : option Z :=
  match kind with
  | 0 => if (e_b e =? 0) && (e_a e =? DEN) then Some 0 else if (e_b e =? 0) && (e_a e =? - DEN) then Some 1 else None
  | 1 => if (e_b e =? DEN) && (e_a e =? 0) then Some 0 else if (e_b e =? DEN) && (e_a e =? 2) then Some 1 else None
  | _ => if (e_b e =? -1) && (e_a e =? 0) then Some 0
         else if (e_b e =? -1) && (2 * e_a e =? q) then Some 1 else None
  end.

Definition jw_op_ok (c : site_cfg) : bool :=
  match find_op (c_ops c) "JW" with
  | None => false
  | Some o =>
      is_diag o && (Z.of_nat (List.length (o_ent o)) =? c_dim c) &&
      forallb (fun e => match unit_sign (o_kind o) (c_q c) e with
                        | Some s => s =? nthZ (c_jwexp c) (e_r e)
                        | None => false end) (o_ent o)
  end.

Definition op_jw_ok (c : site_cfg) (o : op_tab) : bool :=
  if mem_str (o_name o) (c_needjw c) then
    (* a sign operator (diagonal, entries +-1: JW, JWu, JWd) or an operator anticommuting with JW *)
    (is_diag o && forallb (fun e => match unit_sign (o_kind o) (c_q c) e with Some _ => true | None => false end) (o_ent o))
    || forallb (fun e => negb (nthZ (c_jwexp c) (e_r e) =? nthZ (c_jwexp c) (e_c e))) (o_ent o)
  else
    forallb (fun e => nthZ (c_jwexp c) (e_r e) =? nthZ (c_jwexp c) (e_c e)) (o_ent o).

Definition check_jw (c : site_cfg) : bool :=
  jw_op_ok c && mem_str "JW" (c_needjw c) && forallb (op_jw_ok c) (c_ops c).

(* ---------- T12_algebra ---------- *)
(* dense view of exact (kind 0) tables; values are numerators over DEN *)
Definition cplx := (Z * Z)%type.
Definition cadd (x y : cplx) : cplx := (fst x + fst y, snd x + snd y).
Definition csub (x y : cplx) : cplx := (fst x - fst y, snd x - snd y).
Definition cmul (x y : cplx) : cplx := (fst x * fst y - snd x * snd y, fst x * snd y + snd x * fst y).
Definition cscale (k : Z) (x : cplx) : cplx := (k * fst x, k * snd x).
Definition ceqb (x y : cplx) : bool := (fst x =? fst y) && (snd x =? snd y).

Definition mat := Z -> Z -> cplx.

Fixpoint ent_get (l : list entry) (r c : Z) : cplx :=
  match l with
  | [] => (0, 0)
  | e :: t => if (e_r e =? r) && (e_c e =? c) then (e_a e, e_b e) else ent_get t r c
  end.

Definition mat_of (o : op_tab) : mat := ent_get (o_ent o).

Definition csum (l : list cplx) : cplx := fold_right cadd (0, 0) l.

Definition mmul (d : Z) (A B : mat) : mat := fun r c => csum (map (fun k => cmul (A r k) (B k c)) (rangeZ d)).
Definition madd (A B : mat) : mat := fun r c => cadd (A r c) (B r c).
Definition msub (A B : mat) : mat := fun r c => csub (A r c) (B r c).
Definition mscale (k : Z) (A : mat) : mat := fun r c => cscale k (A r c).
Definition mcscale (k : cplx) (A : mat) : mat := fun r c => cmul k (A r c).
Definition mid : mat := fun r c => if r =? c then (DEN, 0) else (0, 0).
Definition mzero : mat := fun _ _ => (0, 0).
Definition meqb (d : Z) (A B : mat) : bool :=
  forallb (fun r => forallb (fun c => ceqb (A r c) (B r c)) (rangeZ d)) (rangeZ d).

(* the exact operator `n` of the configuration, or None when absent / not of kind 0 *)
Definition xop (c : site_cfg) (n : string) : option mat :=
  match find_op (c_ops c) n with
  | Some o => if o_kind o =? 0 then Some (mat_of o) else None
  | None => None
  end.

Definition has_op (c : site_cfg) (n : string) : bool :=
  match find_op (c_ops c) n with Some _ => true | None => false end.

(* relation helpers on exact operators; products carry the denominator DEN^2, so the right-hand sides are scaled *)
Definition rel2 (c : site_cfg) (a b : string) (f : mat -> mat -> bool) : bool :=
  match xop c a, xop c b with Some A, Some B => f A B | _, _ => false end.
Definition rel3 (c : site_cfg) (a b r : string) (f : mat -> mat -> mat -> bool) : bool :=
  match xop c a, xop c b, xop c r with Some A, Some B, Some R => f A B R | _, _, _ => false end.

Definition anticomm_is (c : site_cfg) (a b : string) (R : mat) : bool :=   (* {a, b} = R *)
  rel2 c a b (fun A B => meqb (c_dim c) (madd (mmul (c_dim c) A B) (mmul (c_dim c) B A)) (mscale DEN R)).
Definition prod_is (c : site_cfg) (a b r : string) : bool :=               (* a b = r *)
  rel3 c a b r (fun A B R => meqb (c_dim c) (mmul (c_dim c) A B) (mscale DEN R)).
Definition comm_is (c : site_cfg) (a b : string) (k : cplx) (r : string) : bool :=   (* [a, b] = k r,  k Gaussian integer *)
  rel3 c a b r (fun A B R => meqb (c_dim c) (msub (mmul (c_dim c) A B) (mmul (c_dim c) B A)) (mcscale k (mscale DEN R))).
Definition lin_is (c : site_cfg) (r : string) (R : mat) : bool :=           (* r = R *)
  match xop c r with Some A => meqb (c_dim c) A R | None => false end.
Definition get (c : site_cfg) (n : string) : mat := match xop c n with Some A => A | None => mzero end.

(* --- ladder ("sqrt form") view: (r, c, ph, s) with entry = i^ph sqrt(s/DEN) --- *)
Definition to_sqrt_entry (e : entry) : option entry :=
  if (e_b e =? 0) then
    (if (e_a e * e_a e) mod DEN =? 0 then Some (e_r e, e_c e, (if 0 <? e_a e then 0 else 2), e_a e * e_a e / DEN) else None)
  else if (e_a e =? 0) then
    (if (e_b e * e_b e) mod DEN =? 0 then Some (e_r e, e_c e, (if 0 <? e_b e then 1 else 3), e_b e * e_b e / DEN) else None)
  else None.

Fixpoint to_sqrt_list (l : list entry) : option (list entry) :=
  match l with
  | [] => Some []
  | e :: t => match to_sqrt_entry e, to_sqrt_list t with Some x, Some r => Some (x :: r) | _, _ => None end
  end.

Definition sqrt_form (c : site_cfg) (n : string) : option (list entry) :=
  match find_op (c_ops c) n with
  | Some o => if o_kind o =? 0 then to_sqrt_list (o_ent o) else if o_kind o =? 1 then Some (o_ent o) else None
  | None => None
  end.

(* diagonal of an exact diagonal operator (numerators over DEN) *)
Definition diag_of (c : site_cfg) (n : string) : option (Z -> Z) :=
  match find_op (c_ops c) n with
  | Some o => if (o_kind o =? 0) && is_diag o && forallb (fun e => e_b e =? 0) (o_ent o)
              then Some (fun i => fst (ent_get (o_ent o) i i)) else None
  | None => None
  end.

(* a real non-negative ladder: one entry per row and per column, phase 0 *)
Definition ladder_shape (l : list entry) : bool :=
  forallb (fun e => e_a e =? 0) l && nodupZ (map e_r l) && nodupZ (map e_c l).

Definition rowsq (l : list entry) (i : Z) : Z := sumZ (map (fun e => if e_r e =? i then e_b e else 0) l).
Definition colsq (l : list entry) (i : Z) : Z := sumZ (map (fun e => if e_c e =? i then e_b e else 0) l).
Definition transp (l : list entry) : list entry := sort_ents (map (fun e => (e_c e, e_r e, e_a e, e_b e)) l).

(* spin algebra from the certificate:  L real ladder with  L L^T = diag(rowsq), L^T L = diag(colsq)  (one entry per
   row/column), hence  [Sz,S+] = S+  <=>  Sz_r - Sz_c = 1 on the support of S+,   S- = (S+)^T,
   [S+,S-] = 2 Sz  <=>  rowsq - colsq = 2 Sz,   S.S = Sz^2 + (S+S- + S-S+)/2 = S(S+1). *)
Definition spin_ok (c : site_cfg) (casimir : bool) : bool :=
  match sqrt_form c "Sp", sqrt_form c "Sm", diag_of c "Sz" with
  | Some sp, Some sm, Some sz =>
      ladder_shape sp &&
      ents_eqb (transp sp) sm &&
      forallb (fun e => sz (e_r e) - sz (e_c e) =? DEN) sp &&
      forallb (fun e => sz (e_r e) - sz (e_c e) =? - DEN) sm &&
      forallb (fun i => rowsq sp i - colsq sp i =? 2 * sz i) (rangeZ (c_dim c)) &&
      (negb casimir ||
       forallb (fun i => 4 * sz i * sz i + 2 * DEN * (rowsq sp i + colsq sp i) =? c_twoS c * (c_twoS c + 2) * DEN * DEN)
               (rangeZ (c_dim c))) &&
      (* Sx = (S+ + S-)/2 ,  Sy = (S+ - S-)/(2i) *)
      (if has_op c "Sx" then
         match sqrt_form c "Sx", sqrt_form c "Sy" with
         | Some sx, Some sy =>
             forallb (fun e => e_b e mod 4 =? 0) sp &&
             ents_eqb sx (sort_ents (flat_map (fun e => [(e_r e, e_c e, 0, e_b e / 4); (e_c e, e_r e, 0, e_b e / 4)]) sp)) &&
             ents_eqb sy (sort_ents (flat_map (fun e => [(e_r e, e_c e, 3, e_b e / 4); (e_c e, e_r e, 1, e_b e / 4)]) sp))
         | _, _ => false
         end
       else negb (has_op c "Sy"))
  | _, _, _ => false
  end.

Definition diag_rel (c : site_cfg) (n : string) (f : Z -> Z) : bool :=   (* diagonal operator n has entries f(i)/DEN *)
  match diag_of c n with
  | Some d => forallb (fun i => d i =? f i) (rangeZ (c_dim c))
  | None => false
  end.

Definition boson_ok (c : site_cfg) : bool :=
  match sqrt_form c "B", sqrt_form c "Bd", diag_of c "N" with
  | Some b, Some bd, Some nn =>
      let nmax := c_dim c - 1 in
      ladder_shape b && ents_eqb (transp b) bd &&
      forallb (fun e => nn (e_r e) - nn (e_c e) =? - DEN) b &&                (* [N, b] = -b *)
      forallb (fun i => colsq b i =? nn i) (rangeZ (c_dim c)) &&               (* N = b^dag b *)
      forallb (fun i => if nn i <? nmax * DEN then rowsq b i - colsq b i =? DEN  (* [b, b^dag] = 1 below the cutoff *)
                        else rowsq b i - colsq b i =? - nmax * DEN) (rangeZ (c_dim c)) &&
      nodupZ (map nn (rangeZ (c_dim c))) &&
      forallb (fun i => (nn i mod DEN =? 0) && (0 <=? nn i) && (nn i <=? nmax * DEN)) (rangeZ (c_dim c)) &&
      diag_rel c "NN" (fun i => nn i * nn i / DEN) &&
      diag_rel c "dN" (fun i => nn i - c_fill c) &&
      diag_rel c "dNdN" (fun i => (nn i - c_fill c) * (nn i - c_fill c) / DEN) &&
      forallb (fun i => ((nn i - c_fill c) * (nn i - c_fill c)) mod DEN =? 0) (rangeZ (c_dim c)) &&
      diag_rel c "P" (fun i => DEN - 2 * ((nn i / DEN) mod 2) * DEN)
  | _, _, _ => false
  end.

Definition fermion_ok (c : site_cfg) : bool :=
  let d := c_dim c in
  anticomm_is c "C" "Cd" mid && anticomm_is c "C" "C" mzero && anticomm_is c "Cd" "Cd" mzero &&
  prod_is c "Cd" "C" "N" &&
  lin_is c "JW" (msub mid (mscale 2 (get c "N"))) &&
  lin_is c "dN" (msub (get c "N") (mscale (c_fill c) (fun r k => if r =? k then (1, 0) else (0, 0)))) &&
  prod_is c "dN" "dN" "dNdN".

Definition spinful_common (c : site_cfg) : bool :=
  anticomm_is c "Cu" "Cu" mzero && anticomm_is c "Cd" "Cd" mzero &&
  anticomm_is c "Cdu" "Cdu" mzero && anticomm_is c "Cdd" "Cdd" mzero &&
  anticomm_is c "Cu" "Cd" mzero && anticomm_is c "Cdu" "Cdd" mzero &&
  prod_is c "Cdu" "Cu" "Nu" && prod_is c "Cdd" "Cd" "Nd" &&
  lin_is c "Ntot" (madd (get c "Nu") (get c "Nd")) &&
  lin_is c "dN" (msub (get c "Ntot") (mscale (c_fill c) (fun r k => if r =? k then (1, 0) else (0, 0)))) &&
  lin_is c "JWu" (msub mid (mscale 2 (get c "Nu"))) &&
  lin_is c "JWd" (msub mid (mscale 2 (get c "Nd"))) &&
  prod_is c "JWu" "JWd" "JW" &&
  prod_is c "Cdu" "Cd" "Sp" && prod_is c "Cdd" "Cu" "Sm" &&
  meqb (c_dim c) (mscale 2 (get c "Sz")) (msub (get c "Nu") (get c "Nd")) &&
  comm_is c "Sz" "Sp" (1, 0) "Sp" && comm_is c "Sz" "Sm" (-1, 0) "Sm" && comm_is c "Sp" "Sm" (2, 0) "Sz" &&
  (if has_op c "Sx" then
     comm_is c "Sx" "Sy" (0, 1) "Sz" && comm_is c "Sy" "Sz" (0, 1) "Sx" && comm_is c "Sz" "Sx" (0, 1) "Sy" &&
     meqb (c_dim c) (mscale 2 (get c "Sx")) (madd (get c "Sp") (get c "Sm")) &&
     meqb (c_dim c) (mcscale (0, 2) (get c "Sy")) (msub (get c "Sp") (get c "Sm"))
   else negb (has_op c "Sy")).

Definition spinful_fermion_ok (c : site_cfg) : bool :=
  spinful_common c &&
  anticomm_is c "Cu" "Cdu" mid && anticomm_is c "Cd" "Cdd" mid &&
  anticomm_is c "Cu" "Cdd" mzero && anticomm_is c "Cdu" "Cd" mzero &&
  prod_is c "Nu" "Nd" "NuNd".

(* no double occupancy: the operators are the projected ones, {c_s, c_s^dag} = 1 - n_{-s} *)
Definition hole_ok (c : site_cfg) : bool :=
  spinful_common c &&
  anticomm_is c "Cu" "Cdu" (msub mid (get c "Nd")) && anticomm_is c "Cd" "Cdd" (msub mid (get c "Nu")) &&
  (c_dim c =? 3).

Definition spin_half_extra (c : site_cfg) : bool :=
  (* Pauli matrices of SpinHalfSite and the full-matrix form of the spin algebra (all entries exact) *)
  meqb (c_dim c) (get c "Sigmaz") (mscale 2 (get c "Sz")) && has_op c "Sigmaz" &&
  comm_is c "Sz" "Sp" (1, 0) "Sp" && comm_is c "Sz" "Sm" (-1, 0) "Sm" && comm_is c "Sp" "Sm" (2, 0) "Sz" &&
  (if has_op c "Sx" then
     meqb (c_dim c) (get c "Sigmax") (mscale 2 (get c "Sx")) && meqb (c_dim c) (get c "Sigmay") (mscale 2 (get c "Sy")) &&
     has_op c "Sigmax" && has_op c "Sigmay" &&
     comm_is c "Sx" "Sy" (0, 1) "Sz" && comm_is c "Sy" "Sz" (0, 1) "Sx" && comm_is c "Sz" "Sx" (0, 1) "Sy"
   else negb (has_op c "Sigmax") && negb (has_op c "Sigmay")).

(* clock site: Z diagonal with exponents z(i), X a permutation matrix *)
Definition clock_ok (c : site_cfg) : bool :=
  let q := c_q c in
  match find_op (c_ops c) "X", find_op (c_ops c) "Z" with
  | Some x, Some z =>
      (o_kind x =? 2) && (o_kind z =? 2) && (c_dim c =? q) &&
      is_diag z && (Z.of_nat (List.length (o_ent z)) =? q) && forallb (fun e => e_b e =? -1) (o_ent z) &&
      nodupZ (map e_a (o_ent z)) &&                                     (* q distinct eigenvalues w^0 .. w^(q-1) *)
      forallb (fun e => (e_a e =? 0) && (e_b e =? -1)) (o_ent x) &&    (* X has entries 1 ... *)
      (Z.of_nat (List.length (o_ent x)) =? q) && nodupZ (map e_r (o_ent x)) && nodupZ (map e_c (o_ent x)) &&  (* ... a permutation *)
      (* X Z = w Z X   <=>   z(col) = z(row) + 1  on the support of X   (hence also X^q = 1: X is a q-cycle) *)
      (let zz := fun i => fst (ent_get (o_ent z) i i) in
       forallb (fun e => (zz (e_c e) - zz (e_r e) - 1) mod q =? 0) (o_ent x)) &&
      (* Xphc = X + Xhc, Zphc = Z + Zhc when present (a pair {e, e + q/2} sums to zero) *)
      (if has_op c "Zphc" then
         match find_op (c_ops c) "Zphc", find_op (c_ops c) "Xphc", find_op (c_ops c) "Xhc" with
         | Some zp, Some xp, Some xh =>
             (o_kind zp =? 2) && (o_kind xp =? 2) && (o_kind xh =? 2) &&
             ents_eqb (o_ent zp)
               (flat_map (fun e => let a := e_a e in let b := (- e_a e) mod q in
                                   if (Z.abs (a - b) * 2 =? q) then []
                                   else [(e_r e, e_c e, Z.min a b, Z.max a b)]) (o_ent z)) &&
             ents_eqb (o_ent xp)
               (if q =? 2 then map (fun e => (e_r e, e_c e, 0, 0)) (o_ent x)
                else sort_ents (o_ent x ++ o_ent xh))
         | _, _, _ => false
         end
       else negb (has_op c "Xphc"))
  | _, _ => false
  end.

Definition check_algebra (c : site_cfg) : bool :=
  if String.eqb (c_class c) "SpinHalfSite" then spin_ok c true && spin_half_extra c
  else if String.eqb (c_class c) "SpinSite" then spin_ok c true
  else if String.eqb (c_class c) "FermionSite" then fermion_ok c
  else if String.eqb (c_class c) "SpinHalfFermionSite" then spinful_fermion_ok c && spin_ok c false
  else if String.eqb (c_class c) "SpinHalfHoleSite" then hole_ok c && spin_ok c false
  else if String.eqb (c_class c) "BosonSite" then boson_ok c
  else if String.eqb (c_class c) "ClockSite" then clock_ok c
  else false.

(* coverage of the table: how many configurations of a class are present *)
Definition count_class (all : list site_cfg) (n : string) : Z :=
  Z.of_nat (List.length (filter (fun c => String.eqb (c_class c) n) all)).
