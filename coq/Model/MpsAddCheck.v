(* Correspondence checker for Model/MpsAdd.v (C09, stream `add-blocks` of harness/c09.py).
   A case records one call  psi.add(other, alpha, beta)  on MPS with integer tensors and trivial charges, with
   canonical_form_finite replaced by a no-op, so that the tensors handed to the constructor of the sum (the
   npc.grid_concat results) are observed as they are:
     alpha, normA (= psi.norm), beta, normB (= other.norm),
     TA, TB : per site (rows, columns, [p][row][column]) of the tensors the documentation of add names,
              site 0: get_B(0, 'Th'), sites 1 .. L-1: get_B(i, 'B')   (read through the public get_B BEFORE the call),
     TC     : the same for the tensors of the returned MPS.
   The checker recomputes TC with `tadd (alpha * normA) (beta * normB)` of Model/MpsAdd.v (the function the theorems
   T09_add_linear / T09_add_linear_tensors are about) and compares dimensions and every entry.  Definitions only. *)
From TenpyV Require Import Base.Prelude Model.MpsAdd.
Open Scope Z_scope.

Definition ltens := (nat * nat * list (list (list Z)))%type.    (* rows, columns, [p][row][column] *)

Definition lmat (l : list (list Z)) : mat := fun i j => nth j (nth i l []) 0.
Definition tchain_of (T : list ltens) : tchain :=
  map (fun x : ltens => let '(_, c, t) := x in (c, fun p => lmat (nth p t []))) T.

Definition rows_of (x : ltens) : nat := fst (fst x).
Definition cols_of (x : ltens) : nat := snd (fst x).
Definition pdim_of (x : ltens) : nat := length (snd x).

(* the list literal has exactly the announced shape *)
Definition well_shaped (x : ltens) : bool :=
  let '(r, c, t) := x in
  forallb (fun m => (length m =? r)%nat && forallb (fun row => (length row =? c)%nat) m) t.

(* entries of the model matrix m (r x c) against a list literal *)
Definition eq_mat (r c : nat) (m : mat) (l : list (list Z)) : bool :=
  forallb (fun i => forallb (fun j => m i j =? lmat l i j) (seq 0 c)) (seq 0 r).

(* rows = expected number of rows of the current site of the sum (the columns of its predecessor) *)
Fixpoint eq_tchain (rows : nat) (R : tchain) (obs : list ltens) : bool :=
  match R, obs with
  | [], [] => true
  | (c, t) :: R', (r', c', t') :: obs' =>
      (r' =? rows)%nat && (c' =? c)%nat && well_shaped (r', c', t') &&
      forallb (fun p => eq_mat rows c (t p) (nth p t' [])) (seq 0 (length t')) &&
      eq_tchain c R' obs'
  | _, _ => false
  end.

(* inputs are consistent: same physical dimensions, chains link, shared outer bonds *)
Fixpoint linked_dims (rows : nat) (T : list ltens) : bool :=
  match T with
  | [] => true
  | x :: T' => (rows_of x =? rows)%nat && well_shaped x && linked_dims (cols_of x) T'
  end.

Definition check_add_case (c : Z * Z * Z * Z * list ltens * list ltens * list ltens) : bool :=
  let '(alpha, normA, beta, normB, TA, TB, TC) := c in
  match TA, TB with
  | a :: _, b :: _ =>
      (rows_of a =? rows_of b)%nat &&
      linked_dims (rows_of a) TA && linked_dims (rows_of b) TB &&
      (length TA =? length TB)%nat && (2 <=? length TA)%nat &&
      forallb (fun ab => (pdim_of (fst ab) =? pdim_of (snd ab))%nat) (combine TA TB) &&
      forallb (fun ac => (pdim_of (fst ac) =? pdim_of (snd ac))%nat) (combine TA TC) &&
      (length TC =? length TA)%nat &&
      eq_tchain (rows_of a) (tadd (alpha * normA) (beta * normB) (tchain_of TA) (tchain_of TB)) TC
  | _, _ => false
  end.

(* a worked case: bond dimensions 1-2-1 and 1-1-1, d = 2, alpha*norm = 2, beta*norm = -3 *)
Definition ex_add_case : Z * Z * Z * Z * list ltens * list ltens * list ltens :=
  (1, 2, -3, 1,
   [(1%nat, 2%nat, [[[1; 2]]; [[0; 1]]]); (2%nat, 1%nat, [[[3]; [4]]; [[5]; [6]]])],
   [(1%nat, 1%nat, [[[7]]; [[8]]]); (1%nat, 1%nat, [[[9]]; [[10]]])],
   [(1%nat, 3%nat, [[[2; 4; -21]]; [[0; 2; -24]]]); (3%nat, 1%nat, [[[3]; [4]; [9]]; [[5]; [6]; [10]]])]).
