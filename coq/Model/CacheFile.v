(* File-backed storages of tenpy/tools/cache.py (PickleStorage: one file per key in a directory, sub-containers =
   sub-directories; Hdf5Storage as documented: one dataset per key in a group, sub-containers = sub-groups) as a
   finite map per container plus a closed flag (property C20).  Definitions only; proofs in Proofs/CacheFileP.v.
   Tie to the code: correspondence (K), stream "file-storage" of harness/c20_sched.py against PickleStorage through
   `check_fs` of Model/CacheFileCheck.v.

   A file system state is the list of all containers created so far (creation order), each with its path (the names
   of the sub-containers leading to it; the container opened with <Class>.open() has path []), its files
   (key -> value, kept sorted) and Storage._opened.
     load/save/delete/preload   `if not self._opened: raise ValueError('Trying to access closed storage')`;
                                load of a key without file: FileNotFoundError (pickle) - FMissing;
                                delete of a key without file: nothing (`if fn.exists(): fn.unlink()`)
     subcontainer(name)         ValueError when closed or when the name exists; otherwise a new open, empty container
     close()                    Storage._common_close: ValueError('storage was already closed') when closed, else
                                _opened = False and close() of every sub-container (recursively: every container
                                below it, i.e. every path that extends its path); the owner of the resources (path [])
                                removes the directory, so all files are gone
   Not modelled: close() of a container one of whose descendants was closed separately before (in the code the
   ValueError of the descendant then surfaces from the parent's close(); DictCache sub-caches have no close(), so the
   cache layer cannot get there), the in-memory Storage (its subcontainer() ignores the name),
   Hdf5Storage's deviations found by the oracle streams (save of an existing key raises, subcontainer() does not
   register the sub-group with its parent: KNOWN_FINDINGS F20a / F20b). *)
From TenpyV Require Import Base.Prelude Model.Cache.
Open Scope Z_scope.

Record fcont := mkFC {
  fc_path : list Z;             (* names of the sub-containers from the top container down to this one *)
  fc_files : list (Z * Z);      (* key -> value *)
  fc_opened : bool              (* Storage._opened *)
}.
Definition fsys := list fcont.
Definition fs_init : fsys := [mkFC [] [] true].

(* p is a prefix of q: the container q is p itself or lies below p *)
Fixpoint prefix_b (p q : list Z) : bool :=
  match p, q with
  | [], _ => true
  | x :: p', y :: q' => (x =? y) && prefix_b p' q'
  | _ :: _, [] => false
  end.

Fixpoint fs_find (p : list Z) (fs : fsys) : option fcont :=
  match fs with
  | [] => None
  | c :: t => if lZ_eqb (fc_path c) p then Some c else fs_find p t
  end.
Definition fs_is_open (p : list Z) (fs : fsys) : bool :=
  match fs_find p fs with Some c => fc_opened c | None => false end.
Definition fs_files (p : list Z) (fs : fsys) : list (Z * Z) :=
  match fs_find p fs with Some c => fc_files c | None => [] end.
(* the container exists and is closed *)
Definition fs_closed (p : list Z) (fs : fsys) : bool :=
  match fs_find p fs with Some c => negb (fc_opened c) | None => false end.

Definition fs_set_files (p : list Z) (f : list (Z * Z) -> list (Z * Z)) (fs : fsys) : fsys :=
  map (fun c => if lZ_eqb (fc_path c) p then mkFC (fc_path c) (f (fc_files c)) (fc_opened c) else c) fs.

(* close() of container p: everything at or below p is closed; the top container removes the directory *)
Definition fs_close (p : list Z) (fs : fsys) : fsys :=
  map (fun c => if prefix_b p (fc_path c)
                then mkFC (fc_path c) (match p with [] => [] | _ => fc_files c end) false
                else c) fs.

Inductive f_op :=
  | FLoad (p : list Z) (k : Z) | FSave (p : list Z) (k v : Z) | FDelete (p : list Z) (k : Z)
  | FPreload (p : list Z) (k : Z) | FSub (p : list Z) (name : Z) | FClose (p : list Z).
Inductive f_out := FNone | FVal (v : Z) | FValueError | FMissing.

Definition f_target (op : f_op) : list Z :=
  match op with FLoad p _ | FSave p _ _ | FDelete p _ | FPreload p _ | FSub p _ | FClose p => p end.

Definition fs_step (fs : fsys) (op : f_op) : fsys * f_out :=
  if negb (fs_is_open (f_target op) fs) then (fs, FValueError)
  else match op with
       | FLoad p k => (fs, match d_get k (fs_files p fs) with Some v => FVal v | None => FMissing end)
       | FSave p k v => (fs_set_files p (d_set k v) fs, FNone)
       | FDelete p k => (fs_set_files p (d_del k) fs, FNone)
       | FPreload p k => (fs, FNone)
       | FSub p n => match fs_find (p ++ [n]) fs with
                     | Some _ => (fs, FValueError)
                     | None => (fs ++ [mkFC (p ++ [n]) [] true], FNone)
                     end
       | FClose p => (fs_close p fs, FNone)
       end.

Fixpoint fs_run (fs : fsys) (ops : list f_op) : fsys * list f_out :=
  match ops with
  | [] => (fs, [])
  | op :: t => let (fs1, o) := fs_step fs op in let (fs2, os) := fs_run fs1 t in (fs2, o :: os)
  end.

(* ---- container p of a file system as a storage in the sense of Model/Cache.v (what DictCache is given) *)
Definition fs_ops (p : list Z) : storage_ops fsys :=
  mkSOps (fun fs k => (fst (fs_step fs (FLoad p k)),
                       match snd (fs_step fs (FLoad p k)) with FVal v => Some v | _ => None end))
         (fun fs k v => fst (fs_step fs (FSave p k v)))
         (fun fs k => fst (fs_step fs (FDelete p k)))
         (fun fs k => fst (fs_step fs (FPreload p k))).

(* the partial map container p denotes: nothing once it is closed *)
Definition fs_abs (p : list Z) (fs : fsys) (k : Z) : option Z :=
  if fs_is_open p fs then d_get k (fs_files p fs) else None.
Definition fs_inv (p : list Z) (fs : fsys) : Prop := fs_is_open p fs = true.
