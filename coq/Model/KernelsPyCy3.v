(* Kernels that exist twice in tenpy, continued (see Model/KernelsPyCy.v, Model/KernelsPyCy2.v).
   (a) `_sliced_copy(dest, dest_beg, src, src_beg, slice_shape)`
         py  charges.py:        dest[dst_sl] = src[src_sl]       (numpy strided slice assignment)
         cy  _npc_helper.pyx:   _sliced_copy adds the offsets sum(beg[i] * strides[i]) to the data pointers and
                                calls _sliced_strided_copy, which unrolls up to three dimensions, copies the last
                                dimension with memcpy and recurses three dimensions at a time for ndim >= 4
   Memory is a flat list of elements; strides, offsets and extents are natural numbers counted in ELEMENTS
   (width = 1; byte strides of the C code divided by the item size).  `dest` and `src` are different buffers.
   Definitions only; proofs in Proofs/KernelsPyCyP4.v.  Hand transcriptions, evaluated by harness/c04.py against
   both configurations: (a) by Model/KernelsPyCy2Check.v ('sliced_copy' cases), (c) by Model/KernelsPyCy3Check.v
   ('itrans' cases). *)
From TenpyV Require Import Base.Prelude.

Section SlicedCopy.
  Context {A : Type}.
  Variable dflt : A.
  Variable src : list A.

  (* dest[p] = v *)
  Definition put (dest : list A) (p : nat) (v : A) : list A :=
    if (p <? length dest)%nat then firstn p dest ++ v :: skipn (S p) dest else dest.
  (* copy one element *)
  Definition cp (dest : list A) (po so : nat) : list A := put dest po (nth so src dflt).
  (* memcpy(&dest[doff], &src[soff], n * width) *)
  Definition memcpy (dest : list A) (doff soff n : nat) : list A :=
    fold_left (fun d t => cp d (doff + t) (soff + t)) (seq 0 n) dest.

  Fixpoint dotN (strides idx : list nat) : nat :=
    match strides, idx with
    | s :: st, i :: it => i * s + dotN st it
    | _, _ => 0
    end.
  Fixpoint addN (a b : list nat) : list nat :=
    match a, b with x :: a', y :: b' => (x + y) :: addN a' b' | _, _ => [] end.
  (* np.ndindex(shape): all multi-indices, last axis fastest *)
  Fixpoint ngrid (shape : list nat) : list (list nat) :=
    match shape with
    | [] => [[]]
    | n :: t => flat_map (fun i => map (cons i) (ngrid t)) (seq 0 n)
    end.

  (* py: dest[dbeg + k] = src[sbeg + k] for every multi-index k of the slice; an element with multi-index m
     lives at sum(m[i] * strides[i]) *)
  Definition sliced_copy_py (dest : list A) (dstr dbeg sstr sbeg shape : list nat) : list A :=
    fold_left (fun d k => cp d (dotN dstr (addN dbeg k)) (dotN sstr (addN sbeg k))) (ngrid shape) dest.

  (* cy: _sliced_strided_copy *)
  Fixpoint ssc (shape dstr sstr : list nat) (doff soff : nat) (dest : list A) : list A :=
    let d0 := nth 0 dstr 0 in let s0 := nth 0 sstr 0 in
    let d1 := nth 1 dstr 0 in let s1 := nth 1 sstr 0 in
    let d2 := nth 2 dstr 0 in let s2 := nth 2 sstr 0 in
    match shape with
    | [] => dest                                                             (* if ndim < 1: return *)
    | [l0] => memcpy dest doff soff l0
    | [l0; l1] =>
        fold_left (fun d i => memcpy d (doff + i * d0) (soff + i * s0) l1) (seq 0 l0) dest
    | [l0; l1; l2] =>
        fold_left (fun d i =>
          fold_left (fun d j => memcpy d (doff + (i * d0 + j * d1)) (soff + (i * s0 + j * s1)) l2) (seq 0 l1) d)
          (seq 0 l0) dest
    | l0 :: l1 :: l2 :: rest =>
        fold_left (fun d i =>
          fold_left (fun d j =>
            fold_left (fun d k =>
              ssc rest (skipn 3 dstr) (skipn 3 sstr)
                  (doff + (i * d0 + j * d1 + k * d2)) (soff + (i * s0 + j * s1 + k * s2)) d)
              (seq 0 l2) d)
            (seq 0 l1) d)
          (seq 0 l0) dest
    end.
  (* cy: _sliced_copy *)
  Definition sliced_copy_cy (dest : list A) (dstr dbeg sstr sbeg shape : list nat) : list A :=
    ssc shape dstr sstr (dotN dstr dbeg) (dotN sstr sbeg) dest.

  (* the elementwise reference both are compared with *)
  Definition ref_copy (shape dstr sstr : list nat) (doff soff : nat) (dest : list A) : list A :=
    fold_left (fun d k => cp d (doff + dotN dstr k) (soff + dotN sstr k)) (ngrid shape) dest.
End SlicedCopy.

(* memcpy of the last axis is right when the last axis is contiguous (stride = 1 element) in both arrays, or when
   at most one element is copied along it (numpy may report any stride for an axis of extent 1) *)
Fixpoint last_ok (shape dstr sstr : list nat) : Prop :=
  match shape, dstr, sstr with
  | [l], [d], [s] => (d = 1%nat /\ s = 1%nat) \/ (l <= 1)%nat
  | _ :: t, _ :: dt, _ :: st => last_ok t dt st
  | _, _, _ => True
  end.

(* C-contiguous strides of a shape, in elements *)
Fixpoint cstrides (shape : list nat) : list nat :=
  match shape with
  | [] => []
  | _ :: t => fold_right Nat.mul 1%nat t :: cstrides t
  end.

(* ============================================================================================== *)
(* (c) Array.itranspose (np_conserved.py)  vs  Array_itranspose / Array_itranspose_fast (_npc_helper.pyx)
       py   self.legs = [self.legs[a] for a in axes]; self.iset_leg_labels([labs[a] for a in axes])  (VALIDATES
            the labels: '' and duplicates raise ValueError); self._qdata = np.array(self._qdata[:, axes], order='C');
            self._qdata_sorted = False; self._data = [np.transpose(block, axes) ...]      (strided VIEWS)
       cy   loop appending old_legs[a], old_labels[a] (no validation); GETCONTIGUOUS(self._qdata[:, axes]);
            self._qdata_sorted = False; blocks: GETCONTIGUOUS(PyArray_Transpose(block, permute)) (C-contiguous COPIES)
   Legs are identifiers (the LegCharge objects are shared, not copied); a label is None (anonymous) or Some id,
   id 0 standing for the empty string. *)

(* a block: buffer + shape + element strides (offset 0) *)
Record view := mkView { v_buf : list Z; v_shape : list nat; v_strides : list nat }.
Record arr := mkArr {
  a_legs : list nat; a_labels : list (option nat); a_qdata : list (list Z);
  a_blocks : list view; a_sorted : bool }.

Definition pick {A} (d : A) (l : list A) (axes : list nat) : list A := map (fun a => nth a l d) axes.

(* iset_leg_labels: for i, l in enumerate(labels): None -> continue; '' -> raise; l in labels[i+1:] -> raise *)
Definition lab_eqb (x y : option nat) : bool :=
  match x, y with Some a, Some b => Nat.eqb a b | None, None => true | _, _ => false end.
Fixpoint labels_valid (ls : list (option nat)) : bool :=
  match ls with
  | [] => true
  | None :: t => labels_valid t
  | Some l :: t => negb (Nat.eqb l 0) && negb (existsb (lab_eqb (Some l)) t) && labels_valid t
  end.

(* np.transpose(block, axes): a view on the same buffer *)
Definition transpose_view (v : view) (axes : list nat) : view :=
  mkView (v_buf v) (pick 0%nat (v_shape v) axes) (pick 0%nat (v_strides v) axes).
(* the elements of a view in C order *)
Definition dense (v : view) : list Z :=
  map (fun m => nth (dotN (v_strides v) m) (v_buf v) 0%Z) (ngrid (v_shape v)).
(* np.PyArray_GETCONTIGUOUS of a view: a fresh C-contiguous buffer with the same elements *)
Definition contiguous (v : view) : view := mkView (dense v) (v_shape v) (cstrides (v_shape v)).

(* len(axes) != rank or len(set(axes)) != rank  (get_leg_indices has already rejected out-of-range entries) *)
Fixpoint nodupb (l : list nat) : bool :=
  match l with [] => true | x :: t => negb (existsb (Nat.eqb x) t) && nodupb t end.
Definition axes_ok (rank : nat) (axes : list nat) : bool :=
  Nat.eqb (length axes) rank && nodupb axes && forallb (fun a => (a <? rank)%nat) axes.
Definition is_identity (rank : nat) (axes : list nat) : bool :=
  if list_eq_dec Nat.eq_dec axes (seq 0 rank) then true else false.

(* None = ValueError *)
Definition itranspose_py (a : arr) (axes : list nat) : option arr :=
  let rank := length (a_legs a) in
  if negb (axes_ok rank axes) then None
  else if is_identity rank axes then Some a
  else let labs := pick None (a_labels a) axes in
       if labels_valid labs
       then Some (mkArr (pick 0%nat (a_legs a) axes) labs (map (fun row => pick 0%Z row axes) (a_qdata a))
                        (map (fun b => transpose_view b axes) (a_blocks a)) false)
       else None.

(* cy: the append loop of Array_itranspose_fast *)
Fixpoint append_loop {A B} (dA : A) (dB : B) (oldA : list A) (oldB : list B) (axes : list nat)
         (newA : list A) (newB : list B) : list A * list B :=
  match axes with
  | [] => (newA, newB)
  | a :: t => append_loop dA dB oldA oldB t (newA ++ [nth a oldA dA]) (newB ++ [nth a oldB dB])
  end.
Definition itranspose_cy (a : arr) (axes : list nat) : option arr :=
  let rank := length (a_legs a) in
  if negb (axes_ok rank axes) then None
  else if is_identity rank axes then Some a
  else let ll := append_loop 0%nat None (a_legs a) (a_labels a) axes [] [] in
       Some (mkArr (fst ll) (snd ll) (map (fun row => pick 0%Z row axes) (a_qdata a))
                   (map (fun b => contiguous (transpose_view b axes)) (a_blocks a)) false).

(* what an observer sees of a block / of an Array (memory layout is not observable) *)
Definition view_obs (v : view) : list nat * list Z := (v_shape v, dense v).
Definition arr_obs (a : arr) :=
  (a_legs a, a_labels a, a_qdata a, map view_obs (a_blocks a), a_sorted a).
Definition prodN (l : list nat) : nat := fold_right Nat.mul 1%nat l.

(* label validity as a predicate on positions (proof vocabulary) *)
Definition LP (ls : list (option nat)) : Prop :=
  forall i j, i < length ls -> j < length ls -> i <> j -> nth i ls None = nth j ls None -> nth i ls None = None.
Definition LQ (ls : list (option nat)) : Prop := ~ In (Some 0) ls.

(* equality of two results up to the observables; None = ValueError on both sides *)
Definition opt_obs_eq (x y : option arr) : Prop :=
  match x, y with
  | Some u, Some w => arr_obs u = arr_obs w
  | None, None => True
  | _, _ => False
  end.
