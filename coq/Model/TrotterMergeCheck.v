(* Checker for the correspondence stream `merge` of harness/c14.py (vm_compute): ties Model/TrotterMerge.v
   (`merge`, applied to `timed` of the regenerated tables) to what a REAL TEBD engine executes.

   A case is (order, splits, x, tol, impl), N := sumZ splits:
     splits = the N_steps of the consecutive run() calls made on ONE engine;
     impl = the sequence of evolve_step(U_idx_dt, odd) calls recorded from outside during these
            run() calls (N time steps in total), each replaced by (c[U_idx_dt], odd) where c[j] is the
            time (in units of delta_t) with which the engine computed U[j] (argument of _calc_U_bond divided
            by delta_t, a power of two), and then merged IN PYTHON with exact Fractions: consecutive steps of
            equal parity become one entry whose time is the sum;
     x    = the float value of the symbol t1 = 1/(4 - 4**(1/3)) as an exact rational;
     tol  = 0 for orders 1, 2, 4 (the floats the code uses are exact values of the time-step polynomials at x:
            halving, doubling and Sterbenz-exact subtractions only), 10^-12 for '4_opt' (its floats are rounded
            decimal constants).
   The checker recomputes with the model, at the same rational point,
     (1) merge (timed ds (decomposition_gen o N))                       -- the N-step schedule, merged
     (2) merge (concat (repeat (timed ds (decomposition_gen o 1)) N))   -- N one-step schedules, merged
     (3) merge (run_sched o ds splits)                                  -- what the run() calls schedule, merged
   ((1), (2): the two sides of T14_trotter_merge; (3), (1): the two sides of T14_trotter_merge_splits) and
   requires all three to equal impl: same length, same parities, times within tol (tol = 0: equal in Q). *)
From TenpyV Require Import Base.Prelude Base.PyLib Gen.G_trotter Model.Trotter Model.TrotterMerge.
From Coq Require Import QArith String.
Open Scope Z_scope.

Definition eval_sched (x : Q) (l : sched) : list (Q * Z) :=
  map (fun e => (peval (fst e) x, snd e)) l.

Definition q_close (tol a b : Q) : bool := Qle_bool (a - b) tol && Qle_bool (b - a) tol.

Definition qz_close (tol : Q) (a b : Q * Z) : bool :=
  q_close tol (fst a) (fst b) && (snd a =? snd b).

Fixpoint qz_list_close (tol : Q) (a b : list (Q * Z)) : bool :=
  match a, b with
  | [], [] => true
  | u :: a', v :: b' => qz_close tol u v && qz_list_close tol a' b'
  | _, _ => false
  end.

(* the timed schedule executed by consecutive run() calls with N_steps = n1, n2, ... on one engine:
   TEBDEngine.evolve(N_steps, dt) iterates over suzuki_trotter_decomposition(order, N_steps) once per call *)
Fixpoint run_sched (o : pyorder) (ds : list poly) (ns : list Z) : option sched :=
  match ns with
  | [] => Some []
  | n :: t => match decomposition_gen o n, run_sched o ds t with
              | Some s, Some r => Some (timed ds s ++ r)
              | _, _ => None
              end
  end.

Definition check_merge (c : pyorder * list Z * Q * Q * list (Q * Z)) : bool :=
  let '(o, splits, x, tol, impl) := c in
  let n := sumZ splits in
  match time_steps_gen o with
  | Some ds =>
      match decomposition_gen o n, decomposition_gen o 1, run_sched o ds splits with
      | Some sN, Some s1, Some sR =>
          forallb (fun k => 0 <=? k) splits &&
          qz_list_close tol (eval_sched x (merge (timed ds sN))) impl &&
          qz_list_close tol (eval_sched x (merge (List.concat (repeat (timed ds s1) (Z.to_nat n))))) impl &&
          qz_list_close tol (eval_sched x (merge sR)) impl
      | _, _, _ => false
      end
  | None => false
  end.
