(* Correspondence checker for Model/CacheFile.v (property C20, file-backed storages with sub-containers).
   Definitions only.  Used by harness/c20_sched.py, stream "file-storage": operation sequences (load / save / delete /
   preload / subcontainer / close addressed to any container created so far, also closed ones) on a
   tenpy.tools.cache.PickleStorage tree; compared: what every call returned or raised, and at the end for every container
   in creation order its path, Storage._opened and the pickle files in its directory (read from outside). *)
From TenpyV Require Import Base.Prelude Model.Cache Model.CacheThread Model.CacheCloseCheck Model.CacheFile.
Open Scope Z_scope.

(* 0 None | 1 v value | 2 ValueError | 3 FileNotFoundError *)
Definition f_out_code (o : f_out) : list Z :=
  match o with FNone => [0] | FVal v => [1; v] | FValueError => [2] | FMissing => [3] end.

Fixpoint fs_eqb (fs : fsys) (obs : list (list Z * bool * list (Z * Z))) : bool :=
  match fs, obs with
  | [], [] => true
  | c :: fs', (p, o, f) :: obs' =>
      lZ_eqb (fc_path c) p && Bool.eqb (fc_opened c) o && lZZ_eqb (fc_files c) f && fs_eqb fs' obs'
  | _, _ => false
  end.

(* case: operations, what they returned (f_out_code), the containers at the end *)
Definition check_fs (c : list f_op * list (list Z) * list (list Z * bool * list (Z * Z))) : bool :=
  let '(ops, outs, final) := c in
  let (fs, os) := fs_run fs_init ops in
  llZ_eqb (map f_out_code os) outs && fs_eqb fs final.
