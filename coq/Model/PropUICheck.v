(* Correspondence checker for MPO.make_U_I (tenpy/networks/mpo.py), property C11.
   Definitions only (lemmas in Proofs/PropUICheckP.v).  Used by the stream `c11_make_U_I` of harness/c11.py.

   A case carries RAW implementation data, exact (integers / Gaussian integers):
     the step dt, the W grid of the finite MPO H (entries decomposed into named operators: (row index on the
     left bond, column index on the right bond, operator id, coefficient)), H.IdL, H.IdR, H.chi (one entry per
     bond, L + 1 entries), and the same data of the MPO returned by H.make_U_I(dt).
   The checker names the indices of H (IdL / IdR / Oth x) to obtain a graph g of Model/Automaton.v, names the
   indices of the result (IdL for the common IdL = IdR index of U_I, Oth x' where x' is the index of H the row /
   column came from: the projection removes index IdR, so indices above it move down by one) and compares
   - the W grid of the result, as a function (row key, column key, operator) -> coefficient, with the model
     graph  ui_eval dt g  and with the graded automaton  ui_graph g  evaluated at dt (weight * dt^degree);
   - IdL, IdR, chi of the result with the values the model predicts;
   - the operator of the result (sum over paths IdL ->* IdL) with the operator of ui_eval dt g and with the
     Taylor polynomial  sum_d dt^d * ui_den d g  of the graded automaton (check_UI of Model/PropUI.v). *)
From TenpyV Require Import Base.Prelude Model.Automaton Model.PropUI.
Open Scope Z_scope.

Definition redge := (Z * Z * Z * C)%type.           (* (a, b, operator id, coefficient) *)
Definition rgrid := list (list redge).

Record uicase := mkUIC {
  ui_t : C;                                             (* dt *)
  ui_idl : list Z; ui_idr : list Z; ui_chi : list Z;    (* H.IdL, H.IdR (mod chi), H.chi *)
  ui_gH : rgrid;                                        (* W entries of H *)
  ui_idlU : list Z; ui_idrU : list Z; ui_chiU : list Z; (* the same for U = H.make_U_I(dt) *)
  ui_gU : rgrid }.

(* names of the indices of H on a bond with markers idl, idr *)
Definition nameH (idl idr x : Z) : key :=
  if x =? idl then IdL else if x =? idr then IdR else Oth x.
(* names of the indices of U_I on a bond: idlr is the IdL = IdR index of U_I, idr the IdR index of H that
   was projected out *)
Definition nameU (idlr idr x : Z) : key :=
  if x =? idlr then IdL else Oth (if x <? idr then x else x + 1).
(* site i lies between bond i and bond i + 1 *)
Fixpoint name_grid (nm : nat -> Z -> key) (i : nat) (g : rgrid) : graph :=
  match g with
  | [] => []
  | es :: g' =>
    map (fun e : redge => let '(a, b, op, w) := e in mkE (nm i a) (nm (S i) b) op w) es
    :: name_grid nm (S i) g'
  end.

(* the index of IdL after removing index IdR (make_U_I: IdL - 1 if IdL > IdR else IdL) *)
Definition exp_idlr (idl idr : Z) : Z := if idr <? idl then idl - 1 else idl.
Fixpoint zip_with {A B X} (f : A -> B -> X) (l1 : list A) (l2 : list B) : list X :=
  match l1, l2 with
  | x :: t1, y :: t2 => f x y :: zip_with f t1 t2
  | _, _ => []
  end.

(* a site of a graph as a function (keyL, keyR, operator) -> coefficient: parallel edges add up, an entry with
   total coefficient 0 is the same as no entry *)
Definition same_slot (e f : edge) : bool :=
  key_eqb (eL f) (eL e) && key_eqb (eR f) (eR e) && (eop f =? eop e).
Definition ecoef (es : list edge) (e : edge) : C :=
  fold_right (fun f acc => if same_slot e f then cadd (ew f) acc else acc) c0 es.
Definition site_fun_eqb (es fs : list edge) : bool :=
  forallb (fun e => ceqb (ecoef es e) (ecoef fs e)) (es ++ fs).
Definition grid_fun_eqb (g h : graph) : bool := list_eqb site_fun_eqb g h.

(* the graded automaton evaluated at t: weight * t^degree on every edge *)
Definition geval_edge (t : C) (x : gedge) : edge :=
  mkE (eL (fst x)) (eR (fst x)) (eop (fst x)) (cmul (cpow t (snd x)) (ew (fst x))).
Definition geval (t : C) (g : ggraph) : graph := map (map (geval_edge t)) g.

(* every index of the raw grid lies inside the bond dimensions *)
Fixpoint in_range (chi : list Z) (g : rgrid) : bool :=
  match g, chi with
  | [], _ => true
  | es :: g', cl :: ((cr :: _) as chi') =>
    forallb (fun e : redge => let '(a, b, _, _) := e in
               (0 <=? a) && (a <? cl) && (0 <=? b) && (b <? cr)) es && in_range chi' g'
  | _, _ => false
  end.
Definition zlist_eqb (l1 l2 : list Z) : bool := list_eqb Z.eqb l1 l2.

(* the graphs the checker compares *)
Definition ui_case_H (c : uicase) : graph :=
  name_grid (fun i x => nameH (nth i (ui_idl c) (-1)) (nth i (ui_idr c) (-1)) x) 0%nat (ui_gH c).
Definition ui_case_U (c : uicase) : graph :=
  name_grid (fun i x => nameU (nth i (ui_idlU c) (-1)) (nth i (ui_idr c) (-1)) x) 0%nat (ui_gU c).

Definition check_UI_grid (c : uicase) : bool :=
  let g := ui_case_H c in
  let gi := ui_case_U c in
  let L := length (ui_gH c) in
  (* shape of the data; IdL and IdR of H are different indices on every bond *)
  Nat.eqb (length (ui_idl c)) (S L) && Nat.eqb (length (ui_idr c)) (S L) && Nat.eqb (length (ui_chi c)) (S L) &&
  forallb (fun p => negb (fst p =? snd p)) (combine (ui_idl c) (ui_idr c)) &&
  in_range (ui_chi c) (ui_gH c) && in_range (ui_chiU c) (ui_gU c) &&
  (* bookkeeping of the result *)
  zlist_eqb (ui_idlU c) (zip_with exp_idlr (ui_idl c) (ui_idr c)) &&
  zlist_eqb (ui_idrU c) (ui_idlU c) &&
  zlist_eqb (ui_chiU c) (map (fun x => x - 1) (ui_chi c)) &&
  (* W grid of the result = model graph, entry by entry *)
  grid_fun_eqb (ui_eval (ui_t c) g) gi &&
  grid_fun_eqb (geval (ui_t c) (ui_graph g)) gi &&
  (* operator of the result = operator of the model graph = Taylor polynomial of the graded automaton *)
  check_UI (ui_t c, g, gi).
