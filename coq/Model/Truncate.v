(* Model of tenpy/linalg/truncation.py: truncate, _combine_constraints, TruncationError.
   Definitions only (proofs in Proofs/TruncateP.v).  Tie to the code: correspondence (K),
   harness/c15.py; _combine_constraints additionally through the translator (Gen/G_truncation.v).

   Spectra are lists of non-negative integers: the harness feeds the implementation dyadic
   rationals S_i = s_i / 2^k (exact in float64) and the model the numerators s_i, with svd_min,
   trunc_cut^2 scaled accordingly, so every comparison the implementation decides in floating
   point is decided identically over Z (generators keep relative gaps >= 2^-20 or exact ties).

   Modelling of  logS = log(choose(S <= 0, [S, 1e-100])):  a zero Schmidt value is the smallest
   value, equal to every other zero; it is degenerate with another zero (log-difference 0 < tol)
   and non-degenerate with every positive value (assumes positive values >= 1e-100 * e^tol);
   it is below every positive svd_min. *)
From TenpyV Require Import Base.Prelude Base.PyLib.
Open Scope Z_scope.

Record opts := mkOpts {
  chi_max : option Z;          (* None = option value None *)
  chi_min : option Z;
  deg_tol : option (Z * Z);    (* Some (p, q): e^tol = p/q with p > q > 0; None: None or 0 *)
  svd_min : option Z;          (* scaled like the spectrum *)
  trunc_cut2 : option Z        (* trunc_cut^2, scaled like the squared spectrum *)
}.

(* ---- stable ascending sort of (value, original index) pairs = np.argsort(logS) up to ties *)
Fixpoint insert (x : Z * nat) (l : list (Z * nat)) : list (Z * nat) :=
  match l with
  | [] => [x]
  | y :: t => if fst x <=? fst y then x :: l else y :: insert x t
  end.
Definition isort (l : list (Z * nat)) : list (Z * nat) := fold_right insert [] l.
Definition sorted_pairs (xs : list Z) : list (Z * nat) := isort (combine xs (seq 0 (length xs))).

(* ---- python slice start normalisation for  a[s:]  on a length-n array *)
Definition slice_start (n s : Z) : Z :=
  let s' := if s <? 0 then s + n else s in Z.max 0 (Z.min n s').

(* good masks, indexed by the cut position c in [0, n) ; ss = sorted spectrum *)
Definition idxs (n : nat) : list nat := seq 0 n.

Definition good_chi_max (n : nat) (m : Z) : list bool :=
  map (fun c => slice_start (Z.of_nat n) (- m) <=? Z.of_nat c) (idxs n).

Definition good_chi_min (n : nat) (m : Z) : list bool :=
  map (fun c => negb (slice_start (Z.of_nat n) (- m + 1) <=? Z.of_nat c)) (idxs n).

Definition nthZ (l : list Z) (k : nat) : Z := nth k l 0.

Definition deg_ok (p q lo hi : Z) : bool :=
  if lo =? 0 then negb (hi =? 0) else p * lo <=? hi * q.

Definition good_deg (ss : list Z) (p q : Z) : list bool :=
  map (fun c => match c with O => true | S c' => deg_ok p q (nthZ ss c') (nthZ ss c) end)
      (idxs (length ss)).

Definition good_svd_min (ss : list Z) (m : Z) : list bool := map (fun s => m <=? s) ss.

Fixpoint cumsum_sq (acc : Z) (l : list Z) : list Z :=
  match l with [] => [] | x :: t => (acc + x * x) :: cumsum_sq (acc + x * x) t end.

Definition good_trunc_cut (ss : list Z) (tc2 : Z) : list bool :=
  map (fun w => tc2 <? w) (cumsum_sq 0 ss).

(* ---- _combine_constraints *)
(* andl = np.logical_and, anyb = np.any : Base/PyLib.v *)
Definition combine_constraints (g1 g2 : list bool) : list bool :=
  let r := andl g1 g2 in if anyb r then r else g1.

Definition opt_apply {A} (o : option A) (f : A -> list bool) (g : list bool) : list bool :=
  match o with Some a => combine_constraints g (f a) | None => g end.

Definition final_good (ss : list Z) (o : opts) : list bool :=
  let n := length ss in
  let g0 := map (fun _ => true) ss in
  let g1 := opt_apply (chi_max o) (good_chi_max n) g0 in
  let g2 := match chi_min o with
            | Some m => if 1 <? m then combine_constraints g1 (good_chi_min n m) else g1
            | None => g1 end in
  let g3 := opt_apply (deg_tol o) (fun pq => good_deg ss (fst pq) (snd pq)) g2 in
  let g4 := opt_apply (svd_min o) (good_svd_min ss) g3 in
  let g5 := opt_apply (trunc_cut2 o) (good_trunc_cut ss) g4 in
  g5.

Fixpoint first_true (l : list bool) : nat :=
  match l with [] => O | true :: _ => O | false :: t => S (first_true t) end.

Definition sq (x : Z) := x * x.

Record result := mkRes {
  r_mask : list bool;       (* True for kept indices, original order *)
  r_kept : list Z;          (* kept values in ascending order (multiset) *)
  r_norm2 : Z;              (* norm_new^2 *)
  r_eps : Z                 (* err.eps = sum of discarded squares *)
}.

Definition truncate (xs : list Z) (o : opts) : result :=
  let sl := sorted_pairs xs in
  let ss := map fst sl in
  let piv := map snd sl in
  let cut := first_true (final_good ss o) in
  let keep := skipn cut piv in
  let mask := map (fun i => existsb (Nat.eqb i) keep) (seq 0 (length xs)) in
  let sel (b : bool) := map (fun mb => if Bool.eqb (fst mb) b then sq (snd mb) else 0) (combine mask xs) in
  mkRes mask (skipn cut ss) (sumZ (sel true)) (sumZ (sel false)).

(* ---- TruncationError bookkeeping (eps only; ov = 1 - 2 eps is a float product chain) *)
Definition err_add (e1 e2 : Z) : Z := e1 + e2.

(* what the correspondence compares (harness/c15.py): number kept, kept multiset, norm^2, eps *)
Definition observe (xs : list Z) (o : opts) : nat * list Z * Z * Z :=
  let r := truncate xs o in
  (length (r_kept r), r_kept r, r_norm2 r, r_eps r).

Definition check_case (c : list Z * opts * (nat * list Z * Z * Z)) : bool :=
  let '(xs, o, (k, kept, n2, e)) := c in
  let '(k', kept', n2', e') := observe xs o in
  Nat.eqb k k' && (if list_eq_dec Z.eq_dec kept kept' then true else false)
  && (n2 =? n2') && (e =? e').
