(* Model of tenpy/tools/cache.py ThreadedStorage together with tenpy/tools/thread.py Worker as a
   labelled transition system (property C20).  Definitions only; proofs in Proofs/CacheThreadP.v.
   Tie to the code: correspondence (K), harness/c20_sched.py (worker schedule enforced by gates).

   Two threads share: the FIFO `tasks` (queue.Queue with maxsize, its unfinished-task counter used by
   join()), the dict `_loaded` (written by the worker, read/changed by the caller), the `exit` flag /
   liveness of the worker thread, and the disk storage (touched by the worker only).
   `_waiting_for_load` is local to the caller.

   CALLER steps.  A storage operation is split where the caller can block or where it reads state
   the worker writes.  The program counter says where inside an operation the caller is:
     PIdle          between operations (the next step starts the next operation of the program)
     PPut t c       inside Worker.put_task: the liveness test has passed, Queue.put waits for a slot
     PLoadB k       ThreadedStorage.load after its put phase: about to test `key in self._loaded`
     PLoadJ k       load inside Worker.join_tasks: first liveness test passed, Queue.join() waits
     PSaveJ k v     save of a key with an outstanding preload, inside join_tasks
   Local actions (adding to _waiting_for_load, writing _loaded[key] right after a join) are merged
   into the neighbouring step; this is exact because the other thread cannot observe the difference
   (_waiting_for_load is private; after a join nothing is pending that could touch _loaded[key]).
   Not modelled: the few instructions between `tasks.task_done()` of a failing task and `exit.set()`
   (a caller that slips through there sees AssertionError instead of WorkerDied), close()/__exit__.

   WORKER steps: dequeue one task (Queue.get), execute it and call task_done, or -- when the task
   raises -- set `exit`, drain the queue (one step per drained item) and terminate.
   `fail_at = Some n`: the n-th task the worker starts raises (fault injection of the harness);
   a load of a key that is not on disk raises as well.

   A SCHEDULE is any list of choices caller/worker; a step that is not enabled leaves the state
   unchanged (the thread is blocked). *)
From TenpyV Require Import Base.Prelude Model.Cache.
Open Scope Z_scope.

Inductive task := TLoad (k : Z) | TSave (k v : Z) | TDelete (k : Z).
Inductive wstatus := WIdle | WRun (t : task) | WDying | WDead.
Inductive s_op := SLoad (k : Z) | SPreload (k : Z) | SSave (k v : Z) | SDelete (k : Z).
Inductive cont := KDone | KLoadB (k : Z).
Inductive pcs := PIdle | PPut (t : task) (c : cont) | PLoadB (k : Z) | PLoadJ (k : Z) | PSaveJ (k v : Z).
Inductive t_out := TOk | TVal (v : Z) | TWorkerDied | TAssertion.

Record tstate := mkT {
  t_disk : list (Z * Z);      (* content of the disk storage *)
  t_queue : list task;        (* Worker.tasks, head = next to be taken *)
  t_unfinished : nat;         (* Queue.unfinished_tasks *)
  t_status : wstatus;         (* worker thread *)
  t_started : nat;            (* number of tasks the worker has started (fault injection) *)
  t_loaded : list (Z * Z);    (* ThreadedStorage._loaded *)
  t_waiting : list Z;         (* ThreadedStorage._waiting_for_load *)
  t_pc : pcs;
  t_prog : list s_op;         (* operations the caller still has to start *)
  t_outs : list t_out         (* results of the finished operations, latest first *)
}.

Definition init (prog : list s_op) : tstate := mkT [] [] 0 WIdle 0 [] [] PIdle prog [].

Definition set_pc (st : tstate) (p : pcs) : tstate :=
  mkT (t_disk st) (t_queue st) (t_unfinished st) (t_status st) (t_started st) (t_loaded st)
      (t_waiting st) p (t_prog st) (t_outs st).
Definition set_loaded_waiting (st : tstate) (l : list (Z * Z)) (w : list Z) : tstate :=
  mkT (t_disk st) (t_queue st) (t_unfinished st) (t_status st) (t_started st) l w (t_pc st)
      (t_prog st) (t_outs st).
Definition set_prog (st : tstate) (p : list s_op) : tstate :=
  mkT (t_disk st) (t_queue st) (t_unfinished st) (t_status st) (t_started st) (t_loaded st)
      (t_waiting st) (t_pc st) p (t_outs st).

Section Lts.
  Variable qmax : nat.              (* max_queue_size, 0 = unbounded *)
  Variable fail_at : option nat.

  Definition has_space (st : tstate) : bool :=
    Nat.eqb qmax 0 || Nat.ltb (length (t_queue st)) qmax.

  (* Worker._test_worker_alive fails: exit is set or the thread is gone *)
  Definition dead (st : tstate) : bool :=
    match t_status st with WDying | WDead => true | _ => false end.

  (* the operation returns / raises: back to PIdle *)
  Definition finish (st : tstate) (o : t_out) : tstate :=
    mkT (t_disk st) (t_queue st) (t_unfinished st) (t_status st) (t_started st) (t_loaded st)
        (t_waiting st) PIdle (t_prog st) (o :: t_outs st).

  Definition enqueue (st : tstate) (t : task) : tstate :=
    mkT (t_disk st) (t_queue st ++ [t]) (S (t_unfinished st)) (t_status st) (t_started st)
        (t_loaded st) (t_waiting st) (t_pc st) (t_prog st) (t_outs st).

  Definition continue (st : tstate) (c : cont) : tstate :=
    match c with KDone => finish st TOk | KLoadB k => set_pc st (PLoadB k) end.

  (* Worker.put_task *)
  Definition do_put (st : tstate) (t : task) (c : cont) : tstate :=
    if dead st then finish st TWorkerDied
    else if has_space st then continue (enqueue st t) c
    else set_pc st (PPut t c).

  (* end of ThreadedStorage.load *)
  Definition finish_load (st : tstate) (k : Z) : tstate :=
    match d_get k (t_loaded st) with
    | Some v => finish (set_loaded_waiting st (d_del k (t_loaded st)) (ks_del k (t_waiting st))) (TVal v)
    | None => finish st TAssertion
    end.

  Definition start_op (st : tstate) (op : s_op) : tstate :=
    match op with
    | SLoad k =>
        if negb (d_has k (t_loaded st)) && negb (ks_mem k (t_waiting st))
        then do_put (set_loaded_waiting st (t_loaded st) (ks_add k (t_waiting st))) (TLoad k) (KLoadB k)
        else set_pc st (PLoadB k)
    | SPreload k =>
        if ks_mem k (t_waiting st) || d_has k (t_loaded st) then finish st TOk
        else do_put (set_loaded_waiting st (t_loaded st) (ks_add k (t_waiting st))) (TLoad k) KDone
    | SSave k v =>
        if ks_mem k (t_waiting st)
        then (if dead st then finish st TWorkerDied else set_pc st (PSaveJ k v))
        else do_put st (TSave k v) KDone
    | SDelete k => do_put st (TDelete k) KDone
    end.

  (* None: the caller is blocked (or has nothing left to do) *)
  Definition caller_step (st : tstate) : option tstate :=
    match t_pc st with
    | PIdle =>
        match t_prog st with
        | [] => None
        | op :: rest => Some (start_op (set_prog st rest) op)
        end
    | PPut t c => if has_space st then Some (continue (enqueue st t) c) else None
    | PLoadB k =>
        Some (if d_has k (t_loaded st) then finish_load st k
              else if dead st then finish st TWorkerDied else set_pc st (PLoadJ k))
    | PLoadJ k =>
        if Nat.eqb (t_unfinished st) 0
        then Some (if dead st then finish st TWorkerDied else finish_load st k)
        else None
    | PSaveJ k v =>
        if Nat.eqb (t_unfinished st) 0
        then Some (if dead st then finish st TWorkerDied
                   else match d_get k (t_loaded st) with
                        | Some _ => do_put (set_loaded_waiting st (d_set k v (t_loaded st)) (t_waiting st))
                                           (TSave k v) KDone
                        | None => finish st TAssertion
                        end)
        else None
    end.

  (* effect of a task on (disk, _loaded); None: the task raises *)
  Definition exec_task (disk loaded : list (Z * Z)) (t : task) : option (list (Z * Z) * list (Z * Z)) :=
    match t with
    | TLoad k => match d_get k disk with Some v => Some (disk, d_set k v loaded) | None => None end
    | TSave k v => Some (d_set k v disk, loaded)
    | TDelete k => Some (d_del k disk, loaded)
    end.

  Definition set_worker (st : tstate) (disk : list (Z * Z)) (q : list task) (u : nat) (s : wstatus)
             (n : nat) (l : list (Z * Z)) : tstate :=
    mkT disk q u s n l (t_waiting st) (t_pc st) (t_prog st) (t_outs st).

  Definition worker_step (st : tstate) : option tstate :=
    match t_status st with
    | WIdle =>
        match t_queue st with
        | [] => None
        | t :: q => Some (set_worker st (t_disk st) q (t_unfinished st) (WRun t) (t_started st) (t_loaded st))
        end
    | WRun t =>
        let injected := match fail_at with Some n => Nat.eqb n (t_started st) | None => false end in
        let u := pred (t_unfinished st) in
        let n := S (t_started st) in
        Some (if injected then set_worker st (t_disk st) (t_queue st) u WDying n (t_loaded st)
              else match exec_task (t_disk st) (t_loaded st) t with
                   | Some (d, l) => set_worker st d (t_queue st) u WIdle n l
                   | None => set_worker st (t_disk st) (t_queue st) u WDying n (t_loaded st)
                   end)
    | WDying =>
        match t_queue st with
        | [] => Some (set_worker st (t_disk st) [] (t_unfinished st) WDead (t_started st) (t_loaded st))
        | _ :: q => Some (set_worker st (t_disk st) q (pred (t_unfinished st)) WDying (t_started st) (t_loaded st))
        end
    | WDead => None
    end.

  (* one scheduler choice: true = caller, false = worker; a disabled thread does not move *)
  Definition lts_step (st : tstate) (c : bool) : tstate :=
    match (if c then caller_step st else worker_step st) with Some st' => st' | None => st end.

  Definition lts_run (sched : list bool) (st : tstate) : tstate := fold_left lts_step sched st.

  Fixpoint iter_worker (n : nat) (st : tstate) : tstate :=
    match n with
    | O => st
    | S n' => match worker_step st with Some st' => iter_worker n' st' | None => st end
    end.

  Definition caller_finished (st : tstate) : bool :=
    match t_pc st, t_prog st with PIdle, [] => true | _, _ => false end.
End Lts.

(* ---- the sequential specification: a key-value store *)
Definition spec_m (m : list (Z * Z)) (op : s_op) : list (Z * Z) :=
  match op with SSave k v => d_set k v m | SDelete k => d_del k m | _ => m end.
Definition spec_out (m : list (Z * Z)) (op : s_op) : t_out :=
  match op with
  | SLoad k => match d_get k m with Some v => TVal v | None => TAssertion end
  | _ => TOk
  end.
Fixpoint spec_outs (m : list (Z * Z)) (prog : list s_op) : list t_out :=
  match prog with [] => [] | op :: t => spec_out m op :: spec_outs (spec_m m op) t end.

(* the calls DictCache makes: load / preload / delete only for keys it has saved *)
Fixpoint wf (m : list (Z * Z)) (prog : list s_op) : bool :=
  match prog with
  | [] => true
  | op :: t => (match op with SLoad k | SPreload k | SDelete k => d_has k m | SSave _ _ => true end)
               && wf (spec_m m op) t
  end.

(* ---- the storage calls a DictCache issues: the in-memory storage with a log of the calls *)
Definition log_storage : storage_ops (list (Z * Z) * list s_op) :=
  mkSOps (fun s k => ((fst s, snd s ++ [SLoad k]), d_get k (fst s)))
         (fun s k v => (d_set k v (fst s), snd s ++ [SSave k v]))
         (fun s k => (d_del k (fst s), snd s ++ [SDelete k]))
         (fun s k => (fst s, snd s ++ [SPreload k])).

Definition calls_of (ops : list c_op) : list s_op :=
  snd (c_store (fst (c_run log_storage (c_empty ([], [])) ops))).

(* does the operation change what is stored under k *)
Definition s_writes (k : Z) (op : s_op) : bool :=
  match op with SSave k' _ => k' =? k | SDelete k' => k' =? k | _ => false end.

(* does the operation need the worker (it is not answered from _loaded / _waiting_for_load) *)
Definition needs_worker (st : tstate) (op : s_op) : bool :=
  match op with
  | SLoad k | SPreload k => negb (d_has k (t_loaded st)) && negb (ks_mem k (t_waiting st))
  | SSave _ _ | SDelete _ => true
  end.

(* tasks the worker still has to finish, in execution order *)
Definition pending (st : tstate) : list task :=
  (match t_status st with WRun t => [t] | _ => [] end) ++ t_queue st.

(* ---- correspondence with the gated implementation (harness/c20_sched.py).
   The harness controls two events only: "start the next operation" (C) and "open the gate of the
   task the worker holds" (W).  Everything else happens by itself: the worker takes the next task as
   soon as it is idle, a dying worker drains and terminates, a blocked caller continues as soon as
   it can.  `settle` runs these uncontrolled steps to quiescence. *)
Section Replay.
  Variable qmax : nat.
  Variable fail_at : option nat.

  Definition uncontrolled (st : tstate) : option tstate :=
    match t_status st with
    | WIdle => match t_queue st with
               | _ :: _ => worker_step fail_at st
               | [] => match t_pc st with PIdle => None | _ => caller_step qmax st end
               end
    | WDying => worker_step fail_at st
    | _ => match t_pc st with PIdle => None | _ => caller_step qmax st end
    end.

  Fixpoint settle (fuel : nat) (st : tstate) : tstate :=
    match fuel with
    | O => st
    | S f => match uncontrolled st with Some st' => settle f st' | None => st end
    end.

  Definition out_code (o : t_out) : list Z :=
    match o with TOk => [0] | TVal v => [1; v] | TWorkerDied => [2] | TAssertion => [3] end.
  Definition task_code (t : task) : list Z :=
    match t with TLoad k => [0; k] | TSave k _ => [1; k] | TDelete k => [2; k] end.
  Definition block_code (st : tstate) : list Z :=
    match t_pc st with PPut _ _ => [31] | PLoadJ _ | PSaveJ _ _ => [32] | _ => [39] end.

  Definition fuel_of (st : tstate) : nat := 4 * length (t_queue st) + 8.

  (* one token of the harness schedule; returns the new state and the observable event *)
  Definition replay_tok (st : tstate) (c : bool) : tstate * list Z :=
    if c then
      match t_pc st, t_prog st with
      | PIdle, [] => (st, [14])
      | PIdle, _ :: _ =>
          match caller_step qmax st with
          | Some st1 =>
              let st2 := settle (fuel_of st1) st1 in
              (st2, match t_pc st2 with
                    | PIdle => 10 :: match t_outs st2 with o :: _ => out_code o | [] => [] end
                    | PPut _ _ => [11]
                    | _ => [12]
                    end)
          | None => (st, [14])
          end
      | _, _ => (st, [13])
      end
    else
      match t_status st with
      | WRun t =>
          match worker_step fail_at st with
          | Some st1 =>
              let st2 := settle (fuel_of st1) st1 in
              (st2, 21 :: task_code t ++
                    match t_pc st, t_pc st2 with
                    | PIdle, _ => []
                    | _, PIdle => 30 :: match t_outs st2 with o :: _ => out_code o | [] => [] end
                    | _, _ => block_code st2
                    end)
          | None => (st, [20])
          end
      | _ => (st, [20])
      end.

  Fixpoint replay (st : tstate) (toks : list bool) : tstate * list (list Z) :=
    match toks with
    | [] => (st, [])
    | c :: t => let (st1, e) := replay_tok st c in let (st2, es) := replay st1 t in (st2, e :: es)
    end.
End Replay.

Fixpoint llZ_eqb (a b : list (list Z)) : bool :=
  match a, b with
  | [], [] => true
  | x :: a', y :: b' => lZ_eqb x y && llZ_eqb a' b'
  | _, _ => false
  end.

(* case: queue size, injected failure, program, schedule tokens, observed events,
   keys of _loaded and _waiting_for_load at the end (sorted), worker thread alive at the end *)
Definition check_sched
  (c : nat * option nat * list s_op * list bool * list (list Z) * list Z * list Z * bool) : bool :=
  let '(qmax, fail_at, prog, toks, events, loaded, waiting, alive) := c in
  let (st, es) := replay qmax fail_at (init prog) toks in
  llZ_eqb es events && lZ_eqb (map fst (t_loaded st)) loaded && lZ_eqb (t_waiting st) waiting
  && Bool.eqb (negb (dead st)) alive.
