(* Accounting state machine of TimeEvolutionAlgorithm.run_evolution / evolve (property C14):
   evolved_time and trunc_err.eps after any sequence of run() calls.  WHERE the two counters are
   accumulated is not assumed here: it is read from the source for every engine class into
   Gen/G_acct.v (acct_cls) by translator/export_c14_acct.py on every run (tie T).

   Time is counted in integer ticks (the harness uses dt = ticks * 2^-k), truncation errors as
   integers (scaled); the float rounding of repeated addition is not modelled. *)
From TenpyV Require Import Base.Prelude Gen.G_acct.
Open Scope Z_scope.

Record acct := mkSt { a_time : Z; a_eps : Z }.

(* one call  evolve(n, dt)  performing the truncations `errs`; returns the new state and the returned error *)
Definition evolve_call (c : acct_cls) (s : acct) (n dt : Z) (errs : list Z) : acct * Z :=
  let e := sumZ errs in
  (mkSt (a_time s + Z.of_nat (ev_time_adds c) * (n * dt)) (a_eps s + Z.of_nat (ev_err_adds c) * e), e).

(* one call  run_evolution(n, dt) ; errs = truncation errors per time step (length n) *)
Definition run_evolution (c : acct_cls) (s : acct) (n dt : Z) (errs : list (list Z)) : acct :=
  if run_loops c then
    let r := fold_left (fun (st : acct * Z) es =>
                          let r1 := evolve_call c (fst st) 1 dt es in (fst r1, snd st + snd r1))
                       errs (s, 0) in
    mkSt (a_time (fst r) + Z.of_nat (run_time_adds c) * (n * dt))
         (a_eps (fst r) + Z.of_nat (run_err_adds c) * snd r)
  else
    let r := evolve_call c s n dt (concat errs) in
    mkSt (a_time (fst r) + Z.of_nat (run_time_adds c) * (n * dt))
         (a_eps (fst r) + Z.of_nat (run_err_adds c) * snd r).

(* a history of run() calls: (N_steps, dt, errors per step) *)
Definition run_call := (Z * Z * list (list Z))%type.
Definition run_history (c : acct_cls) (s : acct) (h : list run_call) : acct :=
  fold_left (fun s r => run_evolution c s (fst (fst r)) (snd (fst r)) (snd r)) h s.

Definition total_time (h : list run_call) : Z := sumZ (map (fun r => fst (fst r) * snd (fst r)) h).
Definition total_err (h : list run_call) : Z := sumZ (map (fun r => sumZ (map sumZ (snd r))) h).

(* the structural condition read from the source: each counter is accumulated exactly once per run *)
Definition single_add (c : acct_cls) : bool :=
  Nat.eqb (ev_err_adds c + run_err_adds c) 1 && Nat.eqb (ev_time_adds c + run_time_adds c) 1.

Definition well_formed_call (r : run_call) : Prop := Z.of_nat (length (snd r)) = fst (fst r).

(* for the correspondence: expected (time ticks, eps) after a history *)
Definition check_acct (x : acct_cls * Z * Z * list run_call * Z * Z) : bool :=
  let '(c, t0, e0, h, t1, e1) := x in
  let s := run_history c (mkSt t0 e0) h in
  (a_time s =? t1) && (a_eps s =? e1).
