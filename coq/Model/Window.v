(* C08 -- which stored tensors / which operator `expectation_value(ops, sites)` reads for a site index s outside the unit cell
   (tenpy/networks/mps.py: expectation_value, get_op, get_theta, get_B), hand-modelled from the source on top of the
   correspondence-checked index model Model/MpsIndex.v (property C07).  Definitions only.
       for i in sites:
           op, needs_JW = self.get_op(ops, i)        # i_in_unit_cell, num_unit_cells = _to_valid_site_index(i, True)
                                                     # num_op_lists, i_in_op_list = divmod(i_in_unit_cell, len(op_list))
           theta_ket = ket.get_theta(i, n)           # get_B(i + k) for k in range(n); get_B: _to_valid_site_index(i + k, True),
                                                     # stored tensor i_in_unit_cell shifted by num_unit_cells unit cells
   Tie K: stream `window` of harness/c08.py runs expectation_value(ops, sites=[s]) with n-site operators and compares the selected
   entry of ops (object identity) and the arguments of the get_B calls with ev_site (checker check_window_case); the values
   (contractions) are checked by the dense oracle of harness/c08.py (measurement 'ev' with `sites` up to 2 L). *)
From TenpyV Require Import Base.Prelude Model.MpsIndex.
Open Scope Z_scope.

(* the addresses (index in the unit cell, number of unit cells) of the n tensors get_theta(s, n) contracts; None = ValueError *)
Fixpoint theta_reads (fin : bool) (L s : Z) (n : nat) : option (list (Z * Z)) :=
  match n with
  | O => Some []
  | S n' =>
      match to_valid_site_index fin L s, theta_reads fin L (s + 1) n' with
      | Some a, Some r => Some (a :: r)
      | _, _ => None
      end
  end.

(* one entry of expectation_value: (index into ops, num_op_lists, num_unit_cells used for the charge shift of the operator,
   addresses of the tensors of theta) *)
Definition ev_site (fin : bool) (L nops s : Z) (n : nat) : option (Z * Z * Z * list (Z * Z)) :=
  match to_valid_site_index fin L s, theta_reads fin L s n with
  | Some (r, c), Some reads => Some (r mod nops, r / nops, c, reads)
  | _, _ => None
  end.

Fixpoint wrange (a : Z) (n : nat) : list Z := match n with O => [] | S n' => a :: wrange (a + 1) n' end.

(* sites=None:  range(L - (n - 1)) for finite, range(L) for infinite chains *)
Definition ev_default_sites (fin : bool) (L : Z) (n : nat) : list Z :=
  wrange 0 (Z.to_nat (if fin then L - (Z.of_nat n - 1) else L)).

(* checker of the correspondence stream `window` of harness/c08.py: (finite?, L, len(ops), s, n, observed) where observed =
   (index of the selected entry of ops, num_unit_cells of s, addresses of the tensors requested from get_B) or None = ValueError *)
Fixpoint zpairs_eqb (a b : list (Z * Z)) : bool :=
  match a, b with
  | [], [] => true
  | (x, y) :: a', (u, v) :: b' => (x =? u) && (y =? v) && zpairs_eqb a' b'
  | _, _ => false
  end.

Definition check_window_case (c : bool * Z * Z * Z * nat * option (Z * Z * list (Z * Z))) : bool :=
  let '(fin, L, nops, s, n, r) := c in
  match ev_site fin L nops s n, r with
  | None, None => true
  | Some (idx, _, cell, reads), Some (idx', cell', reads') => (idx =? idx') && (cell =? cell') && zpairs_eqb reads reads'
  | _, _ => false
  end.
