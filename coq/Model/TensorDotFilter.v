(* tensordot with the charge look-up of _tensordot_worker made explicit (definitions only): the worker only computes result
   blocks (row_a, col_b) whose kept charges are compatible with the new total charge
       a_charges_keep[row_a] == make_valid(qtotal - sum of the kept charges of b)[col_b],
   i.e. result rows obeying the charge rule of the result (row_okb of Model/TensorCheck.v is this test, evaluated on the
   concatenated row).  tensordot_filtered drops every block of Model/TensorDot.tensordot whose row fails the test. *)
From TenpyV Require Import Base.Prelude Model.Charge Model.Tensor Model.TensorOps Model.TensorCheck Model.TensorDot.
Open Scope Z_scope.

Definition tensordot_filtered (ci : chinfo) (k : nat) (a b : arr) : arr :=
  let t := tensordot ci k a b in
  mkArr (legs t) (qtot t) (filter (fun blk => row_okb ci (legs t) (qtot t) (fst blk)) (blks t)) true.
