(* C08 -- ordering / sign logic of the measurement functions of tenpy/networks/mps.py (BaseMPSExpectationValue), hand-modelled
   (tie K: harness/c08.py turns the per-site operator words of this model into dense matrices with numpy.kron and compares
   <bra|O|ket> with the number returned by the implementation).  Definitions only.  Uses the word algebra of Model/JW.v. *)
From TenpyV Require Import Base.Prelude Model.JW.
Open Scope Z_scope.

(* correlation_function: the operator word (left-most letter acts last) contracted on site k for the entry C[x, y] with
   i = sites1[x], j = sites2[y];  op1/op2/opstr give the operator letter used on each site.
     i < j :  _corr_up_diag(ops1, ops2, i, j_gtr, opstr, str_on_first, apply_opstr_first=True)
              site i: op1 . opstr (tensordot(op1, opstr, axes=['p*','p'])), sites between: opstr, site j: op2
     i > j :  _corr_up_diag(ops2, ops1, j, i_gtr, opstr, str_on_first, apply_opstr_first=False)
              site j: opstr . op2 (axes=['p','p*']), sites between: opstr, site i: op1
     i = j :  expectation_value(op1 . op2)                                                                     *)
Definition str_word (opstr : option (Z -> letter)) (k : Z) : word :=
  match opstr with Some s => [s k] | None => [] end.

Definition corr_words (op1 op2 : Z -> letter) (opstr : option (Z -> letter)) (str_on_first : bool) (i j k : Z) : word :=
  if i <? j then
    if k =? i then op1 i :: (if str_on_first then str_word opstr i else [])
    else if (i <? k) && (k <? j) then str_word opstr k
    else if k =? j then [op2 j] else []
  else if j <? i then
    if k =? j then (if str_on_first then str_word opstr j else []) ++ [op2 j]
    else if (j <? k) && (k <? i) then str_word opstr k
    else if k =? i then [op1 i] else []
  else if k =? i then [op1 i; op2 i] else [].

(* the documented value (docstring of correlation_function, "Returns"), as an ORDERED product of single-site factors:
     i < j : ops1[i] prod_{i <= r < j} opstr[r] ops2[j]       i > j : prod_{j <= r < i} opstr[r] ops1[i] ops2[j]
     i = j : ops1[i] ops2[j]            ("<= r" replaced by "< r" if str_on_first = False)                       *)
Fixpoint zrange (a : Z) (n : nat) : list Z := match n with O => [] | S n' => a :: zrange (a + 1) n' end.

Definition str_factors (opstr : option (Z -> letter)) (a b : Z) : list (letter * Z) :=
  match opstr with Some s => map (fun r => (s r, r)) (zrange a (Z.to_nat (b - a))) | None => [] end.

Definition doc_factors (op1 op2 : Z -> letter) (opstr : option (Z -> letter)) (str_on_first : bool) (i j : Z)
  : list (letter * Z) :=
  if i <? j then [(op1 i, i)] ++ str_factors opstr (if str_on_first then i else i + 1) j ++ [(op2 j, j)]
  else if j <? i then str_factors opstr (if str_on_first then j else j + 1) i ++ [(op1 i, i)] ++ [(op2 j, j)]
  else [(op1 i, i); (op2 j, j)].

(* tensor factor on site k of an ordered product of single-site factors (factors on different sites commute) *)
Definition site_word (fs : list (letter * Z)) (k : Z) : word :=
  flat_map (fun f => if snd f =? k then [fst f] else []) fs.

(* autoJW: opstr = JW iff all operators need it; error on a mixed set; str_on_first must be set for fermions *)
Definition auto_opstr (need : list bool) (str_on_first : bool) : option (option (Z -> letter)) :=
  if existsb (fun b => b) need then
    (if forallb (fun b => b) need then (if str_on_first then Some (Some (fun _ => JWl)) else None) else None)
  else Some None.

(* hermitian shortcut: C[y, x] = conj C[x, y] is used only when sites1 = sites2 (otherwise the flag is dropped) *)
Fixpoint zlist_eqb (a b : list Z) : bool :=
  match a, b with [] , [] => true | x :: a', y :: b' => (x =? y) && zlist_eqb a' b' | _, _ => false end.
Definition use_hermitian (flag : bool) (sites1 sites2 : list Z) : bool := flag && zlist_eqb sites1 sites2.

(* checker for the correspondence stream `ops_list` of harness/c08.py: _term_to_ops_list as names per site.
   letters are encoded as (id, odd) with id = 0 for 'JW' *)
Definition enc_letter (l : letter) : Z * bool := match l with Op a o => (a, o) | JWl => (0, true) end.
Fixpoint pairs_eqb (a b : list (Z * bool)) : bool :=
  match a, b with
  | [], [] => true
  | (x, p) :: a', (y, q) :: b' => (x =? y) && Bool.eqb p q && pairs_eqb a' b'
  | _, _ => false
  end.
Fixpoint words_eqb (a : list word) (b : list (list (Z * bool))) : bool :=
  match a, b with
  | [], [] => true
  | w :: a', v :: b' => pairs_eqb (map enc_letter w) v && words_eqb a' b'
  | _, _ => false
  end.

Definition check_ops_list_case (c : list (Z * Z * bool) * bool * option bool * (list (list (Z * bool)) * Z * bool)) : bool :=
  let '(its, autoJW, jfr, (ops, imin, extra)) := c in
  let '(mops, mimin, mextra) := term_to_ops_list (mk_items its) autoJW jfr in
  words_eqb mops ops && (mimin =? imin) && Bool.eqb mextra extra.
