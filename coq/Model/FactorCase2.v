(* Case checkers for the C05 models that had no executed tie (evaluated by harness/c05.py, stream 'plan'):
     - eig_plan            (Model/Factor2.v)      : structure of the eigh / eig result around the per-block call
     - lq_charges          (Model/Factor2.v)      : inner leg and total charges of npc.lq, on the matrix ITSELF (the
                                                    model transposes, as np_conserved.lq does)
     - pos_diag            (Model/FactorDense.v)  : qr(pos_diag_R=True) on one block
     - kept / svd_U / svd_V / svd_S / inner_sizes / svd_U_full (Model/FactorDense.v) : the assembly of _svd_worker
   LAPACK is not modelled: in the 'plan' stream the per-block LAPACK entry points (np.linalg.eigh / eig / qr,
   np_conserved.svd_flat) are replaced, in the runner process, by a stub that returns recorded integer-valued
   matrices of the right shapes (any kept rank, zero / negative diagonal entries included).  The models are
   parametric in exactly these per-block results, so the comparison is exact.  Definitions only. *)
From TenpyV Require Import Base.Prelude Model.ChargeL Model.Leg Model.Factor Model.FactorCase Model.Factor2
  Model.FactorDense.
Open Scope Z_scope.

Definition zmat := list (list Z).
Definition zmat_eqb (a b : zmat) : bool := all2 zl_eqb a b.
Definition tabm (nr nc : nat) (A : dmat) : zmat := map (fun r => map (fun c => A r c) (seq 0 nc)) (seq 0 nr).
Definition eyeZ (n : Z) : zmat :=
  map (fun i => map (fun j => if Nat.eqb i j then 1 else 0) (seq 0 (Z.to_nat n))) (seq 0 (Z.to_nat n)).
Definition ent_eqb (x y : nat * nat * zmat) : bool :=
  Nat.eqb (fst (fst x)) (fst (fst y)) && Nat.eqb (snd (fst x)) (snd (fst y)) && zmat_eqb (snd x) (snd y).

(* ---- eigh / eig on a completely blocked matrix: (leg, _qdata of a, stub results (rw, rv) per stored block in
   call order, (resv._qdata + _data, resw)) *)
Definition eig_case_t : Type :=
  ((list block * Z) * list (nat * nat) * list (list Z * zmat) * (list (nat * nat * zmat) * list Z))%type.
Definition check_eig_case (c : eig_case_t) : bool :=
  let '(lg, data, eigs, (resv, resw)) := c in
  let p := eig_plan eyeZ 0 (fun k => nth k eigs ([], [])) (leg_of lg) data in
  all2 ent_eqb (fst p) resv && zl_eqb (snd p) resw.

(* ---- lq: (chinfo, legL, legR, qtotal, qdata of the blocked a (NOT transposed), rows kept per block, complete,
   qtotal_Q, inner_qconj, (L.legs[1], Q.qtotal, L.qtotal)) *)
Definition lq_case_t : Type :=
  (chinfo * (list block * Z) * (list block * Z) * cvec * list (nat * nat) * list Z *
   bool * option cvec * Z * ((list block * Z) * cvec * cvec))%type.
Definition check_lq_case (c : lq_case_t) : bool :=
  let '(ci, lL, lR, q, qd, ks, complete, qQ, iq, (inner, qtQ, qtL)) := c in
  let a := mkMat (leg_of lL) (leg_of lR) q qd in
  let p := lq_charges ci a ks complete qQ iq in
  blocks_eqb (fst inner) (blocks (r_inner p)) && (snd inner =? qc (r_inner p)) &&
  zl_eqb qtQ (r_qQ p) && zl_eqb qtL (r_qR p).

(* ---- qr(pos_diag_R=True) on one block: q_block (M x P), r_block (P x N) as returned by the stub, and the blocks
   stored in Q and R (None: the result contains NaN) *)
Definition posdiag_case_t : Type := (nat * nat * nat * zmat * zmat * option (zmat * zmat))%type.
Definition check_posdiag_case (c : posdiag_case_t) : bool :=
  let '(M, P, N, Q, R, out) := c in
  match pos_diag P N (of_rows Q) (of_rows R), out with
  | Some (Q', R'), Some (q, r) => zmat_eqb (tabm M P Q') q && zmat_eqb (tabm P N R') r
  | None, None => true
  | _, _ => false
  end.

(* ---- _svd_worker: fs = per stored block (row block, column block, kept rank n, U_b, S_b, VH_b) as returned by the
   stub; rs / cs = block sizes of the two legs; result: U (_qdata + _data), S, VH, block sizes of VH.legs[0] *)
Definition sblock_of (e : nat * nat * (nat * zmat * list Z * zmat)) : sblock :=
  let '(i, j, (n, Ub, Sb, Vb)) := e in (i, j, mkFac3 n (of_rows Ub) (of_list Sb) (of_rows Vb)).
Definition tab_ent (rs cs : list nat) (e : bent) : nat * nat * zmat :=
  let '(i, j, A) := e in (i, j, tabm (bsize rs i) (bsize cs j) A).
Definition svd_dense_case_t : Type :=
  (list nat * list nat * list (nat * nat * (nat * zmat * list Z * zmat)) * bool *
   (list (nat * nat * zmat) * list Z * list (nat * nat * zmat) * list nat))%type.
Definition check_svd_dense_case (c : svd_dense_case_t) : bool :=
  let '(rs, cs, fs0, full, (Uo, So, Vo, ns_out)) := c in
  let fs := map sblock_of fs0 in
  if full then
    (* only U is modelled for full_matrices (svd_U_full) *)
    all2 ent_eqb (map (tab_ent rs rs) (svd_U_full fs)) Uo
  else
    let ks := kept fs in
    let ns := inner_sizes ks in
    all2 Nat.eqb ns ns_out &&
    all2 ent_eqb (map (tab_ent rs ns) (svd_U ks)) Uo &&
    all2 ent_eqb (map (tab_ent ns cs) (svd_V ks)) Vo &&
    zl_eqb (map (svd_S ks) (seq 0 (list_sum ns))) So.
