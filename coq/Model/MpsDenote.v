(* VALUES for the form algebra of Model/MpsForm.v (C07, T07_convert_preserves_denotation).  Definitions only.
   A canonical MPS is Gamma_p (one per site) and Schmidt vectors s_b (one per bond); a stored tensor with actual
   exponents (nuL, nuR) is  s_bL^nuL . Gamma_p . s_bR^nuR.   Here the stored tensor is an element of an abstract
   monoid M ("matrices": for a fixed physical index a site tensor is a matrix; matrices of different bond
   dimensions embed as blocks of one square matrix algebra over the disjoint union of all bond index sets, where
   s_b^e acts as the diagonal on block b and as the identity elsewhere), and
       sv b e  =  s_b ^ (e/2)        (exponents in units of 1/2 as in MpsForm.v)
   is a family of group homomorphisms (Z,+) -> M (laws: Section hypotheses of Proofs/MpsDenoteP.v; the law
   sv b (x + y) = sv b x * sv b y for negative arguments is the hypothesis "no zero singular values": the
   pseudo-inverse (cutoff) path of _scale_axis_B for a 2D S is NOT modelled).
   A valued site is a site of MpsForm.v (label, actual exponents, dimensions) plus the stored tensor.

   MPS.get_B(i, form): i -> position p = site index in the unit cell; S on the left = _S[bond index of
   _to_valid_bond_index(i, is_left=True)], on the right = _S[... is_left=False]; the tensor is multiplied by
   S^(new - LABEL) on each side where the requested entry is not None (the code skips the multiplication when the
   difference is 0; with sv b 0 = one this is the same value).
   These definitions are tied to the code (a) through `vapply_erase` (Proofs/MpsDenoteP.v): forgetting the values,
   vapply_op IS apply_op of Model/MpsForm.v, which the correspondence stream of harness/c07.py replays on every
   executed operation; the bond addresses are those of Model/MpsIndex.v (`bond_address`); and (b) WITH values by the
   correspondence stream `valued` of harness/c07.py (harness/c07_valued.py, Model/MpsDenoteCheck.v): vapply_op,
   vget_B_at and window_den are instantiated at dyadic tensors / diagonal powers of two and executed against
   MPS.convert_form, set_B(i, get_B(i, f), f), get_B(i, form) and get_theta(i, n, formL=0, formR=1) on MPS with dyadic
   tensors and singular values 4^k (finite, segment, infinite bc), every entry compared exactly. *)
From TenpyV Require Import Base.Prelude Model.MpsIndex Model.MpsForm.
Open Scope Z_scope.

(* bond addresses by position p in the unit cell of length L *)
Definition bondL (p : nat) : Z := Z.of_nat p.
Definition bondR (fin : bool) (L : Z) (p : nat) : Z :=
  if fin then Z.of_nat p + 1 else (Z.of_nat p + 1) mod L.

Section Denote.
  Variable M : Type.
  Variable mul : M -> M -> M.
  Variable sv : Z -> Z -> M.
  Variable one : M.

  Definition vsite := (site * M)%type.
  Definition vmps := list vsite.
  Definition erase (v : vmps) : mps := map fst v.

  Definition vscale_l (b old : Z) (new : option Z) (v : M) : M :=
    match new with None => v | Some n => mul (sv b (n - old)) v end.
  Definition vscale_r (b old : Z) (new : option Z) (v : M) : M :=
    match new with None => v | Some n => mul v (sv b (n - old)) end.

  (* the tensor returned by get_B(i, form) for the site s with left/right bonds bl, br (left axis scaled first) *)
  Definition vget_B (bl br : Z) (s : vsite) (new : option (option Z * option Z)) : option M :=
    match new with
    | None => Some (snd s)
    | Some (nl, nr) =>
        match lab (fst s) with
        | Some (ol, orr) => Some (vscale_r br orr nr (vscale_l bl ol nl (snd s)))
        | None => None
        end
    end.

  (* set_B(i, get_B(i, f), f) on one site *)
  Definition vconv (bl br : Z) (s : vsite) (f : form) : option vsite :=
    match get_B_act (fst s) (full f), vget_B bl br s (full f) with
    | Some a, Some v => Some (mkSite (Some f) a (pdim (fst s)) (chiL (fst s)) (chiR (fst s)), v)
    | _, _ => None
    end.

  (* convert_form(fs): for i = p, p+1, ...: set_B(i, get_B(i, f_i), f_i) *)
  Fixpoint vconvert_from (fin : bool) (L : Z) (p : nat) (fs : list form) (st : vmps) : option vmps :=
    match fs, st with
    | [], [] => Some []
    | f :: fs', s :: st' =>
        match vconv (bondL p) (bondR fin L p) s f, vconvert_from fin L (Datatypes.S p) fs' st' with
        | Some s', Some r => Some (s' :: r)
        | _, _ => None
        end
    | _, _ => None
    end.

  Fixpoint vset_nth (p : nat) (x : vsite) (st : vmps) : vmps :=
    match p, st with
    | O, _ :: t => x :: t
    | Datatypes.S p', y :: t => y :: vset_nth p' x t
    | _, [] => []
    end.

  Definition vlen (st : vmps) : Z := Z.of_nat (length st).

  (* the form conversions of MpsForm.fop with values; the other operations (SVD based or structural) are not
     form conversions and are not given values here *)
  Definition vapply_op (fin : bool) (op : fop) (st : vmps) : option vmps :=
    match op with
    | OConvert fs => vconvert_from fin (vlen st) 0 fs st
    | OSetBScaled i f =>          (* B = psi.get_B(i, f); psi.set_B(i, B, f) *)
        match site_pos fin (erase st) i with
        | Some p => match nth_error st p with
                    | Some s => match vconv (bondL p) (bondR fin (vlen st) p) s f with
                                | Some s' => Some (vset_nth p s' st)
                                | None => None
                                end
                    | None => None
                    end
        | None => None
        end
    | _ => None
    end.

  Fixpoint vrun_ops (fin : bool) (ops : list fop) (st : vmps) : option vmps :=
    match ops with
    | [] => Some st
    | op :: rest => match vapply_op fin op st with Some st' => vrun_ops fin rest st' | None => None end
    end.

  (* psi.get_B(i, form) for any integer i (infinite bc: any unit cell) *)
  Definition vget_B_at (fin : bool) (st : vmps) (i : Z) (new : option (option Z * option Z)) : option M :=
    match site_pos fin (erase st) i with
    | Some p => match nth_error st p with
                | Some s => vget_B (bondL p) (bondR fin (vlen st) p) s new
                | None => None
                end
    | None => None
    end.

  (* the dense object on the window i .. i+n-1: the product of get_B(j, 'B'), i.e. exponent 0 on the left end and
     exactly 1 (= 2 half units) on every other bond of the window, and 1 on the right end *)
  Fixpoint window_den (fin : bool) (st : vmps) (i : Z) (n : nat) : option M :=
    match n with
    | O => None
    | Datatypes.S n' =>
        match n' with
        | O => vget_B_at fin st i (full fB)
        | Datatypes.S _ =>
            match vget_B_at fin st i (full fB), window_den fin st (i + 1) n' with
            | Some v, Some r => Some (mul v r)
            | _, _ => None
            end
        end
    end.

  (* one whole unit cell / the whole finite chain *)
  Definition chain_den (fin : bool) (st : vmps) : option M := window_den fin st 0 (length st).

  (* the stored tensor of every site is s^nuL Gamma s^nuR with (nuL, nuR) the ACTUAL exponents of the model *)
  Definition denotes_at (fin : bool) (L : Z) (G : nat -> M) (p : nat) (s : vsite) : Prop :=
    snd s = mul (mul (sv (bondL p) (fst (act (fst s)))) (G p)) (sv (bondR fin L p) (snd (act (fst s)))).
  Definition denotes (fin : bool) (G : nat -> M) (st : vmps) : Prop :=
    forall p s, nth_error st p = Some s -> denotes_at fin (vlen st) G p s.

  (* the same object written with Gamma and s only: Gamma_p . s_(right bond of p) for every site of the window *)
  Definition gsite (fin : bool) (L : Z) (G : nat -> M) (i : Z) : M :=
    let p := Z.to_nat (i mod L) in mul (G p) (sv (bondR fin L p) 2).
  Fixpoint gamma_window (fin : bool) (L : Z) (G : nat -> M) (i : Z) (n : nat) : M :=
    match n with
    | O => one
    | Datatypes.S n' =>
        match n' with
        | O => gsite fin L G i
        | Datatypes.S _ => mul (gsite fin L G i) (gamma_window fin L G (i + 1) n')
        end
    end.
End Denote.
