(* C12 / C08 -- the Jordan-Wigner sign machinery of tenpy/networks/terms.py and mps.py, hand-modelled (tie K: every function
   here is run against the implementation on generated terms by harness/c12.py and harness/c08.py).  Definitions only.

   An operator occurrence is (operator id, site, op_needs_JW flag).  A TERM is a list of occurrences, read as a product in
   the mathematical order (left-most factor acts last). *)
From TenpyV Require Import Base.Prelude.
Open Scope Z_scope.

Record item := mkItem { it_op : Z; it_site : Z; it_f : bool }.

(* ------------------------------------------------------------------------------------------------------------------
   terms.order_combine_term:   bubble sort by site; every swap of two operators that both need a JW string flips the sign.
       for s_max in range(N - 1, 0, -1):
           for s in range(s_max):
               t1, t2 = terms_commute[s:s+2]
               if t1[1] > t2[1]:  swap;  if t1[2] and t2[2]: overall_sign = -overall_sign
   `bubn n x r` carries the element x through the first n comparisons of the inner loop (r = rest of the list). *)
Fixpoint bubn (n : nat) (x : item) (r : list item) : list item :=
  match n, r with
  | S n', y :: r' => if it_site y <? it_site x then y :: bubn n' x r' else x :: bubn n' y r'
  | _, _ => x :: r
  end.

Fixpoint flipn (n : nat) (x : item) (r : list item) : bool :=
  match n, r with
  | S n', y :: r' => if it_site y <? it_site x then xorb (it_f x && it_f y) (flipn n' x r') else flipn n' y r'
  | _, _ => false
  end.

Definition pass (n : nat) (l : list item) : list item := match l with [] => [] | x :: r => bubn n x r end.
Definition pass_flip (n : nat) (l : list item) : bool := match l with [] => false | x :: r => flipn n x r end.

(* outer loop: s_max = k, k-1, ..., 1 *)
Fixpoint bsort (k : nat) (l : list item) : list item :=
  match k with O => l | S k' => bsort k' (pass k l) end.
Fixpoint bsort_flip (k : nat) (l : list item) : bool :=
  match k with O => false | S k' => xorb (pass_flip k l) (bsort_flip k' (pass k l)) end.

Definition order_sort (term : list item) : list item := bsort (length term - 1) term.
Definition order_sign (term : list item) : bool := bsort_flip (length term - 1) term.   (* true = overall_sign -1 *)

(* itertools.groupby on the site + Site.multiply_op_names: (list of operator ids in order, site, combined needs_JW flag) *)
Fixpoint group (l : list item) : list (list Z * Z * bool) :=
  match l with
  | [] => []
  | x :: r =>
      match group r with
      | (ops, i, f) :: g => if i =? it_site x then (it_op x :: ops, i, xorb (it_f x) f) :: g
                            else ([it_op x], it_site x, it_f x) :: (ops, i, f) :: g
      | [] => [([it_op x], it_site x, it_f x)]
      end
  end.

Definition order_combine_term (term : list item) : list (list Z * Z * bool) * bool :=
  (group (order_sort term), order_sign term).

(* the specification of the sign: parity of the number of inversions between operators that need a JW string *)
Fixpoint cntf (x : item) (r : list item) : bool :=
  match r with
  | [] => false
  | y :: r' => xorb (it_f x && it_f y && (it_site y <? it_site x)) (cntf x r')
  end.
Fixpoint finvp (l : list item) : bool :=
  match l with [] => false | x :: r => xorb (cntf x r) (finvp r) end.

(* ------------------------------------------------------------------------------------------------------------------
   MultiCouplingTerms.multi_coupling_term_handle_JW (op_string=None) on a combined term (one entry per site, ascending):
       JW_right = False
       for x in range(number_ops):
           if op_needs_JW[x]: JW_right = not JW_right
           if JW_right: new_op_str.append('JW'); ops[x] = ops[x] + ' JW'   else: new_op_str.append('Id')
       if JW_right: raise ValueError;   new_op_str.pop()
   result: per entry (ops, site, JW appended?) and the list of strings right of each entry (true = 'JW'). *)
Fixpoint handle_jw (jw : bool) (l : list (list Z * Z * bool)) : list (list Z * Z * bool) * list bool * bool :=
  match l with
  | [] => ([], [], jw)
  | (ops, i, f) :: r =>
      let jw' := xorb jw f in
      let '(res, strs, fin) := handle_jw jw' r in
      ((ops, i, jw') :: res, jw' :: strs, fin)
  end.

Definition multi_coupling_term_handle_JW (l : list (list Z * Z * bool)) : option (list (list Z * Z * bool) * list bool) :=
  let '(res, strs, fin) := handle_jw false l in
  if fin then None else Some (res, removelast strs).

(* CouplingTerms.coupling_term_handle_JW (op_string=None): both / none need JW; 'JW' appended to op_i *)
Definition coupling_term_handle_JW (fi fj : bool) : option (bool * bool) :=   (* (append JW to op_i, string is JW) *)
  if fi && fj then Some (true, true) else if fi || fj then None else Some (false, false).

(* ------------------------------------------------------------------------------------------------------------------
   Local operator words and their normal form under   JW^2 = 1,  JW f = - f JW (f needs JW),  JW b = b JW (otherwise). *)
Inductive letter := Op (id : Z) (odd : bool) | JWl.
Definition word := list letter.

Fixpoint odd_count (u : list (Z * bool)) : bool :=
  match u with [] => false | (_, o) :: t => xorb o (odd_count t) end.

(* nf w = (sign, parity of JW letters, the word without JW letters):   w = (-1)^sign * stripped * JW^parity *)
Fixpoint nf (w : word) : bool * bool * list (Z * bool) :=
  match w with
  | [] => (false, false, [])
  | JWl :: t => let '(s, p, u) := nf t in (xorb s (odd_count u), negb p, u)
  | Op a o :: t => let '(s, p, u) := nf t in (s, p, (a, o) :: u)
  end.

(* the product of the Jordan-Wigner transformed operators of a term, site by site (tensor factor at site k):
   c-type operator at site i  =  JW_0 ... JW_{i-1} op_i ;  factors on different sites commute as tensor factors. *)
Definition phys_letters (k : Z) (t : item) : word :=
  if it_site t =? k then [Op (it_op t) (it_f t)]
  else if it_f t && (k <? it_site t) then [JWl] else [].

Definition phys_word (term : list item) (k : Z) : word := flat_map (phys_letters k) term.

Fixpoint lookup_group (g : list (list Z * Z * bool)) (k : Z) : option (list Z * bool) :=
  match g with
  | [] => None
  | (ops, i, f) :: r => if i =? k then Some (ops, f) else lookup_group r k
  end.

(* parity of the operators needing JW on sites <= k  (= JW_right of the loop above after the last entry with site <= k) *)
Fixpoint jw_right (g : list (list Z * Z * bool)) (k : Z) : bool :=
  match g with
  | [] => false
  | (_, i, f) :: r => xorb ((i <=? k) && f) (jw_right r k)
  end.

Definition item_letters (l : list item) : word := map (fun t => Op (it_op t) (it_f t)) l.

(* site k of the MPO term: the combined operator (operators in term order) followed by JW iff a string leaves to the right *)
Definition impl_word (term : list item) (k : Z) : word :=
  item_letters (filter (fun t => it_site t =? k) (order_sort term)) ++
  (if jw_right (group (order_sort term)) k then [JWl] else []).

Definition total_parity (term : list item) : bool := fold_right (fun t b => xorb (it_f t) b) false term.

(* xor of a boolean function over a list of sites *)
Definition xor_over (ks : list Z) (g : Z -> bool) : bool := fold_right (fun k b => xorb (g k) b) false ks.

Definition nf_sign (w : word) : bool := fst (fst (nf w)).
Definition nf_jw (w : word) : bool := snd (fst (nf w)).
Definition nf_ops (w : word) : list (Z * bool) := snd (nf w).

(* ------------------------------------------------------------------------------------------------------------------
   MPS._term_to_ops_list(term, autoJW, i_offset, JW_from_right):
       ops = [[] for i in range(i_max - i_min + 1)]
       for op, i in term:
           j = i - i_min; ops[j].append(op)
           if autoJW and needs_JW(op): count_JW += 1;  for k in range(j): ops[k].append('JW')
       if JW_from_right is None: JW_from_right = count_JW % 2 == 1 ; if JW_from_right: count_JW -= 1
       if JW_from_right: count_JW += 1; for op_i in ops: op_i.append('JW')
       return ops (multiplied left to right), i_min + i_offset, count_JW % 2 == 1                                  *)
Fixpoint app_at (ops : list word) (j : nat) (x : letter) : list word :=
  match ops, j with
  | [], _ => []
  | w :: r, O => (w ++ [x]) :: r
  | w :: r, S j' => w :: app_at r j' x
  end.

Fixpoint app_below (ops : list word) (j : nat) (x : letter) : list word :=
  match ops, j with
  | w :: r, S j' => (w ++ [x]) :: app_below r j' x
  | _, _ => ops
  end.

Definition tol_step (autoJW : bool) (imin : Z) (st : list word * bool) (t : item) : list word * bool :=
  let j := Z.to_nat (it_site t - imin) in
  let ops1 := app_at (fst st) j (Op (it_op t) (it_f t)) in
  if autoJW && it_f t then (app_below ops1 j JWl, negb (snd st)) else (ops1, snd st).

Definition min_site (term : list item) : Z := fold_right (fun t m => Z.min (it_site t) m) (match term with [] => 0 | t :: _ => it_site t end) term.
Definition max_site (term : list item) : Z := fold_right (fun t m => Z.max (it_site t) m) (match term with [] => 0 | t :: _ => it_site t end) term.

Definition term_to_ops_list (term : list item) (autoJW : bool) (jw_from_right : option bool) : list word * Z * bool :=
  let imin := min_site term in
  let n := Z.to_nat (max_site term - imin + 1) in
  let st := fold_left (tol_step autoJW imin) term (repeat [] n, false) in
  let jfr := match jw_from_right with Some b => b | None => snd st end in
  let cnt := match jw_from_right with Some b => xorb (snd st) b | None => snd st end in
  ((if jfr then map (fun w => w ++ [JWl]) (fst st) else fst st), imin, cnt).

(* ------------------------------------------------------------------------------------------------------------------
   checker of the correspondence stream `terms` of harness/c12.py: the case carries the term and the implementation's
   canonicalised outputs of order_combine_term and multi_coupling_term_handle_JW. *)
Fixpoint listZ_eqb (a b : list Z) : bool :=
  match a, b with [], [] => true | x :: a', y :: b' => (x =? y) && listZ_eqb a' b' | _, _ => false end.
Fixpoint listB_eqb (a b : list bool) : bool :=
  match a, b with [], [] => true | x :: a', y :: b' => Bool.eqb x y && listB_eqb a' b' | _, _ => false end.
Fixpoint comb_eqb (a : list (list Z * Z * bool)) (b : list (list Z * Z)) : bool :=
  match a, b with
  | [], [] => true
  | (o, i, _) :: a', (o', i') :: b' => listZ_eqb o o' && (i =? i') && comb_eqb a' b'
  | _, _ => false
  end.
Fixpoint res_eqb (a : list (list Z * Z * bool)) (b : list (Z * bool)) : bool :=
  match a, b with
  | [], [] => true
  | (_, i, f) :: a', (i', f') :: b' => (i =? i') && Bool.eqb f f' && res_eqb a' b'
  | _, _ => false
  end.

Definition mk_items (l : list (Z * Z * bool)) : list item := map (fun x => mkItem (fst (fst x)) (snd (fst x)) (snd x)) l.

(* the strings/flags returned by handle_jw agree with the closed form used in the theorems (jw_right) *)
Fixpoint strings_consistent (g res : list (list Z * Z * bool)) (strs : list bool) : bool :=
  match res with
  | [] => true
  | (_, i, f) :: r =>
      Bool.eqb (jw_right g i) f &&
      match r, strs with
      | (_, j, _) :: _, s :: strs' => Bool.eqb f s && (if i + 1 <? j then Bool.eqb (jw_right g (i + 1)) s else true) &&
                                      strings_consistent g r strs'
      | [], _ => true
      | _, [] => false
      end
  end.

Definition check_term_case
  (c : list (Z * Z * bool) * list (list Z * Z) * bool * option (option (list (Z * bool) * list bool))) : bool :=
  let '(its, comb, sgn, multi) := c in
  let term := mk_items its in
  let '(g, s) := order_combine_term term in
  comb_eqb g comb && Bool.eqb s sgn &&
  match multi with
  | None => (Z.of_nat (length g) <? 2)
  | Some m =>
      match multi_coupling_term_handle_JW g, m with
      | None, None => total_parity term
      | Some (res, strs), Some (fl, st) =>
          res_eqb res fl && listB_eqb strs st && strings_consistent g res strs && negb (total_parity term)
      | _, _ => false
      end
  end.
