(* Case checkers evaluated by harness/c06.py (vm_compute): the case literal carries the input and
   the implementation's canonicalised output; the checker recomputes it with the model. *)
From TenpyV Require Import Base.Prelude Model.ChargeL Model.Leg Model.Pipe.
Open Scope Z_scope.

Definition zl_eqb (a b : list Z) : bool := all2 Z.eqb a b.
Definition zll_eqb (a b : list (list Z)) : bool := all2 zl_eqb a b.
Definition nl_eqb (a b : list nat) : bool := all2 Nat.eqb a b.
Definition oz_eqb (a b : option Z) : bool :=
  match a, b with Some x, Some y => x =? y | None, None => true | _, _ => false end.
Definition blocks_eqb (a b : list block) : bool :=
  all2 (fun x y => (fst x =? fst y) && zl_eqb (snd x) (snd y)) a b.
Definition onz_eqb (a b : option (nat * Z)) : bool :=
  match a, b with
  | Some (i, x), Some (j, y) => Nat.eqb i j && (x =? y)
  | None, None => true
  | _, _ => false
  end.

Definition mk_legs (ls : list (list block * Z)) : list leg := map (fun x => mkLeg (fst x) (snd x)) ls.

(* (chinfo, legs, qconj, sort, bunch, (charges, slices, q_map, q_map_slices, map_incoming_flat...)) *)
Definition check_pipe_case
  (c : chinfo * list (list block * Z) * Z * bool * bool *
       (list cvec * list Z * list (list Z) * list Z * list (option Z))) : bool :=
  let '(ci, ls, qconj, srt, bnch, (ch, sl, qm, qs, mf)) := c in
  let '(ch', sl', qm', qs', mf') := pipe_obs (pipe_init ci (mk_legs ls) qconj srt bnch) in
  zll_eqb ch ch' && zl_eqb sl sl' && zll_eqb qm qm' && zl_eqb qs qs' && all2 oz_eqb mf mf'
  (* the explicit inverse of the model inverts the implementation's index map *)
  && all2 (fun t k => match k with
                      | Some k' => match map_outgoing_flat (pipe_init ci (mk_legs ls) qconj srt bnch) k' with
                                   | Some t' => zl_eqb t t' | None => false end
                      | None => false end)
          (zgrid (map ind_len (mk_legs ls))) mf.

(* leg operations: (chinfo, (blocks, qconj), mask, (extra blocks, qconj),
     (sort(bunch) = (perm, blocks), sort(no bunch) = (perm, blocks), perm_flat of that perm,
      bunch = (idx, blocks), project = (map_qind, blocks), extend = blocks, flip = blocks,
      get_qindex on the listed indices)) *)
Definition check_leg_case
  (c : chinfo * (list block * Z) * list bool * (list block * Z) *
       ((list nat * list block) * (list nat * list block) * list Z * (list nat * list block) *
        (list Z * list block) * list block * list block * list (Z * option (nat * Z)))) : bool :=
  let '(ci, lg, mask, ex, (s1, s2, pf, bu, pr, xt, fl, gq)) := c in
  let l := mkLeg (fst lg) (snd lg) in
  let e := mkLeg (fst ex) (snd ex) in
  let r1 := sort_leg true l in
  let r2 := sort_leg false l in
  let rb := bunch_leg l in
  let rp := project_leg l mask in
  nl_eqb (fst s1) (fst r1) && blocks_eqb (snd s1) (blocks (snd r1)) &&
  nl_eqb (fst s2) (fst r2) && blocks_eqb (snd s2) (blocks (snd r2)) &&
  zl_eqb pf (perm_flat l (fst r2)) &&
  nl_eqb (fst bu) (fst rb) && blocks_eqb (snd bu) (blocks (snd rb)) &&
  zl_eqb (fst pr) (fst rp) && blocks_eqb (snd pr) (blocks (snd rp)) &&
  blocks_eqb xt (blocks (extend_leg ci l e)) &&
  blocks_eqb fl (blocks (flip_leg ci l)) &&
  forallb (fun iq => onz_eqb (snd iq) (get_qindex l (fst iq))) gq &&
  leg_equal ci l (flip_leg ci l) && contractible ci l (conj_leg l).
