(* Operations of np_conserved on the storage model of Model/Tensor.v, written after the code
   (itranspose / conj / iscale_prefactor / ibinary_blockwise + iadd_prefactor_other / outer / block pairing of
   tensordot).  Definitions only.  Tie: correspondence (K), see Model/TensorCheck.v. *)
From TenpyV Require Import Base.Prelude Model.Charge Model.Tensor.
Open Scope Z_scope.

(* ---- np.transpose / Array.itranspose:  new.legs[k] = old.legs[p[k]], _qdata[:, p], blocks transposed,
        _qdata_sorted = False *)
Definition gather {A} (d : A) (p : list nat) (l : list A) : list A := map (fun k => nth k l d) p.
Fixpoint index_of (k : nat) (p : list nat) : nat :=
  match p with [] => 0%nat | x :: t => if (x =? k)%nat then 0%nat else S (index_of k t) end.
Definition invperm (p : list nat) : list nat := map (fun k => index_of k p) (seq 0 (length p)).

Definition transpose (p : list nat) (a : arr) : arr :=
  mkArr (gather dleg p (legs a)) (qtot a)
        (map (fun b : block => (gather 0%nat p (fst b), fun j => snd b (gather 0%nat (invperm p) j))) (blks a))
        false.

(* ---- Array.conj: legs conjugated, qtotal = make_valid(-qtotal), entries conjugated, _qdata untouched *)
Definition conj (ci : chinfo) (a : arr) : arr :=
  mkArr (map conj_leg (legs a)) (make_valid ci (vneg (qtot a)))
        (map (fun b : block => (fst b, fun i => cconj (snd b i))) (blks a)) (qsorted a).

(* ---- Array.iscale_prefactor: prefactor == 0 drops all blocks and claims sortedness *)
Definition scale_blocks (s : C) (bs : list block) : list block :=
  map (fun b : block => (fst b, fun i => cmul s (snd b i))) bs.
Definition scale (s : C) (a : arr) : arr :=
  if ceqb s c0 then mkArr (legs a) (qtot a) [] true
  else mkArr (legs a) (qtot a) (scale_blocks s (blks a)) (qsorted a).

(* ---- Array.isort_qdata: TRUSTS the claim; otherwise (stable) sort of the rows *)
Fixpoint insert_block (b : block) (l : list block) : list block :=
  match l with
  | [] => [b]
  | c :: t => if row_lt (fst c) (fst b) then c :: insert_block b t else b :: l
  end.
Definition sort_blocks (l : list block) : list block := fold_right insert_block [] l.
Definition isort_qdata (a : arr) : arr :=
  if qsorted a then a else mkArr (legs a) (qtot a) (sort_blocks (blks a)) true.

(* ---- Array.ibinary_blockwise(np.add): merge of two lexsorted block lists *)
Definition badd (f g : list nat -> C) : list nat -> C := fun i => cadd (f i) (g i).
Fixpoint merge (la : list block) : list block -> list block :=
  match la with
  | [] => fun lb => lb
  | ba :: ta =>
      fix aux (lb : list block) : list block :=
        match lb with
        | [] => la
        | bb :: tb =>
            if row_eqb (fst ba) (fst bb) then (fst ba, badd (snd ba) (snd bb)) :: merge ta tb
            else if row_lt (fst bb) (fst ba) then bb :: aux tb
            else ba :: merge ta lb
        end
  end.

(* self.iadd_prefactor_other(alpha, other)  =  self.ibinary_blockwise(np.add, other * alpha)
   (labels in the same order: no transposition of `other`) *)
Definition add (alpha : C) (a b : arr) : arr :=
  let a1 := isort_qdata a in
  let b1 := isort_qdata (scale alpha b) in
  mkArr (legs a) (qtot a) (merge (blks a1) (blks b1)) true.

(* ---- outer: grid of block pairs, rows of `a` change fastest; _qdata_sorted = a.sorted and b.sorted *)
Definition outer_block (ra : nat) (ba bb : block) : block :=
  (fst ba ++ fst bb, fun idx => cmul (snd ba (firstn ra idx)) (snd bb (skipn ra idx))).
Definition outer (ci : chinfo) (a b : arr) : arr :=
  mkArr (legs a ++ legs b) (make_valid ci (vadd (qtot a) (qtot b)))
        (flat_map (fun bb => map (fun ba => outer_block (rank a) ba bb) (blks a)) (blks b))
        (qsorted a && qsorted b).

(* ---- tensordot(a, b, axes=k): last k legs of a with first k legs of b.
        Block pairing: a block of a and a block of b contribute to the result block
        (kept qindices of a ++ kept qindices of b) iff their contracted qindices agree. *)
Definition tdot_rows (k : nat) (a b : arr) : list (list nat) :=
  flat_map (fun rb => flat_map (fun ra =>
     if row_eqb (skipn (rank a - k) ra) (firstn k rb) then [firstn (rank a - k) ra ++ skipn k rb] else [])
     (rows a)) (rows b).
Definition tdot_legs (k : nat) (a b : arr) : list leg := firstn (rank a - k) (legs a) ++ skipn k (legs b).
Definition tdot_qtot (ci : chinfo) (a b : arr) : list Z := make_valid ci (vadd (qtot a) (qtot b)).
(* legs l (of a) and l' (of b) may be contracted: charges * qconj opposite (modulo), same block sizes *)
Definition contractible (ci : chinfo) (l l' : leg) : Prop :=
  bsz l = bsz l' /\
  forall q j, (j < length ci)%nat -> mv1 (nth j ci 1) (chg l q j + chg l' q j) = mv1 (nth j ci 1) 0.
