(* C08 -- MPS.sample_measurements (tenpy/networks/mps.py): the outcome / weight bookkeeping, hand-modelled from the source.
   Definitions only.  The numerics (tensordot, eigh, norm) are ABSTRACT here: the model is parametrised by a type K of
   amplitudes and a type V of tensors "theta" with the operations the loop uses; the theorems of Proofs/SampleP.v hold for every
   such structure satisfying the laws `amp_laws` (a commutative multiplicative structure in which the weights that occur are
   invertible, theta-operations linear).  The values returned by the implementation are compared with the dense Born
   amplitudes by the oracle of harness/c08.py (stream `sample`); the operator selection `sample_op_indices` is run against the
   implementation (stream `sample_ops`, checker check_sample_ops_case); the weight loop (sample_factors, sample_weight) is run
   against the implementation in the stream `sample_loop`: Model/SampleCheck.v instantiates K, V with exact Gaussian rationals /
   rank-3 tensors and compares the per-site weights and the returned weight with those of sample_measurements(ops=None) on
   MPS with exactly representable tensors (checker check_sample_case).

       sigmas = []; total_weight = 1.0
       theta = self.get_theta(first_site, n=1)
       for i in range(first_site, last_site + 1):
           if ops is not None: op_name = ops[(i - first_site) % len(ops)]; ... theta = V^dagger theta
           ... sigma = rng.choice(...)
           theta = theta.take_slice(sigma, 'p')
           weight = npc.norm(theta)
           total_weight *= weight
           if i != last_site:
               theta = theta / npc.norm(theta)
               theta = npc.tensordot(theta, self.get_B(i + 1), axes=['vR', 'vL'])
           elif self.bc == 'finite' and first_site == 0 and last_site == self.L - 1:
               total_weight = total_weight * theta[0, 0] / weight
       if not complex_amplitude: total_weight = np.abs(total_weight) ** 2
       return sigmas, total_weight                                                                                        *)
From TenpyV Require Import Base.Prelude.
Open Scope Z_scope.

(* ---- which operator measures which site:  range(first_site, last_site + 1)  and  ops[(i - first_site) % len(ops)] ---- *)
Fixpoint sample_sites_from (i : Z) (n : nat) : list Z :=
  match n with O => [] | S n' => i :: sample_sites_from (i + 1) n' end.

Definition sample_sites (first last : Z) : list Z := sample_sites_from first (Z.to_nat (last + 1 - first)).

(* (site, index into ops) for every iteration of the loop; Python's % with a positive right operand is Z.modulo *)
Definition sample_op_indices (first last nops : Z) : list (Z * Z) :=
  map (fun i => (i, (i - first) mod nops)) (sample_sites first last).

(* checker of the correspondence stream `sample_ops` of harness/c08.py: (first, last, len(ops), L, observed) where observed is
   the list of (index of the site object in the unit cell, index into ops) of the get_op calls of the loop, in order *)
Fixpoint sample_pairs_eqb (a b : list (Z * Z)) : bool :=
  match a, b with
  | [], [] => true
  | (x, y) :: a', (u, v) :: b' => (x =? u) && (y =? v) && sample_pairs_eqb a' b'
  | _, _ => false
  end.

Definition check_sample_ops_case (c : Z * Z * Z * Z * list (Z * Z)) : bool :=
  let '(first, last, nops, L, obs) := c in
  sample_pairs_eqb (map (fun p => (fst p mod L, snd p)) (sample_op_indices first last nops)) obs.

(* ---- the weight ---- *)
Section SampleWeight.
  Variables K V : Type.
  Variable kone : K.
  Variable kmul : K -> K -> K.
  Variable kinv : K -> K.                (* x / w is modelled as kmul x (kinv w) *)
  Variable abs2 : K -> K.                (* np.abs(x) ** 2 *)
  Variable pos : K -> Prop.              (* the values a norm may take when the outcome has non-zero probability *)
  Variable vnorm : V -> K.               (* npc.norm(theta) *)
  Variable vscale : K -> V -> V.         (* c * theta *)
  Variable vscalar : V -> K.             (* theta[0, 0] of a 1 x 1 theta *)
  Variable proj : Z -> Z -> V -> V.      (* site i, outcome sigma: (rotate to the eigenbasis of the selected operator,) take_slice *)
  Variable attach : Z -> V -> V.         (* tensordot(theta, get_B(i), axes=['vR', 'vL']) *)

  (* the loop: i = current site, theta = wave function before the projection on site i, total = total_weight so far,
     sig = outcomes of the sites i, i+1, ..., last_site;  full = (bc == 'finite' and first_site == 0 and last_site == L - 1) *)
  Fixpoint sample_loop (full : bool) (i : Z) (theta : V) (total : K) (sig : list Z) : K :=
    match sig with
    | [] => total
    | s :: r =>
        let th := proj i s theta in
        let w := vnorm th in
        let total' := kmul total w in
        match r with
        | [] => if full then kmul (kmul total' (vscalar th)) (kinv w) else total'
        | _ :: _ => sample_loop full (i + 1) (attach (i + 1) (vscale (kinv w) th)) total' r
        end
    end.

  Definition sample_weight (full complex_amplitude : bool) (first : Z) (theta0 : V) (sig : list Z) : K :=
    let t := sample_loop full first theta0 kone sig in
    if complex_amplitude then t else abs2 t.

  (* the list of the per-site `weight`s of the loop *)
  Fixpoint sample_factors (i : Z) (theta : V) (sig : list Z) : list K :=
    match sig with
    | [] => []
    | s :: r =>
        let th := proj i s theta in
        let w := vnorm th in
        w :: match r with [] => [] | _ :: _ => sample_factors (i + 1) (attach (i + 1) (vscale (kinv w) th)) r end
    end.

  (* SPECIFICATION side: the projected wave function without any normalisation,
     raw = <sigma_first ... sigma_k | psi>  (a tensor with the open legs vL, vR), for every prefix of the outcome *)
  Fixpoint raw_states (i : Z) (theta : V) (sig : list Z) : list V :=
    match sig with
    | [] => []
    | s :: r => let th := proj i s theta in th :: raw_states (i + 1) (attach (i + 1) th) r
    end.

  Definition raw_final (i : Z) (theta : V) (sig : list Z) : V := last (raw_states i theta sig) theta.

  (* joint amplitudes of the prefixes: N_k = |<sigma_first..sigma_k|psi>| = sqrt P(sigma_first..sigma_k) *)
  Definition joint_norms (i : Z) (theta : V) (sig : list Z) : list K := map vnorm (raw_states i theta sig).

  (* conditional amplitudes  N_k / N_{k-1}  with N_{first-1} = 1 *)
  Fixpoint ratios (prev : K) (l : list K) : list K :=
    match l with [] => [] | x :: r => kmul x (kinv prev) :: ratios x r end.

  Definition kprod (l : list K) : K := fold_right kmul kone l.

  Record amp_laws : Prop := {
    al_assoc : forall a b c, kmul a (kmul b c) = kmul (kmul a b) c;
    al_comm : forall a b, kmul a b = kmul b a;
    al_one : forall a, kmul kone a = a;
    al_inv : forall a, pos a -> kmul (kinv a) a = kone;
    al_pos_one : pos kone;
    al_pos_mul : forall a b, pos a -> pos b -> pos (kmul a b);
    al_pos_inv : forall a, pos a -> pos (kinv a);
    al_abs2_one : abs2 kone = kone;
    al_abs2_mul : forall a b, abs2 (kmul a b) = kmul (abs2 a) (abs2 b);
    al_scale_one : forall v, vscale kone v = v;
    al_scale_scale : forall a b v, vscale a (vscale b v) = vscale (kmul a b) v;
    al_norm_scale : forall c v, pos c -> vnorm (vscale c v) = kmul c (vnorm v);
    al_scalar_scale : forall c v, vscalar (vscale c v) = kmul c (vscalar v);
    al_proj_lin : forall i s c v, proj i s (vscale c v) = vscale c (proj i s v);
    al_attach_lin : forall i c v, attach i (vscale c v) = vscale c (attach i v)
  }.
End SampleWeight.
