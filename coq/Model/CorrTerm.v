(* C08 -- term_correlation_function_right / _left (tenpy/networks/mps.py, autoJW=True): which operator word is contracted on
   which site, hand-modelled from the source on top of the correspondence-checked model `term_to_ops_list` of Model/JW.v
   (stream `ops_list` of harness/c08.py).  Definitions only.  The values are compared with dense <bra|O|ket> by the oracle of
   harness/c08.py (measurements term_correlation_function_right/left); tcf_right_words / tcf_left_words are run against the
   implementation in the stream `tcf_words` (Model/CorrTermCheck.v, checker check_tcf_case: the words handed to _corr_ops_LP /
   _corr_ops_RP and applied in the gap, and the two ValueErrors).

   A term is a list of items (operator id, site, needs_JW); `_term_to_ops_list(term, autoJW, i_offset, JW_from_right)` looks the
   flag up on site i + i_offset and returns i_min + i_offset: in the model the flags travel with the items, so the offset is a
   shift of the sites.

   right variant (fixed i_L, list j_R sorted ascending, j0 = j_R[0], j = the entry of j_R under consideration):
       ops_R, j_min, has_extra_JW = self._term_to_ops_list(term_R, autoJW, j_R[0]);  j_min = j_min - j_R[0]
       opstr = 'JW' if has_extra_JW else None
       ops_L, i_min, has_extra_JW = self._term_to_ops_list(term_L, autoJW, i_L, has_extra_JW);  raise if has_extra_JW
       CL = _corr_ops_LP(ops_L, i_min);  i = i_min + len(ops_L);  raise if i > j_R[0] + j_min
       for j in j_R:  j = j + j_min;  assert i <= j;  sites i..j-1: opstr;  ops_R = _term_to_ops_list(term_R, autoJW, j - j_min)
                      CR = _corr_ops_RP(ops_R, j)
   left variant (fixed j_R, list i_L sorted descending, i0 = i_L[0], i = the entry of i_L under consideration):
       ops_R, j_min, JW_from_right = self._term_to_ops_list(term_R, autoJW, j_R)
       opstr = 'JW' if JW_from_right else None
       ops_L, i_min, has_extra_JW = self._term_to_ops_list(term_L, autoJW, i_L[0], JW_from_right);  i_min = i_min - i_L[0]
       raise if has_extra_JW;  CR = _corr_ops_RP(ops_R, j_min);  j = j_min;  raise if i_L[0] + i_min + len(ops_L) - 1 > j
       for i in i_L:  i0 = i + i_min + len(ops_L) - 1;  assert i0 <= j;  sites j-1 .. i0+1: opstr
                      ops_L = _term_to_ops_list(term_L, autoJW, i, JW_from_right);  CL = _corr_ops_LP(ops_L, i + i_min)           *)
From TenpyV Require Import Base.Prelude Model.JW.
Open Scope Z_scope.

Definition shift_term (d : Z) (t : list item) : list item :=
  map (fun x => mkItem (it_op x) (it_site x + d) (it_f x)) t.

(* the word of an operator list `ops` that starts on site i0, on site k *)
Definition ops_at_site (ops : list word) (i0 k : Z) : word :=
  if (i0 <=? k) && (k <? i0 + Z.of_nat (length ops)) then nth (Z.to_nat (k - i0)) ops [] else [].

Definition tcf_right_words (tL tR : list item) (iL j0 j k : Z) : option word :=
  let '(_, jmin0, extraR) := term_to_ops_list (shift_term j0 tR) true (Some false) in
  let jmin := jmin0 - j0 in
  let '(opsL, imin, extraL) := term_to_ops_list (shift_term iL tL) true (Some extraR) in
  if extraL then None else
  let i := imin + Z.of_nat (length opsL) in
  if j0 + jmin <? i then None else
  if j + jmin <? i then None else
  let '(opsR, _, _) := term_to_ops_list (shift_term j tR) true (Some false) in
  Some (if k <? i then ops_at_site opsL imin k
        else if k <? j + jmin then (if extraR then [JWl] else [])
        else ops_at_site opsR (j + jmin) k).

Definition tcf_left_words (tL tR : list item) (i0 i jR k : Z) : option word :=
  let '(opsR, jmin, jwfr) := term_to_ops_list (shift_term jR tR) true (Some false) in
  let '(opsL0, imin0, extraL) := term_to_ops_list (shift_term i0 tL) true (Some jwfr) in
  let imin := imin0 - i0 in
  if extraL then None else
  if jmin <? i0 + imin + Z.of_nat (length opsL0) - 1 then None else
  let iend := i + imin + Z.of_nat (length opsL0) - 1 in
  if jmin <? iend then None else
  let '(opsL, _, _) := term_to_ops_list (shift_term i tL) true (Some jwfr) in
  Some (if k <=? iend then ops_at_site opsL (i + imin) k
        else if k <? jmin then (if jwfr then [JWl] else [])
        else ops_at_site opsR jmin k).

(* the documented operator  (term_L shifted by i) (term_R shifted by j),  term_L strictly left of term_R, site by site, as
   the Jordan-Wigner words of Model/JW.v restricted to the window [first site of term_L, last site of term_R]: the string
   of term_R crosses term_L and the gap iff term_R has odd fermion parity *)
Definition tcf_doc_words (tL tR : list item) (i j k : Z) : word :=
  let a := min_site tL + i in let b := max_site tL + i in
  let c := min_site tR + j in let d := max_site tR + j in
  let s := if total_parity tR then [JWl] else [] in
  if (a <=? k) && (k <=? b) then phys_word (shift_term i tL) k ++ s
  else if (b <? k) && (k <? c) then s
  else if (c <=? k) && (k <=? d) then phys_word (shift_term j tR) k
  else [].
