(* Correspondence checker for the MPS layer Model/StoreMps.v on the store model Model/Store.v (property C03).
   Definitions only.  harness/c03.py (stream `mps-history`, generator harness/c03_mpshist.py, runner
   harness/impl/c03_mpshist_impl.py) executes random MPS-level histories on tenpy.networks.mps.MPS:
     the caller builds L tensors (registers 0 .. L-1), possibly with permuted axes, and calls MPS(sites, Bs, SVs, form=..);
     then a random sequence of
       psi.get_B(i, form, copy)           -> a new register, unless it raises (non-canonical site and a form requested),
       psi.set_B(i, B, form)               with B a tensor held in a register,
       a measurement                       (expectation_value, entanglement_entropy, overlap, get_theta, norm_test,
                                            correlation_function ...; the get_B calls it makes are recorded from outside),
       an operation of Store.v on registers (copies, a * s, a + b, and the IN-PLACE methods iscale_prefactor /
                                            iadd_prefactor_other / itranspose, preferably on a tensor returned by get_B).
   Before and after every step the runner fingerprints every register (caller tensors, returned tensors) and every
   STORED tensor psi._B[j] (dense values, labels, qtotal, identity and content of the legs) and reports which changed.
   `check_mps_history` replays the history with mps_init / get_B / set_B / run_meas / exec of the model and requires
     - constructor: no caller tensor changed; site j shares a block buffer with the caller's tensor exactly as the
       implementation's psi._B[j] owns common memory with Bs[j] (never);
     - get_B: raises exactly when the model returns None; no register and no stored tensor changed; the result is the
       stored object itself exactly when the model returns the stored reference; it owns common block memory with the
       stored tensor exactly when the model's result shares a buffer with it;
     - set_B: only the caller's tensor B (all registers holding that object) and the sites that now hold B changed;
     - measurement: nothing changed (registers and stored tensors);
     - operation o: every changed register and every changed stored tensor is in may_change h o.
   All steps must be applicable (registers exist, site indices < L). *)
From TenpyV Require Import Base.Prelude Model.Store Model.StoreMps.
Open Scope Z_scope.

Definition sc_dbl (sv : list Z) (d : Z) (v : list Z) : list Z := dbl v.

Inductive mh_op :=
| MHOp (k : hop) (ra rb : nat)
| MHGet (i : nat) (fm : form) (cp : bool) (raised same shares : bool)
| MHSet (i rb : nat) (fm : form) (perm : list nat)
| MHMeas (gets : list (nat * form * bool)).
(* operation, registers observed as changed, sites whose stored tensor was observed as changed *)
Definition mh_step : Type := (mh_op * list nat * list nat)%type.

Record mst := mkMst { mh : heap; mregs : list nat; mm : mps }.
Definition reg (s : mst) (r : nat) : nat := nth r (mregs s) 0%nat.
Definition has_reg (s : mst) (r : nat) : bool := (r <? length (mregs s))%nat.
Definition has_site (s : mst) (i : nat) : bool := (i <? length (sites (mm s)))%nat.
Definition both_nil (a b : list nat) : bool := match a, b with [], [] => true | _, _ => false end.

Definition hop_regs_ok (s : mst) (k : hop) (ra rb : nat) : bool :=
  match k with
  | HNew _ lgs => forallb (fun i => (i <? length (legs (mh s)))%nat) lgs
  | HBinWrite | HAdd | HTensordot => has_reg s ra && has_reg s rb
  | _ => has_reg s ra
  end.

(* one step: (accepted, next state) *)
Definition mh_exec (s : mst) (st : mh_step) : bool * mst :=
  match st with (o, chr, chs) =>
    let h := mh s in let m := mm s in
    match o with
    | MHOp k ra rb =>
        let oo := to_op h k (reg s ra) (reg s rb) in
        let '(h', res) := exec h oo in
        let allowed := may_change h oo in
        (hop_regs_ok s k ra rb && forallb (has_reg s) chr && forallb (has_site s) chs &&
         subset (map (reg s) chr) allowed && subset (map (site m) chs) allowed,
         mkMst h' (mregs s ++ [res]) m)
    | MHGet i fm cp raised same shares =>
        match get_B sc_dbl h m i fm cp with
        | None => (has_site s i && raised && both_nil chr chs, s)
        | Some (h', r) =>
            (has_site s i && negb raised && both_nil chr chs &&
             Bool.eqb same (Nat.eqb r (site m i)) &&
             (same || Bool.eqb shares (shares_buffer h' r (site m i))),
             mkMst h' (mregs s ++ [r]) m)
        end
    | MHSet i rb fm perm =>
        let b := reg s rb in
        let '(h', m') := set_B h m i b fm perm in
        (has_site s i && has_reg s rb && forallb (has_reg s) chr && forallb (has_site s) chs &&
         (length perm =? length (lg (obj h b)))%nat && forallb (fun k => (k <? length perm)%nat) perm &&
         forallb (fun r => Nat.eqb (reg s r) b) chr && forallb (fun j => Nat.eqb (site m' j) b) chs,
         mkMst h' (mregs s) m')
    | MHMeas gets =>
        (forallb (fun g => has_site s (fst (fst g))) gets && both_nil chr chs,
         mkMst (run_meas sc_dbl h m (map (fun g => MsGet (fst (fst g)) (snd (fst g)) (snd g)) gets)) (mregs s) m)
    end
  end.

Fixpoint mh_run (s : mst) (steps : list mh_step) : bool :=
  match steps with
  | [] => true
  | st :: t => let r := mh_exec s st in fst r && mh_run (snd r) t
  end.

(* the caller's tensors: ONew nb lgs each, registers 0 .. *)
Fixpoint mh_news (h : heap) (news : list (nat * list nat)) : heap * list nat :=
  match news with
  | [] => (h, [])
  | (nb, lgs) :: t => let '(h1, r) := exec h (ONew nb lgs) in
                      let '(h2, rs) := mh_news h1 t in (h2, r :: rs)
  end.

(* number of LegCharge objects, caller tensors (blocks, legs), constructor arguments (register, axes permutation),
   forms, constructor observations (changed registers, per site: owns common memory with its source), steps *)
Definition mps_hist_case : Type :=
  (nat * list (nat * list nat) * list (nat * list nat) * list form * (list nat * list bool) * list mh_step)%type.
Definition mk_mps_hist_case (c : mps_hist_case) : mps_hist_case := c.

Definition check_mps_history (c : mps_hist_case) : bool :=
  match c with (nlegs, news, bs, fms, (ich, ish), steps) =>
    let '(h1, regs) := mh_news (mkHeap [] [] (repeat dleg nlegs) []) news in
    let args := map (fun bp : nat * list nat => (nth (fst bp) regs 0%nat, snd bp)) bs in
    let '(h2, m) := mps_init h1 args fms 1 [] in
    forallb (fun nl : nat * list nat => forallb (fun i => (i <? nlegs)%nat) (snd nl)) news &&
    forallb (fun bp : nat * list nat => (fst bp <? length regs)%nat &&
                                         (length (snd bp) =? length (lg (obj h1 (nth (fst bp) regs 0%nat))))%nat &&
                                         forallb (fun k => (k <? length (snd bp))%nat) (snd bp)) bs &&
    (length fms =? length bs)%nat && (length ish =? length bs)%nat &&
    match ich with [] => true | _ => false end &&
    forallb (fun p : nat * bool =>
               Bool.eqb (snd p) (shares_buffer h2 (site m (fst p)) (nth (fst (nth (fst p) bs (0%nat, []))) regs 0%nat)))
            (combine (seq 0 (length ish)) ish) &&
    mh_run (mkMst h2 regs m) steps
  end.
