(* Correspondence checker for Model/MpsProduct.v (C07): one observed MPS.from_product_state call.
   case = (finite?, mods of the ChargeInfo, chargeL, sites, observed tensors, observed get_total_charge)
   site = ((block sizes, block charges, qconj) of site.leg, block of the chosen state, position inside the block)
   observed tensor = (vL charges, vL qconj, vR charges, vR qconj, qtotal, qindices (vL, p, vR) of its single block)
   get_total_charge is observed with only_physical_legs = finite?. *)
From TenpyV Require Import Base.Prelude Model.Charge Model.Tensor Model.TensorOps Model.MpsProduct.
Open Scope Z_scope.

Fixpoint ll_eqb (a b : list (list Z)) : bool :=
  match a, b with
  | [], [] => true
  | x :: a', y :: b' => list_eqb x y && ll_eqb a' b'
  | _, _ => false
  end.
Fixpoint nl_eqb (a b : list nat) : bool :=
  match a, b with
  | [], [] => true
  | x :: a', y :: b' => (x =? y)%nat && nl_eqb a' b'
  | _, _ => false
  end.

Definition site_lit := ((list nat * list (list Z) * Z) * nat * nat)%type.
Definition psite_of (s : site_lit) : psite :=
  let '((sz, ch, q), blk, pos) := s in mkPsite (mkLeg sz ch q) blk pos.

Definition obsB := (list (list Z) * Z * list (list Z) * Z * list Z * list nat)%type.

Definition eqb_B (b : arr) (o : obsB) : bool :=
  let '(lch, lq, rch, rq, qt, row) := o in
  ll_eqb (bch (legL_of b)) lch && (qc (legL_of b) =? lq) && nl_eqb (bsz (legL_of b)) [1%nat] &&
  ll_eqb (bch (legR_of b)) rch && (qc (legR_of b) =? rq) && nl_eqb (bsz (legR_of b)) [1%nat] &&
  list_eqb (qtot b) qt &&
  match rows b with [r] => nl_eqb r row | _ => false end.

Fixpoint eqb_Bs (bs : list arr) (os : list obsB) : bool :=
  match bs, os with
  | [], [] => true
  | b :: bs', o :: os' => eqb_B b o && eqb_Bs bs' os'
  | _, _ => false
  end.

Definition check_product_case (c : bool * list Z * list Z * list site_lit * list obsB * list Z) : bool :=
  let '(fin, ci, chargeL, sites, obs, total) := c in
  let Bs := from_product_state fin ci chargeL (map psite_of sites) in
  eqb_Bs Bs obs && list_eqb (get_total_charge ci fin Bs) total.
