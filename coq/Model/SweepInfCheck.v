(* Correspondence checker for Model/SweepInf.v (property C13, infinite bc): definitions only.
   harness/c13.py (stream `env-trace-inf`) instruments infinite DMRG runs (TwoSiteDMRGEngine / SingleSiteDMRGEngine on an
   infinite MPS, harness/impl/c13_impl.py `InfEnvTracer`: env.get_LP / get_RP / set_LP / set_RP / del_LP / del_RP /
   _contract_LP / _contract_RP, psi.set_B, free_no_longer_needed_envs wrapped from outside) starting from the fresh
   environment (only LP[0], RP[L-1], age 0).  The tracer keeps for every stored environment the version numbers of the
   site tensors it was contracted from (nearest factor first) and reports per local update
     - the schedule entry the engine executed,
     - the two environments read for eff_H (first get_LP / get_RP of the step) as booleans "factor contracted from the
       version of the site that was current at the time of the read" (first 2L+2 factors),
     - for every key 0..L-1 of the stored LP / RP after free_no_longer_needed_envs: None when nothing is stored, else
       the same booleans (relative to the versions after the update) and the age kept by the environment
       (env._LP_age / env._RP_age).
   `check_inf_run` replays the entries with step_i from init_i and compares all of it: which keys are stored, every
   boolean of every stored tag, length of the model tag = min(age, 2L+2), and the two tags read for eff_H. *)
From TenpyV Require Import Base.Prelude Model.Sweep Model.SweepInf.

Definition btag_eqb (a b : btag) : bool :=
  (length a =? length b)%nat && forallb (fun p => Bool.eqb (fst p) (snd p)) (combine a b).
Definition obtag_eqb (a b : option btag) : bool :=
  match a, b with
  | Some x, Some y => btag_eqb x y
  | None, None => true
  | _, _ => false
  end.

(* one key of the stored environments: model tag against (booleans, age) of the implementation *)
Definition slot_ok (L : nat) (m : option btag) (r : option (btag * nat)) : bool :=
  match m, r with
  | None, None => true
  | Some t, Some (b, age) => btag_eqb t b && (length t =? Nat.min age (cap L))%nat
  | _, _ => false
  end.
Fixpoint slots_ok (L : nat) (ms : list (option btag)) (rs : list (option (btag * nat))) : bool :=
  match ms, rs with
  | [], [] => true
  | m :: ms', r :: rs' => slot_ok L m r && slots_ok L ms' rs'
  | _, _ => false
  end.

Definition inf_snapshot := (list (option (btag * nat)) * list (option (btag * nat)))%type.
(* entry, (LP read for eff_H, RP read for eff_H), stored environments after the step *)
Definition inf_step_case := (entry * (option btag * option btag) * inf_snapshot)%type.
Definition inf_case := (nat * nat * list inf_step_case)%type.
Definition mk_inf_case (c : inf_case) : inf_case := c.

Fixpoint check_inf_steps (L n : nat) (s : ist) (steps : list inf_step_case) : bool :=
  match steps with
  | [] => true
  | (e, (rl, rr), (sl, sr)) :: rest =>
      let i0 := fst (fst e) in
      let r1 := get_lp_i L s i0 in
      let r2 := get_rp_i L (fst r1) (i0 + n - 1) in
      let s' := fst (step_i L n s e) in
      obtag_eqb (snd r1) rl && obtag_eqb (snd r2) rr &&
      slots_ok L (ilp s') sl && slots_ok L (irp s') sr &&
      check_inf_steps L n s' rest
  end.

Definition check_inf_run (c : inf_case) : bool :=
  match c with (L, n, steps) =>
    (n <=? L)%nat && (2 <=? L)%nat && ((n =? 1)%nat || (n =? 2)%nat) && check_inf_steps L n (init_i L) steps
  end.
