(* Model of the nearest-neighbour bond decomposition of a Hamiltonian given by onsite and coupling
   terms (tenpy/models/model.py: CouplingMPOModel/NearestNeighborModel `calc_H_bond`;
   tenpy/networks/terms.py: `CouplingTerms.to_nn_bond_Arrays`, `OnsiteTerms.add_to_nn_bond_Arrays`
   with distribute=(0.5, 0.5)).  Definitions only (proofs in Proofs/BondSumP.v).

   `H_bond` is a list of length L; `H_bond[j]` acts on sites (j-1, j).  A bond operator is a LOCAL
   two-site polynomial: a list of (weight, a, b) meaning weight * op_a (x) op_b on (left site,
   right site) of the bond; operator id 0 is the identity 'Id'; the empty list is `None` (= 0).

   WEIGHTS ARE DOUBLED Gaussian integers: weight (2,0)*w stands for the factor 1.0 * w, weight
   (1,0)*w for the factor 0.5 * w, so that the (0.5, 0.5) distribution of the onsite terms is exact.
   Consequently the sum of all embedded bond operators is 2 * (the sum of the terms).

   Deviation from the code that does not change the operator: `add_to_nn_bond_Arrays` first sums all
   onsite terms of a site j into one array H_j (`to_Arrays`) and then adds dist * Id (x) H_j; here the
   onsite terms are processed one by one (outer product and scaling are linear). *)
From TenpyV Require Import Base.Prelude Model.Automaton.
Open Scope Z_scope.

Definition lmono := (C * Z * Z)%type.        (* (doubled weight, op on left site, op on right site) *)
Definition bondop := list lmono.             (* one H_bond[j]; [] is None *)
Definition hbond := list bondop.             (* H_bond *)
Definition c2 : C := (2, 0).

(* H_bond[j] = f (H_bond[j]) *)
Fixpoint upd_bond (j : nat) (f : bondop -> bondop) (h : hbond) : hbond :=
  match h, j with
  | [], _ => []
  | b :: h', O => f b :: h'
  | b :: h', S j' => b :: upd_bond j' f h'
  end.
(* H_bond[j] = add_with_None_0(H_bond[j], m) *)
Definition add_bond (j : nat) (m : lmono) (h : hbond) : hbond := upd_bond j (fun b => b ++ [m]) h.

(* ---- CouplingTerms.to_nn_bond_Arrays *)
(* the term does not raise 'not nearest neighbor' (i + 1 = j) and lies inside the finite chain *)
Definition nn_ok (L : nat) (t : cterm) : bool := Nat.eqb (ct_j t) (S (ct_i t)) && (ct_j t <? L)%nat.
(* infinite bc: i in the unit cell, j = i + 1 may be L (the bond to the next unit cell) *)
Definition nn_ok_inf (L : nat) (t : cterm) : bool := Nat.eqb (ct_j t) (S (ct_i t)) && (ct_i t <? L)%nat.
(* loop body: j = j % L; H_bond[j] += strength * outer(op_i, op_j)   (doubled weight 2 * strength) *)
Definition nn_step (L : nat) (h : hbond) (t : cterm) : hbond :=
  add_bond (ct_j t mod L)%nat (cmul c2 (ct_w t), ct_a t, ct_b t) h.
Definition to_nn_bond (L : nat) (cts : list cterm) : hbond :=
  fold_left (nn_step L) cts (repeat [] L).

(* ---- OnsiteTerms.add_to_nn_bond_Arrays(H_bond, sites, finite, distribute=(0.5, 0.5)) *)
(* (dist_L, dist_R), doubled, with the tests in the order of the code *)
Definition dist2 (finite : bool) (L j : nat) : C * C :=
  if finite && Nat.eqb j 0 then (c0, c2)
  else if finite && Nat.eqb j (L - 1) then (c2, c0)
  else (c1, c1).
(* loop body for one onsite term (op, w) of site j *)
Definition onsite_step (finite : bool) (L : nat) (h : hbond) (t : oterm) : hbond :=
  let j := ot_i t in
  let dL := fst (dist2 finite L j) in
  let dR := snd (dist2 finite L j) in
  let h1 := if ceqb dL c0 then h else add_bond j (cmul dL (ot_w t), 0, ot_op t) h in
  if ceqb dR c0 then h1 else add_bond (S j mod L)%nat (cmul dR (ot_w t), ot_op t, 0) h1.
Definition add_to_nn_bond (finite : bool) (L : nat) (ots : list oterm) (h : hbond) : hbond :=
  fold_left (onsite_step finite L) ots h.

(* ---- Model.calc_H_bond (explicit_plus_hc = False): couplings first, then the onsite terms *)
Definition h_bond (finite : bool) (L : nat) (ots : list oterm) (cts : list cterm) : hbond :=
  add_to_nn_bond finite L ots (to_nn_bond L cts).
(* with the exceptions: None when 'not nearest neighbor' is raised or, for finite chains, when the
   assertion `H_bond[0] is None` fails *)
Definition calc_H_bond_fin (L : nat) (ots : list oterm) (cts : list cterm) : option hbond :=
  if forallb (fun t => Nat.eqb (ct_j t) (S (ct_i t))) cts then
    let h := h_bond true L ots cts in
    match nth 0 h [] with [] => Some h | _ :: _ => None end
  else None.

(* ---- the chain operator a bond operator stands for *)
(* finite chain: bond j joins sites (j-1, j) *)
Definition embed_bond (j : nat) (m : lmono) : mono :=
  (fst (fst m), consop (j - 1) (snd (fst m)) (consop j (snd m) [])).
(* ring of L sites (unit cell of an infinite chain, sites modulo L): bond 0 joins sites (L-1, 0);
   words are site-sorted, so the right operator (site 0) comes first *)
Definition embed_bond_inf (L : nat) (j : nat) (m : lmono) : mono :=
  if Nat.eqb j 0 then (fst (fst m), consop 0 (snd m) (consop (L - 1) (snd (fst m)) []))
  else embed_bond j m.
(* sum over the bonds k, k+1, ... of the embedded bond operators *)
Fixpoint embed_from (e : nat -> lmono -> mono) (k : nat) (h : hbond) : poly :=
  match h with
  | [] => []
  | b :: h' => map (e k) b ++ embed_from e (S k) h'
  end.
(* sum_j H_bond[j], finite chain *)
Definition bond_sum (L : nat) (ots : list oterm) (cts : list cterm) : poly :=
  embed_from embed_bond 0 (h_bond true L ots cts).
(* sum_j H_bond[j], infinite bc (one unit cell, sites modulo L) *)
Definition bond_sum_inf (L : nat) (ots : list oterm) (cts : list cterm) : poly :=
  embed_from (embed_bond_inf L) 0 (h_bond false L ots cts).

(* normal form of a nearest-neighbour coupling term *)
Definition nf_nn (t : cterm) : mono :=
  (ct_w t, consop (ct_i t) (ct_a t) (consop (ct_j t) (ct_b t) [])).
(* the same with sites modulo L (j = L is site 0 of the ring) *)
Definition nf_nn_inf (L : nat) (t : cterm) : mono :=
  if Nat.eqb (ct_j t) L then (ct_w t, consop 0 (ct_b t) (consop (ct_i t) (ct_a t) []))
  else nf_nn t.
