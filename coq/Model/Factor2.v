(* C05, additional models (definitions only; evaluated against the code by Model/FactorCase2.v: check_lq_case on
   the lq cases, check_eig_case in the 'plan' stream of harness/c05.py with stubbed per-block LAPACK results):
   - lq: np_conserved.lq(a) = transposed results of qr(a.transpose()), so its charge plan is the plan of
     Model/Factor.v (qr_charges, correspondence-checked for qr AND lq cases by harness/c05.py) on the
     transposed matrix;
   - eigh / eig (_eig_worker): the plan around the per-block LAPACK call: resv = diag(1, legs[0]),
     resw = zeros, then for every stored block  resv._data[qi] = rv  and  resw[slice(qi)] = rw.
   The eig model is a line-by-line transcription of _eig_worker after as_completely_blocked; check_eig_case compares
   its result with resv._qdata / _data and resw of npc.eigh / eig on completely blocked matrices. *)
From TenpyV Require Import Base.Prelude Model.ChargeL Model.Leg Model.Factor.
Open Scope Z_scope.

(* ---------------------------------------------------------------- lq *)
(* a.transpose() of a completely blocked matrix: legs swapped, qdata columns swapped, same qtotal *)
Definition tmat (a : mat) : mat :=
  mkMat (mR a) (mL a) (mq a) (map (fun ij => (snd ij, fst ij)) (mdata a)).

(* lq: (L, Q) = (r.transpose(), q.transpose()) with (q, r) = qr(a.transpose()):
   L.legs = [a.legs[0], inner], Q.legs = [inner.conj(), a.legs[1]], inner = r_inner,
   Q.qtotal = r_qQ, L.qtotal = r_qR; r_map: old block number of a.legs[1] -> inner block *)
Definition lq_charges (ci : chinfo) (a : mat) (ks : list Z) (complete : bool) (qQ : option cvec) (iq : Z) : qr_plan :=
  qr_charges ci (tmat a) ks complete qQ iq.

(* ---------------------------------------------------------------- eigh / eig *)
(* l[i] = x (python list item assignment; i < len l in the plan) *)
Definition set_nth {A} (i : nat) (x : A) (l : list A) : list A :=
  if (i <? length l)%nat then firstn i l ++ x :: skipn (S i) l else l.

(* w[start : start + len v] = v  (numpy slice assignment with a value of exactly that length) *)
Definition set_slice {A} (start : nat) (v w : list A) : list A :=
  firstn start w ++ v ++ skipn (start + length v) w.

Section EigPlan.
  Context {B W : Type}.
  Variable eye : Z -> B.                 (* np.eye(n) *)
  Variable w0 : W.                       (* 0.0 *)
  Variable eigb : nat -> list W * B.     (* np.linalg.eigh / eig of stored block number k (+ optional sort): (rw, rv) *)

  (* diag(1., leg): one identity block per block of the leg, in leg order *)
  Definition diag_data (l : leg) : list (nat * nat * B) :=
    map (fun i => (i, i, eye (fst (blk l i)))) (seq 0 (nblocks l)).

  Fixpoint eig_loop (l : leg) (data : list (nat * nat)) (k : nat) (st : list (nat * nat * B) * list W)
    : list (nat * nat * B) * list W :=
    match data with
    | [] => st
    | (qi, _) :: dt =>
        let '(rw, rv) := eigb k in
        eig_loop l dt (S k)
          (set_nth qi (qi, qi, rv) (fst st), set_slice (Z.to_nat (offs (bsz l) qi)) rw (snd st))
    end.

  (* (resv._qdata/_data, resw); resv.legs = [l, l.conj()], resv.qtotal = 0 *)
  Definition eig_plan (l : leg) (data : list (nat * nat)) : list (nat * nat * B) * list W :=
    eig_loop l data 0 (diag_data l, repeat w0 (Z.to_nat (ind_len l))).

  (* number of the first stored block whose row block is q *)
  Fixpoint stored_at (q : nat) (data : list (nat * nat)) (k : nat) : option nat :=
    match data with
    | [] => None
    | (qi, _) :: dt => if Nat.eqb qi q then Some k else stored_at q dt (S k)
    end.

  (* what the documentation promises for sector q *)
  Definition sector_v (l : leg) (data : list (nat * nat)) (q : nat) : B :=
    match stored_at q data 0 with Some k => snd (eigb k) | None => eye (fst (blk l q)) end.
  Definition sector_w (l : leg) (data : list (nat * nat)) (q : nat) : list W :=
    match stored_at q data 0 with Some k => fst (eigb k) | None => repeat w0 (Z.to_nat (fst (blk l q))) end.
End EigPlan.
