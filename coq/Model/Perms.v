(* Model of MPS.permute_sites (tenpy/networks/mps.py): the while-loop over adjacent swap_sites with the
   `perm` list mutated alongside, and the fermionic sign (-1)^{n_i n_{i+1}} each swap_sites(i, 'auto') applies
   to a Fock basis state.  Definitions only; proofs in Proofs/PermsP.v.

     i = 0
     while i < L - 1:
         if perm[i] > perm[i + 1]:
             swap_sites(i); perm[i], perm[i+1] = perm[i+1], perm[i]
             if i > 0: i -= 1
         else: i += 1

   State of the model: loop index, the perm list, the arrangement (what sits on each position: an identifier and
   the parity of the occupation number of the basis state under consideration), the log of swap positions, and the
   accumulated sign (true = -1). *)
From TenpyV Require Import Base.Prelude.
Open Scope Z_scope.

Fixpoint swap_at {A : Type} (i : nat) (l : list A) : list A :=
  match i, l with
  | O, x :: y :: t => y :: x :: t
  | Datatypes.S i', x :: t => x :: swap_at i' t
  | _, _ => l
  end.

Record pst := mkPst {
  p_i : nat;
  p_perm : list Z;
  p_arr : list (Z * bool);
  p_log : list nat;
  p_sign : bool }.

Definition parity_at (arr : list (Z * bool)) (i : nat) : bool := snd (nth i arr (0, false)).

(* one iteration of the loop body; None = loop condition false *)
Definition step (s : pst) : option pst :=
  let i := p_i s in
  if (Datatypes.S i <? length (p_perm s))%nat then
    if nth (Datatypes.S i) (p_perm s) 0 <? nth i (p_perm s) 0 then
      Some (mkPst (Nat.pred i) (swap_at i (p_perm s)) (swap_at i (p_arr s)) (p_log s ++ [i])
                  (xorb (p_sign s) (parity_at (p_arr s) i && parity_at (p_arr s) (Datatypes.S i))))
    else Some (mkPst (Datatypes.S i) (p_perm s) (p_arr s) (p_log s) (p_sign s))
  else None.

Fixpoint run (fuel : nat) (s : pst) : pst :=
  match fuel with
  | O => s
  | Datatypes.S f => match step s with None => s | Some s' => run f s' end
  end.

Definition init (perm : list Z) (arr : list (Z * bool)) : pst := mkPst 0 perm arr [] false.

(* fuel: at most 2 * #inversions + L iterations; #inversions <= L*L *)
Definition fuel_for (perm : list Z) : nat := 2 * (length perm * length perm) + length perm + 1.

Definition permute (perm : list Z) (arr : list (Z * bool)) : pst := run (fuel_for perm) (init perm arr).

(* number of pairs (j < k) with f l_j l_k *)
Fixpoint countb {A : Type} (f : A -> bool) (l : list A) : nat :=
  match l with [] => 0%nat | x :: t => ((if f x then 1 else 0) + countb f t)%nat end.

Fixpoint ginv {A : Type} (f : A -> A -> bool) (l : list A) : nat :=
  match l with [] => 0%nat | x :: t => (countb (f x) t + ginv f t)%nat end.

(* inversion of the keys *)
Definition inv_key (x y : Z * (Z * bool)) : bool := fst y <? fst x.
(* inversion between two positions that both carry an odd occupation *)
Definition inv_odd (x y : Z * (Z * bool)) : bool := (fst y <? fst x) && snd (snd x) && snd (snd y).

(* ---- correspondence checker: (perm, dims of the sites before, swap log of the code, dims after) *)
Fixpoint eqb_natlist (a b : list nat) : bool :=
  match a, b with
  | [], [] => true
  | x :: a', y :: b' => (x =? y)%nat && eqb_natlist a' b'
  | _, _ => false
  end.

Fixpoint eqb_zlist (a b : list Z) : bool :=
  match a, b with
  | [], [] => true
  | x :: a', y :: b' => (x =? y) && eqb_zlist a' b'
  | _, _ => false
  end.

Definition check_permute_case (c : list Z * list Z * list nat * list Z) : bool :=
  let '(perm, dims, log, dims_after) := c in
  let r := permute perm (map (fun d => (d, false)) dims) in
  eqb_natlist (p_log r) log && eqb_zlist (map fst (p_arr r)) dims_after &&
  match step r with None => true | Some _ => false end.
