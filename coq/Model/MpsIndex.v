(* Model of MPSGeometry._to_valid_site_index / _to_valid_bond_index (tenpy/networks/mps.py).
   Python's divmod(i, L) for L > 0 is floor division = Z.div / Z.modulo.  `fin` = self.finite
   (bc 'finite' or 'segment').  The result is (index in the unit cell, number of unit cells); None = ValueError.
   The deprecated window -L <= i < 0 of finite chains is modelled as the code has it (accepted, cell 0). *)
From TenpyV Require Import Base.Prelude.
Open Scope Z_scope.

Definition to_valid_site_index (fin : bool) (L i : Z) : option (Z * Z) :=
  let q := i / L in
  let r := i mod L in
  let q1 := if fin && (q =? -1) then 0 else q in
  if fin && negb (q1 =? 0) then None else Some (r, q1).

Definition to_valid_bond_index (fin : bool) (L i : Z) (is_left : bool) : option (Z * Z) :=
  let d := if is_left then 0 else 1 in
  if fin then
    match to_valid_site_index true L i with
    | Some (r, _) => Some (r + d, 0)
    | None => None
    end
  else to_valid_site_index false L (i + d).

Definition eqb_opt_pair (a b : option (Z * Z)) : bool :=
  match a, b with
  | None, None => true
  | Some (x, y), Some (u, v) => (x =? u) && (y =? v)
  | _, _ => false
  end.

(* correspondence: (finite?, L, i, site index result, bond index left, bond index right) as observed on the code *)
Definition check_index_case (c : bool * Z * Z * option (Z * Z) * option (Z * Z) * option (Z * Z)) : bool :=
  let '(fin, L, i, s, bl, br) := c in
  eqb_opt_pair (to_valid_site_index fin L i) s &&
  eqb_opt_pair (to_valid_bond_index fin L i true) bl &&
  eqb_opt_pair (to_valid_bond_index fin L i false) br.
