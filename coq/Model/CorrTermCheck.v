(* C08 -- correspondence checker for Model/CorrTerm.v (stream `tcf_words` of harness/c08.py).  Definitions only.

   harness/impl/c08_impl.py runs MPS.term_correlation_function_right / _left (autoJW=True) with the calls that receive the
   per-site operators recorded from OUTSIDE (the source is not touched): Site.multiply_operators returns the list of names,
   _corr_ops_LP / _corr_ops_RP record (operator lists, first site) and contract identities instead, the sites visited by the
   loop over the gap are taken from the get_B calls and the operator applied there from the get_op calls.  For every entry
   of the result (one per j in j_R resp. i in i_L) this gives the operator word contracted on every site; the case carries
   these words for the sites lo, lo+1, .. (a window that contains one site to the left and one to the right of everything
   that was contracted) or None when the implementation raised one of the two ValueErrors of the functions.

   The checker evaluates the MODEL functions tcf_right_words / tcf_left_words of Model/CorrTerm.v on every site of the window
   and compares: None everywhere iff the implementation raised, otherwise letter by letter ('JW' is encoded as (0, true),
   an operator name as (id, op_needs_JW flag according to the documentation of the site class)). *)
From TenpyV Require Import Base.Prelude Model.JW Model.Corr Model.CorrTerm.
Open Scope Z_scope.

Definition tcf_model_words (lft : bool) (tL tR : list item) (p q r : Z) (k : Z) : option word :=
  if lft then tcf_left_words tL tR p q r k else tcf_right_words tL tR p q r k.

Fixpoint tcf_words_match (f : Z -> option word) (k : Z) (obs : list (list (Z * bool))) : bool :=
  match obs with
  | [] => true
  | w :: r => match f k with
              | Some mw => pairs_eqb (map enc_letter mw) w && tcf_words_match f (k + 1) r
              | None => false
              end
  end.

Fixpoint tcf_all_none (f : Z -> option word) (k : Z) (n : nat) : bool :=
  match n with
  | O => true
  | S n' => match f k with None => tcf_all_none f (k + 1) n' | Some _ => false end
  end.

(* (left variant?, term_L items, term_R items, p, q, r, lo, observed) with
     right variant: p = i_L, q = sorted(j_R)[0], r = the entry j of j_R;
     left variant:  p = sorted(i_L)[-1] (the first one used), q = the entry i of i_L, r = j_R;
   observed = Some (words on the sites lo, lo+1, ..) | None (ValueError) *)
Definition check_tcf_case
  (c : bool * list (Z * Z * bool) * list (Z * Z * bool) * Z * Z * Z * Z * option (list (list (Z * bool)))) : bool :=
  let '(lft, tl, tr, p, q, r, lo, obs) := c in
  let f := tcf_model_words lft (mk_items tl) (mk_items tr) p q r in
  match obs with
  | Some ws => match ws with [] => false | _ :: _ => tcf_words_match f lo ws end
  | None => tcf_all_none f lo 12
  end.
