(* Model of the LegCharge methods that a LegPipe inherits or overrides and that return a LegPipe again (C06):
   copy, conj (Model/Pipe.v: conj_pipe), flip_charges_qconj, outer_conj; and the case checker evaluated by
   harness/c06.py on every generated pipe.  Definitions only.

   tenpy/linalg/charges.py: LegCharge.flip_charges_qconj is inherited by LegPipe.  It is documented as "copy of self with
   negative qconj and charges, thus representing the very same charges": the OUTGOING leg of the pipe changes
   (charges -> make_valid(-charges), qconj -> -qconj), the incoming legs, q_map, q_map_slices, slices are the ones
   of `self`.  LegPipe.outer_conj is documented as "like conj, but don't change qconj for incoming legs" and has the
   same discrete content.  (LegPipe.conj additionally conjugates every incoming leg.) *)
From TenpyV Require Import Base.Prelude Model.ChargeL Model.Leg Model.Pipe Model.PipeCase.
Open Scope Z_scope.

Definition neg_block (ci : chinfo) (b : block) : block := (fst b, make_valid ci (vneg (snd b))).
Definition neg_row (ci : chinfo) (r : row) : row := mkRow (make_valid ci (vneg (r_ch r))) (r_sz r) (r_q r).

Definition flip_pipe (ci : chinfo) (p : pipe) : pipe :=
  mkPipe (p_legs p) (- p_qconj p) (map (neg_row ci) (p_rows p)) (map (neg_block ci) (p_blocks p))
         (p_qmap p) (p_qmap_slices p).

(* op code of the harness: 0 copy, 1 conj, 2 flip_charges_qconj, 3 outer_conj *)
Definition pipe_op (ci : chinfo) (op : nat) (p : pipe) : pipe :=
  match op with
  | O => p
  | S O => conj_pipe p
  | _ => flip_pipe ci p
  end.

(* ---- case checker *)
(* ((chinfo, legs, qconj, sort, bunch, (charges, slices, q_map, q_map_slices, map_incoming_flat on every tuple)),
    [(op, (directions of the stored incoming legs of the result, qconj of the result, charges of the result,
           same_blocks, same_layout))])
   first component: exactly the case of PipeCase.check_pipe_case (same comparisons; the model pipe is built once);
   second: the pipes returned by copy / conj / flip_charges_qconj / outer_conj.  To keep the literals small the
   harness sends what can change (directions, charges) and two flags it computed from the implementation's output:
   same_blocks = the (size, charge) blocks of the stored incoming legs of the result are those of the legs of the
   pipe, same_layout = slices, q_map, q_map_slices of the result are those of the pipe.  In the model both hold for
   every op (checked here by computation, not assumed), so a false flag is a disagreement.  map_incoming_flat of the
   returned pipes is compared by the harness with the one of the pipe itself (equal in the model:
   Proofs/PipeOpsP.v flip_pipe_mif; conj_pipe does not touch anything map_incoming_flat reads). *)
Definition qrow_eqb (a b : qrow) : bool :=
  (q_b0 a =? q_b0 b) && (q_b1 a =? q_b1 b) && Nat.eqb (q_Is a) (q_Is b) && nl_eqb (q_q a) (q_q b).
Definition model_same_blocks (p p' : pipe) : bool :=
  all2 (fun a b => blocks_eqb (blocks a) (blocks b)) (p_legs p) (p_legs p').
Definition model_same_layout (p p' : pipe) : bool :=
  zl_eqb (map fst (p_blocks p)) (map fst (p_blocks p')) && all2 qrow_eqb (p_qmap p) (p_qmap p')
  && zl_eqb (p_qmap_slices p) (p_qmap_slices p').

Definition check_pipe_case2
  (c : (chinfo * list (list block * Z) * Z * bool * bool *
        (list cvec * list Z * list (list Z) * list Z * list (option Z))) *
       list (nat * (list Z * Z * list cvec * bool * bool))) : bool :=
  let '((ci, ls, qconj, srt, bnch, (ch, sl, qm, qs, mf)), ops) := c in
  let p := pipe_init ci (mk_legs ls) qconj srt bnch in
  let '(ch', sl', qm', qs', mf') := pipe_obs p in
  zll_eqb ch ch' && zl_eqb sl sl' && zll_eqb qm qm' && zl_eqb qs qs' && all2 oz_eqb mf mf'
  && all2 (fun t k => match k with
                      | Some k' => match map_outgoing_flat p k' with
                                   | Some t' => zl_eqb t t' | None => false end
                      | None => false end)
          (zgrid (map ind_len (mk_legs ls))) mf
  && forallb (fun o => let '(op, (lq, q, och, same_blocks, same_layout)) := o in
                       let p' := pipe_op ci op p in
                       zl_eqb lq (map qc (p_legs p')) && (q =? p_qconj p') && zll_eqb och (map snd (p_blocks p'))
                       && Bool.eqb same_blocks (model_same_blocks p p')
                       && Bool.eqb same_layout (model_same_layout p p')) ops.
