(* Model of the LegCharge methods that a LegPipe inherits or overrides and that return a LegPipe again (C06):
   copy, conj (Model/Pipe.v: conj_pipe), flip_charges_qconj, outer_conj; and the case checker evaluated by
   harness/c06.py on every generated pipe.  Definitions only.

   tenpy/linalg/charges.py: LegCharge.flip_charges_qconj is inherited by LegPipe.  It is documented as "copy of self with
   negative qconj and charges, thus representing the very same charges": the OUTGOING leg of the pipe changes
   (charges -> make_valid(-charges), qconj -> -qconj), the incoming legs, q_map, q_map_slices, slices are the ones
   of `self`.  LegPipe.outer_conj is documented as "like conj, but don't change qconj for incoming legs" and has the
   same discrete content.  (LegPipe.conj additionally conjugates every incoming leg.) *)
From TenpyV Require Import Base.Prelude Model.ChargeL Model.Leg Model.Pipe Model.PipeCase.
Open Scope Z_scope.

Definition neg_block (ci : chinfo) (b : block) : block := (fst b, make_valid ci (vneg (snd b))).
Definition neg_row (ci : chinfo) (r : row) : row := mkRow (make_valid ci (vneg (r_ch r))) (r_sz r) (r_q r).

Definition flip_pipe (ci : chinfo) (p : pipe) : pipe :=
  mkPipe (p_legs p) (- p_qconj p) (map (neg_row ci) (p_rows p)) (map (neg_block ci) (p_blocks p))
         (p_qmap p) (p_qmap_slices p).

(* op code of the harness: 0 copy, 1 conj, 2 flip_charges_qconj, 3 outer_conj *)
Definition pipe_op (ci : chinfo) (op : nat) (p : pipe) : pipe :=
  match op with
  | O => p
  | S O => conj_pipe p
  | _ => flip_pipe ci p
  end.

(* ---- case checker *)
Definition pobs := (list cvec * list Z * list (list Z) * list Z * list (option Z))%type.
Definition check_pobs (o : pobs) (p : pipe) : bool :=
  let '(ch, sl, qm, qs, mf) := o in
  let '(ch', sl', qm', qs', mf') := pipe_obs p in
  zll_eqb ch ch' && zl_eqb sl sl' && zll_eqb qm qm' && zl_eqb qs qs' && all2 oz_eqb mf mf'.
Definition legs_eqb (a : list (list block * Z)) (b : list leg) : bool :=
  all2 (fun x y => blocks_eqb (fst x) (blocks y) && (snd x =? qc y)) a b.

(* (chinfo, legs, qconj, sort, bunch, [(op, (incoming legs of the result, qconj of the result,
     (charges, slices, q_map, q_map_slices, map_incoming_flat on every tuple) of the result))]) *)
Definition check_pipe_ops_case
  (c : chinfo * list (list block * Z) * Z * bool * bool * list (nat * (list (list block * Z) * Z * pobs))) : bool :=
  let '(ci, ls, qconj, srt, bnch, ops) := c in
  let p := pipe_init ci (mk_legs ls) qconj srt bnch in
  forallb (fun o => let '(op, (lg, q, ob)) := o in
                    let p' := pipe_op ci op p in
                    legs_eqb lg (p_legs p') && (q =? p_qconj p') && check_pobs ob p') ops.
