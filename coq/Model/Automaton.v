(* Weighted-automaton model of tenpy's MPO graphs (tenpy/networks/mpo.py: MPOGraph, MPO.__add__,
   MPO.dagger; tenpy/networks/terms.py: OnsiteTerms/CouplingTerms.add_to_graph).
   Definitions only (proofs in Proofs/AutomatonP.v).  Tie to the code: correspondence (K),
   harness/c10.py and harness/c11.py.

   Operators are denoted by polynomials in non-commuting-free form: a finite list of monomials
   (strength, word) where a word is the site-sorted list of (site, operator id) with the identity
   (operator id 0) never stored.  Two polynomials denote the same operator when every word has the
   same total coefficient (`peq`); `normalize` computes the canonical sorted/merged form and `peqb`
   decides equality of canonical forms.  Strengths are Gaussian integers (pairs of Z), so that the
   harness can compare exactly (generators use integer / Gaussian-integer strengths).

   An MPO graph for a finite chain is a list (one entry per site) of edges
   (keyL, keyR, operator id, weight); its denotation is the sum over all paths from IdL on the left
   of site 0 to IdR on the right of the last site of the product of the edge labels. *)
From TenpyV Require Import Base.Prelude.
Open Scope Z_scope.

(* ---- Gaussian integers *)
Definition C := (Z * Z)%type.
Definition c0 : C := (0, 0).
Definition c1 : C := (1, 0).
Definition cadd (x y : C) : C := (fst x + fst y, snd x + snd y).
Definition cmul (x y : C) : C := (fst x * fst y - snd x * snd y, fst x * snd y + snd x * fst y).
Definition cconj (x : C) : C := (fst x, - snd x).
Definition ceqb (x y : C) : bool := (fst x =? fst y) && (snd x =? snd y).

(* ---- keys (states on the bonds) *)
Inductive key : Type :=
| IdL : key
| IdR : key
| Lbl : nat -> Z -> Z -> key      (* ('left', i, opname_i, op_string) of CouplingTerms.add_to_graph *)
| Oth : Z -> key                  (* any other key / index on a virtual leg of a built MPO *)
| InA : key -> key                (* inner states of the first / second summand of MPO.__add__ *)
| InB : key -> key.

Fixpoint key_eqb (k1 k2 : key) : bool :=
  match k1, k2 with
  | IdL, IdL => true
  | IdR, IdR => true
  | Lbl i a s, Lbl i' a' s' => Nat.eqb i i' && (a =? a') && (s =? s')
  | Oth n, Oth n' => n =? n'
  | InA k, InA k' => key_eqb k k'
  | InB k, InB k' => key_eqb k k'
  | _, _ => false
  end.

(* ---- words, monomials, polynomials *)
Definition letter := (nat * Z)%type.          (* (site, operator id <> 0) *)
Definition word := list letter.
Definition mono := (C * word)%type.
Definition poly := list mono.

Definition letter_eqb (x y : letter) : bool := Nat.eqb (fst x) (fst y) && (snd x =? snd y).
Fixpoint word_eqb (u v : word) : bool :=
  match u, v with
  | [], [] => true
  | x :: u', y :: v' => letter_eqb x y && word_eqb u' v'
  | _, _ => false
  end.

Definition letter_cmp (x y : letter) : comparison :=
  match Nat.compare (fst x) (fst y) with Eq => Z.compare (snd x) (snd y) | c => c end.
Fixpoint word_cmp (u v : word) : comparison :=
  match u, v with
  | [], [] => Eq
  | [], _ :: _ => Lt
  | _ :: _, [] => Gt
  | x :: u', y :: v' => match letter_cmp x y with Eq => word_cmp u' v' | c => c end
  end.

(* total coefficient of a word *)
Fixpoint coef (p : poly) (w : word) : C :=
  match p with
  | [] => c0
  | (c, v) :: t => if word_eqb v w then cadd c (coef t w) else coef t w
  end.
(* "the same operator" *)
Definition peq (p q : poly) : Prop := forall w, coef p w = coef q w.

Fixpoint pinsert (m : mono) (p : poly) : poly :=
  match p with
  | [] => [m]
  | (c, v) :: t =>
    match word_cmp (snd m) v with
    | Eq => (cadd (fst m) c, v) :: t
    | Lt => m :: p
    | Gt => (c, v) :: pinsert m t
    end
  end.
Definition normalize (p : poly) : poly :=
  filter (fun m => negb (ceqb (fst m) c0)) (fold_right pinsert [] p).
Definition mono_eqb (m n : mono) : bool := ceqb (fst m) (fst n) && word_eqb (snd m) (snd n).
Fixpoint list_eqb {A} (eqb : A -> A -> bool) (l1 l2 : list A) : bool :=
  match l1, l2 with
  | [], [] => true
  | x :: t1, y :: t2 => eqb x y && list_eqb eqb t1 t2
  | _, _ => false
  end.
Definition peqb (p q : poly) : bool := list_eqb mono_eqb (normalize p) (normalize q).

Definition pscale (c : C) (p : poly) : poly := map (fun m => (cmul c (fst m), snd m)) p.

(* ---- graphs *)
Record edge := mkE { eL : key; eR : key; eop : Z; ew : C }.
Definition graph := list (list edge).

Definition consop (i : nat) (op : Z) (w : word) : word := if op =? 0 then w else (i, op) :: w.

(* all paths through all sites of g (sites numbered from i) starting in state k:
   (product of weights, word, final state) *)
Definition pstep (i : nat) (e : edge) (p : C * word * key) : C * word * key :=
  (cmul (ew e) (fst (fst p)), consop i (eop e) (snd (fst p)), snd p).
Fixpoint paths (g : graph) (i : nat) (k : key) : list (C * word * key) :=
  match g with
  | [] => [(c1, [], k)]
  | es :: g' =>
    flat_map (fun e => if key_eqb (eL e) k then map (pstep i e) (paths g' (S i) (eR e)) else []) es
  end.
Definition ending (kf : key) (l : list (C * word * key)) : poly :=
  map fst (filter (fun p => key_eqb (snd p) kf) l).
(* denotation of state k on the bond left of site i of the (suffix) graph g *)
Definition rden (g : graph) (i : nat) (k : key) : poly := ending IdR (paths g i k).
Definition denote (g : graph) : poly := rden g 0%nat IdL.

(* ---- MPOGraph construction, finite boundary conditions *)
Fixpoint upd_site (j : nat) (f : list edge -> list edge) (g : graph) : graph :=
  match g, j with
  | [], _ => []
  | es :: g', O => f es :: g'
  | es :: g', S j' => es :: upd_site j' f g'
  end.
(* MPOGraph.add(i, keyL, keyR, opname, strength)  (skip_existing=False) *)
Definition add_edge (j : nat) (e : edge) (g : graph) : graph := upd_site j (fun es => es ++ [e]) g.
(* MPOGraph.has_edge *)
Definition has_edge (j : nat) (kl kr : key) (g : graph) : bool :=
  existsb (fun e => key_eqb (eL e) kl && key_eqb (eR e) kr) (nth j g []).
Definition has_edge_op (j : nat) (kl kr : key) (op : Z) (g : graph) : bool :=
  existsb (fun e => key_eqb (eL e) kl && key_eqb (eR e) kr && (eop e =? op)) (nth j g []).
(* MPOGraph.add(..., skip_existing=True) *)
Definition add_skip (j : nat) (e : edge) (g : graph) : graph :=
  if has_edge_op j (eL e) (eR e) (eop e) g then g else add_edge j e g.
(* MPOGraph.add_string_left_to_right for sites k, k+1, ..., k+n-1 (no wrap around: finite) *)
Fixpoint add_string (k n : nat) (ky : key) (op : Z) (g : graph) : graph :=
  match n with
  | O => g
  | S n' => add_string (S k) n' ky op
              (if has_edge k ky ky g then g else add_edge k (mkE ky ky op c1) g)
  end.

(* one entry {i: {(a, s): {j: {b: w}}}} of CouplingTerms.coupling_terms *)
Record cterm := mkCT { ct_i : nat; ct_a : Z; ct_s : Z; ct_j : nat; ct_b : Z; ct_w : C }.
(* one entry of OnsiteTerms.onsite_terms *)
Record oterm := mkOT { ot_i : nat; ot_op : Z; ot_w : C }.

(* body of the loops of CouplingTerms.add_to_graph for one term *)
Definition add_cterm (g : graph) (t : cterm) : graph :=
  let lbl := Lbl (ct_i t) (ct_a t) (ct_s t) in
  let g1 := add_skip (ct_i t) (mkE IdL lbl (ct_a t) c1) g in
  let g2 := add_string (S (ct_i t)) (ct_j t - ct_i t - 1) lbl (ct_s t) g1 in
  add_edge (ct_j t) (mkE lbl IdR (ct_b t) (ct_w t)) g2.
(* body of the loop of OnsiteTerms.add_to_graph *)
Definition add_oterm (g : graph) (t : oterm) : graph :=
  add_edge (ot_i t) (mkE IdL IdR (ot_op t) (ot_w t)) g.

(* MPOGraph.add_missing_IdL_IdR(insert_all_id=True) *)
Definition close_site (es : list edge) : list edge :=
  let es1 := if existsb (fun e => key_eqb (eL e) IdL && key_eqb (eR e) IdL) es then es
             else es ++ [mkE IdL IdL 0 c1] in
  if existsb (fun e => key_eqb (eL e) IdR && key_eqb (eR e) IdR) es1 then es1
  else es1 ++ [mkE IdR IdR 0 c1].
Definition close (g : graph) : graph := map close_site g.

Definition empty_graph (L : nat) : graph := repeat [] L.
(* MPOGraph.from_terms((onsite_terms, coupling_terms), ...) for finite bc *)
Definition from_terms (L : nat) (ots : list oterm) (cts : list cterm) : graph :=
  close (fold_left add_cterm cts (fold_left add_oterm ots (empty_graph L))).

(* the operators the terms stand for *)
Fixpoint wstring (k n : nat) (s : Z) : word :=
  match n with O => [] | S n' => consop k s (wstring (S k) n' s) end.
Definition nf_cterm (t : cterm) : mono :=
  (ct_w t, consop (ct_i t) (ct_a t)
             (wstring (S (ct_i t)) (ct_j t - ct_i t - 1) (ct_s t) ++ consop (ct_j t) (ct_b t) [])).
Definition nf_oterm (t : oterm) : mono := (ot_w t, consop (ot_i t) (ot_op t) []).
Definition cterm_ok (L : nat) (t : cterm) : bool := (ct_i t <? ct_j t)%nat && (ct_j t <? L)%nat.
Definition oterm_ok (L : nat) (t : oterm) : bool := (ot_i t <? L)%nat.

(* ---- well-formedness of graphs built from onsite and coupling terms: every edge has one of the
   four shapes; every label is entered by at most one edge per site (key injectivity); a label has
   outgoing edges only on the site right after an edge entering it (no orphan states). *)
Definition is_lbl (k : key) : bool := match k with Lbl _ _ _ => true | _ => false end.
Definition wf_edge (k : nat) (e : edge) : bool :=
  match eL e, eR e with
  | IdL, IdR => true
  | IdL, Lbl i a s => Nat.eqb i k && (eop e =? a) && ceqb (ew e) c1
  | Lbl i a s, Lbl i' a' s' =>
      Nat.eqb i i' && (a =? a') && (s =? s') && (i <? k)%nat && (eop e =? s) && ceqb (ew e) c1
  | Lbl i a s, IdR => (i <? k)%nat
  | _, _ => false
  end.
Fixpoint nodup_keys (l : list key) : bool :=
  match l with [] => true | k :: t => negb (existsb (key_eqb k) t) && nodup_keys t end.
Definition lbl_targets (es : list edge) : list key := filter is_lbl (map eR es).
Definition entered (prev : list edge) (k : key) : bool := existsb (fun e => key_eqb (eR e) k) prev.
Definition wf_site (k : nat) (prev es : list edge) : bool :=
  forallb (wf_edge k) es && nodup_keys (lbl_targets es) &&
  forallb (fun e => negb (is_lbl (eL e)) || entered prev (eL e)) es.
Fixpoint wf_from (k : nat) (prev : list edge) (g : graph) : bool :=
  match g with
  | [] => true
  | es :: g' => wf_site k prev es && wf_from (S k) es g'
  end.
Definition wf (g : graph) : bool := wf_from 0%nat [] g.

(* ---- MPO.__add__ : union of the two graphs with disjoint inner states, shared IdL / IdR;
   the IdL->IdL and IdR->IdR entries are taken from the first summand only. *)
Definition tagA (k : key) : key := match k with IdL => IdL | IdR => IdR | _ => InA k end.
Definition tagB (k : key) : key := match k with IdL => IdL | IdR => IdR | _ => InB k end.
Definition retag (f : key -> key) (e : edge) : edge := mkE (f (eL e)) (f (eR e)) (eop e) (ew e).
Definition is_loop (e : edge) : bool :=
  (key_eqb (eL e) IdL && key_eqb (eR e) IdL) || (key_eqb (eL e) IdR && key_eqb (eR e) IdR).
Fixpoint gadd (A B : graph) : graph :=
  match A, B with
  | ea :: A', eb :: B' =>
      (map (retag tagA) ea ++ map (retag tagB) (filter (fun e => negb (is_loop e)) eb)) :: gadd A' B'
  | _, _ => []
  end.
(* standard sum form required by MPO.__add__ : exactly one Id edge IdL->IdL and IdR->IdR per site,
   nothing else enters IdL or leaves IdR *)
Definition id_loop (k : key) (e : edge) : bool :=
  key_eqb (eL e) k && key_eqb (eR e) k && (eop e =? 0) && ceqb (ew e) c1.
Definition std_site (es : list edge) : bool :=
  (Nat.eqb (length (filter (id_loop IdL) es)) 1) && (Nat.eqb (length (filter (id_loop IdR) es)) 1) &&
  forallb (fun e => (negb (key_eqb (eR e) IdL) || id_loop IdL e) &&
                    (negb (key_eqb (eL e) IdR) || id_loop IdR e)) es.
Definition std_form (g : graph) : bool := forallb std_site g.
Definition no_tags (k : key) : bool := match k with InA _ | InB _ => false | _ => true end.

(* ---- MPO.dagger : hermitian conjugate of every entry; hc is the involution on operator ids *)
Definition gdagger (hc : Z -> Z) (g : graph) : graph :=
  map (map (fun e => mkE (eL e) (eR e) (hc (eop e)) (cconj (ew e)))) g.
Definition pdagger (hc : Z -> Z) (p : poly) : poly :=
  map (fun m => (cconj (fst m), map (fun l => (fst l, hc (snd l))) (snd m))) p.
(* multiple of an operator: scale the edges leaving IdL on the first site... not a tenpy method;
   used for T11_scale_first: scaling all edges of site 0 scales the denotation *)
Definition gscale0 (c : C) (g : graph) : graph :=
  match g with [] => [] | es :: g' => map (fun e => mkE (eL e) (eR e) (eop e) (cmul c (ew e))) es :: g' end.

(* ---- checkers used by the correspondence streams (evaluated with vm_compute) *)
Definition assoc_hc (tbl : list (Z * Z)) (x : Z) : Z :=
  match find (fun p => fst p =? x) tbl with Some p => snd p | None => x end.
Definition edge_eqb (e f : edge) : bool :=
  key_eqb (eL e) (eL f) && key_eqb (eR e) (eR f) && (eop e =? eop f) && ceqb (ew e) (ew f).
Definition count_edge (e : edge) (es : list edge) : nat := length (filter (edge_eqb e) es).
Definition site_mset_eqb (es fs : list edge) : bool :=
  Nat.eqb (length es) (length fs) &&
  forallb (fun e => Nat.eqb (count_edge e es) (count_edge e fs)) es.
Definition graph_mset_eqb (g h : graph) : bool := list_eqb site_mset_eqb g h.

(* graph of the implementation denotes the expected operator *)
Definition check_denote (c : graph * poly) : bool := peqb (denote (fst c)) (snd c).
(* the model of from_terms reproduces the implementation's graph edge for edge, the graph is
   well formed before closing, and it denotes the terms *)
Definition check_build (c : nat * list oterm * list cterm * graph) : bool :=
  let '(L, ots, cts, gi) := c in
  let gm := fold_left add_cterm cts (fold_left add_oterm ots (empty_graph L)) in
  forallb (oterm_ok L) ots && forallb (cterm_ok L) cts && wf gm &&
  graph_mset_eqb (close gm) gi &&
  peqb (denote gi) (map nf_oterm ots ++ map nf_cterm cts).
(* MPO.__add__ : grids of A, B and of the implementation's A + B *)
Definition check_add (c : graph * graph * graph) : bool :=
  let '(a, b, s) := c in
  peqb (denote s) (denote a ++ denote b) &&
  (negb (std_form a && std_form b && Nat.eqb (length a) (length b)) || peqb (denote (gadd a b)) (denote s)).
(* MPO.dagger *)
Definition check_dagger (c : list (Z * Z) * graph * graph) : bool :=
  let '(tbl, g, gd) := c in
  peqb (denote gd) (pdagger (assoc_hc tbl) (denote g)) &&
  peqb (denote (gdagger (assoc_hc tbl) g)) (denote gd).

(* MPO.plus_identity(alpha, beta, sites=[0]) : alpha * 1 + beta * H *)
Definition gplus_id (a b : C) (g : graph) : graph :=
  match g with
  | [] => []
  | es :: g' => (map (fun e => if key_eqb (eL e) IdL then mkE (eL e) (eR e) (eop e) (cmul b (ew e)) else e) es
                 ++ [mkE IdL IdR 0 a]) :: g'
  end.
Definition check_plus_id (c : C * C * graph * graph) : bool :=
  let '(a, b, g, gi) := c in
  peqb (denote gi) ((a, []) :: pscale b (denote g)) && peqb (denote (gplus_id a b g)) (denote gi).
