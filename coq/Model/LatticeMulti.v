(* Declarative side of the theorem about Lattice.possible_multi_couplings (property C19).
   The executable model `possible_multi_couplings` is in Model/Lattice.v (correspondence-checked by
   check_mquery); here only the specification it is proved against (Proofs/LatticeP3.v). *)
From TenpyV Require Import Base.Prelude Model.Lattice.
Open Scope Z_scope.

(* the operator o = (dx, u) of a multi-coupling anchored at the (integer) cell b sits on the MPS site i:
   i is the site with unit cell index u in the cell reached from b by dx under the boundary conditions *)
Definition op_at (lat : lattice) (b0 : Z) (br : list Z) (o : op) (i : Z) : Prop :=
  let '(dx0, dxr, u) := o in
  exists y0 yr, mps2lat lat i = Some (y0, yr, u) /\ connected lat b0 br dx0 dxr y0 yr.

(* ijkl are the MPS sites of the operators ops for some anchor cell b; for an infinite MPS the
   representative of the translation class is fixed by 0 <= min(ijkl) < N_sites *)
Definition multi_coupled (lat : lattice) (ops : list op) (ijkl : list Z) : Prop :=
  exists b0 br, Forall2 (op_at lat b0 br) ops ijkl /\
    (infinite lat = true -> 0 <= zmin_l ijkl < nsites lat).

(* the rows mps_ijkl returned by possible_multi_couplings *)
Definition multi_ijkl (lat : lattice) (ops : list op) : list (list Z) :=
  map fst (possible_multi_couplings lat ops).

(* at least one operator; every dx has one entry per direction; every u is in the unit cell *)
Definition ops_wf (lat : lattice) (ops : list op) : Prop :=
  ops <> [] /\
  Forall (fun o : op => length (snd (fst o)) = length (Lr lat) /\ 0 <= snd o < Lu lat) ops.
