(* Leg-label bookkeeping of np_conserved.Array: _combine_leg_labels, _split_leg_label, _conj_leg_label.
   The translator's grammar (translator/py2coq.py) has no string slicing / loops, so these three functions are modelled by
   hand on character lists and tied by correspondence (harness/c01.py runs random nested labels through the Python
   originals and through these definitions).  Definitions only. *)
From TenpyV Require Import Base.Prelude.
From Coq Require Import Ascii.
Open Scope char_scope.

Definition label := list ascii.

Fixpoint join (ls : list label) : label :=
  match ls with
  | [] => []
  | [l] => l
  | l :: t => l ++ "." :: join t
  end.
(* '(' + '.'.join(labels) + ')' *)
Definition combine_labels (ls : list label) : label := "(" :: join ls ++ [")"].

(* the loop of _split_leg_label over label[1:-1]: cut at '.' of depth 0 *)
Fixpoint split_top (s : label) (depth : nat) (cur : label) : list label :=
  match s with
  | [] => [rev cur]
  | c :: r =>
      if Ascii.eqb c "(" then split_top r (S depth) (c :: cur)
      else if Ascii.eqb c ")" then split_top r (pred depth) (c :: cur)
      else if Ascii.eqb c "." && Nat.eqb depth 0 then rev cur :: split_top r 0 []
      else split_top r depth (c :: cur)
  end.
Definition is_c (c d : ascii) : bool := Ascii.eqb c d.
Definition strip_q (l : label) : option label :=
  match l with c :: _ => if is_c c "?" then None else Some l | [] => Some l end.
(* _split_leg_label(label, count):  None = raises ValueError; labels not of the form '(...)' give [None]*count *)
Definition split_label (l : label) (count : nat) : option (list (option label)) :=
  match l with
  | c :: t =>
      match rev t with
      | e :: ri =>
          if is_c c "(" && is_c e ")" then
            let parts := split_top (rev ri) 0 [] in
            if Nat.eqb (length parts) count then Some (map strip_q parts) else None
          else Some (repeat None count)
      | [] => Some (repeat None count)
      end
  | [] => Some (repeat None count)
  end.

(* well-formed label: parentheses balanced, '.' only inside parentheses *)
Fixpoint scan (w : label) (d : nat) : option nat :=
  match w with
  | [] => Some d
  | c :: r =>
      if Ascii.eqb c "(" then scan r (S d)
      else if Ascii.eqb c ")" then match d with O => None | S d' => scan r d' end
      else if Ascii.eqb c "." then match d with O => None | S _ => scan r d end
      else scan r d
  end.
Definition wf_label (w : label) : Prop := scan w 0 = Some 0%nat /\ w <> [].

(* ---- _conj_leg_label: insert '*' after every atom, then remove '**' (str.replace: leftmost, non-overlapping) *)
Fixpoint star_atoms (prev : ascii) (s : label) : label :=
  match s with
  | [] => []
  | c :: r =>
      if (Ascii.eqb c "." || Ascii.eqb c ")") && negb (Ascii.eqb prev ")") then "*" :: c :: star_atoms c r
      else c :: star_atoms c r
  end.
Fixpoint rm_dstar_fuel (n : nat) (s : label) : label :=
  match n with
  | O => s
  | S n' =>
      match s with
      | c :: ((d :: r') as r) => if is_c c "*" && is_c d "*" then rm_dstar_fuel n' r' else c :: rm_dstar_fuel n' r
      | _ => s
      end
  end.
Definition rm_dstar (s : label) : label := rm_dstar_fuel (length s) s.
Definition conj_label (l : label) : label :=
  match l with
  | [] => []
  | c :: r =>
      let s := c :: star_atoms c r in
      let s := if Ascii.eqb (last s " ") ")" then s else s ++ ["*"] in
      rm_dstar s
  end.
(* atoms: no structure characters, no '*' *)
Definition atom_char (c : ascii) : bool :=
  negb (Ascii.eqb c "(" || Ascii.eqb c ")" || Ascii.eqb c "." || Ascii.eqb c "*").
