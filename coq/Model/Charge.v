(* Charges of tenpy.linalg.charges.ChargeInfo: a ChargeInfo is the list of its `mod` entries (1 = U(1), N > 1 = Z_N).
   Definitions only.  Tie to the code: correspondence (K), harness/c01.py / c02.py (qtotal and leg charges of every
   result of the modelled operations are recomputed with these definitions).
   make_valid = ChargeInfo.make_valid: np.mod (floor-mod, Z.modulo) where mod <> 1, identity where mod = 1. *)
From TenpyV Require Import Base.Prelude.
Open Scope Z_scope.

Definition chinfo := list Z.
Definition valid_ci (ci : chinfo) : Prop := Forall (fun m => 1 <= m) ci.

Definition mv1 (m x : Z) : Z := if m =? 1 then x else x mod m.

Fixpoint make_valid (ci : chinfo) (q : list Z) : list Z :=
  match ci, q with
  | m :: ci', x :: q' => mv1 m x :: make_valid ci' q'
  | _, _ => []
  end.

Fixpoint vadd (a b : list Z) : list Z :=
  match a, b with x :: a', y :: b' => (x + y) :: vadd a' b' | _, _ => [] end.
Definition vneg (a : list Z) : list Z := map Z.opp a.
Definition vscale (s : Z) (a : list Z) : list Z := map (Z.mul s) a.
Definition zero_charge (ci : chinfo) : list Z := map (fun _ => 0) ci.

(* ChargeInfo.check_valid *)
Definition check_valid (ci : chinfo) (q : list Z) : bool :=
  (length q =? length ci)%nat &&
  forallb (fun mx => (fst mx =? 1) || ((0 <=? snd mx) && (snd mx <? fst mx))) (combine ci q).

Fixpoint list_eqb (a b : list Z) : bool :=
  match a, b with
  | [], [] => true
  | x :: a', y :: b' => (x =? y) && list_eqb a' b'
  | _, _ => false
  end.
