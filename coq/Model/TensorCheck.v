(* Executable checkers used by the correspondence streams of harness/c01.py and c02.py (evaluated with vm_compute on
   literals describing the storage of operands and result of one operation of the implementation).  Definitions only. *)
From TenpyV Require Import Base.Prelude Model.Charge Model.Tensor Model.TensorOps.
Open Scope Z_scope.

Definition sleg := (list Z * list (list Z) * Z)%type.            (* block sizes, charges per block, qconj *)
Definition sblock := (list Z * list Z * list (Z * Z))%type.      (* qindices, block shape, entries in C order *)
Definition storage := (list sleg * list Z * list sblock * bool)%type.

Definition prodn (l : list nat) : nat := fold_right Nat.mul 1%nat l.
Fixpoint flat_index (idx shape : list nat) : nat :=
  match idx, shape with
  | i :: is', _ :: ss => (i * prodn ss + flat_index is' ss)%nat
  | _, _ => 0%nat
  end.
Definition mk_leg (s : sleg) : leg := let '(sz, ch, q) := s in mkLeg (map Z.to_nat sz) ch q.
Definition mk_block (b : sblock) : block :=
  let '(q, shape, vals) := b in
  (map Z.to_nat q, fun idx => nth (flat_index idx (map Z.to_nat shape)) vals c0).
Definition mk_arr (s : storage) : arr :=
  let '(ls, qt, bs, f) := s in mkArr (map mk_leg ls) qt (map mk_block bs) f.

Definition all_idx (shape : list nat) : list (list nat) :=
  fold_right (fun n acc => flat_map (fun i => map (cons i) acc) (seq 0 n)) [[]] shape.
Definition dense_list (a : arr) : list C := map (to_ndarray a) (all_idx (map ind_len (legs a))).

Fixpoint list_eqb_gen {A} (eqb : A -> A -> bool) (a b : list A) : bool :=
  match a, b with
  | [], [] => true
  | x :: a', y :: b' => eqb x y && list_eqb_gen eqb a' b'
  | _, _ => false
  end.
Definition leg_eqb (l m : leg) : bool :=
  list_eqb_gen Nat.eqb (bsz l) (bsz m) && list_eqb_gen list_eqb (bch l) (bch m) && (qc l =? qc m).
Definition same_struct (m r : arr) : bool := list_eqb_gen leg_eqb (legs m) (legs r) && list_eqb (qtot m) (qtot r).
Definition dense_eq (m : arr) (d : list C) : bool := list_eqb_gen ceqb (dense_list m) d.
Definition rows_subset (x y : list (list nat)) : bool := forallb (fun r => existsb (row_eqb r) y) x.

Definition not_in (l : list nat) (n : nat) : list nat := filter (fun k => negb (existsb (Nat.eqb k) l)) (seq 0 n).

Definition opcode := (Z * list Z * list Z * (Z * Z))%type.
Definition case := (list Z * opcode * storage * storage * storage * list (Z * Z))%type.

(* the model's result of the recorded operation, None for tensordot (only charge bookkeeping is modelled) *)
Definition model_result (ci : chinfo) (code : opcode) (a b : arr) : option arr :=
  let '(opc, p1, p2, s) := code in
  if opc =? 0 then Some (transpose (map Z.to_nat p1) a)
  else if opc =? 1 then Some (conj ci a)
  else if opc =? 2 then Some (scale s a)
  else if opc =? 3 then Some (add s a b)
  else if opc =? 4 then Some (outer ci a b)
  else None.

Definition tdot_operands (code : opcode) (a b : arr) : (nat * arr * arr) :=
  let '(opc, p1, p2, s) := code in
  let ia := map Z.to_nat p1 in
  let ib := map Z.to_nat p2 in
  (length ia, transpose (not_in ia (rank a) ++ ia) a, transpose (ib ++ not_in ib (rank b)) b).

Definition check_case_c01 (c : case) : bool :=
  let '(ci, code, sa, sb, sr, rd) := c in
  let a := mk_arr sa in
  let b := mk_arr sb in
  let r := mk_arr sr in
  match model_result ci code a b with
  | Some m => same_struct m r && dense_eq m rd
  | None =>
      let '(k, a', b') := tdot_operands code a b in
      list_eqb_gen leg_eqb (tdot_legs k a' b') (legs r) && list_eqb (tdot_qtot ci a' b') (qtot r) &&
      rows_subset (rows r) (tdot_rows k a' b') && rows_subset (tdot_rows k a' b') (rows r)
  end.

(* ---- boolean well-formedness, evaluated on what the implementation produced *)
Definition row_okb (ci : chinfo) (ls : list leg) (qt : list Z) (r : list nat) : bool :=
  forallb (fun j => mv1 (nth j ci 1) (row_charge ls r j) =? nth j qt 0) (seq 0 (length ci)).
Fixpoint nodupb (l : list (list nat)) : bool :=
  match l with [] => true | x :: t => negb (existsb (row_eqb x) t) && nodupb t end.
Definition in_rangeb (ls : list leg) (r : list nat) : bool :=
  (length r =? length ls)%nat &&
  forallb (fun k => (nth k r 0 <? length (bsz (nth k ls dleg)))%nat) (seq 0 (length ls)).
Definition wfb (ci : chinfo) (a : arr) : bool :=
  (length (qtot a) =? length ci)%nat && check_valid ci (qtot a) &&
  forallb (in_rangeb (legs a)) (rows a) && nodupb (rows a) &&
  forallb (row_okb ci (legs a) (qtot a)) (rows a) &&
  (negb (qsorted a) || strictly_sorted (rows a)) &&
  forallb (fun l => (length (bch l) =? length (bsz l))%nat && forallb (check_valid ci) (bch l) && ((qc l =? 1) || (qc l =? -1))) (legs a).

Definition check_case_c02 (c : case) : bool :=
  let '(ci, code, sa, sb, sr, rd) := c in
  let a := mk_arr sa in
  let b := mk_arr sb in
  let r := mk_arr sr in
  wfb ci a && wfb ci b && wfb ci r &&
  match model_result ci code a b with
  | Some m => list_eqb (qtot m) (qtot r) && (negb (qsorted m) || qsorted r || true) && (negb (qsorted r) || strictly_sorted (rows r))
  | None => let '(k, a', b') := tdot_operands code a b in list_eqb (tdot_qtot ci a' b') (qtot r)
  end.
