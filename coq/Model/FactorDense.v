(* C05: dense values of the block-sparse factors assembled by _svd_worker / qr around the per-block LAPACK
   calls (definitions only).  Blocks are matrices over Z given as functions nat -> nat -> Z; their
   dimensions are the block sizes of the two legs.  A rank-2 block-sparse matrix is
     (row block sizes, column block sizes, list of (row block, column block, block)),
   and its dense value at (r, c) is the sum of the stored blocks embedded at their slices (to_ndarray).
   The per-block factorisations are an INPUT of the assembly (records fac3 below); the theorems of
   Proofs/FactorDenseP.v quantify over them, with LAPACK's specification as hypotheses.
   Tie to the code: kept / svd_U / svd_V / svd_S / inner_sizes / svd_U_full and pos_diag are executed against
   npc.svd and npc.qr(pos_diag_R=True) by Model/FactorCase2.v (check_svd_dense_case, check_posdiag_case) in the
   'plan' stream of harness/c05.py, with the per-block LAPACK results replaced by recorded integer-valued
   matrices (_svd_worker: U_qdata = [qi_L, arange], VH_qdata = [arange, qi_R], new_leg_slices = cumulative kept
   ranks, S = concatenate); T05_svd_inner_sizes links them to the plan of Model/Factor.v. *)
From TenpyV Require Import Base.Prelude.
Open Scope Z_scope.

Definition dmat := nat -> nat -> Z.
Definition dvec := nat -> Z.

(* sum_{t < n} f t *)
Fixpoint sumn (n : nat) (f : nat -> Z) : Z :=
  match n with O => 0 | S k => sumn k f + f k end.

(* slices of a leg with block sizes szs *)
Definition boff (szs : list nat) (q : nat) : nat := list_sum (firstn q szs).
Definition bsize (szs : list nat) (q : nat) : nat := nth q szs 0%nat.
Definition inblk (szs : list nat) (q x : nat) : bool :=
  (boff szs q <=? x)%nat && (x <? boff szs q + bsize szs q)%nat.

Definition bent := (nat * nat * dmat)%type.
Definition bval (rs cs : list nat) (r c : nat) (e : bent) : Z :=
  let '(i, j, M) := e in
  if inblk rs i r && inblk cs j c then M (r - boff rs i)%nat (c - boff cs j)%nat else 0.
Definition dense (rs cs : list nat) (data : list bent) : dmat :=
  fun r c => sumZ (map (bval rs cs r c) data).

Definition mT (A : dmat) : dmat := fun r c => A c r.
Definition delta (a b : nat) : Z := if Nat.eqb a b then 1 else 0.
Definition of_rows (l : list (list Z)) : dmat := fun r c => nth c (nth r l []) 0.
Definition of_list (l : list Z) : dvec := fun t => nth t l 0.

(* ---- svd: result of the LAPACK call (after the cutoff) on one stored block: kept rank, U_b (rows x n),
   S_b (n), VH_b (n x cols) *)
Record fac3 := mkFac3 { f_n : nat; f_U : dmat; f_S : dvec; f_V : dmat }.
Definition sblock := (nat * nat * fac3)%type.
Definition sb_row (e : sblock) : nat := fst (fst e).
Definition sb_col (e : sblock) : nat := snd (fst e).
Definition sb_fac (e : sblock) : fac3 := snd e.

(* `if num > 0:` only blocks with kept singular values enter U, S, VH *)
Definition kept (fs : list sblock) : list sblock := filter (fun e => (0 <? f_n (sb_fac e))%nat) fs.
(* new_leg_slices = cumulative kept ranks *)
Definition inner_sizes (ks : list sblock) : list nat := map (fun e => f_n (sb_fac e)) ks.

(* entries (fx m e, fy m e, fm m e) for the m-th kept block e, m counting from m0 (qi_C = arange) *)
Fixpoint asm (fx fy : nat -> sblock -> nat) (fm : nat -> sblock -> dmat) (m : nat) (ks : list sblock) : list bent :=
  match ks with
  | [] => []
  | e :: t => (fx m e, fy m e, fm m e) :: asm fx fy fm (S m) t
  end.

(* U._qdata = [qi_L, qi_C], VH._qdata = [qi_C, qi_R] *)
Definition svd_U (ks : list sblock) : list bent :=
  asm (fun _ e => sb_row e) (fun m _ => m) (fun _ e => f_U (sb_fac e)) 0 ks.
Definition svd_V (ks : list sblock) : list bent :=
  asm (fun m _ => m) (fun _ e => sb_col e) (fun _ e => f_V (sb_fac e)) 0 ks.
(* S = np.concatenate(S) *)
Fixpoint svd_S (ks : list sblock) : dvec :=
  match ks with
  | [] => fun _ => 0
  | e :: t => fun x => if (x <? f_n (sb_fac e))%nat then f_S (sb_fac e) x else svd_S t (x - f_n (sb_fac e))%nat
  end.

(* the product the documentation promises to be a:  (U . diag(S) . VH)[r, c], inner dimension n *)
Definition usv (n : nat) (U : dmat) (s : dvec) (V : dmat) : dmat :=
  fun r c => sumn n (fun t => U r t * s t * V t c).
(* U_b diag(S_b) VH_b of one stored block *)
Definition fac_prod (f : fac3) : dmat := usv (f_n f) (f_U f) (f_S f) (f_V f).
Definition prod_ent (e : sblock) : bent := (sb_row e, sb_col e, fac_prod (sb_fac e)).

(* full_matrices=True: U.legs = [legs[0], legs[0].conj()], U._qdata = [qi_L, qi_L] for the stored blocks *)
Definition svd_U_full (fs : list sblock) : list bent :=
  map (fun e => (sb_row e, sb_row e, f_U (sb_fac e))) fs.

(* ---- qr(pos_diag_R=True) on one block, real entries: phase = r_diag / |r_diag| (1 for r_diag = 0, fix of F05.3),
   K = len(diag(R)) = min(P, N) for R of shape (P, N);  Q[:, :K] *= phase,  R[:K, :] *= conj(phase) *)
Definition phase_of (x : Z) : option Z := if x =? 0 then Some 1 else Some (Z.sgn x).
Fixpoint all_some {A} (l : list (option A)) : option (list A) :=
  match l with
  | [] => Some []
  | None :: _ => None
  | Some x :: t => match all_some t with Some r => Some (x :: r) | None => None end
  end.
Definition phases (K : nat) (R : dmat) : option (list Z) :=
  all_some (map (fun k => phase_of (R k k)) (seq 0 K)).
Definition pos_diag (P N : nat) (Q R : dmat) : option (dmat * dmat) :=
  match phases (Nat.min P N) R with
  | None => None
  | Some ph => Some (fun r k => Q r k * nth k ph 1, fun k c => nth k ph 1 * R k c)
  end.
