(* Model of tenpy/networks/terms.py: MultiCouplingTerms.add_to_graph (with _insert_to_graph,
   _insert_to_graph_rec) and MPOGraph.add_string_left_to_right / add_string_right_to_left, finite
   chains, on the weighted automata of Model/Automaton.v (same `key`, `edge`, `graph`, `denote`,
   `add_edge`, `add_skip`, `add_string`, `close`: the definitions the correspondence streams of
   harness/c10.py evaluate).  Definitions only (proofs in Proofs/AutomatonMultiP.v).

   A multi-site term  strength * op_0(i_0) str_0 ... op_n(i_n)  is stored by
   MultiCouplingTerms.add_multi_coupling_term as
     - a path in the nested dictionary `terms_left`:  (i, op_i, op_str right of i) for the sites i < switchLR,
     - a path in `terms_right`: (i, op_i, op_str LEFT of i) for the sites i > switchLR, starting at the LAST site,
     - connections[c] = (switchLR, op_switch, shift = 0 for finite chains, strength).
   `mterm` is exactly this stored form (split_term below models the splitting itself).
   add_to_graph walks the two dictionaries and inserts, with skip_existing=True, for every node of the
   path the edge  keyL --op--> keyL + (i, op, op_str)  and the operator strings between the nodes; the
   states are the tuples ('left', i0, op0, str0, i1, op1, str1, ...) resp. ('right', ...): the state is
   the prefix (resp. suffix) of the term.  Finally  graph.add(switchLR, keyL, keyR, op_switch, strength).
   `add_mterm` performs these insertions for ONE connection c (the dictionary walk repeats the
   idempotent skip_existing insertions of shared prefixes only once; equal (left, right, switchLR,
   op_switch) are merged by _insert_connection into one edge with the summed strength, here they
   give two parallel edges: same denotation).

   Tuple keys are named inside `key` by an injective encoding (`kleft`, `kright`; injectivity and
   disjointness are proved in Proofs/AutomatonMultiP.v: kleft_inj, kright_inj, kleft_kright);
   ('left', i, a, s) is `Lbl i a s` exactly as in CouplingTerms.add_to_graph / Model/Automaton.v,
   the empty prefix is IdL, the empty suffix is IdR.  Lists of triples in keys are stored with the
   LAST appended triple first. *)
From TenpyV Require Import Base.Prelude Model.Automaton.
Open Scope Z_scope.

Definition triple := (nat * Z * Z)%type.     (* (site, operator id, operator-string id) *)
Definition tsite (t : triple) : nat := fst (fst t).
Definition top (t : triple) : Z := snd (fst t).
Definition tstr (t : triple) : Z := snd t.

(* ---- names of the tuple keys *)
Definition z2n (z : Z) : nat := if 0 <=? z then Z.to_nat (2 * z) else Z.to_nat (- 2 * z - 1).
Definition enc_tr (t : triple) (k : key) : key :=
  InB (Nat.iter (tsite t) InA (InB (Nat.iter (z2n (top t)) InA (InB (Nat.iter (z2n (tstr t)) InA k))))).
(* ('left', ...) + (i, op, str): p is the reversed tuple *)
Fixpoint kleft (p : list triple) : key :=
  match p with
  | [] => IdL
  | t :: p' => match p' with [] => Lbl (tsite t) (top t) (tstr t) | _ :: _ => enc_tr t (kleft p') end
  end.
(* ('right', ...) + (i, op, str) *)
Fixpoint kright (q : list triple) : key :=
  match q with
  | [] => IdR
  | t :: q' => enc_tr t (kright q')
  end.

(* ---- stored form of one term *)
Record mterm := mkMT { mt_left : list triple; mt_right : list triple; mt_sw : nat; mt_op : Z; mt_w : C }.

(* MPOGraph.add_string_right_to_left(j, i, key, op) with n = j - i - 1: sites j-1, j-2, ..., i+1 *)
Fixpoint add_string_r (j n : nat) (ky : key) (op : Z) (g : graph) : graph :=
  match n with
  | O => g
  | S n' => add_string_r (pred j) n' ky op
              (if has_edge (pred j) ky ky g then g else add_edge (pred j) (mkE ky ky op c1) g)
  end.

(* graph.add_string_left_to_right(i, upto, key_from_i, op_string_ij) for the state p (nothing for IdL) *)
Definition lstring (p : list triple) (upto : nat) (g : graph) : graph :=
  match p with
  | [] => g
  | t :: _ => add_string (S (tsite t)) (upto - tsite t - 1) (kleft p) (tstr t) g
  end.
Definition rstring (q : list triple) (downto : nat) (g : graph) : graph :=
  match q with
  | [] => g
  | t :: _ => add_string_r (tsite t) (tsite t - downto - 1) (kright q) (tstr t) g
  end.

(* _insert_to_graph(from_left=True) / _insert_to_graph_rec along the path `rest` below the state p:
   returns the graph and all_keys[c] *)
Fixpoint ins_left (p rest : list triple) (sw : nat) (g : graph) : graph * key :=
  match rest with
  | [] => (lstring p sw g, kleft p)
  | t :: rest' =>
      ins_left (t :: p) rest' sw
        (add_skip (tsite t) (mkE (kleft p) (kleft (t :: p)) (top t) c1) (lstring p (tsite t) g))
  end.
Fixpoint ins_right (q rest : list triple) (sw : nat) (g : graph) : graph * key :=
  match rest with
  | [] => (rstring q sw g, kright q)
  | t :: rest' =>
      ins_right (t :: q) rest' sw
        (add_skip (tsite t) (mkE (kright (t :: q)) (kright q) (top t) c1) (rstring q (tsite t) g))
  end.

(* MultiCouplingTerms.add_to_graph, one connection *)
Definition add_mterm (g : graph) (t : mterm) : graph :=
  let '(g1, kl) := ins_left [] (mt_left t) (mt_sw t) g in
  let '(g2, kr) := ins_right [] (mt_right t) (mt_sw t) g1 in
  add_edge (mt_sw t) (mkE kl kr (mt_op t) (mt_w t)) g2.

(* ---- the operator a term stands for *)
(* word of the state p on the bond left of site b (operators on sites < b) *)
Fixpoint lword (p : list triple) (b : nat) : word :=
  match p with
  | [] => []
  | t :: p' => lword p' (tsite t) ++ consop (tsite t) (top t) (wstring (S (tsite t)) (b - tsite t - 1) (tstr t))
  end.
(* word of the state q on the bond left of site b (operators on sites >= b) *)
Fixpoint rword (q : list triple) (b : nat) : word :=
  match q with
  | [] => []
  | t :: q' => wstring b (tsite t - b) (tstr t) ++ consop (tsite t) (top t) (rword q' (S (tsite t)))
  end.
Definition nf_mterm (t : mterm) : mono :=
  (mt_w t, lword (rev (mt_left t)) (mt_sw t) ++
           consop (mt_sw t) (mt_op t) (rword (rev (mt_right t)) (S (mt_sw t)))).

(* sites of the left path strictly increasing and < switchLR; of the right path strictly decreasing,
   < L and > switchLR *)
Fixpoint asc (lo : nat) (l : list triple) (hi : nat) : bool :=
  match l with
  | [] => true
  | t :: l' => (lo <=? tsite t)%nat && (tsite t <? hi)%nat && asc (S (tsite t)) l' hi
  end.
Fixpoint desc (hi : nat) (l : list triple) (lo : nat) : bool :=
  match l with
  | [] => true
  | t :: l' => (tsite t <? hi)%nat && (lo <? tsite t)%nat && desc (tsite t) l' lo
  end.
Definition mterm_ok (L : nat) (t : mterm) : bool :=
  (mt_sw t <? L)%nat && asc 0 (mt_left t) (mt_sw t) && desc L (mt_right t) (mt_sw t).

(* two-site and on-site terms are the special cases *)
Definition mterm_of_cterm (t : cterm) : mterm :=
  mkMT [(ct_i t, ct_a t, ct_s t)] [] (ct_j t) (ct_b t) (ct_w t).
Definition mterm_of_oterm (t : oterm) : mterm := mkMT [] [] (ot_i t) (ot_op t) (ot_w t).

(* MPOGraph.from_terms with on-site, two-site and multi-site containers *)
Definition from_terms_m (L : nat) (ots : list oterm) (cts : list cterm) (mts : list mterm) : graph :=
  close (fold_left add_mterm mts (fold_left add_cterm cts (fold_left add_oterm ots (empty_graph L)))).

(* ---- MultiCouplingTerms.add_multi_coupling_term: splitting (ijkl, ops_ijkl, op_string, switchLR)
   into the stored form.  ops : list of (site, op) ascending; strs : op_string, one entry less. *)
Fixpoint split_left (ops : list (nat * Z)) (strs : list Z) (sw : nat) : list triple :=
  match ops, strs with
  | (i, a) :: ops', s :: strs' => if (i <? sw)%nat then (i, a, s) :: split_left ops' strs' sw else []
  | _, _ => []
  end.
(* `for i, op, op_str in zip(reversed(ijkl), reversed(ops_ijkl), reversed(op_string))`:
   rops = reversed ops, rstrs = reversed op_string *)
Fixpoint split_right (rops : list (nat * Z)) (rstrs : list Z) (sw : nat) : list triple :=
  match rops, rstrs with
  | (i, a) :: ops', s :: strs' => if (sw <? i)%nat then (i, a, s) :: split_right ops' strs' sw else []
  | _, _ => []
  end.
(* op_switch: the operator on site switchLR, or the operator string of the segment containing it *)
Fixpoint op_switch (ops : list (nat * Z)) (strs : list Z) (prev : Z) (sw : nat) : Z :=
  match ops with
  | [] => prev
  | (i, a) :: ops' =>
      if Nat.eqb sw i then a
      else if (sw <? i)%nat then prev
      else match strs with s :: strs' => op_switch ops' strs' s sw | [] => prev end
  end.
Definition split_term (ops : list (nat * Z)) (strs : list Z) (sw : nat) (w : C) : mterm :=
  mkMT (split_left ops strs sw) (split_right (rev ops) (rev strs) sw) sw (op_switch ops strs 0 sw) w.
(* the operator  w * op_0(i_0) str_0 ... op_n(i_n)  directly *)
Fixpoint term_word (ops : list (nat * Z)) (strs : list Z) : word :=
  match ops with
  | [] => []
  | (i, a) :: ops' =>
      consop i a (match ops', strs with
                  | (j, _) :: _, s :: strs' => wstring (S i) (j - i - 1) s ++ term_word ops' strs'
                  | _, _ => []
                  end)
  end.

(* ---- invariant of graphs built by add_to_graph (key injectivity and no orphan states):
   every edge is (L) THE edge that enters a left state x = kleft (t :: p) on site k (from the parent
   state with the operator of t on the site of t, from x itself with the operator string of t on later
   sites), (R) the mirror image for right states, or (C) a connection from a left state (or IdL) to a
   right state (or IdR); at most one edge per site enters a left state / leaves a right state; a left
   state has outgoing edges only on the site after an edge entering it, a right state has incoming
   edges only on the site before an edge leaving it. *)
Definition canonL (k : nat) (t : triple) (p : list triple) : edge :=
  if Nat.eqb k (tsite t) then mkE (kleft p) (kleft (t :: p)) (top t) c1
  else mkE (kleft (t :: p)) (kleft (t :: p)) (tstr t) c1.
Definition canonR (k : nat) (t : triple) (q : list triple) : edge :=
  if Nat.eqb k (tsite t) then mkE (kright (t :: q)) (kright q) (top t) c1
  else mkE (kright (t :: q)) (kright (t :: q)) (tstr t) c1.
Definition edge_ok (k : nat) (e : edge) : Prop :=
  (exists t p, eR e = kleft (t :: p) /\ e = canonL k t p /\ (tsite t <= k)%nat) \/
  (exists t q, eL e = kright (t :: q) /\ e = canonR k t q /\ (k <= tsite t)%nat) \/
  (exists p q, eL e = kleft p /\ eR e = kright q).
Definition into (x : key) (es : list edge) : list edge := filter (fun e => key_eqb (eR e) x) es.
Definition outof (x : key) (es : list edge) : list edge := filter (fun e => key_eqb (eL e) x) es.
Definition exited (next : list edge) (k : key) : bool := existsb (fun e => key_eqb (eL e) k) next.
Definition prevs (g : graph) (k : nat) : list edge := match k with O => [] | S k' => nth k' g [] end.
Definition site_ok (k : nat) (prev es next : list edge) : Prop :=
  (forall e, In e es -> edge_ok k e) /\
  (forall t p, (length (into (kleft (t :: p)) es) <= 1)%nat) /\
  (forall t q, (length (outof (kright (t :: q)) es) <= 1)%nat) /\
  (forall e t p, In e es -> eL e = kleft (t :: p) -> entered prev (eL e) = true) /\
  (forall e t q, In e es -> eR e = kright (t :: q) -> exited next (eR e) = true).
Definition mwf (g : graph) : Prop :=
  forall k, site_ok k (prevs g k) (nth k g []) (nth (S k) g []).

(* ---- checker of the correspondence stream c10_build_multi (harness/c10.py): the model rebuilds the
   implementation's MPOGraph (finite bc, on-site terms + MultiCouplingTerms; tuple keys of the
   implementation are handed over as kleft / kright of their triples) edge for edge, and the graph
   denotes the stored terms *)
Definition check_build_multi (c : nat * list oterm * list mterm * graph) : bool :=
  let '(L, ots, mts, gi) := c in
  let gm := fold_left add_mterm mts (fold_left add_oterm ots (empty_graph L)) in
  forallb (oterm_ok L) ots && forallb (mterm_ok L) mts &&
  graph_mset_eqb (close gm) gi &&
  peqb (denote gi) (map nf_oterm ots ++ map nf_mterm mts).
