(* More kernels that exist twice in tenpy (pure-Python fallback, suffix _py, in tenpy/linalg/np_conserved.py and
   charges.py; compiled version, suffix _cy, in tenpy/linalg/_npc_helper.pyx), both ALGORITHMS written out from
   the two sources.  Definitions only; proofs in Proofs/KernelsPyCyP2.v (merge) and Proofs/KernelsPyCyP3.v
   (q_map), statements in Props/C04.v.

   (d) the block merge of `Array.iadd_prefactor_other`:
         py  Array.ibinary_blockwise (np_conserved.py): two-pointer `while` loop over the F-strided keys,
             results appended to python lists `qdata`, `data`
         cy  Array_iadd_prefactor_other (_npc_helper.pyx): the same comparison chain, rows written entry by entry
             into a preallocated (Na+Nb, rank) table `new_qdata` at `new_row`, truncated at the end
       Both start with the fast path `Na == Nb and np.all(aq == bq)`.
   (b) the q_map construction of `LegPipe._init_from_legs` (charges.py / LegPipe__init_from_legs).

   Tie to the code: hand transcriptions of the two sources, evaluated by harness/c04.py against BOTH
   configurations: (b) by Model/KernelsPyCy2Check.v (check2_py / check2_cy, 'pipe' cases), (d) by
   Model/KernelsPyCy3Check.v (check3_py / check3_cy, 'merge' cases).  They reuse the correspondence-checked
   kernels of Model/KernelsPyCy.v (make_valid_py/_cy, frd_py/_cy = _find_row_differences, fill). *)
From TenpyV Require Import Base.Prelude Model.KernelsPyCy.
Open Scope Z_scope.

(* ============================================================================================== *)
(* (d) merge                                                                                      *)

(* what is done with the blocks at one output row:
     Both i j : py func(adata[i], bdata[j])                 cy ta = adata[i]; ta += prefactor * bdata[j]
     OnlyB j  : py func(zeros_like(bdata[j]), bdata[j])     cy ta = bdata[j].copy(); ta *= prefactor
     OnlyA i  : py func(adata[i], zeros_like(adata[i]))     cy adata[i]                                     *)
Inductive which := Both (i j : nat) | OnlyA (i : nat) | OnlyB (j : nat).

(* aq_ = np.sum(aq * stride, axis=1)   (same numpy expression in both sources) *)
Definition fkey (stride row : list Z) : Z := sumZ (row_map2 Z.mul row stride).
Definition fkeys (stride : list Z) (q : list (list Z)) : list Z := map (fkey stride) q.

Definition rowZ (q : list (list Z)) (i : nat) : list Z := nth i q [].

(* result of the loop; None = the `assert False` branch or fuel exhausted (neither happens, see the proofs) *)
Definition merged := option (list (list Z) * list which).

(* py: while i < Na or j < Nb: ...   qdata.append(...); data.append(...) *)
Fixpoint merge_py (fuel : nat) (ak bk : list Z) (aq bq : list (list Z)) (i j : nat)
                  (qdata : list (list Z)) (data : list which) : merged :=
  let Na := length aq in let Nb := length bq in
  if (i <? Na)%nat || (j <? Nb)%nat then
    match fuel with
    | O => None
    | S f =>
      if (i <? Na)%nat && (j <? Nb)%nat && (nthZ ak i =? nthZ bk j) then
        merge_py f ak bk aq bq (S i) (S j) (qdata ++ [rowZ aq i]) (data ++ [Both i j])
      else if (Na <=? i)%nat || ((j <? Nb)%nat && (nthZ ak i >? nthZ bk j)) then
        merge_py f ak bk aq bq i (S j) (qdata ++ [rowZ bq j]) (data ++ [OnlyB j])
      else if (Nb <=? j)%nat || (nthZ ak i <? nthZ bk j) then
        merge_py f ak bk aq bq (S i) j (qdata ++ [rowZ aq i]) (data ++ [OnlyA i])
      else None
    end
  else Some (qdata, data).

(* cy: for k in range(rank): new_qdata[new_row, k] = src[i, k] *)
Definition copy_row (rank : nat) (row : list Z) : list Z := map (fun k => nthZ row k) (seq 0 rank).
Definition set_row (tbl : list (list Z)) (r : nat) (row : list Z) : list (list Z) :=
  firstn r tbl ++ row :: skipn (S r) tbl.

Fixpoint merge_cy (fuel : nat) (rank : nat) (ak bk : list Z) (aq bq : list (list Z)) (i j : nat)
                  (new_qdata : list (list Z)) (new_row : nat) (new_data : list which) : merged :=
  let Na := length aq in let Nb := length bq in
  if (i <? Na)%nat || (j <? Nb)%nat then
    match fuel with
    | O => None
    | S f =>
      if (i <? Na)%nat && (j <? Nb)%nat && (nthZ ak i =? nthZ bk j) then
        merge_cy f rank ak bk aq bq (S i) (S j) (set_row new_qdata new_row (copy_row rank (rowZ aq i)))
                 (S new_row) (new_data ++ [Both i j])
      else if (Na <=? i)%nat || ((j <? Nb)%nat && (nthZ ak i >? nthZ bk j)) then
        merge_cy f rank ak bk aq bq i (S j) (set_row new_qdata new_row (copy_row rank (rowZ bq j)))
                 (S new_row) (new_data ++ [OnlyB j])
      else if (Nb <=? j)%nat || (nthZ ak i <? nthZ bk j) then
        merge_cy f rank ak bk aq bq (S i) j (set_row new_qdata new_row (copy_row rank (rowZ aq i)))
                 (S new_row) (new_data ++ [OnlyA i])
      else None
    end
  else Some (firstn new_row new_qdata, new_data).      (* self._qdata = new_qdata[:new_row, :].copy() *)

(* Na == Nb and np.all(aq == bq) *)
Definition same_qdata (aq bq : list (list Z)) : bool :=
  Nat.eqb (length aq) (length bq) && llz_eqb aq bq.
Definition fast_path (aq : list (list Z)) : merged :=
  Some (aq, map (fun i => Both i i) (seq 0 (length aq))).

Definition iadd_merge_py (stride : list Z) (aq bq : list (list Z)) : merged :=
  if same_qdata aq bq then fast_path aq
  else merge_py (length aq + length bq) (fkeys stride aq) (fkeys stride bq) aq bq 0 0 [] [].
(* np.empty((Na+Nb, rank)) : uninitialised; modelled with the filler value `junk` in every entry *)
Definition iadd_merge_cy (junk : Z) (rank : nat) (stride : list Z) (aq bq : list (list Z)) : merged :=
  if same_qdata aq bq then fast_path aq
  else merge_cy (length aq + length bq) rank (fkeys stride aq) (fkeys stride bq) aq bq 0 0
                (repeat (repeat junk rank) (length aq + length bq)) 0 [].

(* ---- specification vocabulary for the merge *)
(* F-style strides [1; n0; n0*n1; ...] of _make_stride(shape, cstyle=False) *)
Fixpoint fstr_from (s : Z) (shape : list Z) : list Z :=
  match shape with [] => [] | n :: t => s :: fstr_from (s * n) t end.
Definition fstrides (shape : list Z) : list Z := fstr_from 1 shape.
(* 0 <= row[k] < shape[k] and equal lengths *)
Fixpoint in_bounds (shape row : list Z) : Prop :=
  match shape, row with
  | [], [] => True
  | n :: st, x :: rt => 0 <= x < n /\ in_bounds st rt
  | _, _ => False
  end.
(* the order of np.lexsort(qdata.T): the LAST column is the primary key *)
Fixpoint lexlt (r1 r2 : list Z) : Prop :=
  match r1, r2 with
  | x :: t1, y :: t2 => lexlt t1 t2 \/ (t1 = t2 /\ x < y)
  | _, _ => False
  end.
Fixpoint strictly_inc (l : list Z) : Prop :=
  match l with
  | x :: ((y :: _) as t) => x < y /\ strictly_inc t
  | _ => True
  end.
Fixpoint lexsorted (q : list (list Z)) : Prop :=
  match q with
  | r1 :: ((r2 :: _) as t) => lexlt r1 r2 /\ lexsorted t
  | _ => True
  end.
Definition a_indices (w : list which) : list nat :=
  flat_map (fun t => match t with Both i _ => [i] | OnlyA i => [i] | OnlyB _ => [] end) w.
Definition b_indices (w : list which) : list nat :=
  flat_map (fun t => match t with Both _ j => [j] | OnlyB j => [j] | OnlyA _ => [] end) w.
(* the row stored at an output position is the row of the operand(s) named by the tag *)
Definition row_ok (aq bq : list (list Z)) (row : list Z) (t : which) : Prop :=
  match t with
  | Both i j => row = rowZ aq i /\ row = rowZ bq j
  | OnlyA i => row = rowZ aq i
  | OnlyB j => row = rowZ bq j
  end.
(* key-level version used in the proofs *)
Definition tag_ok (ak bk : list Z) (aq bq : list (list Z)) (row : list Z) (t : which) : Prop :=
  match t with
  | Both i j => row = rowZ aq i /\ nthZ ak i = nthZ bk j
  | OnlyA i => row = rowZ aq i
  | OnlyB j => row = rowZ bq j
  end.
Definition key_of (ak bk : list Z) (t : which) : Z :=
  match t with Both i _ => nthZ ak i | OnlyA i => nthZ ak i | OnlyB j => nthZ bk j end.

(* ============================================================================================== *)
(* (b) LegPipe._init_from_legs after the grid has been built                                       *)

(* one incoming leg: qconj, charges (block_number x qnumber), block sizes *)
Record pleg := mkPleg { pl_qconj : Z; pl_charges : list (list Z); pl_bs : list Z }.

(* the grid `np.indices(subqshape).reshape(nlegs, -1)` is the same numpy expression in both sources: it is
   an input here, given as its transpose gridT (nblocks rows of nlegs qindices) = q_map[:, 3:] *)
Definition gcol (gridT : list (list Z)) (a : nat) : list Z := map (fun row => nthZ row a) gridT.

Definition vaddZ (u v : list Z) : list Z := row_map2 Z.add u v.

(* ---- block sizes
   py: np.prod([lbs[gr] for lbs, gr in zip(legbs, grid)], axis=0)        (axis 0 = over the legs) *)
Fixpoint prod_axis0 (n : nat) (vs : list (list Z)) : list Z :=
  match vs with
  | [] => repeat 1 n
  | v :: t => row_map2 Z.mul v (prod_axis0 n t)
  end.
Definition blocksizes_py (legs : list pleg) (gridT : list (list Z)) : list Z :=
  prod_axis0 (length gridT)
    (map (fun al => map (fun qi => nthZ (pl_bs (snd al)) (Z.to_nat qi)) (gcol gridT (fst al)))
         (combine (seq 0 (length legs)) legs)).
(* cy: blocksizes = ones(nblocks); for i in range(nlegs): for j in range(nblocks):
         blocksizes[j] *= leg_bs[grid2[i, j]] *)
Definition upd_at (l : list Z) (j : nat) (f : Z -> Z) : list Z :=
  firstn j l ++ f (nthZ l j) :: skipn (S j) l.
Fixpoint bs_inner (bs : list Z) (leg_bs : list Z) (col : list Z) (j : nat) : list Z :=
  match col with
  | [] => bs
  | qi :: t => bs_inner (upd_at bs j (fun x => x * nthZ leg_bs (Z.to_nat qi))) leg_bs t (S j)
  end.
Fixpoint bs_outer (bs : list Z) (legs : list pleg) (gridT : list (list Z)) (a : nat) : list Z :=
  match legs with
  | [] => bs
  | l :: t => bs_outer (bs_inner bs (pl_bs l) (gcol gridT a) 0) t gridT (S a)
  end.
Definition blocksizes_cy (legs : list pleg) (gridT : list (list Z)) : list Z :=
  bs_outer (repeat 1 (length gridT)) legs gridT 0.

(* ---- fused charges before make_valid
   py: legcharges = [(self.qconj * l.qconj) * l.charges for l in legs]
       charges = np.sum([lq[gr] for lq, gr in zip(legcharges, grid)], axis=0)     (zeros if qnumber == 0) *)
Fixpoint sum_axis0 (n qn : nat) (ms : list (list (list Z))) : list (list Z) :=
  match ms with
  | [] => repeat (repeat 0 qn) n
  | m :: t => map (fun uv => vaddZ (fst uv) (snd uv)) (combine m (sum_axis0 n qn t))
  end.
Definition chrow (qn : nat) (r : list Z) : list Z := map (fun k => nthZ r k) (seq 0 qn).
Definition charges_raw_py (qn : nat) (qconj : Z) (legs : list pleg) (gridT : list (list Z)) : list (list Z) :=
  sum_axis0 (length gridT) qn
    (map (fun al => map (fun qi => map (Z.mul (qconj * pl_qconj (snd al)))
                                       (chrow qn (nth (Z.to_nat qi) (pl_charges (snd al)) [])))
                        (gcol gridT (fst al)))
         (combine (seq 0 (length legs)) legs)).
(* cy _partial_qtotal: res = zeros; for a in legs: sign = leg.qconj * qconj; for i in blocks: qi = qdata[i, a];
      for k in range(qnumber): res[i, k] += charges[qi, k] * sign *)
Fixpoint pq_k (row : list Z) (ch : list Z) (sign : Z) (k : nat) (n : nat) : list Z :=
  match n with
  | O => row
  | S n' => pq_k (upd_at row k (fun x => x + nthZ ch k * sign)) ch sign (S k) n'
  end.
Definition set_rowZ (tbl : list (list Z)) (r : nat) (row : list Z) : list (list Z) :=
  firstn r tbl ++ row :: skipn (S r) tbl.
Fixpoint pq_i (res : list (list Z)) (qn : nat) (chs : list (list Z)) (sign : Z) (col : list Z) (i : nat)
  : list (list Z) :=
  match col with
  | [] => res
  | qi :: t => pq_i (set_rowZ res i (pq_k (nth i res []) (nth (Z.to_nat qi) chs []) sign 0 qn))
                    qn chs sign t (S i)
  end.
Fixpoint pq_a (res : list (list Z)) (qn : nat) (qconj : Z) (legs : list pleg) (gridT : list (list Z)) (a : nat)
  : list (list Z) :=
  match legs with
  | [] => res
  | l :: t => pq_a (pq_i res qn (pl_charges l) (pl_qconj l * qconj) (gcol gridT a) 0) qn qconj t gridT (S a)
  end.
Definition charges_raw_cy (qn : nat) (qconj : Z) (legs : list pleg) (gridT : list (list Z)) : list (list Z) :=
  pq_a (repeat (repeat 0 qn) (length gridT)) qn qconj legs gridT 0.

Definition charges_py (mods : list Z) (qconj : Z) (legs : list pleg) (gridT : list (list Z)) :=
  let qn := length mods in
  if Nat.eqb qn 0 then repeat [] (length gridT)      (* np.zeros((nblocks, 0)) *)
  else make_valid_py mods (charges_raw_py qn qconj legs gridT).
Definition charges_cy (mods : list Z) (qconj : Z) (legs : list pleg) (gridT : list (list Z)) :=
  let qn := length mods in
  if Nat.eqb qn 0 then repeat [] (length gridT)      (* _np_zeros_2D(nblocks, 0) *)
  else make_valid_cy mods (charges_raw_cy qn qconj legs gridT).

(* ---- sort: `perm_qind = lexsort(charges.T); x = x[perm_qind]` is the same numpy code in both sources; the
   sorter is a parameter (any function from the charge table to a list of row numbers) *)
Definition take {A} (d : A) (l : list A) (perm : list nat) : list A := map (fun p => nth p l d) perm.

(* slices = np.append([0], np.cumsum(blocksizes)) *)
Fixpoint cumsum_from (s : Z) (l : list Z) : list Z :=
  match l with [] => [] | x :: t => (s + x) :: cumsum_from (s + x) t end.
Definition slices_of_bs (bs : list Z) : list Z := 0 :: cumsum_from 0 bs.

(* ---- q_map[:, 2]
   py:  q_map_Qi = np.zeros(nblocks); q_map_Qi[idx[1:-1]] = 1; q_map_Qi = np.cumsum(q_map_Qi) *)
Definition inner {A} (l : list A) : list A := removelast (tl l).             (* l[1:-1] *)
Definition set_ones (z : list Z) (pos : list Z) : list Z :=
  fold_left (fun acc p => upd_at acc (Z.to_nat p) (fun _ => 1)) pos z.
Definition qi_py (nblocks : nat) (idx : list Z) : list Z :=
  cumsum_from 0 (set_ones (repeat 0 nblocks) (inner idx)).
(* cy:  a = 0
        for i in range(idx.shape[0]-1): (for j in range(idx[i], idx[i+1]): q_map[j, 2] = a); a += 1
        for j in range(idx[idx.shape[0]-1], nblocks): q_map[j, 2] = a
   (the column is a preallocated, uninitialised part of q_map: filler `junk`) *)
Fixpoint qi_loop (col : list Z) (prev : Z) (rest : list Z) (a : Z) (nblocks : Z) : list Z :=
  match rest with
  | [] => fill col (Z.to_nat prev) (Z.to_nat (nblocks - prev)) a
  | nxt :: t => qi_loop (fill col (Z.to_nat prev) (Z.to_nat (nxt - prev)) a) nxt t (a + 1) nblocks
  end.
Definition qi_cy (junk : Z) (nblocks : nat) (idx : list Z) : list Z :=
  match idx with
  | [] => repeat junk nblocks          (* not reached: idx always has >= 1 entries *)
  | i0 :: t => qi_loop (repeat junk nblocks) i0 t 0 (Z.of_nat nblocks)
  end.

(* ---- the three leading columns of q_map and the bunched slices
   py:  q_map[:, 0] = slices[:-1]; q_map[:, 1] = slices[1:]; q_map[:, 2] = Qi
        q_map[:, :2] -= (new_slices[Qi])[:, np.newaxis]                                   (vectorised) *)
Definition cols01_py (slices new_slices Qi : list Z) : list (Z * Z) :=
  let sub := map (fun q => nthZ new_slices (Z.to_nat q)) Qi in
  combine (row_map2 Z.sub (removelast slices) sub) (row_map2 Z.sub (tl slices) sub).
(* cy:  for j: q_map[j,0] = slices[j]; q_map[j,1] = slices[j+1]
        ... for j: a = new_slices[q_map[j, 2]]; q_map[j, 0] -= a; q_map[j, 1] -= a *)
Definition cols01_cy (nblocks : nat) (slices new_slices Qi : list Z) : list (Z * Z) :=
  map (fun j => let a := nthZ new_slices (Z.to_nat (nthZ Qi j)) in
                (nthZ slices j - a, nthZ slices (S j) - a)) (seq 0 nblocks).

(* ---- proof vocabulary for q_map[:, 2]: idx = [0; p_1; ..; p_{m-1}; N] strictly increasing *)
Fixpoint chainN (prev : nat) (ps : list nat) (N : nat) : Prop :=
  match ps with [] => (prev < N)%nat | p :: t => (prev < p)%nat /\ chainN p t N end.
(* the outgoing block number of every row: run k has length idx[k+1] - idx[k] *)
Fixpoint runsN (a : Z) (prev : nat) (rest : list nat) : list Z :=
  match rest with [] => [] | nxt :: t => repeat a (nxt - prev) ++ runsN (a + 1) nxt t end.
(* the 0/1 mask behind position prev *)
Fixpoint tailI (prev : nat) (ps : list nat) (N : nat) : list Z :=
  match ps with
  | [] => repeat 0 (N - prev - 1)
  | p :: t => repeat 0 (p - prev - 1) ++ 1 :: tailI p t N
  end.
(* weakly increasing chain *)
Fixpoint incN (prev : nat) (rest : list nat) : Prop :=
  match rest with [] => True | p :: t => (prev <= p)%nat /\ incN p t end.
Definition zipW (u v : list (list Z)) : list (list Z) := map (fun uv => vaddZ (fst uv) (snd uv)) (combine u v).

(* per-leg terms of the two vectorised reductions (proof vocabulary) *)
Definition legvec (gridT : list (list Z)) (al : nat * pleg) : list Z :=
  map (fun qi => nthZ (pl_bs (snd al)) (Z.to_nat qi)) (gcol gridT (fst al)).
Definition chterm (qn : nat) (chs : list (list Z)) (sign : Z) (qi : Z) : list Z :=
  map (fun c => c * sign) (chrow qn (nth (Z.to_nat qi) chs [])).
Definition legterm (qn : nat) (qconj : Z) (gridT : list (list Z)) (al : nat * pleg) : list (list Z) :=
  map (fun qi => map (Z.mul (qconj * pl_qconj (snd al))) (chrow qn (nth (Z.to_nat qi) (pl_charges (snd al)) [])))
      (gcol gridT (fst al)).

Record pipe_out := mkPO {
  po_qmap : list (list Z);          (* rows [b0, b1, I, i_1 .. i_n] *)
  po_qmap_slices : list Z;
  po_charges : list (list Z);       (* self.charges after bunch *)
  po_slices : list Z;               (* self.slices after bunch *)
  po_perm : option (list nat) }.    (* perm_qind (None: not sorted) *)

Definition assemble (c01 : list (Z * Z)) (Qi : list Z) (gridT : list (list Z)) : list (list Z) :=
  map (fun x => fst (fst (fst x)) :: snd (fst (fst x)) :: snd (fst x) :: snd x)
      (combine (combine c01 Qi) gridT).

Section InitFromLegs.
  Variable lexsort : list (list Z) -> list nat.      (* np.lexsort(charges.T) *)

  Definition init_from_legs_py (mods : list Z) (qconj : Z) (legs : list pleg) (gridT : list (list Z))
             (sort bunch : bool) : pipe_out :=
    let qn := length mods in
    let nblocks := length gridT in
    let bs0 := blocksizes_py legs gridT in
    let ch0 := charges_py mods qconj legs gridT in
    let do_sort := sort && negb (Nat.eqb qn 0) in
    let perm := lexsort ch0 in
    let gT := if do_sort then take [] gridT perm else gridT in
    let ch := if do_sort then take [] ch0 perm else ch0 in
    let bs := if do_sort then take 0 bs0 perm else bs0 in
    let slices := slices_of_bs bs in
    if bunch then
      let idx := frd_py (Z.of_nat qn) ch in
      let new_ch := map (fun p => nth (Z.to_nat p) ch []) (removelast idx) in
      let new_slices := map (fun p => nthZ slices (Z.to_nat p)) idx in
      let Qi := qi_py nblocks idx in
      mkPO (assemble (cols01_py slices new_slices Qi) Qi gT) idx new_ch new_slices
           (if do_sort then Some perm else None)
    else
      let Qi := map Z.of_nat (seq 0 nblocks) in           (* np.arange(nblocks) *)
      mkPO (assemble (cols01_py slices slices Qi) Qi gT) (map Z.of_nat (seq 0 (S nblocks))) ch slices
           (if do_sort then Some perm else None).

  Definition init_from_legs_cy (junk : Z) (mods : list Z) (qconj : Z) (legs : list pleg)
             (gridT : list (list Z)) (sort bunch : bool) : pipe_out :=
    let qn := length mods in
    let nblocks := length gridT in
    let bs0 := blocksizes_cy legs gridT in
    let ch0 := charges_cy mods qconj legs gridT in
    let do_sort := sort && negb (Nat.eqb qn 0) in
    let perm := lexsort ch0 in
    let gT := if do_sort then take [] gridT perm else gridT in
    let ch := if do_sort then take [] ch0 perm else ch0 in
    let bs := if do_sort then take 0 bs0 perm else bs0 in
    let slices := slices_of_bs bs in
    if bunch then
      let idx := frd_cy (Z.of_nat qn) ch in
      let new_ch := map (fun p => nth (Z.to_nat p) ch []) (removelast idx) in
      let new_slices := map (fun p => nthZ slices (Z.to_nat p)) idx in
      let Qi := qi_cy junk nblocks idx in
      mkPO (assemble (cols01_cy nblocks slices new_slices Qi) Qi gT) idx new_ch new_slices
           (if do_sort then Some perm else None)
    else
      let Qi := fold_left (fun col j => fill col j 1 (Z.of_nat j))
                          (seq 0 nblocks) (repeat junk nblocks) in            (* for j: q_map[j, 2] = j *)
      mkPO (assemble (cols01_cy nblocks slices slices Qi) Qi gT) (map Z.of_nat (seq 0 (S nblocks))) ch slices
           (if do_sort then Some perm else None).
End InitFromLegs.

(* a concrete stable sorter with the order of np.lexsort(charges.T) (last column = primary key), used to show
   that the hypotheses on `lexsort` are satisfiable and in the worked example *)
Fixpoint lexltb (r1 r2 : list Z) : bool :=
  match r1, r2 with
  | x :: t1, y :: t2 => lexltb t1 t2 || (lz_eqb t1 t2 && (x <? y))
  | _, _ => false
  end.
Fixpoint ins_idx (tbl : list (list Z)) (p : nat) (l : list nat) : list nat :=
  match l with
  | [] => [p]
  | q :: t => if lexltb (nth q tbl []) (nth p tbl []) then q :: ins_idx tbl p t else p :: l
  end.
Definition lexsort_ins (tbl : list (list Z)) : list nat := fold_right (ins_idx tbl) [] (seq 0 (length tbl)).
