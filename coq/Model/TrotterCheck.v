(* Checkers evaluated by the correspondence streams of harness/c14.py (vm_compute). *)
From TenpyV Require Import Base.Prelude Base.PyLib Gen.G_trotter Gen.G_acct Model.Trotter Model.TimeAcct.
From Coq Require Import QArith String.
Open Scope Z_scope.

Definition pair_eqb (a b : Z * Z) : bool := (fst a =? fst b) && (snd a =? snd b).
Fixpoint list_eqb {A} (eqb : A -> A -> bool) (a b : list A) : bool :=
  match a, b with
  | [], [] => true
  | x :: a', y :: b' => eqb x y && list_eqb eqb a' b'
  | _, _ => false
  end.

(* the regenerated text of suzuki_trotter_decomposition returns what the implementation returned *)
Definition check_schedule (c : pyorder * Z * option (list (Z * Z))) : bool :=
  let '(o, n, st) := c in
  match decomposition_gen o n, st with
  | Some a, Some b => list_eqb pair_eqb a b
  | None, None => true
  | _, _ => false
  end.

(* the regenerated time-step polynomials, evaluated at the float value of the symbol, are within 1e-12
   of the floats the implementation returned *)
Definition qabs_lt (a b : Q) (tol : Q) : bool :=
  Qle_bool (a - b) tol && Qle_bool (b - a) tol.
Definition check_time_steps (c : pyorder * Q * list Q) : bool :=
  let '(o, x, fl) := c in
  match time_steps_gen o with
  | Some ds => Nat.eqb (List.length ds) (List.length fl) &&
               forallb (fun pq => qabs_lt (peval (fst pq) x) (snd pq) (1 # 1000000000000)) (combine ds fl)
  | None => false
  end.

Definition find_engine (name : string) : option acct_cls :=
  find (fun c => String.eqb (cname c) name) engines.

Definition check_acct_named (x : string * Z * Z * list run_call * Z * Z) : bool :=
  let '(name, t0, e0, h, t1, e1) := x in
  match find_engine name with
  | Some c => check_acct (c, t0, e0, h, t1, e1)
  | None => false
  end.

Definition check_bonds (c : nat * bool * nat * list nat) : bool :=
  let '(L, fin, odd, bonds) := c in list_eqb Nat.eqb (step_bonds L fin odd) bonds.
