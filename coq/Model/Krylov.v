(* Model of the index / coefficient bookkeeping of tenpy/linalg/krylov_based.py (property C16):
   KrylovBased._to_cache, LanczosGroundState._build_krylov, KrylovBased._calc_result_full,
   LanczosGroundState._rebuild_krylov_for_result_full, tools.misc.argsort as used by Arnoldi.
   Definitions only (proofs in Proofs/KrylovP.v).  Tie to the code: correspondence (K), harness/c16.py.

   Krylov vectors are abstract: the natural number k stands for v_k, where v_0 is the normalised start
   vector and v_{k+1} is the vector obtained from H v_k by the orthogonalisation steps of iteration k.
   The float kernel (inner products, norms, the eigen-decomposition of the small matrix h, the exit
   conditions) is NOT modelled: the number N of performed iterations is an input of the model.

   Events (tag, a, b, c) are what the instrumented implementation records:
     (0,k,0,0)   iscale_prefactor on the vector with index k
     (1,k,l,f)   _to_cache(v_k); afterwards the cache holds l vectors, the oldest being v_f
     (2,k,0,0)   H.matvec(v_k)     (its result is the object that becomes v_{k+1})
     (3,t,v,c)   w_t += coef * v_v,  c = 0: coef = -h[v,v] (alpha), 1: coef = -h[v,v+1] (beta),
                                     2: coef = -<v_v|w> (re-orthogonalisation)
     (4,j,v,0)   psif += vf[j] * v_v    (vf = _result_krylov)
     (6,j,v,0)   psif = vf[j] * v_v     (start of _calc_result_full)
     (5,0,0,0)   final normalisation of psif *)
From TenpyV Require Import Base.Prelude Model.Truncate.

Definition ev := (nat * nat * nat * nat)%type.

(* ---- KrylovBased._to_cache:  cache.append(psi); if len(cache) > N_cache: cache.pop(0) *)
Definition to_cache (nc : nat) (c : list nat) (v : nat) : list nat :=
  let c' := c ++ [v] in if (nc <? length c')%nat then tl c' else c'.

(* the cache after v_0 .. v_{k-1} went through _to_cache (starting from an empty cache) *)
Fixpoint cache_after (nc k : nat) : list nat :=
  match k with O => [] | S k' => to_cache nc (cache_after nc k') k' end.

(* python  c[-j]  (1 <= j <= len c) *)
Definition from_end (c : list nat) (j : nat) : nat := nth (length c - j) c 0%nat.

(* the updates  w -= alpha v_k ; then re-orthogonalisation against _cache[:-1]  or  w -= beta _cache[-2] *)
Definition ortho_events (reortho : bool) (c : list nat) (k : nat) : list ev :=
  (3, S k, from_end c 1, 0)%nat ::
  (if reortho then map (fun v => (3, S k, v, 2)%nat) (removelast c)
   else match k with O => [] | S _ => [(3, S k, from_end c 2, 1)%nat] end).

(* ---- LanczosGroundState._build_krylov: n iterations k, k+1, .. starting with cache c *)
Fixpoint build_loop (nc : nat) (reortho : bool) (k n : nat) (c : list nat) : list ev :=
  match n with
  | O => []
  | S n' =>
    let c' := to_cache nc c k in
    [(0, k, 0, 0); (1, k, length c', hd 0 c'); (2, k, 0, 0)]%nat ++ ortho_events reortho c' k
      ++ build_loop nc reortho (S k) n' c'
  end.

(* ---- LanczosGroundState._rebuild_krylov_for_result_full(psif, n), a second copy of the loop *)
Fixpoint rebuild_loop (nc : nat) (reortho : bool) (k n : nat) (c : list nat) : list ev :=
  match n with
  | O => []
  | S n' =>
    let c' := to_cache nc c k in
    [(1, k, length c', hd 0 c'); (2, k, 0, 0)]%nat ++ ortho_events reortho c' k
      ++ [(0, S k, 0, 0); (4, S k, S k, 0)]%nat
      ++ rebuild_loop nc reortho (S k) n' c'
  end.

(* ---- KrylovBased._calc_result_full(N): cached part, then the rebuild with an emptied cache *)
Definition cached_terms (N : nat) (c : list nat) : list (nat * nat) :=
  map (fun k => (N - k, from_end c k)%nat) (seq 1 (min (S (length c)) N - 1)).

Definition result_events (nc : nat) (reortho : bool) (N : nat) : list ev :=
  let c := cache_after nc N in
  (6, 0, 0, 0)%nat :: map (fun t => (4, fst t, snd t, 0)%nat) (cached_terms N c)
  ++ rebuild_loop nc reortho 0 (N - length c - 1) [] ++ [(5, 0, 0, 0)%nat].

(* the whole run of LanczosGroundState.run / LanczosEvolution.run with N iterations *)
Definition lanczos_events (nc : nat) (reortho : bool) (N : nat) : list ev :=
  build_loop nc reortho 0 N [] ++ (if (N =? 1)%nat then [] else result_events nc reortho N).

(* (coefficient index, Krylov vector index) pairs summed into the result; the first is psi0 * vf[0] *)
Definition rebuilt_terms (n : nat) : list (nat * nat) := map (fun k => (S k, S k)) (seq 0 n).
Definition result_terms (nc N : nat) : list (nat * nat) :=
  let c := cache_after nc N in
  (0, 0)%nat :: cached_terms N c ++ rebuilt_terms (N - length c - 1).

(* per-iteration orthogonalisation steps of both loops (what defines v_{k+1} from H v_k) *)
Fixpoint build_ortho (nc : nat) (reortho : bool) (k n : nat) (c : list nat) : list (list ev) :=
  match n with
  | O => []
  | S n' => let c' := to_cache nc c k in ortho_events reortho c' k :: build_ortho nc reortho (S k) n' c'
  end.
Fixpoint rebuild_ortho (nc : nat) (reortho : bool) (k n : nat) (c : list nat) : list (list ev) :=
  match n with
  | O => []
  | S n' => let c' := to_cache nc c k in ortho_events reortho c' k :: rebuild_ortho nc reortho (S k) n' c'
  end.

(* ---- correspondence checker: (N_cache, reortho, N, events of the run, terms of the result) *)
Definition ev_eqb (a b : ev) : bool :=
  match a, b with (a1, a2, a3, a4), (b1, b2, b3, b4) =>
    ((a1 =? b1) && (a2 =? b2) && (a3 =? b3) && (a4 =? b4))%nat end.
Fixpoint list_eqb {A} (eqb : A -> A -> bool) (l1 l2 : list A) : bool :=
  match l1, l2 with
  | [], [] => true
  | x :: t1, y :: t2 => eqb x y && list_eqb eqb t1 t2
  | _, _ => false
  end.
Definition pair_eqb (a b : nat * nat) : bool := ((fst a =? fst b) && (snd a =? snd b))%nat.

Definition check_lanczos (x : nat * bool * nat * list ev * list (nat * nat)) : bool :=
  match x with (nc, reortho, N, evs, terms) =>
    list_eqb ev_eqb evs (lanczos_events nc reortho N) &&
    (if (N =? 1)%nat then true else list_eqb pair_eqb terms (result_terms nc N)) end.

(* ---- tools.misc.argsort(E, which) as used by Arnoldi._calc_result_krylov.  Complex numbers are
   pairs of integers (numerators of dyadic rationals); the sort key is monotone in the key numpy uses
   ( |z| replaced by |z|^2 ).  np.argsort is not stable: only the sequence of keys is determined. *)
Open Scope Z_scope.
Inductive which := LM | SM | LR | SR | LI | SI.
Definition wkey (w : which) (z : Z * Z) : Z :=
  match w with
  | LM => - (fst z * fst z + snd z * snd z)
  | SM => fst z * fst z + snd z * snd z
  | LR => - fst z
  | SR => fst z
  | LI => - snd z
  | SI => snd z
  end.
Definition argsort_model (w : which) (zs : list (Z * Z)) : list nat :=
  map snd (sorted_pairs (map (wkey w) zs)).
Definition keys_along (w : which) (zs : list (Z * Z)) (p : list nat) : list Z :=
  map (fun i => wkey w (nth i zs (0, 0))) p.

Definition which_of (n : nat) : which :=
  match n with 0%nat => LM | 1%nat => SM | 2%nat => LR | 3%nat => SR | 4%nat => LI | _ => SI end.
Fixpoint is_perm_of_range (p : list nat) (n : nat) : bool :=
  match n with
  | O => match p with [] => true | _ => false end
  | S n' => existsb (Nat.eqb n') p && is_perm_of_range (remove Nat.eq_dec n' p) n'
  end.
(* case: (which code, values, permutation returned by the implementation) *)
Definition check_argsort (x : nat * list (Z * Z) * list nat) : bool :=
  match x with (wc, zs, p) =>
    let w := which_of wc in
    is_perm_of_range p (length zs) &&
    list_eqb Z.eqb (keys_along w zs p) (keys_along w zs (argsort_model w zs)) end.
