(* C17 - LegPipe through HDF5 (charges.py: LegPipe.save_hdf5 / LegPipe.from_hdf5).  Definitions only.
   save_hdf5 writes the LegCharge part (super().save_hdf5: chinfo, qconj, the attributes `sorted` and `bunched`,
   and slices/charges, which the loader of LegPipe ignores) plus the incoming `legs`; from_hdf5 reads
   sorted, bunched, qconj, legs and RE-INITIALISES: `cls(legs, qconj, sorted, bunched)`, i.e. it re-runs
   LegPipe.__init__ / _init_from_legs with sort := saved attribute `sorted`, bunch := saved attribute `bunched`.
   (formats "blocks" and "compact"; with format "flat" the attributes sorted/bunched are not written and the
   loader fails: recorded defect F17.1.)
   The construction itself is Model/Pipe.v:pipe_init (the correspondence-checked model of C06, all four sort/bunch
   combinations).  New here: the cached attributes `sorted`/`bunched` of the constructed pipe, which are what is
   saved (NOT the constructor arguments):
     general path      : self.sorted = sort or (qnumber == 0);  self.bunched = bunch
     single-block path : (every incoming leg has exactly one block) LegCharge.__init__ with one block sets
                         sorted = bunched = True, whatever the arguments.
   Executed against the code: stream `pipe-reinit` of harness/c17.py with the checker
   Model/PipeReinitCheck.v:check_pipe_reinit - the raw content of the h5py file written by LegPipe.save_hdf5 is
   compared with pipe_save, the pipe rebuilt by LegPipe.from_hdf5 and the unpickled pipe (charges, slices, q_map,
   q_map_slices, _perm, _strides, sorted, bunched, legs, qconj) with pipe_load, the constructed pipe with
   pipe_construct, for all four (sort, bunch) arguments, formats blocks / compact. *)
From TenpyV Require Import Base.Prelude Model.ChargeL Model.Leg Model.Pipe.
Open Scope Z_scope.

(* arguments of LegPipe(legs, qconj, sort, bunch); chinfo = legs[0].chinfo is a separate argument of the model *)
Record pipe_args := mkPipeArgs {
  a_chinfo : chinfo; a_legs : list leg; a_qconj : Z; a_sort : bool; a_bunch : bool }.

(* self.subqshape == (1,) * len(legs) *)
Definition single_block (legs : list leg) : bool := forallb (fun l => Nat.eqb (nblocks l) 1) legs.

Definition attr_sorted (a : pipe_args) : bool :=
  if single_block (a_legs a) then true else a_sort a || Nat.eqb (length (a_chinfo a)) 0.
Definition attr_bunched (a : pipe_args) : bool :=
  if single_block (a_legs a) then true else a_bunch a.

(* the constructed object: legs, qconj, charges/slices (p_blocks), q_map, q_map_slices (Model/Pipe.v:pipe) and the
   cached flags *)
Record pipe_obj := mkPipeObj { po_pipe : pipe; po_sorted : bool; po_bunched : bool }.

Definition pipe_construct (a : pipe_args) : pipe_obj :=
  mkPipeObj (pipe_init (a_chinfo a) (a_legs a) (a_qconj a) (a_sort a) (a_bunch a)) (attr_sorted a) (attr_bunched a).

(* what from_hdf5 reads back from the file *)
Record pipe_saved := mkPipeSaved {
  s_chinfo : chinfo; s_legs : list leg; s_qconj : Z; s_sorted : bool; s_bunched : bool }.

(* save_hdf5 of the pipe constructed from a *)
Definition pipe_save (a : pipe_args) : pipe_saved :=
  mkPipeSaved (a_chinfo a) (a_legs a) (a_qconj a) (attr_sorted a) (attr_bunched a).

(* from_hdf5: cls(legs, qconj, sorted, bunched) *)
Definition pipe_load (s : pipe_saved) : pipe_obj :=
  pipe_construct (mkPipeArgs (s_chinfo s) (s_legs s) (s_qconj s) (s_sorted s) (s_bunched s)).

(* the slip cls(legs, qconj, bunched, sorted) *)
Definition pipe_load_swapped (s : pipe_saved) : pipe_obj :=
  pipe_construct (mkPipeArgs (s_chinfo s) (s_legs s) (s_qconj s) (s_bunched s) (s_sorted s)).

(* documented attributes of the loaded pipe *)
Definition po_charges (o : pipe_obj) : list cvec := map snd (p_blocks (po_pipe o)).
Definition po_slices (o : pipe_obj) : list Z := slices_of (map fst (p_blocks (po_pipe o))).
Definition po_qmap (o : pipe_obj) : list (list Z) := map qrow_obs (p_qmap (po_pipe o)).
Definition po_qmap_slices (o : pipe_obj) : list Z := p_qmap_slices (po_pipe o).

(* example: a two-leg U(1) pipe (2 x 3 blocks; fused charges of the grid 1,1,2,0,0,1), constructed with sort=True,
   bunch=False: saved flags sorted=True, bunched=False *)
Definition reinit_ex : pipe_args :=
  mkPipeArgs [1] [mkLeg [(1, [1]); (2, [0])] 1; mkLeg [(1, [0]); (1, [0]); (2, [1])] 1] 1 true false.
(* a pipe of single-block legs constructed with sort=False, bunch=False: saved flags are True, True *)
Definition reinit_ex_single : pipe_args :=
  mkPipeArgs [1] [mkLeg [(2, [1])] 1; mkLeg [(3, [-1])] (-1)] 1 false false.
(* no charges (qnumber = 0), sort=False: saved `sorted` is True *)
Definition reinit_ex_q0 : pipe_args :=
  mkPipeArgs [] [mkLeg [(2, []); (1, [])] 1; mkLeg [(3, [])] (-1)] 1 false true.
