(* Executable checker for the correspondence of Model/Labels.v with Array._combine_leg_labels / _split_leg_label /
   _conj_leg_label (harness/c01.py, stream 'labels').  Definitions only. *)
From TenpyV Require Import Base.Prelude Model.Labels.
From Coq Require Import Ascii String.

Definition l2a (s : string) : label := list_ascii_of_string s.
Fixpoint label_eqb (a b : label) : bool :=
  match a, b with
  | [], [] => true
  | x :: a', y :: b' => Ascii.eqb x y && label_eqb a' b'
  | _, _ => false
  end.
Definition olabel_eqb (a b : option label) : bool :=
  match a, b with Some x, Some y => label_eqb x y | None, None => true | _, _ => false end.
Fixpoint all2 {A} (f : A -> A -> bool) (a b : list A) : bool :=
  match a, b with [] , [] => true | x :: a', y :: b' => f x y && all2 f a' b' | _, _ => false end.

(* (labels, count, combined, split of combined into count (None = raised), conj of each label, conj of combined) *)
Definition label_case := (list string * Z * string * option (list (option string)) * list string * string)%type.
Definition check_label_case (c : label_case) : bool :=
  let '(ls, cnt, comb, spl, cj, cjc) := c in
  let lsa := List.map l2a ls in
  label_eqb (combine_labels lsa) (l2a comb) &&
  match split_label (l2a comb) (Z.to_nat cnt), spl with
  | Some got, Some want => all2 olabel_eqb got (List.map (option_map l2a) want)
  | None, None => true
  | _, _ => false
  end &&
  all2 label_eqb (List.map conj_label lsa) (List.map l2a cj) &&
  label_eqb (conj_label (l2a comb)) (l2a cjc).
