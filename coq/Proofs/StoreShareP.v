(* Proofs about Model/StoreShare.v: results of functions that are not in-place (other than copy(deep=False)) and
   receivers of rebinding in-place methods own fresh buffers only, hence share no buffer with any other live tensor. *)
From TenpyV Require Import Base.Prelude Model.Store Model.StoreShare Proofs.StoreP Proofs.StoreP2.
Open Scope nat_scope.

(* buffers of x are old (< n), buffers of y are new (>= n): no common buffer, in both directions *)
Lemma shares_false_sep h x y n :
  Forall (fun i => i < n) (blk (obj h x)) -> Forall (fun j => n <= j) (blk (obj h y)) ->
  shares_buffer h x y = false /\ shares_buffer h y x = false.
Proof.
  intros Hx Hy. rewrite Forall_forall in Hx, Hy. unfold shares_buffer. split.
  - destruct (existsb _ (blk (obj h x))) eqn:E; [|reflexivity].
    apply existsb_exists in E. destruct E as [i [Hi E]]. apply existsb_exists in E. destruct E as [j [Hj E]].
    apply Nat.eqb_eq in E. subst j. specialize (Hx i Hi). specialize (Hy i Hj). lia.
  - destruct (existsb _ (blk (obj h y))) eqn:E; [|reflexivity].
    apply existsb_exists in E. destruct E as [i [Hi E]]. apply existsb_exists in E. destruct E as [j [Hj E]].
    apply Nat.eqb_eq in E. subst j. specialize (Hy i Hi). specialize (Hx i Hj). lia.
Qed.

Lemma fresh_ge n m k : k <= n -> Forall (fun j => k <= j) (fresh_ids n m).
Proof. intros H. apply Forall_forall. intros j Hj. unfold fresh_ids in Hj. apply in_seq in Hj. lia. Qed.

Lemma old_blk_lt h x : wf h -> x < length (objs h) -> Forall (fun i => i < length (bufs h)) (blk (obj h x)).
Proof. intros Hwf Hx. destruct (wf_obj h x Hwf Hx) as [Hb _]. exact Hb. Qed.

Lemma nth_last_len {A} (l : list A) a d n : length l = n -> nth n (l ++ [a]) d = a.
Proof. intros <-. rewrite app_nth2 by lia. rewrite Nat.sub_diag. reflexivity. Qed.
Lemma nth_last {A} (l : list A) a d : nth (length l) (l ++ [a]) d = a.
Proof. apply nth_last_len. reflexivity. Qed.

(* an old tensor is the same record after the operation, and the result record owns buffers allocated by it *)
Lemma fresh_result_facts h o x : returns_fresh o = true -> x < length (objs h) ->
  obj (fst (exec h o)) x = obj h x /\
  Forall (fun j => length (bufs h) <= j) (blk (obj (fst (exec h o)) (snd (exec h o)))).
Proof.
  intros Hf Hx.
  destruct o as [nb lgs|deep r|r f|r b g|r f gt perm|r gt perm|r f gt newlegs|r f|r f|a b g|a b pa pb F];
    cbn [returns_fresh] in Hf; try discriminate.
  - (* ONew *)
    cbn [exec fst snd]. unfold obj. cbn [objs]. split.
    + apply app_nth1, Hx.
    + rewrite nth_last. cbn [blk]. apply fresh_ge. lia.
  - (* OCopy true *)
    destruct deep; [|discriminate]. cbn [exec deep_copy fst snd]. unfold obj, add_obj. cbn [objs]. split.
    + apply app_nth1, Hx.
    + rewrite nth_last. cbn [blk]. apply fresh_ge. lia.
  - (* OUnary *)
    cbn [exec deep_copy fst snd]. unfold obj. cbn [objs add_obj]. split.
    + apply app_nth1, Hx.
    + rewrite nth_last. cbn [blk]. apply fresh_ge. lia.
  - (* OScaleAxis *)
    cbn [exec rebind fst snd]. unfold obj, add_obj. cbn [objs]. split.
    + apply app_nth1, Hx.
    + rewrite nth_last. cbn [blk]. apply fresh_ge. lia.
  - (* OAdd *)
    cbn [exec deep_copy fst snd]. unfold obj. cbn [objs add_obj]. split.
    + apply app_nth1, Hx.
    + rewrite nth_last. cbn [blk]. apply fresh_ge. lia.
  - (* OTensordot *)
    cbn [exec rebind]. destruct (F _ _) as [rb rt]. cbn [fst snd]. unfold obj. cbn [objs add_obj set_obj bufs]. split.
    + rewrite app_nth1 by (rewrite upd_length, app_length, upd_length, app_length; lia).
      rewrite nth_upd_other by lia.
      rewrite app_nth1 by (rewrite upd_length, app_length; lia).
      rewrite nth_upd_other by lia.
      apply app_nth1, Hx.
    + rewrite nth_last_len by (rewrite upd_length, app_length, upd_length, app_length; cbn [length]; lia).
      cbn [blk]. apply fresh_ge. rewrite !app_length. lia.
Qed.

(* the result of a function that is not in-place (everything except copy(deep=False)) shares no buffer with any tensor
   that existed before the call -- whatever the operands were (equal, shallow copies of each other, ...) *)
Lemma fresh_result_unshared h o x : wf h -> returns_fresh o = true -> x < length (objs h) ->
  shares_buffer (fst (exec h o)) x (snd (exec h o)) = false /\
  shares_buffer (fst (exec h o)) (snd (exec h o)) x = false.
Proof.
  intros Hwf Hf Hx. destruct (fresh_result_facts h o x Hf Hx) as [Ho Hres].
  apply (shares_false_sep _ x _ (length (bufs h))); [|exact Hres].
  rewrite Ho. apply old_blk_lt; assumption.
Qed.

(* after a rebinding in-place method (itranspose/iconj of complex data/python iscale_prefactor: OMapRebind; iproject:
   OProject) the receiver shares no buffer with any OTHER live tensor -- in particular no longer with its shallow copies *)
Lemma rebind_unshares h o r x : wf h -> rebinds_fresh o = true -> inplace_receiver o = Some r ->
  x < length (objs h) -> x <> r ->
  shares_buffer (fst (exec h o)) x r = false /\ shares_buffer (fst (exec h o)) r x = false.
Proof.
  intros Hwf Hf Hr Hx Hne.
  destruct o as [nb lgs|deep r0|r0 f|r0 b g|r0 f gt perm|r0 gt perm|r0 f gt newlegs|r0 f|r0 f|a b g|a b pa pb F];
    cbn [rebinds_fresh] in Hf; try discriminate; cbn [inplace_receiver] in Hr; injection Hr as ->.
  - cbn [exec rebind fst].
    apply (shares_false_sep _ x r (length (bufs h))).
    + rewrite obj_set_other by exact Hne. unfold obj. cbn [objs]. apply (old_blk_lt h x Hwf Hx).
    + unfold obj, set_obj. cbn [objs]. destruct (Nat.lt_ge_cases r (length (objs h))) as [Hlt|Hge].
      * rewrite nth_upd_same by exact Hlt. cbn [blk]. apply fresh_ge. lia.
      * rewrite nth_overflow by (rewrite upd_length; exact Hge). cbn [blk darr]. constructor.
  - cbn [exec fst].
    apply (shares_false_sep _ x r (length (bufs h))).
    + rewrite obj_set_other by exact Hne. unfold obj. cbn [objs]. apply (old_blk_lt h x Hwf Hx).
    + unfold obj, set_obj. cbn [objs]. destruct (Nat.lt_ge_cases r (length (objs h))) as [Hlt|Hge].
      * rewrite nth_upd_same by exact Hlt. cbn [blk]. apply fresh_ge. lia.
      * rewrite nth_overflow by (rewrite upd_length; exact Hge). cbn [blk darr]. constructor.
Qed.

(* non-vacuity: a shallow copy DOES share, and the result of an operation on the two does not *)
Lemma example_shares :
  let h0 := mkHeap [] [] [dleg] [] in
  let h1 := fst (exec h0 (ONew 2 [0])) in
  let h2 := fst (exec h1 (OCopy false 0)) in
  let h3 := fst (exec h2 (OUnary 0 (fun v => v))) in
  wf h2 /\ shares_buffer h2 0 1 = true /\ shares_buffer h3 0 2 = false /\ shares_buffer h3 1 2 = false.
Proof.
  cbn. repeat split; try reflexivity.
  repeat constructor.
Qed.
