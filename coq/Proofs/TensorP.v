(* Lemmas about Model/Tensor.v and Model/TensorOps.v (dense semantics, charge rule, sortedness of the block list). *)
From TenpyV Require Import Base.Prelude Model.Charge Model.Tensor Model.TensorOps Proofs.ChargeP.
Open Scope Z_scope.

(* ------------------------------------------------------------------ Gaussian integers *)
Lemma cadd_comm x y : cadd x y = cadd y x.
Proof. destruct x, y; unfold cadd; cbn [fst snd]; f_equal; lia. Qed.
Lemma cadd_assoc x y z : cadd x (cadd y z) = cadd (cadd x y) z.
Proof. destruct x, y, z; unfold cadd; cbn [fst snd]; f_equal; lia. Qed.
Lemma cadd_0_l x : cadd c0 x = x.
Proof. destruct x; unfold cadd, c0; cbn [fst snd]; f_equal; lia. Qed.
Lemma cadd_0_r x : cadd x c0 = x.
Proof. rewrite cadd_comm. apply cadd_0_l. Qed.
Lemma cmul_add_r s x y : cmul s (cadd x y) = cadd (cmul s x) (cmul s y).
Proof. destruct s, x, y; unfold cmul, cadd; cbn [fst snd]; f_equal; ring. Qed.
Lemma cmul_add_l x y s : cmul (cadd x y) s = cadd (cmul x s) (cmul y s).
Proof. destruct s, x, y; unfold cmul, cadd; cbn [fst snd]; f_equal; ring. Qed.
Lemma cmul_0_r s : cmul s c0 = c0.
Proof. destruct s; unfold cmul, c0; cbn [fst snd]; f_equal; ring. Qed.
Lemma cmul_0_l s : cmul c0 s = c0.
Proof. destruct s; unfold cmul, c0; cbn [fst snd]; f_equal; ring. Qed.
Lemma cconj_add x y : cconj (cadd x y) = cadd (cconj x) (cconj y).
Proof. destruct x, y; unfold cconj, cadd; cbn [fst snd]; f_equal; lia. Qed.
Lemma cconj_0 : cconj c0 = c0.
Proof. reflexivity. Qed.
Lemma ceqb_eq x y : ceqb x y = true -> x = y.
Proof. destruct x, y; unfold ceqb; cbn [fst snd]; intros H. f_equal; lia. Qed.

(* ------------------------------------------------------------------ osum / olast *)
Definition omap (g : C -> C) (o : option C) : option C := match o with Some v => Some (g v) | None => None end.

Lemma osum_omap g l : g c0 = c0 -> (forall x y, g (cadd x y) = cadd (g x) (g y)) ->
  osum (map (omap g) l) = g (osum l).
Proof.
  intros H0 Hadd. unfold osum. induction l as [|[v|] l IH]; cbn [map omap fold_right]; auto.
  rewrite IH. symmetry. apply Hadd.
Qed.

Lemma olast_omap_acc g l acc : 
  fold_left (fun a o => match o with Some v => v | None => a end) (map (omap g) l) (g acc) =
  g (fold_left (fun a o => match o with Some v => v | None => a end) l acc).
Proof.
  revert acc. induction l as [|[v|] l IH]; intros acc; cbn; auto.
Qed.

Lemma olast_omap g l : g c0 = c0 -> olast (map (omap g) l) = g (olast l).
Proof. intros H0. unfold olast. rewrite <- H0 at 1. apply olast_omap_acc. Qed.

Lemma osum_cons o l : osum (o :: l) = match o with Some v => cadd v (osum l) | None => osum l end.
Proof. reflexivity. Qed.
Lemma osum_nil : osum [] = c0.
Proof. reflexivity. Qed.

Lemma osum_app l1 l2 : osum (l1 ++ l2) = cadd (osum l1) (osum l2).
Proof.
  induction l1 as [|[v|] l1 IH]; cbn [app]; rewrite ?osum_cons, ?osum_nil.
  - symmetry. apply cadd_0_l.
  - rewrite IH. apply cadd_assoc.
  - exact IH.
Qed.

Lemma osum_perm l1 l2 : Permutation l1 l2 -> osum l1 = osum l2.
Proof.
  induction 1 as [|x l l' _ IH|x y l|l l' l'' _ IH1 _ IH2]; rewrite ?osum_cons.
  - reflexivity.
  - destruct x; rewrite IH; reflexivity.
  - destruct x, y; try reflexivity. rewrite !cadd_assoc. f_equal. apply cadd_comm.
  - congruence.
Qed.

(* the last stored block covering an index *)
Definition lastsome (l : list (option C)) : option C :=
  fold_right (fun o r => match r with Some v => Some v | None => o end) None l.

Lemma fold_left_lastsome l acc :
  fold_left (fun a o => match o with Some v => v | None => a end) l acc =
  match lastsome l with Some v => v | None => acc end.
Proof.
  revert acc. induction l as [|o l IH]; intros acc; [reflexivity|].
  cbn [fold_left]. rewrite IH.
  change (lastsome (o :: l)) with (match lastsome l with Some v => Some v | None => o end).
  destruct (lastsome l); [reflexivity|]. destruct o; reflexivity.
Qed.

Fixpoint at_most_one (l : list (option C)) : Prop :=
  match l with
  | [] => True
  | o :: t => (o <> None -> Forall (fun x => x = None) t) /\ at_most_one t
  end.

Lemma all_none_osum l : Forall (fun x => x = None) l -> osum l = c0 /\ lastsome l = None.
Proof.
  induction 1 as [|x l Hx _ [IH1 IH2]]; [auto|]. subst x. rewrite osum_cons. cbn [lastsome fold_right].
  fold (lastsome l). rewrite IH2. auto.
Qed.

Lemma olast_osum l : at_most_one l -> olast l = osum l.
Proof.
  unfold olast. rewrite fold_left_lastsome.
  induction l as [|o l IH]; intros H; [reflexivity|].
  rewrite osum_cons. cbn [lastsome fold_right]. fold (lastsome l).
  destruct H as [H1 H2]. destruct o as [v|].
  - destruct (all_none_osum l (H1 ltac:(discriminate))) as [E1 E2]. rewrite E1, E2. symmetry. apply cadd_0_r.
  - specialize (IH H2). destruct (lastsome l); exact IH.
Qed.

(* ------------------------------------------------------------------ lists, permutations *)
Lemma forallb_comp {A B} (f : B -> bool) (g : A -> B) l : forallb (fun x => f (g x)) l = forallb f (map g l).
Proof. induction l as [|x l IH]; cbn; [reflexivity|]. rewrite IH. reflexivity. Qed.

Lemma forallb_perm {A} (f : A -> bool) l l' : Permutation l l' -> forallb f l = forallb f l'.
Proof.
  induction 1 as [|x l l' _ IH|x y l|l l' l'' _ IH1 _ IH2]; cbn; try congruence.
  destruct (f x), (f y); reflexivity.
Qed.

Lemma forallb_ext_in {A} (f g : A -> bool) l : (forall x, In x l -> f x = g x) -> forallb f l = forallb g l.
Proof.
  induction l as [|x l IH]; intros H; cbn; [reflexivity|].
  rewrite H by (left; reflexivity). rewrite IH; [reflexivity|]. intros y Hy. apply H. right. exact Hy.
Qed.

Lemma map_seq_shift {A} (f : nat -> A) n m : map f (seq n m) = map (fun k => f (n + k)%nat) (seq 0 m).
Proof.
  revert n. induction m as [|m IH]; intros n; cbn [seq map]; [reflexivity|].
  rewrite Nat.add_0_r. f_equal. rewrite IH. rewrite <- seq_shift, map_map.
  apply map_ext. intros k. f_equal. lia.
Qed.

Lemma map_nth_seq {A} (d : A) (p : list A) : map (fun k => nth k p d) (seq 0 (length p)) = p.
Proof.
  induction p as [|x p IH]; cbn [length seq map]; [reflexivity|].
  cbn [nth]. f_equal. rewrite <- seq_shift, map_map. cbn [nth]. exact IH.
Qed.

Lemma nth_map_in {A B} (f : A -> B) l k da db : (k < length l)%nat -> nth k (map f l) db = f (nth k l da).
Proof.
  intros H. rewrite (nth_indep (map f l) db (f da)) by (rewrite map_length; exact H). apply map_nth.
Qed.

Lemma perm_seq_lt p r k : Permutation p (seq 0 r) -> In k p -> (k < r)%nat.
Proof. intros HP Hin. apply (Permutation_in _ HP) in Hin. apply in_seq in Hin. lia. Qed.

Lemma perm_seq_length p r : Permutation p (seq 0 r) -> length p = r.
Proof. intros HP. apply Permutation_length in HP. rewrite seq_length in HP. exact HP. Qed.

Lemma gather_length {A} (d : A) p l : length (gather d p l) = length p.
Proof. unfold gather. apply map_length. Qed.

Lemma nth_gather {A} (d : A) p l k : (k < length p)%nat -> nth k (gather d p l) d = nth (nth k p 0%nat) l d.
Proof. intros H. unfold gather. apply (nth_map_in (fun k0 => nth k0 l d) p k 0%nat d H). Qed.

Lemma index_of_spec k p : In k p -> (index_of k p < length p)%nat /\ nth (index_of k p) p 0%nat = k.
Proof.
  induction p as [|x p IH]; intros Hin; [destruct Hin|].
  cbn [index_of]. destruct (x =? k)%nat eqn:E.
  - cbn. split; [lia|]. lia.
  - destruct Hin as [->|Hin]; [rewrite Nat.eqb_refl in E; discriminate|].
    destruct (IH Hin) as [H1 H2]. cbn [length nth]. split; [lia|exact H2].
Qed.

Lemma gather_inv p r (x : list nat) : Permutation p (seq 0 r) -> length x = r ->
  gather 0%nat (invperm p) (gather 0%nat p x) = x.
Proof.
  intros HP Hx. pose proof (perm_seq_length _ _ HP) as Hl.
  apply (nth_ext _ _ 0%nat 0%nat).
  - rewrite gather_length. unfold invperm. rewrite map_length, seq_length. lia.
  - intros k Hk. rewrite gather_length in Hk. unfold invperm in Hk. rewrite map_length, seq_length in Hk.
    rewrite nth_gather by (unfold invperm; rewrite map_length, seq_length; exact Hk).
    unfold invperm. rewrite (nth_map_in (fun k0 => index_of k0 p) (seq 0 (length p)) k 0%nat 0%nat) by (rewrite seq_length; exact Hk).
    rewrite seq_nth by exact Hk. cbn [Nat.add].
    assert (Hin : In k p).
    { apply (Permutation_in _ (Permutation_sym HP)). apply in_seq. lia. }
    destruct (index_of_spec k p Hin) as [H1 H2].
    rewrite nth_gather by exact H1. rewrite H2. reflexivity.
Qed.
