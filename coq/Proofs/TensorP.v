(* Lemmas about Model/Tensor.v and Model/TensorOps.v (dense semantics, charge rule, sortedness of the block list). *)
From TenpyV Require Import Base.Prelude Model.Charge Model.Tensor Model.TensorOps Proofs.ChargeP.
Open Scope Z_scope.

(* ------------------------------------------------------------------ Gaussian integers *)
Lemma cadd_comm x y : cadd x y = cadd y x.
Proof. destruct x, y; unfold cadd; cbn [fst snd]; f_equal; lia. Qed.
Lemma cadd_assoc x y z : cadd x (cadd y z) = cadd (cadd x y) z.
Proof. destruct x, y, z; unfold cadd; cbn [fst snd]; f_equal; lia. Qed.
Lemma cadd_0_l x : cadd c0 x = x.
Proof. destruct x; unfold cadd, c0; cbn [fst snd]; f_equal; lia. Qed.
Lemma cadd_0_r x : cadd x c0 = x.
Proof. rewrite cadd_comm. apply cadd_0_l. Qed.
Lemma cmul_add_r s x y : cmul s (cadd x y) = cadd (cmul s x) (cmul s y).
Proof. destruct s, x, y; unfold cmul, cadd; cbn [fst snd]; f_equal; ring. Qed.
Lemma cmul_add_l x y s : cmul (cadd x y) s = cadd (cmul x s) (cmul y s).
Proof. destruct s, x, y; unfold cmul, cadd; cbn [fst snd]; f_equal; ring. Qed.
Lemma cmul_0_r s : cmul s c0 = c0.
Proof. destruct s; unfold cmul, c0; cbn [fst snd]; f_equal; ring. Qed.
Lemma cmul_0_l s : cmul c0 s = c0.
Proof. destruct s; unfold cmul, c0; cbn [fst snd]; f_equal; ring. Qed.
Lemma cconj_add x y : cconj (cadd x y) = cadd (cconj x) (cconj y).
Proof. destruct x, y; unfold cconj, cadd; cbn [fst snd]; f_equal; lia. Qed.
Lemma cconj_0 : cconj c0 = c0.
Proof. reflexivity. Qed.
Lemma ceqb_eq x y : ceqb x y = true -> x = y.
Proof. destruct x, y; unfold ceqb; cbn [fst snd]; intros H. f_equal; lia. Qed.

(* ------------------------------------------------------------------ osum / olast *)
Definition omap (g : C -> C) (o : option C) : option C := match o with Some v => Some (g v) | None => None end.

Lemma osum_omap g l : g c0 = c0 -> (forall x y, g (cadd x y) = cadd (g x) (g y)) ->
  osum (map (omap g) l) = g (osum l).
Proof.
  intros H0 Hadd. unfold osum. induction l as [|[v|] l IH]; cbn [map omap fold_right]; auto.
  rewrite IH. symmetry. apply Hadd.
Qed.

Lemma olast_omap_acc g l acc : 
  fold_left (fun a o => match o with Some v => v | None => a end) (map (omap g) l) (g acc) =
  g (fold_left (fun a o => match o with Some v => v | None => a end) l acc).
Proof.
  revert acc. induction l as [|[v|] l IH]; intros acc; cbn; auto.
Qed.

Lemma olast_omap g l : g c0 = c0 -> olast (map (omap g) l) = g (olast l).
Proof. intros H0. unfold olast. rewrite <- H0 at 1. apply olast_omap_acc. Qed.

Lemma osum_cons o l : osum (o :: l) = match o with Some v => cadd v (osum l) | None => osum l end.
Proof. reflexivity. Qed.
Lemma osum_nil : osum [] = c0.
Proof. reflexivity. Qed.

Lemma osum_app l1 l2 : osum (l1 ++ l2) = cadd (osum l1) (osum l2).
Proof.
  induction l1 as [|[v|] l1 IH]; cbn [app]; rewrite ?osum_cons, ?osum_nil.
  - symmetry. apply cadd_0_l.
  - rewrite IH. apply cadd_assoc.
  - exact IH.
Qed.

Lemma osum_perm l1 l2 : Permutation l1 l2 -> osum l1 = osum l2.
Proof.
  induction 1 as [|x l l' _ IH|x y l|l l' l'' _ IH1 _ IH2]; rewrite ?osum_cons.
  - reflexivity.
  - destruct x; rewrite IH; reflexivity.
  - destruct x, y; try reflexivity. rewrite !cadd_assoc. f_equal. apply cadd_comm.
  - congruence.
Qed.

(* the last stored block covering an index *)
Definition lastsome (l : list (option C)) : option C :=
  fold_right (fun o r => match r with Some v => Some v | None => o end) None l.

Lemma fold_left_lastsome l acc :
  fold_left (fun a o => match o with Some v => v | None => a end) l acc =
  match lastsome l with Some v => v | None => acc end.
Proof.
  revert acc. induction l as [|o l IH]; intros acc; [reflexivity|].
  cbn [fold_left]. rewrite IH.
  change (lastsome (o :: l)) with (match lastsome l with Some v => Some v | None => o end).
  destruct (lastsome l); [reflexivity|]. destruct o; reflexivity.
Qed.

Fixpoint at_most_one (l : list (option C)) : Prop :=
  match l with
  | [] => True
  | o :: t => (o <> None -> Forall (fun x => x = None) t) /\ at_most_one t
  end.

Lemma all_none_osum l : Forall (fun x => x = None) l -> osum l = c0 /\ lastsome l = None.
Proof.
  induction 1 as [|x l Hx _ [IH1 IH2]]; [auto|]. subst x. rewrite osum_cons. cbn [lastsome fold_right].
  fold (lastsome l). rewrite IH2. auto.
Qed.

Lemma olast_osum l : at_most_one l -> olast l = osum l.
Proof.
  unfold olast. rewrite fold_left_lastsome.
  induction l as [|o l IH]; intros H; [reflexivity|].
  rewrite osum_cons. cbn [lastsome fold_right]. fold (lastsome l).
  destruct H as [H1 H2]. destruct o as [v|].
  - destruct (all_none_osum l (H1 ltac:(discriminate))) as [E1 E2]. rewrite E1, E2. symmetry. apply cadd_0_r.
  - specialize (IH H2). destruct (lastsome l); exact IH.
Qed.

(* ------------------------------------------------------------------ lists, permutations *)
Lemma forallb_comp {A B} (f : B -> bool) (g : A -> B) l : forallb (fun x => f (g x)) l = forallb f (map g l).
Proof. induction l as [|x l IH]; cbn; [reflexivity|]. rewrite IH. reflexivity. Qed.

Lemma forallb_perm {A} (f : A -> bool) l l' : Permutation l l' -> forallb f l = forallb f l'.
Proof.
  induction 1 as [|x l l' _ IH|x y l|l l' l'' _ IH1 _ IH2]; cbn; try congruence.
  destruct (f x), (f y); reflexivity.
Qed.

Lemma forallb_ext_in {A} (f g : A -> bool) l : (forall x, In x l -> f x = g x) -> forallb f l = forallb g l.
Proof.
  induction l as [|x l IH]; intros H; cbn; [reflexivity|].
  rewrite H by (left; reflexivity). rewrite IH; [reflexivity|]. intros y Hy. apply H. right. exact Hy.
Qed.

Lemma map_seq_shift {A} (f : nat -> A) n m : map f (seq n m) = map (fun k => f (n + k)%nat) (seq 0 m).
Proof.
  revert n. induction m as [|m IH]; intros n; cbn [seq map]; [reflexivity|].
  rewrite Nat.add_0_r. f_equal. rewrite IH. rewrite <- seq_shift, map_map.
  apply map_ext. intros k. f_equal. lia.
Qed.

Lemma map_nth_seq {A} (d : A) (p : list A) : map (fun k => nth k p d) (seq 0 (length p)) = p.
Proof.
  induction p as [|x p IH]; cbn [length seq map]; [reflexivity|].
  cbn [nth]. f_equal. rewrite <- seq_shift, map_map. cbn [nth]. exact IH.
Qed.

Lemma nth_map_in {A B} (f : A -> B) l k da db : (k < length l)%nat -> nth k (map f l) db = f (nth k l da).
Proof.
  intros H. rewrite (nth_indep (map f l) db (f da)) by (rewrite map_length; exact H). apply map_nth.
Qed.

Lemma perm_seq_lt p r k : Permutation p (seq 0 r) -> In k p -> (k < r)%nat.
Proof. intros HP Hin. apply (Permutation_in _ HP) in Hin. apply in_seq in Hin. lia. Qed.

Lemma perm_seq_length p r : Permutation p (seq 0 r) -> length p = r.
Proof. intros HP. apply Permutation_length in HP. rewrite seq_length in HP. exact HP. Qed.

Lemma gather_length {A} (d : A) p l : length (gather d p l) = length p.
Proof. unfold gather. apply map_length. Qed.

Lemma nth_gather {A} (d : A) p l k : (k < length p)%nat -> nth k (gather d p l) d = nth (nth k p 0%nat) l d.
Proof. intros H. unfold gather. apply (nth_map_in (fun k0 => nth k0 l d) p k 0%nat d H). Qed.

Lemma index_of_spec k p : In k p -> (index_of k p < length p)%nat /\ nth (index_of k p) p 0%nat = k.
Proof.
  induction p as [|x p IH]; intros Hin; [destruct Hin|].
  cbn [index_of]. destruct (x =? k)%nat eqn:E.
  - cbn. split; [lia|]. lia.
  - destruct Hin as [->|Hin]; [rewrite Nat.eqb_refl in E; discriminate|].
    destruct (IH Hin) as [H1 H2]. cbn [length nth]. split; [lia|exact H2].
Qed.

Lemma gather_inv p r (x : list nat) : Permutation p (seq 0 r) -> length x = r ->
  gather 0%nat (invperm p) (gather 0%nat p x) = x.
Proof.
  intros HP Hx. pose proof (perm_seq_length _ _ HP) as Hl.
  apply (nth_ext _ _ 0%nat 0%nat).
  - rewrite gather_length. unfold invperm. rewrite map_length, seq_length. lia.
  - intros k Hk. rewrite gather_length in Hk. unfold invperm in Hk. rewrite map_length, seq_length in Hk.
    rewrite nth_gather by (unfold invperm; rewrite map_length, seq_length; exact Hk).
    unfold invperm. rewrite (nth_map_in (fun k0 => index_of k0 p) (seq 0 (length p)) k 0%nat 0%nat) by (rewrite seq_length; exact Hk).
    rewrite seq_nth by exact Hk. cbn [Nat.add].
    assert (Hin : In k p).
    { apply (Permutation_in _ (Permutation_sym HP)). apply in_seq. lia. }
    destruct (index_of_spec k p Hin) as [H1 H2].
    rewrite nth_gather by exact H1. rewrite H2. reflexivity.
Qed.

(* ------------------------------------------------------------------ transpose *)
Lemma inb_transpose p ls qs idx : Permutation p (seq 0 (length ls)) ->
  inb (gather dleg p ls) (gather 0%nat p qs) (gather 0%nat p idx) = inb ls qs idx.
Proof.
  intros HP. pose proof (perm_seq_length _ _ HP) as Hl.
  unfold inb. rewrite gather_length.
  set (G := fun j => in1 (nth j ls dleg) (nth j qs 0%nat) (nth j idx 0%nat)).
  transitivity (forallb G (map (fun k => nth k p 0%nat) (seq 0 (length p)))).
  - rewrite <- forallb_comp. apply forallb_ext_in. intros k Hk. apply in_seq in Hk. unfold G.
    rewrite !nth_gather by lia. reflexivity.
  - rewrite map_nth_seq. apply forallb_perm. exact HP.
Qed.

Lemma loc_transpose p ls qs idx : Permutation p (seq 0 (length ls)) ->
  loc (gather dleg p ls) (gather 0%nat p qs) (gather 0%nat p idx) = gather 0%nat p (loc ls qs idx).
Proof.
  intros HP. unfold loc. rewrite gather_length.
  set (L := fun j => (nth j idx 0 - bstart (nth j ls dleg) (nth j qs 0))%nat).
  transitivity (map L (map (fun k => nth k p 0%nat) (seq 0 (length p)))).
  - rewrite map_map. apply map_ext_in. intros k Hk. apply in_seq in Hk. unfold L.
    rewrite !nth_gather by lia. reflexivity.
  - rewrite map_nth_seq. unfold gather. apply map_ext_in. intros k Hk.
    assert (Hlt : (k < length ls)%nat) by (eapply perm_seq_lt; eauto).
    rewrite (nth_map_in L (seq 0 (length ls)) k 0%nat 0%nat) by (rewrite seq_length; lia).
    rewrite seq_nth by lia. reflexivity.
Qed.

Lemma bval_transpose p ls idx (b : block) : Permutation p (seq 0 (length ls)) ->
  bval (gather dleg p ls) (gather 0%nat p idx)
       (gather 0%nat p (fst b), fun j => snd b (gather 0%nat (invperm p) j)) = bval ls idx b.
Proof.
  intros HP. unfold bval. cbn [fst snd]. rewrite inb_transpose by exact HP.
  destruct (inb ls (fst b) idx); [|reflexivity].
  rewrite loc_transpose by exact HP. rewrite (gather_inv p (length ls)); [reflexivity|exact HP|].
  unfold loc. rewrite map_length, seq_length. reflexivity.
Qed.

Lemma transpose_vals p a idx : Permutation p (seq 0 (rank a)) ->
  map (bval (legs (transpose p a)) (gather 0%nat p idx)) (blks (transpose p a)) = map (bval (legs a) idx) (blks a).
Proof.
  intros HP. unfold transpose. cbn [legs blks]. rewrite map_map. apply map_ext. intros b.
  apply bval_transpose. exact HP.
Qed.

(* np.transpose(D, p)[i_p0, i_p1, ...] = D[i_0, i_1, ...] *)
Theorem transpose_dense p a idx : Permutation p (seq 0 (rank a)) ->
  to_ndarray (transpose p a) (gather 0%nat p idx) = to_ndarray a idx /\
  dense_sum (transpose p a) (gather 0%nat p idx) = dense_sum a idx.
Proof.
  intros HP. unfold to_ndarray, dense_sum. rewrite transpose_vals by exact HP. split; reflexivity.
Qed.

(* ------------------------------------------------------------------ conj, scale *)
Lemma inb_conj ls qs idx : inb (map conj_leg ls) qs idx = inb ls qs idx.
Proof.
  unfold inb. rewrite map_length. apply forallb_ext_in. intros k Hk. apply in_seq in Hk.
  rewrite (nth_map_in conj_leg ls k dleg dleg) by lia. reflexivity.
Qed.

Lemma loc_conj ls qs idx : loc (map conj_leg ls) qs idx = loc ls qs idx.
Proof.
  unfold loc. rewrite map_length. apply map_ext_in. intros k Hk. apply in_seq in Hk.
  rewrite (nth_map_in conj_leg ls k dleg dleg) by lia. reflexivity.
Qed.

Lemma conj_vals ci a idx :
  map (bval (legs (conj ci a)) idx) (blks (conj ci a)) = map (omap cconj) (map (bval (legs a) idx) (blks a)).
Proof.
  unfold conj. cbn [legs blks]. rewrite !map_map. apply map_ext. intros b. unfold bval. cbn [fst snd].
  rewrite inb_conj, loc_conj. destruct (inb (legs a) (fst b) idx); reflexivity.
Qed.

Theorem conj_dense ci a idx :
  to_ndarray (conj ci a) idx = cconj (to_ndarray a idx) /\ dense_sum (conj ci a) idx = cconj (dense_sum a idx).
Proof.
  unfold to_ndarray, dense_sum. rewrite conj_vals. split.
  - apply olast_omap. reflexivity.
  - apply osum_omap; [reflexivity|apply cconj_add].
Qed.

Lemma scale_blocks_vals s ls idx bs :
  map (bval ls idx) (scale_blocks s bs) = map (omap (cmul s)) (map (bval ls idx) bs).
Proof.
  unfold scale_blocks. rewrite !map_map. apply map_ext. intros b. unfold bval. cbn [fst snd].
  destruct (inb ls (fst b) idx); reflexivity.
Qed.

Theorem scale_dense s a idx :
  to_ndarray (scale s a) idx = cmul s (to_ndarray a idx) /\ dense_sum (scale s a) idx = cmul s (dense_sum a idx).
Proof.
  unfold scale. destruct (ceqb s c0) eqn:E.
  - apply ceqb_eq in E. subst s. unfold to_ndarray, dense_sum. cbn [legs blks map].
    rewrite !cmul_0_l. split; reflexivity.
  - unfold to_ndarray, dense_sum. cbn [legs blks]. rewrite scale_blocks_vals. split.
    + apply olast_omap. apply cmul_0_r.
    + apply osum_omap; [apply cmul_0_r|apply cmul_add_r].
Qed.

(* ------------------------------------------------------------------ charge rule *)
Lemma sumZ_map_opp {A} (f : A -> Z) l : sumZ (map (fun x => - f x) l) = - sumZ (map f l).
Proof. induction l as [|x l IH]; cbn [map sumZ]; lia. Qed.

Lemma chg_conj l q j : chg (conj_leg l) q j = - chg l q j.
Proof. unfold chg, conj_leg. cbn [qc bch]. ring. Qed.

Lemma row_charge_conj ls qs j : row_charge (map conj_leg ls) qs j = - row_charge ls qs j.
Proof.
  unfold row_charge. rewrite map_length. rewrite <- sumZ_map_opp. f_equal.
  apply map_ext_in. intros k Hk. apply in_seq in Hk.
  rewrite (nth_map_in conj_leg ls k dleg dleg) by lia. apply chg_conj.
Qed.

Lemma row_charge_transpose p ls qs j : Permutation p (seq 0 (length ls)) ->
  row_charge (gather dleg p ls) (gather 0%nat p qs) j = row_charge ls qs j.
Proof.
  intros HP. unfold row_charge. rewrite gather_length.
  set (G := fun k => chg (nth k ls dleg) (nth k qs 0%nat) j).
  transitivity (sumZ (map G (map (fun k => nth k p 0%nat) (seq 0 (length p))))).
  - rewrite map_map. f_equal. apply map_ext_in. intros k Hk. apply in_seq in Hk. unfold G.
    rewrite !nth_gather by lia. reflexivity.
  - rewrite map_nth_seq. apply sumZ_perm. apply Permutation_map. exact HP.
Qed.

Lemma row_charge_app la lb qa qb j : length qa = length la ->
  row_charge (la ++ lb) (qa ++ qb) j = row_charge la qa j + row_charge lb qb j.
Proof.
  intros Hl. unfold row_charge. rewrite app_length, seq_app, map_app, sumZ_app. f_equal.
  - f_equal. apply map_ext_in. intros k Hk. apply in_seq in Hk.
    rewrite !app_nth1 by lia. reflexivity.
  - cbn [Nat.add]. rewrite map_seq_shift. f_equal. apply map_ext. intros k.
    rewrite <- Hl at 2. rewrite !app_nth2_plus. reflexivity.
Qed.

Lemma row_ok_conj ci ls qt r : valid_ci ci -> length qt = length ci ->
  row_ok ci ls qt r -> row_ok ci (map conj_leg ls) (make_valid ci (vneg qt)) r.
Proof.
  intros Hv Hl H j Hj. specialize (H j Hj).
  rewrite nth_make_valid by (unfold vneg; rewrite ?map_length; lia).
  rewrite nth_vneg, row_charge_conj, <- H.
  symmetry. apply mv1_opp. apply valid_ci_nth. exact Hv.
Qed.

Lemma row_ok_outer ci la lb qta qtb ra rb : valid_ci ci ->
  length qta = length ci -> length qtb = length ci -> length ra = length la ->
  row_ok ci la qta ra -> row_ok ci lb qtb rb ->
  row_ok ci (la ++ lb) (make_valid ci (vadd qta qtb)) (ra ++ rb).
Proof.
  intros Hv Ha Hb Hl H1 H2 j Hj. specialize (H1 j Hj). specialize (H2 j Hj).
  rewrite nth_make_valid by (rewrite ?vadd_length; lia).
  rewrite nth_vadd by lia. rewrite row_charge_app by exact Hl.
  rewrite <- H1, <- H2. apply mv1_add. apply valid_ci_nth. exact Hv.
Qed.

(* contracted legs: the charges cancel *)
Lemma row_charge_contract ci lc lc' rc j : (j < length ci)%nat -> valid_ci ci ->
  Forall2 (contractible ci) lc lc' -> length rc = length lc ->
  mv1 (nth j ci 1) (row_charge lc rc j + row_charge lc' rc j) = mv1 (nth j ci 1) 0.
Proof.
  intros Hj Hv HF. revert rc. induction HF as [|l l' lc lc' [_ Hc] _ IH]; intros rc Hrc.
  - unfold row_charge. cbn. reflexivity.
  - pose proof (valid_ci_nth ci j Hv) as Hm.
    destruct rc as [|q rc]; [discriminate Hrc|]. cbn [length] in Hrc.
    change (l :: lc) with ([l] ++ lc). change (l' :: lc') with ([l'] ++ lc').
    change (q :: rc) with ([q] ++ rc).
    rewrite !row_charge_app by reflexivity.
    replace (row_charge [l] [q] j + row_charge lc rc j + (row_charge [l'] [q] j + row_charge lc' rc j))
      with ((row_charge [l] [q] j + row_charge [l'] [q] j) + (row_charge lc rc j + row_charge lc' rc j)) by lia.
    assert (E1 : row_charge [l] [q] j + row_charge [l'] [q] j = chg l q j + chg l' q j).
    { unfold row_charge. cbn. lia. }
    rewrite E1. rewrite (mv1_congr_add _ _ 0 _ 0 Hm (Hc q j Hj) (IH rc ltac:(lia))). reflexivity.
Qed.

(* tensordot: a has legs la ++ lc and row ra ++ rc, b has legs lc' ++ lb and row rc ++ rb *)
Lemma row_ok_tensordot ci la lc lc' lb qta qtb ra rc rb : valid_ci ci ->
  length qta = length ci -> length qtb = length ci ->
  length ra = length la -> length rc = length lc -> length lc' = length lc ->
  Forall2 (contractible ci) lc lc' ->
  row_ok ci (la ++ lc) qta (ra ++ rc) -> row_ok ci (lc' ++ lb) qtb (rc ++ rb) ->
  row_ok ci (la ++ lb) (make_valid ci (vadd qta qtb)) (ra ++ rb).
Proof.
  intros Hv Ha Hb Hla Hlc Hlc' HF H1 H2 j Hj. specialize (H1 j Hj). specialize (H2 j Hj).
  pose proof (valid_ci_nth ci j Hv) as Hm.
  rewrite nth_make_valid by (rewrite ?vadd_length; lia).
  rewrite nth_vadd by lia.
  rewrite row_charge_app in H1 by exact Hla.
  rewrite row_charge_app in H2 by lia.
  rewrite row_charge_app by exact Hla.
  rewrite <- H1, <- H2. rewrite <- mv1_add by exact Hm.
  pose proof (row_charge_contract ci lc lc' rc j Hj Hv HF Hlc) as Hc.
  replace (row_charge la ra j + row_charge lc rc j + (row_charge lc' rc j + row_charge lb rb j))
    with ((row_charge la ra j + row_charge lb rb j) + (row_charge lc rc j + row_charge lc' rc j)) by lia.
  rewrite (mv1_congr_add _ _ (row_charge la ra j + row_charge lb rb j) _ 0 Hm eq_refl Hc).
  f_equal. lia.
Qed.

(* ------------------------------------------------------------------ the order of _qdata rows *)
Lemma lex_lt_irrefl a : lex_lt a a = false.
Proof.
  induction a as [|x a IH]; cbn [lex_lt]; [reflexivity|].
  rewrite IH, andb_false_r, orb_false_r. apply Nat.ltb_irrefl.
Qed.

Lemma lex_lt_trans a b c : lex_lt a b = true -> lex_lt b c = true -> lex_lt a c = true.
Proof.
  revert b c. induction a as [|x a IH]; intros [|y b] [|z c]; cbn [lex_lt]; intros H1 H2;
    try discriminate; try reflexivity.
  apply orb_true_iff in H1. apply orb_true_iff in H2. apply orb_true_iff.
  destruct H1 as [H1|H1]; destruct H2 as [H2|H2].
  - left. apply Nat.ltb_lt in H1, H2. apply Nat.ltb_lt. lia.
  - apply andb_true_iff in H2. destruct H2 as [H2 _]. apply Nat.eqb_eq in H2. subst z. left. exact H1.
  - apply andb_true_iff in H1. destruct H1 as [H1 _]. apply Nat.eqb_eq in H1. subst y. left. exact H2.
  - apply andb_true_iff in H1. destruct H1 as [H1 H1']. apply andb_true_iff in H2. destruct H2 as [H2 H2'].
    apply Nat.eqb_eq in H1, H2. subst y z. right. rewrite Nat.eqb_refl. cbn [andb]. eapply IH; eassumption.
Qed.

Lemma lex_lt_total a b : lex_lt a b = false -> lex_lt b a = false -> a = b.
Proof.
  revert b. induction a as [|x a IH]; intros [|y b]; cbn [lex_lt]; intros H1 H2;
    try discriminate; try reflexivity.
  apply orb_false_iff in H1. destruct H1 as [H1 H1']. apply orb_false_iff in H2. destruct H2 as [H2 H2'].
  apply Nat.ltb_ge in H1, H2. assert (x = y) by lia. subst y.
  rewrite Nat.eqb_refl in H1', H2'. cbn [andb] in H1', H2'. f_equal. apply IH; assumption.
Qed.

Lemma row_lt_irrefl a : row_lt a a = false.
Proof. apply lex_lt_irrefl. Qed.
Lemma row_lt_trans a b c : row_lt a b = true -> row_lt b c = true -> row_lt a c = true.
Proof. apply lex_lt_trans. Qed.
Lemma row_lt_total a b : row_lt a b = false -> row_lt b a = false -> a = b.
Proof.
  unfold row_lt. intros H1 H2. pose proof (lex_lt_total _ _ H1 H2) as H.
  rewrite <- (rev_involutive a), <- (rev_involutive b). f_equal. exact H.
Qed.
Lemma row_eqb_eq a b : row_eqb a b = true <-> a = b.
Proof.
  revert b. induction a as [|x a IH]; intros [|y b]; cbn; split; intros H; try discriminate; try reflexivity.
  - apply andb_true_iff in H. destruct H as [H1 H2]. apply Nat.eqb_eq in H1. apply IH in H2. subst. reflexivity.
  - injection H as -> ->. rewrite Nat.eqb_refl. cbn. apply IH. reflexivity.
Qed.

(* strongly sorted (every earlier row below every later one) *)
Fixpoint ssorted (l : list (list nat)) : Prop :=
  match l with [] => True | a :: t => (forall x, In x t -> row_lt a x = true) /\ ssorted t end.

Lemma ssorted_of_strictly l : strictly_sorted l = true -> ssorted l.
Proof.
  induction l as [|a t IH]; intros H; [exact I|].
  destruct t as [|b t'].
  - split; [intros x []|exact I].
  - cbn [strictly_sorted] in H. apply andb_true_iff in H. destruct H as [H1 H2].
    specialize (IH H2). split; [|exact IH].
    intros x [<-|Hx]; [exact H1|]. destruct IH as [IH1 _]. eapply row_lt_trans; [exact H1|]. apply IH1. exact Hx.
Qed.

Lemma strictly_of_ssorted l : ssorted l -> strictly_sorted l = true.
Proof.
  induction l as [|a t IH]; intros H; [reflexivity|].
  destruct H as [H1 H2]. destruct t as [|b t']; [reflexivity|].
  cbn [strictly_sorted]. rewrite (H1 b (or_introl eq_refl)). cbn. apply IH. exact H2.
Qed.

Lemma ssorted_nodup l : ssorted l -> NoDup l.
Proof.
  induction l as [|a t IH]; intros H; [constructor|].
  destruct H as [H1 H2]. constructor.
  - intros Hin. specialize (H1 a Hin). rewrite row_lt_irrefl in H1. discriminate.
  - apply IH. exact H2.
Qed.

(* ------------------------------------------------------------------ merge of two block lists *)
Lemma merge_nil_r la : merge la [] = la.
Proof. destruct la; reflexivity. Qed.

Lemma merge_cons ba ta bb tb :
  merge (ba :: ta) (bb :: tb) =
  if row_eqb (fst ba) (fst bb) then (fst ba, badd (snd ba) (snd bb)) :: merge ta tb
  else if row_lt (fst bb) (fst ba) then bb :: merge (ba :: ta) tb
  else ba :: merge ta (bb :: tb).
Proof. reflexivity. Qed.

Lemma merge_rows_in la lb r : In r (map fst (merge la lb)) -> In r (map fst la) \/ In r (map fst lb).
Proof.
  revert lb. induction la as [|ba ta IHa]; intros lb H; [right; exact H|].
  induction lb as [|bb tb IHb]; [rewrite merge_nil_r in H; left; exact H|].
  rewrite merge_cons in H.
  destruct (row_eqb (fst ba) (fst bb)) eqn:E.
  - cbn [map fst In] in H. destruct H as [<-|H]; [left; left; reflexivity|].
    apply IHa in H. destruct H as [H|H]; [left; right; exact H|right; right; exact H].
  - destruct (row_lt (fst bb) (fst ba)) eqn:E2.
    + cbn [map In] in H. destruct H as [<-|H]; [right; left; reflexivity|].
      apply IHb in H. destruct H as [H|H]; [left; exact H|right; right; exact H].
    + cbn [map In] in H. destruct H as [<-|H]; [left; left; reflexivity|].
      apply IHa in H. destruct H as [H|H]; [left; right; exact H|right; exact H].
Qed.

Lemma merge_ssorted la lb : ssorted (map fst la) -> ssorted (map fst lb) -> ssorted (map fst (merge la lb)).
Proof.
  revert lb. induction la as [|ba ta IHa]; intros lb Ha Hb; [exact Hb|].
  induction lb as [|bb tb IHb]; [rewrite merge_nil_r; exact Ha|].
  rewrite merge_cons. cbn [map ssorted] in Ha, Hb. destruct Ha as [Ha1 Ha2]. destruct Hb as [Hb1 Hb2].
  destruct (row_eqb (fst ba) (fst bb)) eqn:E.
  - apply row_eqb_eq in E. cbn [map fst ssorted]. split; [|apply IHa; assumption].
    intros x Hx. apply merge_rows_in in Hx. destruct Hx as [Hx|Hx]; [apply Ha1; exact Hx|rewrite E; apply Hb1; exact Hx].
  - destruct (row_lt (fst bb) (fst ba)) eqn:E2.
    + cbn [map ssorted]. split; [|apply IHb; exact Hb2].
      intros x Hx. apply merge_rows_in in Hx. destruct Hx as [Hx|Hx]; [|apply Hb1; exact Hx].
      cbn [map In] in Hx. destruct Hx as [<-|Hx]; [exact E2|].
      eapply row_lt_trans; [exact E2|apply Ha1; exact Hx].
    + assert (E3 : row_lt (fst ba) (fst bb) = true).
      { destruct (row_lt (fst ba) (fst bb)) eqn:E3; [reflexivity|].
        pose proof (row_lt_total _ _ E3 E2) as Heq. apply row_eqb_eq in Heq. congruence. }
      cbn [map ssorted]. split; [|apply IHa; [exact Ha2|cbn [map ssorted]; split; assumption]].
      intros x Hx. apply merge_rows_in in Hx. destruct Hx as [Hx|Hx]; [apply Ha1; exact Hx|].
      cbn [map In] in Hx. destruct Hx as [<-|Hx]; [exact E3|].
      eapply row_lt_trans; [exact E3|apply Hb1; exact Hx].
Qed.

(* ------------------------------------------------------------------ isort_qdata *)
Lemma insert_block_perm b l : Permutation (insert_block b l) (b :: l).
Proof.
  induction l as [|c t IH]; cbn [insert_block]; [apply Permutation_refl|].
  destruct (row_lt (fst c) (fst b)); [|apply Permutation_refl].
  eapply Permutation_trans; [apply perm_skip; exact IH|apply perm_swap].
Qed.

Lemma sort_blocks_perm l : Permutation (sort_blocks l) l.
Proof.
  induction l as [|b l IH]; cbn [sort_blocks fold_right]; [apply Permutation_refl|].
  fold (sort_blocks l). eapply Permutation_trans; [apply insert_block_perm|apply perm_skip; exact IH].
Qed.

Lemma insert_block_ssorted b l : ssorted (map fst l) -> ~ In (fst b) (map fst l) -> ssorted (map fst (insert_block b l)).
Proof.
  induction l as [|c t IH]; intros Hs Hn; cbn [insert_block].
  - cbn. split; [intros x []|exact I].
  - cbn [map ssorted] in Hs. destruct Hs as [Hs1 Hs2].
    destruct (row_lt (fst c) (fst b)) eqn:E.
    + cbn [map ssorted]. split.
      * intros x Hx. apply (Permutation_in _ (Permutation_map fst (insert_block_perm b t))) in Hx.
        cbn [map In] in Hx. destruct Hx as [<-|Hx]; [exact E|apply Hs1; exact Hx].
      * apply IH; [exact Hs2|]. intros Hin. apply Hn. right. exact Hin.
    + assert (E2 : row_lt (fst b) (fst c) = true).
      { destruct (row_lt (fst b) (fst c)) eqn:E2; [reflexivity|].
        exfalso. apply Hn. left. apply row_lt_total; assumption. }
      cbn [map ssorted]. split; [|split; assumption].
      intros x [<-|Hx]; [exact E2|]. eapply row_lt_trans; [exact E2|apply Hs1; exact Hx].
Qed.

Lemma sort_blocks_ssorted l : NoDup (map fst l) -> ssorted (map fst (sort_blocks l)).
Proof.
  induction l as [|b l IH]; intros Hn; [exact I|].
  cbn [sort_blocks fold_right]. fold (sort_blocks l). inversion Hn as [|x y Hx Hy]; subst.
  apply insert_block_ssorted; [apply IH; exact Hy|].
  intros Hin. apply Hx. apply (Permutation_in _ (Permutation_map fst (sort_blocks_perm l))). exact Hin.
Qed.

Lemma isort_rows_perm a : Permutation (rows (isort_qdata a)) (rows a).
Proof.
  unfold isort_qdata, rows. destruct (qsorted a); [apply Permutation_refl|].
  cbn [blks]. apply Permutation_map. apply sort_blocks_perm.
Qed.

(* THE place where the cached claim is trusted: a truthful claim makes the result of isort_qdata sorted *)
Lemma isort_ssorted a : claim_truthful a -> NoDup (rows a) -> ssorted (rows (isort_qdata a)).
Proof.
  intros Hc Hn. unfold isort_qdata. destruct (qsorted a) eqn:E.
  - apply ssorted_of_strictly. apply Hc. exact E.
  - unfold rows. cbn [blks]. apply sort_blocks_ssorted. exact Hn.
Qed.

(* ------------------------------------------------------------------ blocks of different rows do not overlap *)
Lemma firstn_sum_step (l : list nat) q : list_sum (firstn (S q) l) = (list_sum (firstn q l) + nth q l 0)%nat.
Proof.
  unfold list_sum. revert q. induction l as [|x l IH]; intros [|q]; cbn [firstn fold_right nth]; try lia.
  specialize (IH q). cbn [firstn] in IH. rewrite IH. lia.
Qed.

Lemma firstn_sum_mono (l : list nat) q q' : (q <= q')%nat -> (list_sum (firstn q l) <= list_sum (firstn q' l))%nat.
Proof.
  induction 1 as [|q' _ IH]; [lia|]. rewrite firstn_sum_step. lia.
Qed.

Lemma in1_disjoint l q q' x : q <> q' -> in1 l q x = true -> in1 l q' x = false.
Proof.
  unfold in1, bstart, bsize. intros Hne H.
  apply andb_true_iff in H. destruct H as [H1 H2]. apply Nat.leb_le in H1. apply Nat.ltb_lt in H2.
  apply andb_false_iff.
  destruct (Nat.lt_ge_cases q q') as [Hlt|Hge].
  - left. apply Nat.leb_gt.
    pose proof (firstn_sum_mono (bsz l) (S q) q' Hlt) as Hm. rewrite firstn_sum_step in Hm. lia.
  - right. apply Nat.ltb_ge.
    assert (Hlt : (S q' <= q)%nat) by lia.
    pose proof (firstn_sum_mono (bsz l) (S q') q Hlt) as Hm. rewrite firstn_sum_step in Hm. lia.
Qed.

Lemma rows_differ (r r' : list nat) : length r = length r' -> r <> r' ->
  exists k, (k < length r)%nat /\ nth k r 0%nat <> nth k r' 0%nat.
Proof.
  revert r'. induction r as [|x r IH]; intros [|y r'] Hl Hne; cbn [length] in *; try discriminate.
  - exfalso. apply Hne. reflexivity.
  - destruct (Nat.eq_dec x y) as [->|Hxy].
    + destruct (IH r') as [k [Hk1 Hk2]]; [lia|intros ->; apply Hne; reflexivity|].
      exists (S k). split; [lia|exact Hk2].
    + exists 0%nat. split; [lia|exact Hxy].
Qed.

Lemma inb_disjoint ls r r' idx : length r = length ls -> length r' = length ls -> r <> r' ->
  inb ls r idx = true -> inb ls r' idx = false.
Proof.
  intros Hr Hr' Hne H.
  destruct (rows_differ r r' ltac:(lia) Hne) as [k [Hk1 Hk2]].
  unfold inb in *. rewrite forallb_forall in H.
  assert (Hin : In k (seq 0 (length ls))) by (apply in_seq; lia).
  specialize (H k Hin).
  destruct (forallb _ _) eqn:E; [|reflexivity].
  rewrite forallb_forall in E. specialize (E k Hin).
  rewrite (in1_disjoint _ _ _ _ Hk2 H) in E. discriminate.
Qed.

Lemma vals_at_most_one ls idx (bs : list block) :
  NoDup (map fst bs) -> (forall r, In r (map fst bs) -> length r = length ls) ->
  at_most_one (map (bval ls idx) bs).
Proof.
  induction bs as [|b bs IH]; intros Hn Hs; [exact I|].
  cbn [map] in Hn. inversion Hn as [|x y Hx Hy]; subst.
  cbn [map at_most_one]. split.
  - intros Hsome. apply Forall_forall. intros o Ho. apply in_map_iff in Ho. destruct Ho as [b' [<- Hb']].
    unfold bval in *. destruct (inb ls (fst b) idx) eqn:E; [|congruence].
    rewrite (inb_disjoint ls (fst b) (fst b') idx); [reflexivity| | | |exact E].
    + apply Hs. left. reflexivity.
    + apply Hs. right. apply in_map. exact Hb'.
    + intros Heq. apply Hx. rewrite Heq. apply in_map. exact Hb'.
  - apply IH; [exact Hy|]. intros r Hr. apply Hs. right. exact Hr.
Qed.

(* with at most one block per combination of charge blocks, to_ndarray's assignment = the sum of the blocks *)
Theorem to_ndarray_sum a idx : NoDup (rows a) -> rows_shape a -> to_ndarray a idx = dense_sum a idx.
Proof.
  intros Hn Hs. unfold to_ndarray, dense_sum. apply olast_osum. apply vals_at_most_one; assumption.
Qed.

(* ------------------------------------------------------------------ dense form of merge / add *)
Lemma bval_badd ls idx r f g :
  bval ls idx (r, badd f g) = match bval ls idx (r, f), bval ls idx (r, g) with
                              | Some x, Some y => Some (cadd x y) | _, _ => None end.
Proof. unfold bval, badd. cbn [fst snd]. destruct (inb ls r idx); reflexivity. Qed.

Ltac cnorm := intros; repeat match goal with x : C |- _ => destruct x end;
  unfold cadd, c0; cbn [fst snd]; f_equal; lia.

Lemma merge_osum ls idx la lb :
  osum (map (bval ls idx) (merge la lb)) = cadd (osum (map (bval ls idx) la)) (osum (map (bval ls idx) lb)).
Proof.
  revert lb. induction la as [|ba ta IHa]; intros lb.
  - cbn [merge map]. rewrite osum_nil. symmetry. apply cadd_0_l.
  - induction lb as [|bb tb IHb]; [rewrite merge_nil_r; cbn [map]; rewrite osum_nil; symmetry; apply cadd_0_r|].
    rewrite merge_cons. destruct (row_eqb (fst ba) (fst bb)) eqn:E.
    + apply row_eqb_eq in E. cbn [map]. rewrite !osum_cons, IHa.
      destruct ba as [ra fa], bb as [rb fb]. cbn [fst snd] in *. subst rb.
      rewrite bval_badd. unfold bval. cbn [fst snd]. destruct (inb ls ra idx); [|reflexivity].
      generalize (osum (map (bval ls idx) ta)) (osum (map (bval ls idx) tb)) (fa (loc ls ra idx)) (fb (loc ls ra idx)).
      cnorm.
    + destruct (row_lt (fst bb) (fst ba)).
      * cbn [map]. rewrite !osum_cons. rewrite IHb. cbn [map]. rewrite !osum_cons.
        generalize (osum (map (bval ls idx) ta)) (osum (map (bval ls idx) tb)).
        destruct (bval ls idx bb), (bval ls idx ba); cnorm.
      * cbn [map]. rewrite !osum_cons. rewrite IHa. cbn [map]. rewrite !osum_cons.
        generalize (osum (map (bval ls idx) ta)) (osum (map (bval ls idx) tb)).
        destruct (bval ls idx bb), (bval ls idx ba); cnorm.
Qed.

Lemma isort_dense_sum a idx : dense_sum (isort_qdata a) idx = dense_sum a idx.
Proof.
  unfold isort_qdata. destruct (qsorted a); [reflexivity|].
  unfold dense_sum. cbn [legs blks]. apply osum_perm. apply Permutation_map. apply sort_blocks_perm.
Qed.

Lemma isort_legs a : legs (isort_qdata a) = legs a.
Proof. unfold isort_qdata. destruct (qsorted a); reflexivity. Qed.
Lemma scale_legs s a : legs (scale s a) = legs a.
Proof. unfold scale. destruct (ceqb s c0); reflexivity. Qed.

(* a + alpha b on the sums of the stored blocks: holds whatever the order of the block lists is *)
Theorem add_dense_sum alpha a b idx : legs a = legs b ->
  dense_sum (add alpha a b) idx = cadd (dense_sum a idx) (cmul alpha (dense_sum b idx)).
Proof.
  intros Hl. unfold add. unfold dense_sum at 1. cbn [legs blks]. rewrite merge_osum.
  f_equal.
  - change (osum (map (bval (legs a) idx) (blks (isort_qdata a)))) with
      (osum (map (bval (legs a) idx) (blks (isort_qdata a)))).
    rewrite <- (isort_legs a) at 1. fold (dense_sum (isort_qdata a) idx). apply isort_dense_sum.
  - rewrite Hl. rewrite <- (scale_legs alpha b) at 1. rewrite <- (isort_legs (scale alpha b)) at 1.
    fold (dense_sum (isort_qdata (scale alpha b)) idx). rewrite isort_dense_sum.
    apply (proj2 (scale_dense alpha b idx)).
Qed.

(* ------------------------------------------------------------------ WF is closed under the operations *)
Lemma scale_blocks_rows s bs : map fst (scale_blocks s bs) = map fst bs.
Proof. unfold scale_blocks. rewrite map_map. apply map_ext. reflexivity. Qed.

Lemma rows_scale_in s a r : In r (rows (scale s a)) -> In r (rows a).
Proof.
  unfold scale, rows. destruct (ceqb s c0); cbn [blks map]; [intros []|].
  rewrite scale_blocks_rows. exact (fun H => H).
Qed.

Theorem wf_scale ci s a : WF ci a -> WF ci (scale s a).
Proof.
  intros [H1 H2 H3 H4 H5]. unfold scale. destruct (ceqb s c0) eqn:E.
  - constructor; cbn [qtot legs blks qsorted]; try exact H1.
    + intros r [].
    + constructor.
    + intros r [].
    + intros _. reflexivity.
  - constructor; unfold rows_shape, charge_rule, claim_truthful, rows, rank in *; cbn [qtot legs blks qsorted];
      rewrite ?scale_blocks_rows; assumption.
Qed.

Lemma conj_rows ci a : rows (conj ci a) = rows a.
Proof. unfold conj, rows. cbn [blks]. rewrite map_map. apply map_ext. reflexivity. Qed.

Theorem wf_conj ci a : valid_ci ci -> WF ci a -> WF ci (conj ci a).
Proof.
  intros Hv [H1 H2 H3 H4 H5]. constructor.
  - unfold conj. cbn [qtot]. apply make_valid_length. unfold vneg. rewrite map_length. exact H1.
  - unfold rows_shape. rewrite conj_rows. unfold rank, conj. cbn [legs]. rewrite map_length. exact H2.
  - rewrite conj_rows. exact H3.
  - unfold charge_rule. rewrite conj_rows. intros r Hr. unfold conj. cbn [legs qtot].
    apply row_ok_conj; [exact Hv|exact H1|apply H4; exact Hr].
  - unfold claim_truthful. rewrite conj_rows. unfold conj. cbn [qsorted]. exact H5.
Qed.

Lemma NoDup_map_in {A B} (f : A -> B) l :
  (forall x y, In x l -> In y l -> f x = f y -> x = y) -> NoDup l -> NoDup (map f l).
Proof.
  induction l as [|x l IH]; intros Hinj Hn; [constructor|].
  inversion Hn as [|x' l' Hx Hl]; subst. cbn [map]. constructor.
  - intros Hin. apply in_map_iff in Hin. destruct Hin as [y [Hy Hin]].
    apply Hx. rewrite (Hinj x y); [exact Hin|left; reflexivity|right; exact Hin|symmetry; exact Hy].
  - apply IH; [|exact Hl]. intros u v Hu Hv. apply Hinj; right; assumption.
Qed.

Lemma transpose_rows p a : rows (transpose p a) = map (gather 0%nat p) (rows a).
Proof. unfold transpose, rows. cbn [blks]. rewrite !map_map. apply map_ext. reflexivity. Qed.

Theorem wf_transpose ci p a : Permutation p (seq 0 (rank a)) -> WF ci a -> WF ci (transpose p a).
Proof.
  intros HP [H1 H2 H3 H4 H5]. pose proof (perm_seq_length _ _ HP) as Hl. constructor.
  - exact H1.
  - unfold rows_shape. rewrite transpose_rows. intros r Hr. apply in_map_iff in Hr. destruct Hr as [r0 [<- _]].
    unfold rank, transpose. cbn [legs]. rewrite !gather_length. reflexivity.
  - rewrite transpose_rows. apply NoDup_map_in; [|exact H3].
    intros x y Hx Hy Heq.
    rewrite <- (gather_inv p (rank a) x HP (H2 x Hx)), <- (gather_inv p (rank a) y HP (H2 y Hy)), Heq. reflexivity.
  - unfold charge_rule. rewrite transpose_rows. intros r Hr. apply in_map_iff in Hr. destruct Hr as [r0 [<- Hr0]].
    unfold transpose. cbn [legs qtot]. intros j Hj. rewrite row_charge_transpose by exact HP.
    apply (H4 r0 Hr0 j Hj).
  - intros Hf. unfold transpose in Hf. cbn [qsorted] in Hf. discriminate.
Qed.

Theorem wf_add ci alpha a b : WF ci a -> WF ci b -> legs a = legs b -> qtot a = qtot b -> WF ci (add alpha a b).
Proof.
  intros Wa Wb Hl Hq.
  pose proof (wf_scale ci alpha b Wb) as Wsb.
  destruct Wa as [A1 A2 A3 A4 A5]. destruct Wb as [B1 B2 B3 B4 B5]. destruct Wsb as [S1 S2 S3 S4 S5].
  assert (Hsa : ssorted (rows (isort_qdata a))) by (apply isort_ssorted; assumption).
  assert (Hsb : ssorted (rows (isort_qdata (scale alpha b)))) by (apply isort_ssorted; assumption).
  assert (Hss : ssorted (rows (add alpha a b))).
  { unfold add, rows. cbn [blks]. apply merge_ssorted; assumption. }
  assert (Hin : forall r, In r (rows (add alpha a b)) -> In r (rows a) \/ In r (rows b)).
  { intros r Hr. unfold add, rows in Hr. cbn [blks] in Hr. apply merge_rows_in in Hr. destruct Hr as [Hr|Hr].
    - left. apply (Permutation_in _ (isort_rows_perm a)). exact Hr.
    - right. apply (rows_scale_in alpha). apply (Permutation_in _ (isort_rows_perm (scale alpha b))). exact Hr. }
  constructor.
  - exact A1.
  - intros r Hr. unfold rank, add. cbn [legs]. destruct (Hin r Hr) as [H|H].
    + apply A2. exact H.
    + rewrite Hl. apply B2. exact H.
  - apply ssorted_nodup. exact Hss.
  - intros r Hr. unfold add. cbn [legs qtot]. destruct (Hin r Hr) as [H|H].
    + apply A4. exact H.
    + rewrite Hl, Hq. apply B4. exact H.
  - intros _. apply strictly_of_ssorted. exact Hss.
Qed.

(* a + alpha b as numpy arrays: needs the truthful sortedness claims (WF) of both operands *)
Theorem add_dense ci alpha a b idx : WF ci a -> WF ci b -> legs a = legs b -> qtot a = qtot b ->
  to_ndarray (add alpha a b) idx = cadd (to_ndarray a idx) (cmul alpha (to_ndarray b idx)).
Proof.
  intros Wa Wb Hl Hq. pose proof (wf_add ci alpha a b Wa Wb Hl Hq) as Wr.
  rewrite (to_ndarray_sum (add alpha a b)) by (destruct Wr; assumption).
  rewrite (to_ndarray_sum a) by (destruct Wa; assumption).
  rewrite (to_ndarray_sum b) by (destruct Wb; assumption).
  apply add_dense_sum. exact Hl.
Qed.

(* the merge of a list whose claim is FALSE can produce duplicate rows: the dependency of C01 on C02 is real *)
Definition bad_claim_example : arr :=
  mkArr [mkLeg [1%nat; 1%nat] [[0]; [0]] 1] [0] [([1%nat], fun _ => (5, 0)); ([0%nat], fun _ => (7, 0))] true.
Definition good_claim_example : arr :=
  mkArr [mkLeg [1%nat; 1%nat] [[0]; [0]] 1] [0] [([0%nat], fun _ => (7, 0)); ([1%nat], fun _ => (5, 0))] true.
Lemma bad_claim_breaks_add :
  (to_ndarray (add (1, 0) bad_claim_example good_claim_example) [0%nat] = (7, 0)) /\
  (cadd (to_ndarray bad_claim_example [0%nat]) (cmul (1, 0) (to_ndarray good_claim_example [0%nat])) = (14, 0)).
Proof. vm_compute. split; reflexivity. Qed.
