(* the charge look-up of tensordot never drops a block: for well-formed operands the filter is the identity *)
From TenpyV Require Import Base.Prelude Model.Charge Model.Tensor Model.TensorOps Model.TensorCheck Model.TensorDot Model.TensorDotFilter.
From TenpyV Require Import Proofs.ChargeP Proofs.TensorP Proofs.TensorP2 Proofs.TensorDotP.
Open Scope Z_scope.

Lemma row_okb_true ci ls qt r : row_ok ci ls qt r -> row_okb ci ls qt r = true.
Proof.
  intros H. unfold row_okb. apply forallb_forall. intros j Hj. apply in_seq in Hj. apply Z.eqb_eq. apply H. lia.
Qed.

Lemma row_okb_ok ci ls qt r : row_okb ci ls qt r = true -> row_ok ci ls qt r.
Proof.
  unfold row_okb. intros H j Hj. rewrite forallb_forall in H. apply Z.eqb_eq. apply H. apply in_seq. lia.
Qed.

Lemma filter_all {A} (f : A -> bool) l : (forall x, In x l -> f x = true) -> filter f l = l.
Proof.
  induction l as [|x l IH]; intros H; [reflexivity|]. cbn [filter]. rewrite (H x (or_introl eq_refl)).
  f_equal. apply IH. intros y Hy. apply H. right. exact Hy.
Qed.

Theorem tensordot_filter_id ci k a b : valid_ci ci -> WF ci a -> WF ci b -> (k <= rank a)%nat -> (k <= rank b)%nat ->
  Forall2 (contractible ci) (skipn (rank a - k) (legs a)) (firstn k (legs b)) ->
  tensordot_filtered ci k a b = tensordot ci k a b.
Proof.
  intros Hv Wa Wb Hka Hkb HF. pose proof (wf_tensordot ci k a b Hv Wa Wb Hka Hkb HF) as W.
  unfold tensordot_filtered. rewrite filter_all; [reflexivity|].
  intros blk Hblk. apply row_okb_true. apply (wf_rule ci _ W). apply in_map. exact Hblk.
Qed.

(* without the charge rule of the operands the look-up does drop contributions: witness *)
Definition nf_leg : leg := mkLeg [1%nat] [[0]] 1.
Definition nf_a : arr := mkArr [nf_leg; conj_leg nf_leg] [1] [([0%nat; 0%nat], fun _ => (1, 0))] true.
Lemma filter_needs_charge_rule :
  to_ndarray (tensordot [1] 1 nf_a nf_a) [0%nat; 0%nat] = (1, 0) /\
  to_ndarray (tensordot_filtered [1] 1 nf_a nf_a) [0%nat; 0%nat] = (0, 0).
Proof. vm_compute. split; reflexivity. Qed.
