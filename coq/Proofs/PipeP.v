(* Lemmas about Model/Pipe.v (C06): the flat index map of a pipe is a bijection, fusion rule. *)
From TenpyV Require Import Base.Prelude Model.ChargeL Model.Leg Model.Pipe Proofs.LegP.
Open Scope Z_scope.

(* ---------------------------------------------------------------- mixed radix (C order) *)
Definition in_range (ds ws : list Z) : Prop := Forall2 (fun d w => 0 <= w < d) ds ws.

Lemma prodZ_nonneg ds : nonneg ds -> 0 <= prodZ ds.
Proof. induction 1 as [|d t Hd Ht IH]; cbn [prodZ]; [lia|nia]. Qed.

Lemma prodZ_pos ds ws : in_range ds ws -> 0 < prodZ ds.
Proof. induction 1 as [|d w dt wt H _ IH]; cbn [prodZ]; [lia|nia]. Qed.

Lemma ravel_range ds ws : in_range ds ws -> 0 <= ravel ds ws < prodZ ds.
Proof.
  induction 1 as [|d w dt wt H Ht IH]; cbn [ravel prodZ]; [lia|].
  pose proof (prodZ_pos _ _ Ht). nia.
Qed.

Lemma unravel_ravel ds ws : in_range ds ws -> unravel ds (ravel ds ws) = ws.
Proof.
  induction 1 as [|d w dt wt H Ht IH]; cbn [ravel unravel]; [reflexivity|].
  pose proof (prodZ_pos _ _ Ht) as Hp. pose proof (ravel_range _ _ Ht) as Hr.
  f_equal.
  - rewrite Z.div_add_l by lia. rewrite Z.div_small by lia. lia.
  - rewrite Z.add_comm, Z_mod_plus_full, Z.mod_small by lia. exact IH.
Qed.

Lemma unravel_range ds : nonneg ds -> forall k, 0 <= k < prodZ ds -> in_range ds (unravel ds k).
Proof.
  induction 1 as [|d dt Hd Ht IH]; intros k Hk; cbn [unravel]; [constructor|].
  cbn [prodZ] in Hk. pose proof (prodZ_nonneg _ Ht) as Hp.
  assert (0 < prodZ dt) by nia.
  constructor.
  - split; [apply Z.div_pos; lia|]. apply Z.div_lt_upper_bound; lia.
  - apply IH. apply Z.mod_pos_bound. lia.
Qed.

Lemma ravel_unravel ds : nonneg ds -> forall k, 0 <= k < prodZ ds -> ravel ds (unravel ds k) = k.
Proof.
  induction 1 as [|d dt Hd Ht IH]; intros k Hk; cbn [unravel ravel prodZ] in *; [lia|].
  pose proof (prodZ_nonneg _ Ht) as Hp. assert (0 < prodZ dt) by nia.
  rewrite IH by (apply Z.mod_pos_bound; lia).
  pose proof (Z.div_mod k (prodZ dt) ltac:(lia)). lia.
Qed.

(* ---------------------------------------------------------------- the grid of block tuples *)
Definition tuple_ok (shape q : list nat) : Prop := Forall2 (fun n i => (i < n)%nat) shape q.

Lemma grid_in shape : forall q, In q (grid shape) <-> tuple_ok shape q.
Proof.
  induction shape as [|n t IH]; intros q; cbn [grid].
  - split; [intros [<-|[]]; constructor|intros H; inversion H; left; reflexivity].
  - rewrite in_flat_map. split.
    + intros (i & Hi & Hq). apply in_map_iff in Hq. destruct Hq as (q' & <- & Hq').
      apply in_seq in Hi. constructor; [lia|apply IH, Hq'].
    + intros H. inversion H as [|? i ? q' Hi Hq']; subst. exists i. split; [apply in_seq; lia|].
      apply in_map, IH, Hq'.
Qed.

Lemma nodup_app {A} (a b : list A) : NoDup a -> NoDup b -> (forall x, In x a -> ~ In x b) -> NoDup (a ++ b).
Proof.
  induction 1 as [|x a Hx Ha IH]; intros Hb Hd; [exact Hb|]. cbn [app]. constructor.
  - rewrite in_app_iff. intros [H|H]; [exact (Hx H)|]. exact (Hd x (or_introl eq_refl) H).
  - apply IH; [exact Hb|]. intros y Hy. apply Hd. right. exact Hy.
Qed.

Lemma nodup_map_cons (i : nat) (g : list (list nat)) : NoDup g -> NoDup (map (cons i) g).
Proof.
  induction 1 as [|x g Hx Hg IH]; cbn [map]; constructor; [|exact IH].
  intros H. apply in_map_iff in H. destruct H as (y & Hy & Hin). injection Hy as ->. exact (Hx Hin).
Qed.

Lemma grid_nodup shape : NoDup (grid shape).
Proof.
  induction shape as [|n t IH]; cbn [grid]; [repeat constructor; intros []|].
  generalize 0%nat. induction n as [|n IHn]; intros s; cbn [seq flat_map]; [constructor|].
  apply nodup_app; [apply nodup_map_cons, IH|apply IHn|].
  intros q Hq Hq'. apply in_map_iff in Hq. destruct Hq as (q0 & <- & _).
  apply in_flat_map in Hq'. destruct Hq' as (i & Hi & Hq'). apply in_seq in Hi.
  apply in_map_iff in Hq'. destruct Hq' as (q1 & E & _). injection E as E1 _. lia.
Qed.

(* ---------------------------------------------------------------- rows *)
Lemma rinsert_perm x l : Permutation (rinsert x l) (x :: l).
Proof.
  induction l as [|y t IH]; [reflexivity|]. cbn [rinsert].
  destruct (key_leb (r_ch x) (r_ch y)); [reflexivity|]. rewrite IH. apply perm_swap.
Qed.

Lemma rsort_perm l : Permutation (rsort l) l.
Proof. induction l as [|x t IH]; [reflexivity|]. cbn [rsort fold_right]. rewrite rinsert_perm. constructor. exact IH. Qed.

Definition rle (x y : row) : Prop := key_leb (r_ch x) (r_ch y) = true.

Lemma rinsert_sorted x l : Sorted rle l -> Sorted rle (rinsert x l).
Proof.
  induction 1 as [|y t Ht IH Hy]; [repeat constructor|]. cbn [rinsert].
  destruct (key_leb (r_ch x) (r_ch y)) eqn:E.
  - constructor; [constructor; assumption|constructor; exact E].
  - constructor; [exact IH|]. apply key_leb_total in E.
    destruct t as [|z t']; cbn [rinsert]; [constructor; exact E|].
    destruct (key_leb (r_ch x) (r_ch z)); constructor; [exact E|]. inversion Hy; assumption.
Qed.

Lemma rsort_sorted l : Sorted rle (rsort l).
Proof. induction l as [|x t IH]; [constructor|]. cbn [rsort fold_right]. apply rinsert_sorted, IH. Qed.

Lemma pipe_rows_perm ci legs qconj srt : Permutation (pipe_rows ci legs qconj srt) (rows0 ci legs qconj).
Proof. unfold pipe_rows. destruct (srt && negb (Nat.eqb (length ci) 0)); [apply rsort_perm|reflexivity]. Qed.

Definition row_ok (ci : chinfo) (legs : list leg) (qconj : Z) (r : row) : Prop :=
  tuple_ok (map nblocks legs) (r_q r) /\ r_sz r = prodZ (dims legs (r_q r)) /\ r_ch r = fused ci legs qconj (r_q r).

Lemma rows0_ok ci legs qconj : Forall (row_ok ci legs qconj) (rows0 ci legs qconj).
Proof.
  apply Forall_forall. intros r Hr. unfold rows0 in Hr. apply in_map_iff in Hr.
  destruct Hr as (q & <- & Hq). apply grid_in in Hq. repeat split; assumption.
Qed.

Lemma pipe_rows_ok ci legs qconj srt : Forall (row_ok ci legs qconj) (pipe_rows ci legs qconj srt).
Proof.
  apply Forall_forall. intros r Hr. pose proof (rows0_ok ci legs qconj) as F. rewrite Forall_forall in F.
  apply F. eapply Permutation_in; [apply pipe_rows_perm|exact Hr].
Qed.

Lemma rows0_q ci legs qconj : map r_q (rows0 ci legs qconj) = grid (map nblocks legs).
Proof. unfold rows0. rewrite map_map. cbn [r_q]. apply map_id. Qed.

Lemma pipe_rows_nodup ci legs qconj srt : NoDup (map r_q (pipe_rows ci legs qconj srt)).
Proof.
  eapply Permutation_NoDup; [apply Permutation_sym, Permutation_map, pipe_rows_perm|].
  rewrite rows0_q. apply grid_nodup.
Qed.

Lemma pipe_rows_in ci legs qconj srt q : tuple_ok (map nblocks legs) q -> In q (map r_q (pipe_rows ci legs qconj srt)).
Proof.
  intros H. eapply Permutation_in; [apply Permutation_sym, Permutation_map, pipe_rows_perm|].
  rewrite rows0_q. apply grid_in, H.
Qed.

(* ---------------------------------------------------------------- find_row *)
Lemma list_eqb_eq a : forall b, list_eqb a b = true <-> a = b.
Proof.
  induction a as [|x a IH]; intros [|y b]; cbn [list_eqb]; split; intros H; try discriminate; try reflexivity.
  - apply andb_prop in H. destruct H as [H1 H2]. apply Nat.eqb_eq in H1. apply IH in H2. congruence.
  - injection H as -> ->. rewrite Nat.eqb_refl. apply IH. reflexivity.
Qed.

Lemma find_row_some q rows : forall j, find_row q rows = Some j -> (j < length rows)%nat /\ r_q (nth j rows row0) = q.
Proof.
  induction rows as [|r t IH]; intros j H; cbn [find_row] in H; [discriminate|].
  destruct (list_eqb (r_q r) q) eqn:E.
  - injection H as <-. apply list_eqb_eq in E. cbn [length nth]. split; [lia|exact E].
  - destruct (find_row q t) as [j'|]; [|discriminate]. injection H as <-.
    destruct (IH j' eq_refl) as [H1 H2]. cbn [length nth]. split; [lia|exact H2].
Qed.

Lemma find_row_in q rows : In q (map r_q rows) -> exists j, find_row q rows = Some j.
Proof.
  induction rows as [|r t IH]; intros H; [destruct H|]. cbn [find_row].
  destruct (list_eqb (r_q r) q) eqn:E; [eauto|].
  destruct H as [H|H]; [apply list_eqb_eq in H; congruence|].
  destruct (IH H) as (j & ->). eauto.
Qed.

Lemma find_row_nodup rows : NoDup (map r_q rows) -> forall j, (j < length rows)%nat ->
  find_row (r_q (nth j rows row0)) rows = Some j.
Proof.
  induction rows as [|r t IH]; intros Hn j Hj; [cbn in Hj; lia|].
  cbn [map] in Hn. inversion Hn as [|? ? Hr Ht]; subst. cbn [find_row].
  destruct j as [|j]; cbn [nth].
  - replace (list_eqb (r_q r) (r_q r)) with true by (symmetry; apply list_eqb_eq; reflexivity). reflexivity.
  - cbn [length] in Hj. destruct (list_eqb (r_q r) (r_q (nth j t row0))) eqn:E.
    + apply list_eqb_eq in E. exfalso. apply Hr. rewrite E. apply in_map, nth_In. lia.
    + rewrite IH by (assumption || lia). reflexivity.
Qed.

(* ---------------------------------------------------------------- index tuples <-> (block tuple, inside) *)
Definition legs_ok (legs : list leg) : Prop := Forall (fun l => nonneg (bsz l)) legs.
Definition idx_ok (legs : list leg) (t : list Z) : Prop := Forall2 (fun l i => 0 <= i < ind_len l) legs t.

Lemma dims_nonneg legs : legs_ok legs -> forall q, nonneg (dims legs q).
Proof.
  induction 1 as [|l lt Hl Ht IH]; intros q; [constructor|].
  destruct q as [|i q]; [constructor|]. cbn [dims]. constructor; [|apply IH].
  rewrite <- bsz_nth. destruct (Nat.lt_ge_cases i (length (bsz l))) as [H|H].
  - unfold nonneg in Hl. rewrite Forall_forall in Hl. apply Hl, nth_In, H.
  - rewrite nth_overflow by exact H. lia.
Qed.

Lemma split_ok legs : legs_ok legs -> forall t, idx_ok legs t ->
  exists qs ws, split_indices legs t = Some (qs, ws) /\ tuple_ok (map nblocks legs) qs /\
                in_range (dims legs qs) ws /\ join_indices legs qs ws = t.
Proof.
  induction 1 as [|l lt Hl Ht IH]; intros t Hi; inversion Hi as [|? i ? tr Hi1 Hi2]; subst.
  - exists [], []. repeat split; constructor.
  - destruct (IH tr Hi2) as (qs & ws & E & H1 & H2 & H3).
    destruct (get_qindex_spec l i Hl) as [A _]. destruct (A ltac:(lia)) as (q & w & Eq & Hq & Hw & Hiw).
    exists (q :: qs), (w :: ws). cbn [split_indices]. rewrite Eq, E.
    replace (i <? 0) with false in Hiw by lia.
    repeat split; cbn [map dims join_indices]; try (constructor; assumption). rewrite H3, <- Hiw. reflexivity.
Qed.

Lemma join_ok legs : legs_ok legs -> forall qs ws, tuple_ok (map nblocks legs) qs -> in_range (dims legs qs) ws ->
  split_indices legs (join_indices legs qs ws) = Some (qs, ws) /\ idx_ok legs (join_indices legs qs ws).
Proof.
  induction 1 as [|l lt Hl Ht IH]; intros qs ws Hq Hw; cbn [map] in Hq; inversion Hq as [|? q ? qt Hq1 Hq2]; subst.
  - cbn [dims] in Hw. inversion Hw; subst. split; [reflexivity|constructor].
  - cbn [dims] in Hw. inversion Hw as [|? w ? wt Hw1 Hw2]; subst.
    destruct (IH qt wt Hq2 Hw2) as [E Hi].
    destruct (get_qindex_inverse l q w Hl Hq1 Hw1) as [Eq R].
    cbn [join_indices split_indices]. rewrite Eq, E. split; [reflexivity|constructor; assumption].
Qed.

(* ---------------------------------------------------------------- total size *)
Lemma sumZ_scale c (f : list nat -> Z) g : sumZ (map (fun q => c * f q) g) = c * sumZ (map f g).
Proof. induction g as [|x g IH]; cbn [map sumZ]; [lia|]. rewrite IH. lia. Qed.

Lemma seq_nth_map {A} (xs : list A) d : map (fun i => nth i xs d) (seq 0 (length xs)) = xs.
Proof.
  induction xs as [|x xs IH]; [reflexivity|]. cbn [length seq map nth]. f_equal.
  rewrite <- seq_shift, map_map. exact IH.
Qed.

Lemma grid_sum legs : sumZ (map (fun q => prodZ (dims legs q)) (grid (map nblocks legs))) = prodZ (map ind_len legs).
Proof.
  induction legs as [|l lt IH]; [reflexivity|]. cbn [map grid prodZ].
  assert (G : forall idxs, sumZ (map (fun q => prodZ (dims (l :: lt) q))
                 (flat_map (fun i => map (cons i) (grid (map nblocks lt))) idxs))
              = sumZ (map (fun i => fst (blk l i)) idxs) * prodZ (map ind_len lt)).
  { induction idxs as [|i idxs IHi]; [reflexivity|]. cbn [flat_map map sumZ].
    rewrite map_app, sumZ_app, IHi, map_map. cbn [dims prodZ].
    rewrite (sumZ_scale (fst (blk l i)) (fun q => prodZ (dims lt q))), IH. lia. }
  rewrite G. f_equal. unfold ind_len, bsz, nblocks.
  rewrite <- (seq_nth_map (blocks l) (0, [])) at 2. rewrite map_map. reflexivity.
Qed.

Lemma pipe_rows_total ci legs qconj srt :
  sumZ (map r_sz (pipe_rows ci legs qconj srt)) = prodZ (map ind_len legs).
Proof.
  rewrite (sumZ_perm _ _ (Permutation_map r_sz (pipe_rows_perm ci legs qconj srt))).
  unfold rows0. rewrite map_map. cbn [r_sz]. apply grid_sum.
Qed.

Lemma rows_sizes_nonneg ci legs qconj srt : legs_ok legs -> nonneg (map r_sz (pipe_rows ci legs qconj srt)).
Proof.
  intros Hl. apply Forall_forall. intros s Hs. apply in_map_iff in Hs. destruct Hs as (r & <- & Hr).
  pose proof (pipe_rows_ok ci legs qconj srt) as F. rewrite Forall_forall in F.
  destruct (F r Hr) as (_ & -> & _). apply prodZ_nonneg, dims_nonneg, Hl.
Qed.

(* ---------------------------------------------------------------- map_incoming_flat *)
Definition flat_of (rows : list row) (legs : list leg) (t : list Z) : option Z :=
  match split_indices legs t with
  | None => None
  | Some (qs, ws) =>
      match find_row qs rows with
      | None => None
      | Some j => Some (offs (map r_sz rows) j + ravel (dims legs qs) ws)
      end
  end.

Lemma map_fst_combine' {A B} (a : list A) : forall (b : list B), length a = length b -> map fst (combine a b) = a.
Proof. exact (@map_fst_combine A B a). Qed.

Lemma nth_map_seq {A} (f : nat -> A) n j d : (j < n)%nat -> nth j (map f (seq 0 n)) d = f j.
Proof.
  intros H. rewrite (nth_indep _ d (f 0%nat)) by (rewrite map_length, seq_length; exact H).
  rewrite (map_nth f (seq 0 n) 0%nat j). rewrite seq_nth by exact H. reflexivity.
Qed.

(* the position computed through q_map and the outgoing slices is the running offset of the
   row: bunching does not move any index *)
Lemma mif_flat_of ci legs qconj srt bun t :
  map_incoming_flat (pipe_init ci legs qconj srt bun) t = flat_of (pipe_rows ci legs qconj srt) legs t.
Proof.
  unfold map_incoming_flat, flat_of, pipe_init. cbn [p_legs p_rows p_qmap p_blocks].
  destruct (split_indices legs t) as [[qs ws]|]; [|reflexivity].
  destruct (find_row qs (pipe_rows ci legs qconj srt)) as [j|] eqn:E; [|reflexivity].
  apply find_row_some in E. destruct E as [Hj _].
  rewrite nth_map_seq by exact Hj. cbn [q_Is q_b0].
  rewrite map_fst_combine' by (rewrite !map_length; reflexivity). f_equal. lia.
Qed.

Section Bijection.
  Variables (ci : chinfo) (legs : list leg) (qconj : Z) (srt bun : bool).
  Hypothesis Hlegs : legs_ok legs.
  Let p := pipe_init ci legs qconj srt bun.
  Let rows := pipe_rows ci legs qconj srt.
  Let N := prodZ (map ind_len legs).

  Lemma outgoing_eq k : map_outgoing_flat p k =
    if k <? 0 then None else
    match locate (map r_sz rows) k with
    | None => None
    | Some (j, w) => let q := r_q (nth j rows row0) in Some (join_indices legs q (unravel (dims legs q) w))
    end.
  Proof. reflexivity. Qed.

  Lemma row_nth_ok j : (j < length rows)%nat -> row_ok ci legs qconj (nth j rows row0).
  Proof.
    intros Hj. pose proof (pipe_rows_ok ci legs qconj srt) as F. rewrite Forall_forall in F.
    apply F, nth_In, Hj.
  Qed.

  Lemma rows_sz_nth j : nth j (map r_sz rows) 0 = r_sz (nth j rows row0).
  Proof. change 0 with (r_sz row0). apply map_nth. Qed.

  Lemma incoming_then_outgoing t : idx_ok legs t ->
    exists k, map_incoming_flat p t = Some k /\ 0 <= k < N /\ map_outgoing_flat p k = Some t.
  Proof.
    intros Ht. unfold p. rewrite mif_flat_of. fold rows. unfold flat_of.
    destruct (split_ok legs Hlegs t Ht) as (qs & ws & E & Hq & Hw & Hj). rewrite E.
    destruct (find_row_in qs rows (pipe_rows_in ci legs qconj srt qs Hq)) as (j & Ej). rewrite Ej.
    destruct (find_row_some _ _ _ Ej) as [Hjl Hjq].
    destruct (row_nth_ok j Hjl) as (_ & Hsz & _). rewrite Hjq in Hsz.
    pose proof (ravel_range _ _ Hw) as Hr.
    pose proof (rows_sizes_nonneg ci legs qconj srt Hlegs) as Hnn. fold rows in Hnn.
    assert (Hjl' : (j < length (map r_sz rows))%nat) by (rewrite map_length; exact Hjl).
    pose proof (offs_nonneg _ Hnn j) as H0. pose proof (offs_block_le _ Hnn j Hjl') as H1.
    rewrite rows_sz_nth, Hsz in H1.
    pose proof (pipe_rows_total ci legs qconj srt) as Htot. fold rows in Htot. fold N in Htot.
    eexists. split; [reflexivity|]. split; [lia|].
    rewrite outgoing_eq. destruct (_ <? 0) eqn:En; [lia|].
    rewrite locate_complete; [|exact Hnn|exact Hjl'|rewrite rows_sz_nth, Hsz; exact Hr].
    cbv zeta. rewrite Hjq, unravel_ravel by exact Hw. rewrite Hj. reflexivity.
  Qed.

  Lemma outgoing_then_incoming k : 0 <= k < N ->
    exists t, map_outgoing_flat p k = Some t /\ idx_ok legs t /\ map_incoming_flat p t = Some k.
  Proof.
    intros Hk. pose proof (rows_sizes_nonneg ci legs qconj srt Hlegs) as Hnn. fold rows in Hnn.
    pose proof (pipe_rows_total ci legs qconj srt) as Htot. fold rows in Htot. fold N in Htot.
    rewrite outgoing_eq. destruct (k <? 0) eqn:En; [lia|].
    destruct (locate_some _ Hnn k ltac:(lia)) as (j & w & El). rewrite El.
    destruct (locate_sound _ Hnn k j w ltac:(lia) El) as (Hjl' & Hw & Hkw).
    assert (Hjl : (j < length rows)%nat) by (rewrite map_length in Hjl'; exact Hjl').
    destruct (row_nth_ok j Hjl) as (Hq & Hsz & _). rewrite rows_sz_nth, Hsz in Hw.
    set (q := r_q (nth j rows row0)) in *. cbv zeta.
    pose proof (unravel_range _ (dims_nonneg legs Hlegs q) w Hw) as Hws.
    destruct (join_ok legs Hlegs q _ Hq Hws) as [Es Hi].
    eexists. split; [reflexivity|]. split; [exact Hi|].
    unfold p. rewrite mif_flat_of. fold rows. unfold flat_of. rewrite Es.
    unfold q. rewrite find_row_nodup; [|apply pipe_rows_nodup|exact Hjl]. fold q.
    rewrite ravel_unravel; [|apply dims_nonneg, Hlegs|exact Hw]. f_equal. lia.
  Qed.
End Bijection.

Theorem flat_bijection ci legs qconj srt bun : legs_ok legs ->
  let p := pipe_init ci legs qconj srt bun in
  let N := prodZ (map ind_len legs) in
  (forall t, idx_ok legs t -> exists k, map_incoming_flat p t = Some k /\ 0 <= k < N /\ map_outgoing_flat p k = Some t) /\
  (forall k, 0 <= k < N -> exists t, map_outgoing_flat p k = Some t /\ idx_ok legs t /\ map_incoming_flat p t = Some k).
Proof.
  intros H p N. split; [apply incoming_then_outgoing, H|apply outgoing_then_incoming, H].
Qed.

(* ---------------------------------------------------------------- bunching and the fusion rule *)
Lemma group_concat bun rows : concat (group_rows bun rows) = rows.
Proof.
  induction rows as [|r t IH]; [reflexivity|]. cbn [group_rows].
  destruct (group_rows bun t) as [|[|r' g] gs] eqn:E.
  - cbn [concat] in *. rewrite <- IH. reflexivity.
  - cbn [concat app] in *. rewrite <- IH. cbn [concat app].
    (* impossible shape, but harmless: group_rows never yields an empty group *) 
    exfalso. clear IH. revert E. clear. revert gs. induction t as [|x t IHt]; intros gs E; cbn [group_rows] in E; [discriminate|].
    destruct (group_rows bun t) as [|[|r' g] gs'] eqn:E'; try discriminate.
    destruct (bun && veqb (r_ch x) (r_ch r')); discriminate.
  - destruct (bun && veqb (r_ch r) (r_ch r')); cbn [concat app] in *; rewrite <- IH; reflexivity.
Qed.

Definition group_ok (g : list row) : Prop := g <> [] /\ Forall (fun r => r_ch r = ghead g) g.

Lemma group_rows_ok bun rows : Forall group_ok (group_rows bun rows).
Proof.
  induction rows as [|r t IH]; [constructor|]. cbn [group_rows].
  destruct (group_rows bun t) as [|[|r' g] gs] eqn:E.
  - repeat constructor. discriminate.
  - repeat constructor. discriminate.
  - inversion IH as [|? ? Hg Hgs]; subst. destruct Hg as [_ Hg].
    destruct (bun && veqb (r_ch r) (r_ch r')) eqn:V.
    + apply andb_prop in V. destruct V as [_ V]. apply veqb_eq in V.
      constructor; [|exact Hgs]. split; [discriminate|]. unfold ghead in *. cbn [hd] in *.
      constructor; [reflexivity|]. eapply Forall_impl; [|exact Hg]. cbn beta. intros a Ha. congruence.
    + constructor; [|exact IH]. split; [discriminate|]. repeat constructor.
Qed.

Lemma tag_spec gs : forall I0 j, (j < length (concat gs))%nat ->
  let I := nth j (tag_from I0 gs) 0%nat in
  (I0 <= I)%nat /\ In (nth j (concat gs) row0) (nth (I - I0) gs []).
Proof.
  induction gs as [|g gs IH]; intros I0 j Hj; [cbn in Hj; lia|].
  cbn [concat tag_from] in *. rewrite app_length in Hj.
  destruct (Nat.lt_ge_cases j (length g)) as [H|H].
  - rewrite app_nth1 by (rewrite repeat_length; exact H). rewrite app_nth1 by exact H.
    assert (E : nth j (repeat I0 (length g)) 0%nat = I0).
    { eapply repeat_spec. apply nth_In. rewrite repeat_length. exact H. }
    cbv zeta. rewrite E, Nat.sub_diag. cbn [nth]. split; [lia|apply nth_In, H].
  - rewrite app_nth2 by (rewrite repeat_length; exact H). rewrite app_nth2 by exact H. rewrite repeat_length.
    destruct (IH (S I0) (j - length g)%nat ltac:(lia)) as [H1 H2]. cbv zeta. split; [lia|].
    replace (nth (j - length g) (tag_from (S I0) gs) 0%nat - I0)%nat
      with (S (nth (j - length g) (tag_from (S I0) gs) 0%nat - S I0)) by lia. cbn [nth]. exact H2.
Qed.

Lemma map_snd_combine {A B} (a : list A) : forall (b : list B), length a = length b -> map snd (combine a b) = b.
Proof.
  induction a as [|x a IH]; intros [|y b] H; cbn [length] in H; try discriminate; [reflexivity|].
  cbn [combine map snd]. f_equal. apply IH. lia.
Qed.

(* the outgoing block recorded in the q_map row j carries the charge of row j *)
Lemma qmap_block_charge ci legs qconj srt bun j :
  let p := pipe_init ci legs qconj srt bun in
  (j < length (p_rows p))%nat ->
  nth (q_Is (nth j (p_qmap p) (mkQ 0 0 O []))) (map snd (p_blocks p)) [] = r_ch (nth j (p_rows p) row0).
Proof.
  cbv zeta. unfold pipe_init. cbn [p_rows p_qmap p_blocks]. intros Hj.
  set (rows := pipe_rows ci legs qconj srt) in *. set (gs := group_rows bun rows).
  rewrite nth_map_seq by exact Hj. cbn [q_Is].
  rewrite map_snd_combine by (rewrite !map_length; reflexivity).
  pose proof (group_concat bun rows) as C. fold gs in C.
  destruct (tag_spec gs 0%nat j ltac:(rewrite C; exact Hj)) as [_ Hin]. rewrite Nat.sub_0_r, C in Hin.
  set (I := nth j (tag_from 0 gs) 0%nat) in *.
  change (@nil Z) with (ghead []) at 1. rewrite map_nth.
  pose proof (group_rows_ok bun rows) as F. fold gs in F. rewrite Forall_forall in F.
  destruct (Nat.lt_ge_cases I (length gs)) as [HI|HI].
  - destruct (F (nth I gs []) (nth_In _ _ HI)) as [_ Fg]. rewrite Forall_forall in Fg. symmetry. apply Fg, Hin.
  - rewrite (nth_overflow gs [] HI) in Hin. destruct Hin.
Qed.

Theorem fusion_rule ci legs qconj srt bun t : legs_ok legs -> idx_ok legs t ->
  let p := pipe_init ci legs qconj srt bun in
  exists qs ws I, split_indices legs t = Some (qs, ws) /\ block_of p t = Some I /\
    nth I (map snd (p_blocks p)) [] = make_valid ci (vscale qconj (vsum (length ci) (tuple_charges legs qs))).
Proof.
  intros Hl Ht p. destruct (split_ok legs Hl t Ht) as (qs & ws & E & Hq & _ & _).
  destruct (find_row_in qs (pipe_rows ci legs qconj srt) (pipe_rows_in ci legs qconj srt qs Hq)) as (j & Ej).
  destruct (find_row_some _ _ _ Ej) as [Hjl Hjq].
  exists qs, ws, (q_Is (nth j (p_qmap p) (mkQ 0 0 O []))). split; [exact E|]. split.
  - unfold block_of. unfold p at 1 2. cbn [pipe_init p_legs p_rows]. rewrite E, Ej. reflexivity.
  - unfold p. rewrite qmap_block_charge by exact Hjl. cbn [pipe_init p_rows].
    pose proof (pipe_rows_ok ci legs qconj srt) as F. rewrite Forall_forall in F.
    destruct (F _ (nth_In _ row0 Hjl)) as (_ & _ & Hc). rewrite Hc, Hjq. reflexivity.
Qed.

Lemma pipe_rows_sorted ci legs qconj : ci <> [] -> Sorted rle (pipe_rows ci legs qconj true).
Proof.
  intros H. unfold pipe_rows. destruct ci as [|m ci]; [congruence|]. cbn [length Nat.eqb negb andb]. apply rsort_sorted.
Qed.

(* ---------------------------------------------------------------- layout of q_map *)
Lemma offs_app_l a : forall b j, (j <= length a)%nat -> offs (a ++ b) j = offs a j.
Proof.
  induction a as [|x a IH]; intros b j Hj; cbn [length] in Hj.
  - assert (j = 0%nat) by lia. subst j. cbn [app]. destruct b; reflexivity.
  - destruct j as [|j]; [reflexivity|]. cbn [app]. rewrite !offs_cons. rewrite IH by lia. reflexivity.
Qed.

Lemma offs_app_r a : forall b j, (length a <= j)%nat -> offs (a ++ b) j = sumZ a + offs b (j - length a).
Proof.
  induction a as [|x a IH]; intros b j Hj; cbn [length] in Hj.
  - cbn [app sumZ length]. rewrite Nat.sub_0_r. lia.
  - destruct j as [|j]; [lia|]. cbn [app length sumZ]. rewrite offs_cons, IH by lia. cbn [Nat.sub]. lia.
Qed.

Lemma tag_slices gs : Forall (fun g => nonneg (map r_sz g)) gs -> forall I0 j, (j < length (concat gs))%nat ->
  let I := nth j (tag_from I0 gs) 0%nat in
  offs (map gsize gs) (I - I0) <= offs (map r_sz (concat gs)) j /\
  offs (map r_sz (concat gs)) (S j) <= offs (map gsize gs) (S (I - I0)).
Proof.
  induction 1 as [|g gs Hg Hgs IH]; intros I0 j Hj; [cbn in Hj; lia|].
  cbn [concat tag_from map] in *. rewrite app_length in Hj. rewrite map_app.
  destruct (Nat.lt_ge_cases j (length g)) as [H|H].
  - rewrite app_nth1 by (rewrite repeat_length; exact H).
    assert (E : nth j (repeat I0 (length g)) 0%nat = I0).
    { eapply repeat_spec. apply nth_In. rewrite repeat_length. exact H. }
    cbv zeta. rewrite E, Nat.sub_diag.
    rewrite !offs_app_l by (rewrite map_length; lia).
    split; [cbn [offs]; apply offs_nonneg, Hg|].
    rewrite offs_cons. cbn [offs]. unfold gsize.
    pose proof (offs_le_sum _ Hg (S j)). destruct gs; cbn [map offs]; lia.
  - rewrite app_nth2 by (rewrite repeat_length; exact H). rewrite repeat_length.
    destruct (IH (S I0) (j - length g)%nat ltac:(lia)) as [H1 H2]. cbv zeta in *.
    set (I := nth (j - length g) (tag_from (S I0) gs) 0%nat) in *.
    assert (HI : (S I0 <= I)%nat).
    { destruct (tag_spec gs (S I0) (j - length g)%nat ltac:(lia)) as [X _]. exact X. }
    rewrite !offs_app_r by (rewrite map_length; lia). rewrite map_length.
    replace (I - I0)%nat with (S (I - S I0)) by lia. rewrite !offs_cons.
    replace (S j - length g)%nat with (S (j - length g)) by lia. unfold gsize at 1 3. lia.
Qed.

Lemma group_nonneg bun rows : nonneg (map r_sz rows) -> Forall (fun g => nonneg (map r_sz g)) (group_rows bun rows).
Proof.
  intros H. apply Forall_forall. intros g Hg. apply Forall_forall. intros s Hs.
  apply in_map_iff in Hs. destruct Hs as (r & <- & Hr).
  unfold nonneg in H. rewrite Forall_forall in H. apply H. apply in_map.
  rewrite <- (group_concat bun rows). apply in_concat. exists g. auto.
Qed.

(* every q_map row [b_j, b_{j+1}, I_s, i_1..i_n]: the slice has the size of the incoming block tuple and lies
   inside the outgoing block I_s *)
Theorem qmap_shape ci legs qconj srt bun j : legs_ok legs ->
  let p := pipe_init ci legs qconj srt bun in
  (j < length (p_rows p))%nat ->
  let qr := nth j (p_qmap p) (mkQ 0 0 O []) in
  let osz := map fst (p_blocks p) in
  0 <= q_b0 qr /\ q_b1 qr = q_b0 qr + r_sz (nth j (p_rows p) row0) /\
  offs osz (q_Is qr) + q_b1 qr <= offs osz (S (q_Is qr)) /\ q_q qr = r_q (nth j (p_rows p) row0) /\
  length (p_qmap p) = length (p_rows p).
Proof.
  intros Hl p Hj. unfold p in *. unfold pipe_init in *. cbn [p_rows p_qmap p_blocks] in *.
  set (rows := pipe_rows ci legs qconj srt) in *. set (gs := group_rows bun rows).
  cbv zeta. rewrite nth_map_seq by exact Hj. cbn [q_b0 q_b1 q_Is q_q].
  rewrite map_fst_combine' by (rewrite !map_length; reflexivity).
  pose proof (rows_sizes_nonneg ci legs qconj srt Hl) as Hnn. fold rows in Hnn.
  pose proof (group_concat bun rows) as C. fold gs in C.
  pose proof (tag_slices gs (group_nonneg bun rows Hnn) 0%nat j ltac:(rewrite C; exact Hj)) as T.
  cbv zeta in T. rewrite Nat.sub_0_r, C in T. destruct T as [T1 T2].
  assert (Hj' : (j < length (map r_sz rows))%nat) by (rewrite map_length; exact Hj).
  assert (N : nth j (map r_sz rows) 0 = r_sz (nth j rows row0)) by (change 0 with (r_sz row0); apply map_nth).
  rewrite (offs_step _ j Hj') in *. rewrite N in *.
  repeat split; try lia. rewrite map_length, seq_length. reflexivity.
Qed.
