From TenpyV Require Import Base.Prelude Model.MpsIndex Model.MpsForm.
Open Scope Z_scope.

(* ---------------------------------------------------------------- basic facts *)
Lemma scale1_truth a n : scale1 a a (Some n) = n.
Proof. unfold scale1. lia. Qed.

Lemma canonical_truthful s : canonical s -> truthful s.
Proof. intros [f [Hl Ha]] g Hg. congruence. Qed.

Lemma get_B_full_truthful s f a :
  truthful s -> get_B_act s (full f) = Some a -> a = f.
Proof.
  intros Ht. destruct s as [l [a1 a2] d cl cr]. destruct f as [f1 f2].
  unfold truthful in Ht. cbn [lab act] in Ht.
  unfold get_B_act, full. cbn [lab act fst snd].
  destruct l as [[ol orr]|]; [|discriminate].
  intros H. injection H as <-. specialize (Ht _ eq_refl). injection Ht as -> ->.
  f_equal; lia.
Qed.

Lemma Forall_set_nth (P : site -> Prop) p x st : Forall P st -> P x -> Forall P (set_nth p x st).
Proof.
  revert p. induction st as [|y t IH]; intros p Hf Hx; destruct p; cbn [set_nth]; auto.
  - inversion Hf; subst. constructor; auto.
  - inversion Hf; subst. constructor; auto.
Qed.

Lemma Forall_set_B (P : site -> Prop) p a f st :
  Forall P st -> (forall s, P (mkSite f a (pdim s) (chiL s) (chiR s))) -> Forall P (set_B p a f st).
Proof.
  intros Hf Hx. unfold set_B. destruct (nth_error st p); auto. apply Forall_set_nth; auto.
Qed.

Lemma Forall_nth_d (P : site -> Prop) st n d : Forall P st -> P d -> P (nth n st d).
Proof.
  intros Hf Hd. destruct (Nat.lt_ge_cases n (length st)) as [H|H].
  - rewrite Forall_forall in Hf. apply Hf. apply nth_In. exact H.
  - rewrite nth_overflow by exact H. exact Hd.
Qed.

Lemma truthful_dsite : truthful dsite.
Proof. intros f H. discriminate. Qed.

Lemma convert_truthful fs : forall st st', Forall truthful st -> convert_all fs st = Some st' -> Forall canonical st'.
Proof.
  induction fs as [|f fs IH]; intros st st' Hf H; destruct st as [|s st]; cbn [convert_all] in H; try discriminate.
  - injection H as <-. constructor.
  - destruct (get_B_act s (full f)) as [a|] eqn:Ea; [|discriminate].
    destruct (convert_all fs st) as [r|] eqn:Er; [|discriminate].
    injection H as <-. inversion Hf; subst.
    constructor.
    + exists f. cbn [lab act]. split; auto. eapply get_B_full_truthful; eauto.
    + eapply IH; eauto.
Qed.

Lemma Forall_canonical_truthful st : Forall canonical st -> Forall truthful st.
Proof. apply Forall_impl. apply canonical_truthful. Qed.

Lemma flip_truthful s : truthful s -> truthful (flip s).
Proof.
  intros Ht f. unfold flip. cbn [lab act]. destruct (lab s) as [g|] eqn:El; cbn [option_map]; [|discriminate].
  intros H. injection H as <-. rewrite (Ht g El). reflexivity.
Qed.

Lemma flip_flip s : flip (flip s) = s.
Proof.
  destruct s as [l [a b] d cl cr]. unfold flip, swap2. cbn [lab act pdim chiL chiR fst snd].
  destruct l as [[x y]|]; reflexivity.
Qed.

Lemma inversion_involutive st : inversion (inversion st) = st.
Proof.
  unfold inversion. rewrite map_rev, rev_involutive, map_map.
  rewrite <- (map_id st) at 2. apply map_ext. apply flip_flip.
Qed.

(* the denotation of the inverted chain: site j is the mirrored old site L-1-j with left and right exchanged *)
Lemma inversion_nth st j : (j < length st)%nat ->
  nth j (inversion st) dsite = flip (nth (length st - 1 - j) st dsite) /\ length (inversion st) = length st.
Proof.
  intros Hj. unfold inversion. split.
  - rewrite rev_nth by (rewrite map_length; exact Hj). rewrite map_length.
    replace (length st - Datatypes.S j)%nat with (length st - 1 - j)%nat by lia.
    rewrite nth_indep with (d' := flip dsite) by (rewrite map_length; lia).
    apply map_nth.
  - rewrite rev_length, map_length. reflexivity.
Qed.

Lemma inversion_truthful st : Forall truthful st -> Forall truthful (inversion st).
Proof.
  intros H. unfold inversion. apply Forall_rev. apply Forall_map.
  eapply Forall_impl; [|exact H]. apply flip_truthful.
Qed.

(* ---------------------------------------------------------------- roll *)
Lemma roll_length k st : length (roll k st) = length st.
Proof. unfold roll. rewrite map_length, seq_length. reflexivity. Qed.

Lemma roll_nth k st j : (j < length st)%nat ->
  nth j (roll k st) dsite = nth (Z.to_nat ((Z.of_nat j - k) mod len st)) st dsite.
Proof.
  intros Hj. unfold roll.
  set (f := fun j0 : nat => nth (Z.to_nat ((Z.of_nat j0 - k) mod len st)) st dsite).
  rewrite nth_indep with (d' := f 0%nat) by (rewrite map_length, seq_length; exact Hj).
  rewrite map_nth. rewrite seq_nth by exact Hj. reflexivity.
Qed.

Lemma roll_truthful k st : Forall truthful st -> Forall truthful (roll k st).
Proof.
  intros H. unfold roll. apply Forall_map. apply Forall_forall. intros j _.
  apply Forall_nth_d; auto. apply truthful_dsite.
Qed.

Lemma roll_back k st : roll (- k) (roll k st) = st.
Proof.
  destruct st as [|s0 st0] eqn:Est; [reflexivity|]. rewrite <- Est.
  assert (HL : (0 < length st)%nat) by (subst st; cbn; lia).
  apply nth_ext with (d := dsite) (d' := dsite).
  - rewrite !roll_length. reflexivity.
  - intros j Hj. rewrite !roll_length in Hj.
    rewrite roll_nth by (rewrite roll_length; exact Hj).
    unfold len. rewrite roll_length.
    set (L := Z.of_nat (length st)).
    assert (HLz : 0 < L) by (unfold L; lia).
    assert (Hm : 0 <= (Z.of_nat j - - k) mod L < L) by (apply Z.mod_pos_bound; lia).
    rewrite roll_nth by lia.
    rewrite Z2Nat.id by lia. unfold len. fold L.
    replace (((Z.of_nat j - - k) mod L - k) mod L) with (Z.of_nat j).
    + rewrite Nat2Z.id. reflexivity.
    + rewrite Zminus_mod_idemp_l. replace (Z.of_nat j - - k - k) with (Z.of_nat j) by lia.
      rewrite Z.mod_small; unfold L; lia.
Qed.

(* ---------------------------------------------------------------- enlarge *)
Lemma enlarge_length n st : length (enlarge n st) = (n * length st)%nat.
Proof. unfold enlarge. induction n as [|n IH]; cbn [repeat_list]; [reflexivity|]. rewrite app_length, IH. lia. Qed.

Lemma enlarge_truthful n st : Forall truthful st -> Forall truthful (enlarge n st).
Proof.
  intros H. unfold enlarge. induction n as [|n IH]; cbn [repeat_list]; [constructor|].
  apply Forall_app. split; auto.
Qed.

Lemma enlarge_nth n st : forall j, (j < n * length st)%nat ->
  nth j (enlarge n st) dsite = nth (j mod length st) st dsite.
Proof.
  unfold enlarge. induction n as [|n IH]; intros j Hj; [lia|].
  cbn [repeat_list].
  assert (HL : (0 < length st)%nat) by (destruct st; cbn in *; lia).
  destruct (Nat.lt_ge_cases j (length st)) as [H|H].
  - rewrite app_nth1 by exact H. rewrite Nat.mod_small by exact H. reflexivity.
  - rewrite app_nth2 by exact H. rewrite IH by lia.
    f_equal.
    replace j with ((j - length st) + 1 * length st)%nat at 2 by lia.
    rewrite Nat.mod_add by lia. reflexivity.
Qed.

(* ---------------------------------------------------------------- histories *)
Lemma apply_op_truthful fin op st st' :
  Forall truthful st -> apply_op fin op st = Some st' -> Forall truthful st'.
Proof.
  intros Hf. destruct op as [fs|i f|i| |k|n|]; cbn [apply_op]; intros H.
  - apply Forall_canonical_truthful. eapply convert_truthful; eauto.
  - destruct (site_pos fin st i) as [p|]; [|discriminate].
    destruct (nth_error st p) as [s|] eqn:En; [|discriminate].
    destruct (get_B_act s (full f)) as [a|] eqn:Ea; [|discriminate].
    injection H as <-.
    assert (Hs : truthful s).
    { rewrite Forall_forall in Hf. apply Hf. eapply nth_error_In; eauto. }
    pose proof (get_B_full_truthful s f a Hs Ea) as ->.
    apply Forall_set_B; auto. intros s1 g Hg. cbn [lab act] in *. congruence.
  - destruct (site_pos fin st i) as [p|]; [|discriminate].
    destruct (site_pos fin st (i + 1)) as [q|]; [|discriminate].
    destruct (nth_error st p) as [s|]; [|discriminate].
    destruct (nth_error st q) as [t|]; [|discriminate].
    destruct (is_some (lab s) && is_some (lab t) && negb (p =? q)%nat); [|discriminate].
    injection H as <-.
    apply Forall_set_B; [apply Forall_set_B; auto|]; intros s1 g Hg; cbn [lab act] in *; congruence.
  - injection H as <-. apply Forall_map. apply Forall_forall. intros s _ g Hg. cbn [lab act] in *. congruence.
  - destruct fin; [discriminate|]. injection H as <-. apply roll_truthful; auto.
  - destruct (fin || (n <=? 1)%nat); [discriminate|]. injection H as <-. apply enlarge_truthful; auto.
  - injection H as <-. apply inversion_truthful; auto.
Qed.

Lemma label_truthful fin ops : forall st st',
  Forall truthful st -> run_ops fin ops st = Some st' -> Forall truthful st'.
Proof.
  induction ops as [|op ops IH]; intros st st' Hf H; cbn [run_ops] in H.
  - injection H as <-. exact Hf.
  - destruct (apply_op fin op st) as [st1|] eqn:E; [|discriminate].
    eapply IH; [|exact H]. eapply apply_op_truthful; eauto.
Qed.

(* after canonical_form every later form conversion / structure operation keeps every site canonical-labelled
   as long as no operation fails: (labels stay Some) -- used for the non-vacuity example in Props *)

(* ---------------------------------------------------------------- get_theta *)
Lemma theta_rest_spec : forall ss pl pa fR,
  Forall canonical ss -> ss <> [] -> pa = pl ->
  theta_rest pl pa ss fR = Some (repeat 2 (length ss), fR).
Proof.
  induction ss as [|s rest IH]; intros pl pa fR Hf Hne Hp; [congruence|].
  inversion Hf as [|s' r' Hs Hr]; subst s' r'.
  destruct Hs as [[fl fr] [Hl Ha]].
  cbn [theta_rest]. destruct rest as [|t rest'].
  - unfold get_B_act. rewrite Hl, Ha. cbn [fst snd]. rewrite !scale1_truth.
    cbn [length repeat]. repeat f_equal. lia.
  - unfold get_B_act. rewrite Hl, Ha. cbn [fst snd scale1].
    rewrite (IH fr fr fR Hr) by (congruence || reflexivity).
    cbn [length repeat]. repeat f_equal. lia.
Qed.

Lemma theta_exps_spec ss fL fR :
  Forall canonical ss -> (2 <= length ss)%nat ->
  theta_exps ss fL fR = Some (fL, repeat 2 (length ss - 1), fR).
Proof.
  intros Hf Hn. destruct ss as [|s rest]; [cbn in Hn; lia|].
  destruct rest as [|t rest']; [cbn in Hn; lia|].
  inversion Hf as [|s' r' Hs Hr]; subst s' r'.
  destruct Hs as [[fl fr] [Hl Ha]].
  cbn [theta_exps]. unfold get_B_act at 1. rewrite Hl, Ha. cbn [fst snd scale1].
  rewrite (theta_rest_spec (t :: rest') fr fr fR Hr) by (congruence || reflexivity).
  cbn [length]. replace (Datatypes.S (Datatypes.S (length rest')) - 1)%nat with (Datatypes.S (length rest')) by lia.
  replace (fl + (fL - fl)) with fL by lia. reflexivity.
Qed.

Lemma theta_exps_one s fL fR : canonical s -> theta_exps [s] fL fR = Some (fL, [], fR).
Proof.
  intros [[fl fr] [Hl Ha]]. cbn [theta_exps]. unfold get_B_act. rewrite Hl, Ha. cbn [fst snd].
  rewrite !scale1_truth. reflexivity.
Qed.

Lemma window_spec fin st : forall n i ss,
  window fin st i n = Some ss -> length ss = n /\ (forall s, In s ss -> In s st).
Proof.
  induction n as [|n IH]; intros i ss H; cbn [window] in H.
  - injection H as <-. split; [reflexivity|]. intros s [].
  - destruct (site_pos fin st i) as [p|]; [|discriminate].
    destruct (window fin st (i + 1) n) as [r|] eqn:Er; [|discriminate].
    destruct (nth_error st p) as [s|] eqn:En; [|discriminate].
    injection H as <-. destruct (IH _ _ Er) as [Hlen Hin]. split.
    + cbn [length]. lia.
    + intros s' [<-|H']; [eapply nth_error_In; eauto|auto].
Qed.

Lemma theta_exponents fin st i n ss fL fR :
  Forall canonical st -> window fin st i n = Some ss ->
  ((2 <= n)%nat -> get_theta fin st i n fL fR = Some (fL, repeat 2 (n - 1), fR)) /\
  (n = 1%nat -> get_theta fin st i n fL fR = Some (fL, [], fR)).
Proof.
  intros Hf Hw. destruct (window_spec fin st n i ss Hw) as [Hlen Hin].
  assert (Hc : Forall canonical ss).
  { apply Forall_forall. intros s Hs. rewrite Forall_forall in Hf. auto. }
  unfold get_theta. rewrite Hw. split.
  - intros Hn. rewrite <- Hlen. apply theta_exps_spec; auto. lia.
  - intros ->. destruct ss as [|s [|t r]]; cbn in Hlen; try lia.
    apply theta_exps_one. inversion Hc; auto.
Qed.

(* in an infinite chain every window exists (also across the unit-cell boundary) *)
Lemma window_infinite st : st <> [] -> forall n i, exists ss, window false st i n = Some ss.
Proof.
  intros Hne. induction n as [|n IH]; intros i; cbn [window]; [eexists; reflexivity|].
  assert (HL : 0 < len st) by (unfold len; destruct st; [congruence|cbn [length]; lia]).
  unfold site_pos.
  destruct (IH (i + 1)) as [r Hr]. rewrite Hr.
  unfold to_valid_site_index. cbn [andb negb].
  assert (Hm : 0 <= i mod len st < len st) by (apply Z.mod_pos_bound; lia).
  set (m := i mod len st) in *. clearbody m.
  destruct (nth_error st (Z.to_nat m)) as [s|] eqn:En.
  - eexists; reflexivity.
  - apply nth_error_None in En. unfold len in Hm. lia.
Qed.

(* ---------------------------------------------------------------- the default-form variant of roll is wrong *)
Definition aA (d : Z) : site := mkSite (Some fA) fA d 2 2.

Lemma roll_default_form_breaks :
  exists k st st', Forall truthful st /\ roll_default_form k st = Some st' /\ ~ Forall truthful st'.
Proof.
  exists 1, [aA 2; aA 3]. eexists. split; [|split].
  - repeat constructor; intros f H; cbn in H; injection H as <-; reflexivity.
  - vm_compute. reflexivity.
  - intros H. inversion H as [|x l Hx Hl]; subst. specialize (Hx fA eq_refl). vm_compute in Hx. discriminate.
Qed.

