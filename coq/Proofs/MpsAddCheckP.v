(* Soundness of the correspondence checker Model/MpsAddCheck.v (C09, T09_add_check_sound): whenever
   check_add_case accepts an observed call of MPS.add, the OBSERVED tensors of the sum denote, for every physical
   configuration, the linear combination of the observed inputs (entries inside the recorded dimensions). *)
From TenpyV Require Import Base.Prelude Model.MpsAdd Model.MpsAddCheck Proofs.MpsAddP.
Open Scope Z_scope.

(* two chains have the same column counts and agree on all entries inside the dimensions *)
Fixpoint agree (rows : nat) (R C : chain) : Prop :=
  match R, C with
  | [], [] => True
  | (c, A) :: R', (c', A') :: C' =>
      c = c' /\ (forall i j, (i < rows)%nat -> (j < c)%nat -> A i j = A' i j) /\ agree c R' C'
  | _, _ => False
  end.

Definition dmat : mat := fun _ _ => 0.
Definition last_cols (R : chain) : nat := fst (last R (0%nat, dmat)).

Lemma last_cols_cons x y R : last_cols (x :: y :: R) = last_cols (y :: R).
Proof. reflexivity. Qed.

Lemma chain_prod_agree : forall R C rows, agree rows R C -> C <> [] ->
  forall i j, (i < rows)%nat -> (j < last_cols C)%nat -> chain_prod R i j = chain_prod C i j.
Proof.
  induction R as [|[c A] R' IH]; intros C rows H Hne i j Hi Hj.
  - destruct C; [congruence|contradiction].
  - destruct C as [|[c' A'] C']; [contradiction|]. cbn [agree] in H. destruct H as [<- [HA HR]].
    destruct R' as [|x R''].
    + destruct C' as [|y C'']; [|contradiction].
      cbn [chain_prod]. apply HA; [exact Hi|exact Hj].
    + destruct C' as [|y C'']; [destruct x; contradiction|].
      rewrite (chain_prod_cons c A (x :: R'')) by congruence.
      rewrite (chain_prod_cons c A' (y :: C'')) by congruence.
      apply mmul_ext.
      * intros k Hk. apply HA; [exact Hi|exact Hk].
      * intros k Hk. apply (IH (y :: C'') c HR); [congruence|exact Hk|].
        rewrite last_cols_cons in Hj. exact Hj.
Qed.

Lemma eq_mat_spec r c m l : eq_mat r c m l = true ->
  forall i j, (i < r)%nat -> (j < c)%nat -> m i j = lmat l i j.
Proof.
  unfold eq_mat. intros H i j Hi Hj.
  rewrite forallb_forall in H. specialize (H i). rewrite in_seq in H.
  assert (Hi' : (0 <= i < 0 + r)%nat) by lia. specialize (H Hi').
  rewrite forallb_forall in H. specialize (H j). rewrite in_seq in H.
  assert (Hj' : (0 <= j < 0 + c)%nat) by lia. specialize (H Hj').
  apply Z.eqb_eq. exact H.
Qed.

Definition in_pdim (p : nat) (x : ltens) : Prop := (p < pdim_of x)%nat.

Lemma eq_tchain_agree : forall (R : tchain) (obs : list ltens) (rows : nat) (ps : list nat),
  eq_tchain rows R obs = true -> Forall2 in_pdim ps obs ->
  agree rows (select R ps) (select (tchain_of obs) ps).
Proof.
  induction R as [|[c t] R' IH]; intros obs rows ps H HF.
  - destruct obs as [|x obs']; [|discriminate]. inversion HF; subst. exact I.
  - destruct obs as [|[[r' c'] t'] obs']; [discriminate|].
    inversion HF as [|p x ps' obs'' Hp HF']; subst.
    cbn [eq_tchain] in H.
    apply andb_prop in H. destruct H as [H Hrest].
    apply andb_prop in H. destruct H as [H Hent].
    apply andb_prop in H. destruct H as [H _].
    apply andb_prop in H. destruct H as [Hr Hc].
    apply Nat.eqb_eq in Hr. apply Nat.eqb_eq in Hc. subst r' c'.
    cbn [tchain_of map select agree]. split; [reflexivity|]. split.
    + intros i j Hi Hj. rewrite forallb_forall in Hent. specialize (Hent p).
      unfold in_pdim, pdim_of in Hp. cbn [snd] in Hp.
      assert (Hin : In p (seq 0 (length t'))) by (rewrite in_seq; lia).
      apply (eq_mat_spec _ _ _ _ (Hent Hin)); [exact Hi|exact Hj].
    + apply (IH obs' c ps' Hrest HF').
Qed.

Lemma Forall2_length_eq {A B : Type} (P : A -> B -> Prop) l l' : Forall2 P l l' -> length l = length l'.
Proof. induction 1; cbn [length]; congruence. Qed.

Lemma select_tchain_nonempty : forall (T : list ltens) ps, T <> [] -> length ps = length T ->
  select (tchain_of T) ps <> [].
Proof.
  intros [|[[r c] t] T] [|p ps] HT Hl; cbn [length] in Hl; try congruence; try lia.
  cbn [tchain_of map select]. congruence.
Qed.

Definition dltens : ltens := (0%nat, 0%nat, []).

Lemma last_cols_select : forall (T : list ltens) ps, T <> [] -> length ps = length T ->
  last_cols (select (tchain_of T) ps) = cols_of (last T dltens).
Proof.
  induction T as [|[[r c] t] T IH]; intros ps HT Hl; [congruence|].
  destruct ps as [|p ps]; [discriminate|]. cbn [length] in Hl.
  destruct T as [|y T'].
  - destruct ps; [|discriminate]. reflexivity.
  - destruct ps as [|q ps']; [discriminate|].
    specialize (IH (q :: ps')).
    assert (Hne : y :: T' <> []) by congruence.
    specialize (IH Hne). cbn [length] in IH, Hl. specialize (IH ltac:(lia)).
    destruct y as [[r2 c2] t2].
    change (last ((r, c, t) :: (r2, c2, t2) :: T') dltens) with (last ((r2, c2, t2) :: T') dltens).
    etransitivity; [|exact IH]. cbn [tchain_of map select]. rewrite last_cols_cons. reflexivity.
Qed.

Theorem add_check_sound : forall (alpha nA beta nB : Z) (TA TB TC : list ltens),
  check_add_case (alpha, nA, beta, nB, TA, TB, TC) = true ->
  length TA = length TB /\ length TC = length TA /\ (2 <= length TA)%nat /\
  forall (ps : list nat) (i j : nat),
    Forall2 in_pdim ps TC ->
    (i < rows_of (hd dltens TA))%nat -> (j < cols_of (last TC dltens))%nat ->
    amplitude (tchain_of TC) ps i j =
      (alpha * nA) * amplitude (tchain_of TA) ps i j + (beta * nB) * amplitude (tchain_of TB) ps i j.
Proof.
  intros alpha nA beta nB TA TB TC H.
  unfold check_add_case in H.
  destruct TA as [|a TA']; [discriminate|]. destruct TB as [|b TB']; [discriminate|].
  repeat (apply andb_prop in H; let H' := fresh "Hc" in destruct H as [H H']).
  apply Nat.eqb_eq in Hc4. apply Nat.leb_le in Hc3. apply Nat.eqb_eq in Hc0.
  split; [exact Hc4|]. split; [exact Hc0|]. split; [exact Hc3|].
  intros ps i j HF Hi Hj. cbn [hd] in Hi.
  assert (Hlp : length ps = length TC) by (apply (Forall2_length_eq _ _ _ HF)).
  assert (HneC : TC <> []) by (destruct TC; [cbn [length] in *; lia|congruence]).
  pose proof (eq_tchain_agree _ _ _ _ Hc HF) as Hag.
  unfold amplitude.
  rewrite <- (chain_prod_agree _ _ _ Hag (select_tchain_nonempty TC ps HneC Hlp) i j Hi).
  - apply tadd_linear.
    + unfold tchain_of. rewrite !map_length. exact Hc4.
    + unfold tchain_of. rewrite map_length. exact Hc3.
    + unfold tchain_of. rewrite map_length. congruence.
  - rewrite (last_cols_select TC ps HneC Hlp). exact Hj.
Qed.
