(* C18: the program regenerated from Simulation.save_results (translator/export_c18_save.py) is the
   program of the model; hence every theorem about `save_ops` is about the translated source. *)
From TenpyV Require Import Base.Prelude Model.Fs Gen.G_save_results.

Lemma save_results_gen_eq : save_results_gen = save_results_prog.
Proof. reflexivity. Qed.

Lemma save_results_gen_ops safe k st : run_prog safe k save_results_gen st = save_ops safe k st.
Proof. rewrite save_results_gen_eq. reflexivity. Qed.
