(* C18: lemmas about the crash model of the result files (Model/Fs.v). *)
From TenpyV Require Import Base.Prelude Model.Fs.

(* ------------------------------------------------------------------------------------------ *)
(* traces                                                                                      *)
(* ------------------------------------------------------------------------------------------ *)

Lemma apply_ops_app a b st : apply_ops (a ++ b) st = apply_ops b (apply_ops a st).
Proof. unfold apply_ops. apply fold_left_app. Qed.

(* the tag (last completed write) at the end of a trace *)
Fixpoint end_tag (ops : list op) (j : nat) : nat :=
  match ops with
  | [] => j
  | OpWrite _ k :: t => end_tag t k
  | _ :: t => end_tag t j
  end.

Lemma end_tag_app a b j : end_tag (a ++ b) j = end_tag b (end_tag a j).
Proof.
  revert j. induction a as [|o a IH]; intro j; [reflexivity|].
  destruct o; cbn [app end_tag]; apply IH.
Qed.

Lemma crash_points_app (P : nat * fs -> Prop) a b j st :
  Forall P (crash_points a j st) ->
  Forall P (crash_points b (end_tag a j) (apply_ops a st)) ->
  Forall P (crash_points (a ++ b) j st).
Proof.
  revert j st. induction a as [|o a IH]; intros j st Ha Hb.
  - exact Hb.
  - destruct o; cbn [app crash_points end_tag] in *;
      repeat match goal with H : Forall _ (_ :: _) |- _ => inversion H; subst; clear H end;
      repeat constructor; try assumption; apply IH; assumption.
Qed.

(* every crash (before step s / inside the write at step s) is one of the crash points *)
Lemma crash_state_in_points ops : forall j st s inside, s <= length ops ->
  exists t, In (t, crash_state ops st s inside) (crash_points ops j st).
Proof.
  induction ops as [|o ops IH]; intros j st s inside Hs.
  - cbn in Hs. assert (s = 0) by lia. subst. exists j. unfold crash_state.
    cbn. destruct inside; left; reflexivity.
  - destruct s as [|s].
    + unfold crash_state. cbn [firstn apply_ops fold_left nth_error].
      destruct inside; [|exists j; destruct o; left; reflexivity].
      destruct o; try (exists j; left; reflexivity).
      exists j. right. left. reflexivity.
    + cbn [length] in Hs. assert (Hs' : s <= length ops) by lia.
      destruct o;
        [ destruct (IH j (apply_op st (OpExists f r)) s inside Hs') as [t Ht]
        | destruct (IH j (apply_op st (OpUnlink f)) s inside Hs') as [t Ht]
        | destruct (IH j (apply_op st (OpRename src dst)) s inside Hs') as [t Ht]
        | destruct (IH k (apply_op st (OpWrite f k)) s inside Hs') as [t Ht]
        | destruct (IH j (apply_op st (OpMarker f)) s inside Hs') as [t Ht] ];
        exists t; unfold crash_state in *; cbn [firstn apply_ops fold_left nth_error crash_points] in *;
        repeat right; exact Ht.
Qed.

(* ------------------------------------------------------------------------------------------ *)
(* good disk states                                                                            *)
(* ------------------------------------------------------------------------------------------ *)

(* states in which checkpoint t (the last completed write) is loadable *)
Definition sgood (t : nat) (s : fs) : bool :=
  match f_out s, f_bak s with
  | Complete a, Absent => Nat.eqb a t
  | Complete a, Marker => Nat.eqb a t
  | Complete a, Complete _ => Nat.eqb a t
  | Absent, Complete b => Nat.eqb b t
  | Partial _, Complete b => Nat.eqb b t
  | _, _ => false
  end.

Definition npart (s : fs) : bool := negb (is_partial (f_out s)).

Definition pgood (x : nat * fs) : Prop := sgood (fst x) (snd x) = true.
Definition qgood (x : nat * fs) : Prop := sgood (fst x) (snd x) = true \/ (fst x = 0 /\ loadable (snd x) = None).

Lemma sgood_loadable t s : sgood t s = true -> exists f, loadable s = Some (f, t).
Proof.
  destruct s as [o b]. unfold sgood, loadable. cbn [f_out f_bak].
  destruct o, b; try discriminate; intro H; apply Nat.eqb_eq in H; subst; eexists; reflexivity.
Qed.

Lemma sgood_complete t s : sgood t s = true -> has_complete s t.
Proof.
  destruct s as [o b]. unfold sgood, has_complete. cbn [f_out f_bak].
  destruct o, b; try discriminate; intro H; apply Nat.eqb_eq in H; subst; auto.
Qed.

Ltac fin_points :=
  repeat match goal with
         | |- Forall _ (_ :: _) => constructor
         | |- Forall _ [] => constructor
         end;
  unfold pgood, sgood; cbn [fst snd f_out f_bak setf apply_op getf fname_eqb];
  rewrite ?Nat.eqb_refl; try reflexivity; try assumption.

(* one save from a good state whose output file is not a partial file *)
Lemma save_good t s k : sgood t s = true -> npart s = true ->
  let ops := fst (save_ops true k s) in
  apply_ops ops s = mkFs (Complete k) Absent /\ end_tag ops t = k /\
  Forall pgood (crash_points ops t s).
Proof.
  destruct s as [o b]. unfold sgood, npart. cbn [f_out f_bak is_partial].
  destruct o as [| |a|a], b as [| |c|c]; try discriminate; intros Hg _;
    apply Nat.eqb_eq in Hg; subst;
    cbn; (split; [reflexivity|split; [reflexivity|]]); fin_points.
Qed.

Lemma init_good t s : sgood t s = true -> npart s = true ->
  let ops := fst (init_ops true s) in
  sgood t (apply_ops ops s) = true /\ npart (apply_ops ops s) = true /\ end_tag ops t = t /\
  Forall pgood (crash_points ops t s).
Proof.
  destruct s as [o b]. unfold sgood, npart. cbn [f_out f_bak is_partial].
  destruct o as [| |a|a], b as [| |c|c]; try discriminate; intros Hg _;
    cbn; rewrite ?Hg; (split; [reflexivity|split; [reflexivity|split; [reflexivity|]]]); fin_points.
Qed.

Lemma saves_ops_S safe k0 n st :
  fst (saves_ops safe k0 (S n) st) =
  fst (save_ops safe (k0 + 1) st) ++ fst (saves_ops safe (k0 + 1) n (snd (save_ops safe (k0 + 1) st))).
Proof.
  cbn [saves_ops]. destruct (save_ops safe (k0 + 1) st) as [o1 s1].
  cbn [fst snd]. destruct (saves_ops safe (k0 + 1) n s1) as [o2 s2]. reflexivity.
Qed.

Lemma run_prog_apply safe k p : forall st, snd (run_prog safe k p st) = apply_ops (fst (run_prog safe k p st)) st.
Proof.
  assert (Hc : forall c st, apply_ops (fst (eval_cond safe c st)) st = st).
  { induction c as [f| |a IHa b IHb|a IHa]; intro st; cbn [eval_cond].
    - reflexivity.
    - reflexivity.
    - specialize (IHa st). destruct (eval_cond safe a st) as [oa va]. destruct va.
      + specialize (IHb st). destruct (eval_cond safe b st) as [ob vb]. cbn [fst] in *.
        rewrite apply_ops_app, IHa. exact IHb.
      + exact IHa.
    - specialize (IHa st). destruct (eval_cond safe a st) as [oa va]. exact IHa. }
  induction p as [|a IHa b IHb|c a IHa b IHb|f|a b|f]; intro st; cbn [run_prog]; try reflexivity.
  - specialize (IHa st). destruct (run_prog safe k a st) as [oa s1].
    specialize (IHb s1). destruct (run_prog safe k b s1) as [ob s2]. cbn [fst snd] in *.
    rewrite apply_ops_app. subst s1. exact IHb.
  - specialize (Hc c st). destruct (eval_cond safe c st) as [oc v]. cbn [fst] in Hc.
    destruct v.
    + specialize (IHa st). destruct (run_prog safe k a st) as [ob s1]. cbn [fst snd] in *.
      rewrite apply_ops_app, Hc. exact IHa.
    + specialize (IHb st). destruct (run_prog safe k b st) as [ob s1]. cbn [fst snd] in *.
      rewrite apply_ops_app, Hc. exact IHb.
Qed.

Lemma save_ops_apply safe k st : snd (save_ops safe k st) = apply_ops (fst (save_ops safe k st)) st.
Proof. apply run_prog_apply. Qed.

(* n saves from a good state: every crash point is good *)
Lemma saves_good n : forall t s, sgood t s = true -> npart s = true ->
  Forall pgood (crash_points (fst (saves_ops true t n s)) t s).
Proof.
  induction n as [|n IH]; intros t s Hg Hp.
  - cbn. constructor; [exact Hg|constructor].
  - rewrite saves_ops_S.
    destruct (save_good t s (t + 1) Hg Hp) as [Hst [Htag Hpts]].
    apply crash_points_app; [exact Hpts|].
    rewrite Htag, save_ops_apply, Hst.
    apply IH; [|reflexivity].
    unfold sgood. cbn. apply Nat.eqb_refl.
Qed.

Lemma seg_ops_fst safe k0 n st :
  fst (seg_ops safe k0 n st) = fst (init_ops safe st) ++ fst (saves_ops safe k0 n (snd (init_ops safe st))).
Proof.
  unfold seg_ops. destruct (init_ops safe st) as [o0 s0]. cbn [fst snd].
  destruct (saves_ops safe k0 n s0) as [o1 s1]. reflexivity.
Qed.

Lemma init_ops_apply safe st : snd (init_ops safe st) = apply_ops (fst (init_ops safe st)) st.
Proof.
  unfold init_ops. destruct safe; [|reflexivity]. destruct (present (f_bak st)); reflexivity.
Qed.

(* a resumed run from a good state whose output file is not partial *)
Lemma resumed_good t n s : sgood t s = true -> npart s = true -> Forall pgood (resumed_points true t n s).
Proof.
  intros Hg Hp. unfold resumed_points. rewrite seg_ops_fst.
  destruct (init_good t s Hg Hp) as [Hg' [Hp' [Htag Hpts]]].
  apply crash_points_app; [exact Hpts|].
  rewrite Htag, init_ops_apply. apply saves_good; assumption.
Qed.

(* a fresh run *)
Lemma fresh_good n : Forall qgood (fresh_points true n).
Proof.
  unfold fresh_points. rewrite seg_ops_fst.
  destruct n as [|n].
  - cbn. repeat (apply Forall_cons || apply Forall_nil); right; split; reflexivity.
  - rewrite saves_ops_S, app_assoc. apply crash_points_app.
    + cbn. repeat (apply Forall_cons || apply Forall_nil); unfold qgood; cbn;
        first [left; reflexivity | right; split; reflexivity].
    + rewrite end_tag_app, apply_ops_app. cbn [init_ops fs0 present f_bak f_out fst snd].
      cbn -[saves_ops].
      eapply Forall_impl; [|apply saves_good; reflexivity].
      intros x Hx. left. exact Hx.
Qed.

Lemma single_run n j st : In (j, st) (fresh_points true n) -> 1 <= j ->
  has_complete st j /\ exists f, loadable st = Some (f, j).
Proof.
  intros Hin Hj. pose proof (fresh_good n) as H. rewrite Forall_forall in H.
  specialize (H _ Hin). destruct H as [H|[H _]]; cbn [fst snd] in H; [|lia].
  split; [apply sgood_complete|apply sgood_loadable]; exact H.
Qed.

(* no step of a fresh run raises (unlink / rename of a missing file) and every exists-answer is the
   one the model predicts *)
Lemma save_all_ok_next j k : all_ok (fst (save_ops true k (mkFs (Complete j) Absent))) (mkFs (Complete j) Absent) = true.
Proof. reflexivity. Qed.

(* histories with strict resumes *)
Lemma resumes_good h : forall cur j st, qgood cur ->
  run_resumes true true h cur = Some (j, st) -> qgood (j, st).
Proof.
  induction h as [|[n c] h IH]; intros cur j st Hq Hr.
  - cbn in Hr. inversion Hr; subst. exact Hq.
  - cbn [run_resumes] in Hr. destruct cur as [t s]. cbn [snd] in Hr.
    destruct (is_partial (f_out s)) eqn:Hp; cbn [andb] in Hr; [discriminate|].
    destruct Hq as [Hg|[_ Hl]]; cbn [fst snd] in *.
    + destruct (sgood_loadable t s Hg) as [f Hf]. rewrite Hf in Hr.
      destruct (nth_error (resumed_points true t n s) c) as [nxt|] eqn:Hn; [|discriminate].
      apply (IH nxt j st); [|exact Hr].
      left. pose proof (resumed_good t n s Hg) as H. unfold npart in H. rewrite Hp in H.
      specialize (H eq_refl). rewrite Forall_forall in H. apply H. eapply nth_error_In. exact Hn.
    + rewrite Hl in Hr. discriminate.
Qed.

Lemma resumed_strict n0 c0 h j st : run_history true true n0 c0 h = Some (j, st) -> 1 <= j ->
  has_complete st j /\ exists f, loadable st = Some (f, j).
Proof.
  unfold run_history. intros Hr Hj.
  destruct (nth_error (fresh_points true n0) c0) as [cur|] eqn:Hn; [|discriminate].
  assert (Hq : qgood cur).
  { pose proof (fresh_good n0) as H. rewrite Forall_forall in H. apply H. eapply nth_error_In. exact Hn. }
  pose proof (resumes_good h cur j st Hq Hr) as [H|[H _]]; cbn [fst snd] in H; [|lia].
  split; [apply sgood_complete|apply sgood_loadable]; exact H.
Qed.

(* the faithful model (resume allowed while the output file is a leftover partial file) is unsafe:
   fresh run with 2 saves killed inside the second write (crash point 12: out = Partial 2, bak = Complete 1);
   resume from the backup; the first save of the resumed run is killed after its `backup.unlink()`
   (crash point 5): nothing loadable is left although checkpoint 1 had been completed. *)
Lemma resumed_unsafe : exists n0 c0 h j st,
  run_history true false n0 c0 h = Some (j, st) /\ 1 <= j /\ loadable st = None /\
  is_partial (f_out st) = true.
Proof.
  exists 2, 12, [(1, 5)], 1, (mkFs (Partial 2) Absent). vm_compute. repeat split; lia.
Qed.

(* ... and two partial files when the resumed run is killed inside its first write *)
Lemma resumed_unsafe_two_partials : exists n0 c0 h j,
  run_history true false n0 c0 h = Some (j, mkFs (Partial 2) (Partial 2)) /\ 1 <= j.
Proof. exists 2, 12, [(1, 7)], 1. vm_compute. split; [reflexivity|lia]. Qed.

(* without safe_write a crash inside the second write loses everything (why safe_write is the premise) *)
Lemma unsafe_without_safe_write : exists j st, In (j, st) (fresh_points false 2) /\ 1 <= j /\ loadable st = None.
Proof. exists 1, (mkFs (Partial 2) Absent). vm_compute. split; [|split; [lia|reflexivity]]. tauto. Qed.
