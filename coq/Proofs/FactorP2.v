(* Lemmas about Model/Factor2.v (C05): charges of the lq factors; structure of the eigh / eig results. *)
From TenpyV Require Import Base.Prelude Model.ChargeL Model.Leg Model.Factor Model.Factor2 Proofs.LegP Proofs.FactorP.
Open Scope Z_scope.

(* ---------------------------------------------------------------- lq *)
Lemma vadd_comm a : forall b, vadd a b = vadd b a.
Proof. induction a as [|x a IH]; intros [|y b]; cbn [vadd]; try reflexivity. f_equal; [lia|apply IH]. Qed.

Lemma rule2_comm ci x y q : rule2 ci x y q = rule2 ci y x q.
Proof. unfold rule2. rewrite vadd_comm. reflexivity. Qed.

Lemma tmat_wf ci a : mat_wf ci a -> mat_wf ci (tmat a).
Proof.
  intros (Hlen & Hval & HcL & HcR & Hd). unfold mat_wf, tmat. cbn [mL mR mq mdata].
  repeat split; try assumption.
  apply Forall_forall. intros ij Hin. apply in_map_iff in Hin. destruct Hin as ([i j] & <- & Hin).
  rewrite Forall_forall in Hd. destruct (Hd _ Hin) as (Hi & Hj & Hr). cbn [fst snd] in *.
  repeat split; try assumption. rewrite rule2_comm. exact Hr.
Qed.

(* (j, b) in r_map: block j of a.legs[1] became the inner block b.  Q.legs = [inner.conj(), a.legs[1]],
   L.legs = [a.legs[0], inner] *)
Definition lrow_ok (ci : chinfo) (a : mat) (iq : Z) (qL qQ : cvec) (jb : nat * block) : Prop :=
  let '(j, b) := jb in
  rule2 ci (vscale (- iq) (snd b)) (leg_charge (mR a) j) qQ = true /\
  (forall i, In (i, j) (mdata a) -> rule2 ci (leg_charge (mL a) i) (vscale iq (snd b)) qL = true).

Theorem lq_charges_ok ci a ks complete qQ iq : (iq = 1 \/ iq = -1) -> (qc (mR a) = 1 \/ qc (mR a) = -1) ->
  mat_wf ci a -> req_wf ci qQ ->
  let p := lq_charges ci a ks complete qQ iq in
  make_valid ci (vadd (r_qR p) (r_qQ p)) = mq a /\
  r_qQ p = make_valid ci (q_req ci qQ) /\
  Forall (lrow_ok ci a iq (r_qR p) (r_qQ p)) (r_map p) /\
  qc (r_inner p) = iq /\ blocks (r_inner p) = map snd (r_map p) /\
  contractible ci (r_inner p) (conj_leg (r_inner p)) = true.
Proof.
  intros Hiq Hq0 Hwf Hreq p.
  destruct (qr_charges_ok ci (tmat a) ks complete qQ iq Hiq Hq0 (tmat_wf ci a Hwf) Hreq)
    as (H1 & H2 & H3 & H4 & H5 & _).
  fold (lq_charges ci a ks complete qQ iq) in H1, H2, H3, H4, H5. fold p in H1, H2, H3, H4, H5.
  cbn [tmat mq] in H1.
  split; [rewrite vadd_comm; exact H1|]. split; [exact H2|]. split; [|split; [exact H4|split; [exact H5|apply conj_contractible]]].
  rewrite Forall_forall in H3. apply Forall_forall. intros [j b] Hin. specialize (H3 _ Hin).
  unfold qrow_ok in H3. cbn [tmat mL mR mdata] in H3. destruct H3 as [HQ HL]. unfold lrow_ok. split.
  - rewrite rule2_comm. exact HQ.
  - intros i Hi. rewrite rule2_comm. apply HL. apply in_map_iff. exists (i, j). split; [reflexivity|exact Hi].
Qed.

(* ---------------------------------------------------------------- eigh / eig *)
Lemma map_nth_seq {A B} (f : A -> B) (d : A) (l : list A) :
  map (fun i => f (nth i l d)) (seq 0 (length l)) = map f l.
Proof.
  induction l as [|x l IH]; [reflexivity|]. cbn [length seq map nth]. f_equal.
  rewrite <- seq_shift, map_map. exact IH.
Qed.

Lemma set_nth_length {A} i (x : A) l : length (set_nth i x l) = length l.
Proof.
  unfold set_nth. destruct (i <? length l)%nat eqn:E; [|reflexivity].
  rewrite app_length, firstn_length. cbn [length]. rewrite skipn_length. lia.
Qed.

Lemma set_nth_same {A} i (x d : A) l : (i < length l)%nat -> nth i (set_nth i x l) d = x.
Proof.
  intros H. unfold set_nth. destruct (i <? length l)%nat eqn:E; [|lia].
  rewrite app_nth2; rewrite firstn_length; [|lia]. replace (i - Nat.min i (length l))%nat with 0%nat by lia. reflexivity.
Qed.

Lemma set_nth_other {A} i j (x d : A) l : i <> j -> nth j (set_nth i x l) d = nth j l d.
Proof.
  intros H. unfold set_nth. destruct (i <? length l)%nat eqn:E; [|reflexivity].
  revert i j H E. induction l as [|y l IH]; intros i j H E; cbn [length] in E; [lia|].
  destruct i, j; try lia; cbn [firstn skipn app nth]; try reflexivity. apply IH; [lia|]. cbn [length] in E. lia.
Qed.

Lemma set_nth_split {A} i (x : A) l : (i < length l)%nat ->
  set_nth i x l = firstn i l ++ x :: skipn (S i) l.
Proof. intros H. unfold set_nth. destruct (i <? length l)%nat eqn:E; [reflexivity|lia]. Qed.

Lemma nth_split_at {A} i (d : A) l : (i < length l)%nat -> l = firstn i l ++ nth i l d :: skipn (S i) l.
Proof.
  revert i. induction l as [|x l IH]; intros i H; cbn [length] in H; [lia|].
  destruct i; [reflexivity|]. cbn [firstn nth skipn app]. f_equal. apply IH. lia.
Qed.

Lemma firstn_len_app {A} (a b : list A) : firstn (length a) (a ++ b) = a.
Proof. induction a as [|x a IH]; [reflexivity|]. cbn [length app firstn]. rewrite IH. reflexivity. Qed.
Lemma skipn_len_app {A} (a b : list A) n : skipn (length a + n) (a ++ b) = skipn n b.
Proof. induction a as [|x a IH]; [reflexivity|]. cbn [length app Nat.add skipn]. exact IH. Qed.

(* resw[slice] = rw on the concatenation of the sector vectors = replacing one sector vector *)
Lemma set_slice_concat {A} (ws : list (list A)) qi rw : (qi < length ws)%nat ->
  length rw = length (nth qi ws []) ->
  set_slice (length (concat (firstn qi ws))) rw (concat ws) = concat (set_nth qi rw ws).
Proof.
  intros H L. rewrite set_nth_split by exact H.
  assert (E : concat ws = concat (firstn qi ws) ++ nth qi ws [] ++ concat (skipn (S qi) ws)).
  { rewrite (nth_split_at qi [] ws H) at 1. rewrite concat_app. reflexivity. }
  rewrite concat_app. cbn [concat]. unfold set_slice. rewrite E.
  set (A0 := concat (firstn qi ws)). set (C0 := concat (skipn (S qi) ws)). set (x := nth qi ws []) in *.
  rewrite firstn_len_app, skipn_len_app, L. rewrite <- (Nat.add_0_r (length x)), skipn_len_app. reflexivity.
Qed.

Definition zlen {A} (s : list A) : Z := Z.of_nat (length s).

Lemma offs_zlen {A} (ws : list (list A)) : forall qi,
  offs (map zlen ws) qi = Z.of_nat (length (concat (firstn qi ws))).
Proof.
  induction ws as [|s ws IH]; intros qi; [rewrite offs_nil; destruct qi; reflexivity|].
  destruct qi; [reflexivity|]. cbn [map]. rewrite offs_cons, IH. cbn [firstn concat]. rewrite app_length. unfold zlen. lia.
Qed.

Lemma map_set_nth_same {A B} (f : A -> B) i x (d : A) l : f x = f (nth i l d) -> map f (set_nth i x l) = map f l.
Proof.
  intros H. unfold set_nth. destruct (i <? length l)%nat eqn:E; [|reflexivity].
  rewrite (nth_split_at i d l) at 3 by lia. rewrite !map_app. cbn [map]. rewrite H. reflexivity.
Qed.

Section EigP.
  Context {B W : Type}.
  Variable eye : Z -> B.
  Variable w0 : W.
  Variable eigb : nat -> list W * B.

  (* the loop of _eig_worker seen as item assignments into a list indexed by the sector *)
  Fixpoint set_loop {A} (g : nat -> nat -> A) (data : list (nat * nat)) (k : nat) (xs : list A) : list A :=
    match data with
    | [] => xs
    | (qi, _) :: dt => set_loop g dt (S k) (set_nth qi (g qi k) xs)
    end.

  Lemma set_loop_length {A} (g : nat -> nat -> A) data : forall k xs, length (set_loop g data k xs) = length xs.
  Proof.
    induction data as [|[qi qj] dt IH]; intros k xs; [reflexivity|]. cbn [set_loop]. rewrite IH. apply set_nth_length.
  Qed.

  Lemma stored_at_none q data : forall k, ~ In q (map fst data) -> stored_at q data k = None.
  Proof.
    induction data as [|[qi qj] dt IH]; intros k H; [reflexivity|]. cbn [stored_at map fst In] in *.
    destruct (Nat.eqb qi q) eqn:E; [apply Nat.eqb_eq in E; tauto|]. apply IH. tauto.
  Qed.

  Lemma set_loop_nth {A} (g : nat -> nat -> A) (d : A) data : forall k xs q,
    NoDup (map fst data) -> Forall (fun ij => (fst ij < length xs)%nat) data ->
    nth q (set_loop g data k xs) d = match stored_at q data k with Some k' => g q k' | None => nth q xs d end.
  Proof.
    induction data as [|[qi qj] dt IH]; intros k xs q ND Hb; [reflexivity|].
    cbn [map fst] in ND. inversion ND as [|? ? Hni ND']; subst. inversion Hb as [|? ? Hq Hb']; subst. cbn [fst] in Hq.
    cbn [set_loop stored_at]. rewrite IH; [|exact ND'|].
    - destruct (Nat.eqb qi q) eqn:E.
      + apply Nat.eqb_eq in E. subst q. rewrite stored_at_none by exact Hni. apply set_nth_same, Hq.
      + apply Nat.eqb_neq in E. destruct (stored_at q dt (S k)); [reflexivity|]. apply set_nth_other, E.
    - rewrite Forall_forall in *. intros ij Hin. rewrite set_nth_length. apply Hb', Hin.
  Qed.

  Lemma nth_map_seq {A} (f : nat -> A) (d : A) n q : (q < n)%nat -> nth q (map f (seq 0 n)) d = f q.
  Proof.
    intros H. rewrite (nth_indep (map f (seq 0 n)) d (f 0%nat)) by (rewrite map_length, seq_length; lia).
    rewrite (map_nth f (seq 0 n) 0%nat q), seq_nth by lia. reflexivity.
  Qed.

  Lemma set_loop_map {A} (g : nat -> nat -> A) (d : A) data k xs :
    NoDup (map fst data) -> Forall (fun ij => (fst ij < length xs)%nat) data ->
    set_loop g data k xs =
    map (fun q => match stored_at q data k with Some k' => g q k' | None => nth q xs d end) (seq 0 (length xs)).
  Proof.
    intros ND Hb. apply nth_ext with (d := d) (d' := d).
    - rewrite set_loop_length, map_length, seq_length. reflexivity.
    - intros q Hq. rewrite set_loop_length in Hq. rewrite nth_map_seq by exact Hq. apply set_loop_nth; assumption.
  Qed.

  Definition gv (qi k : nat) : nat * nat * B := (qi, qi, snd (eigb k)).
  Definition gw (qi k : nat) : list W := fst (eigb k).

  (* LAPACK's only obligation here: as many eigenvalues as the block has rows *)
  Definition eig_sizes (l : leg) (data : list (nat * nat)) (k0 : nat) : Prop :=
    forall k qi qj, nth_error data k = Some (qi, qj) -> zlen (fst (eigb (k0 + k))) = fst (blk l qi).

  Lemma eig_loop_segments l : forall data k vs ws,
    map zlen ws = bsz l -> Forall (fun ij => (fst ij < nblocks l)%nat) data -> eig_sizes l data k ->
    eig_loop eigb l data k (vs, concat ws) = (set_loop gv data k vs, concat (set_loop gw data k ws)).
  Proof.
    induction data as [|[qi qj] dt IH]; intros k vs ws Hws Hb Hsz; [reflexivity|].
    inversion Hb as [|? ? Hq Hb']; subst. cbn [fst] in Hq.
    cbn [eig_loop set_loop fst snd]. destruct (eigb k) as [rw rv] eqn:Ek.
    assert (Lws : length ws = nblocks l) by (unfold nblocks; rewrite <- (map_length zlen ws), Hws; unfold bsz; apply map_length).
    assert (Lrw : zlen rw = fst (blk l qi)).
    { specialize (Hsz 0%nat qi qj eq_refl). rewrite Nat.add_0_r, Ek in Hsz. exact Hsz. }
    assert (Lq : fst (blk l qi) = zlen (nth qi ws [])).
    { transitivity (nth qi (bsz l) 0); [symmetry; exact (map_nth fst (blocks l) (0, []) qi)|].
      rewrite <- Hws. exact (map_nth zlen ws [] qi). }
    rewrite <- Hws, offs_zlen, Nat2Z.id. rewrite set_slice_concat; [|lia|unfold zlen in *; lia].
    unfold gv at 2, gw at 2. rewrite Ek. cbn [fst snd].
    apply IH.
    - rewrite <- Hws. apply map_set_nth_same with (d := []). rewrite Lrw. exact Lq.
    - exact Hb'.
    - intros k' qi' qj' Hn. replace (S k + k')%nat with (k + S k')%nat by lia. apply (Hsz (S k') qi' qj'). exact Hn.
  Qed.

  Lemma concat_repeat_blocks (bs : list block) : Forall (fun b => 0 <= fst b) bs ->
    concat (map (fun b => repeat w0 (Z.to_nat (fst b))) bs) = repeat w0 (Z.to_nat (sumZ (map fst bs))).
  Proof.
    induction 1 as [|b bs Hb Hbs IH]; [reflexivity|]. cbn [map concat sumZ]. rewrite IH.
    assert (0 <= sumZ (map fst bs)) by (apply sumZ_nonneg; rewrite Forall_map; exact Hbs).
    rewrite Z2Nat.inj_add by lia. symmetry. apply repeat_app.
  Qed.

  Definition sizes_nonneg (l : leg) : Prop := Forall (fun b => 0 <= fst b) (blocks l).

  Theorem eig_structure l data :
    sizes_nonneg l -> NoDup (map fst data) -> Forall (fun ij => (fst ij < nblocks l)%nat) data ->
    eig_sizes l data 0 ->
    eig_plan eye w0 eigb l data =
      (map (fun q => (q, q, sector_v eye eigb l data q)) (seq 0 (nblocks l)),
       concat (map (sector_w w0 eigb l data) (seq 0 (nblocks l)))).
  Proof.
    intros Hnn ND Hb Hsz. unfold eig_plan.
    set (ws0 := map (fun b : block => repeat w0 (Z.to_nat (fst b))) (blocks l)).
    assert (E0 : repeat w0 (Z.to_nat (ind_len l)) = concat ws0).
    { unfold ws0, ind_len, bsz. symmetry. apply concat_repeat_blocks, Hnn. }
    assert (Hws : map zlen ws0 = bsz l).
    { unfold ws0, bsz. rewrite map_map. apply map_ext_in. intros b Hin. unfold zlen. rewrite repeat_length.
      unfold sizes_nonneg in Hnn. rewrite Forall_forall in Hnn. specialize (Hnn _ Hin). lia. }
    rewrite E0, (eig_loop_segments l data 0 (diag_data eye l) ws0 Hws Hb Hsz).
    assert (Ld : length (diag_data eye l) = nblocks l) by (unfold diag_data; rewrite map_length, seq_length; reflexivity).
    assert (Lw : length ws0 = nblocks l) by (unfold ws0; apply map_length).
    f_equal.
    - rewrite (set_loop_map gv (0%nat, 0%nat, eye 0) data 0 (diag_data eye l) ND) by (rewrite Ld; exact Hb).
      rewrite Ld. apply map_ext_in. intros q Hq. apply in_seq in Hq. unfold sector_v.
      destruct (stored_at q data 0) as [k'|]; [reflexivity|]. unfold diag_data.
      rewrite (nth_map_seq (fun i : nat => (i, i, eye (fst (blk l i))))) by lia. reflexivity.
    - f_equal. rewrite (set_loop_map gw [] data 0 ws0 ND) by (rewrite Lw; exact Hb).
      rewrite Lw. apply map_ext_in. intros q Hq. apply in_seq in Hq. unfold sector_w.
      destruct (stored_at q data 0) as [k'|]; [reflexivity|]. unfold ws0, blk.
      set (F := fun b : block => repeat w0 (Z.to_nat (fst b))).
      rewrite (nth_indep (map F (blocks l)) [] (F (0, []))) by (rewrite map_length; fold (nblocks l); lia).
      apply (map_nth F).
  Qed.

End EigP.

  (* every block (q, q) of resv obeys the charge rule for legs [l, l.conj()] and total charge 0 *)
  Lemma vadd_scale_opp s c : vadd (vscale s c) (vscale (- s) c) = vzero (length c).
  Proof.
    induction c as [|x c IH]; [reflexivity|]. cbn [vscale map vadd length vzero repeat].
    f_equal; [lia|exact IH].
  Qed.

  Lemma mvv_zero ci : make_valid ci (vzero (length ci)) = vzero (length ci).
  Proof.
    induction ci as [|m ci IH]; [reflexivity|]. cbn [length vzero repeat make_valid]. f_equal; [|exact IH].
    unfold mv1. destruct (m =? 1); [reflexivity|apply Zmod_0_l].
  Qed.

  Lemma eig_diag_rule ci l q : charges_wf ci l -> (q < nblocks l)%nat ->
    rule2 ci (leg_charge l q) (leg_charge (conj_leg l) q) (vzero (length ci)) = true.
  Proof.
    intros Hc Hq. unfold rule2, leg_charge, conj_leg, blk. cbn [blocks qc].
    rewrite vadd_scale_opp.
    assert (L : length (snd (nth q (blocks l) (0, []))) = length ci).
    { unfold charges_wf in Hc. rewrite Forall_forall in Hc. apply Hc, nth_In, Hq. }
    rewrite L, mvv_zero. apply veqb_refl.
  Qed.

(* eigh / eig: the result is exactly what the documentation promises, sector by sector *)
Theorem eig_structure_full (B W : Type) (eye : Z -> B) (w0 : W) (eigb : nat -> list W * B) ci l data :
  sizes_nonneg l -> charges_wf ci l -> NoDup (map fst data) ->
  Forall (fun ij => (fst ij < nblocks l)%nat) data -> eig_sizes eigb l data 0 ->
  eig_plan eye w0 eigb l data =
    (map (fun q => (q, q, sector_v eye eigb l data q)) (seq 0 (nblocks l)),
     concat (map (sector_w w0 eigb l data) (seq 0 (nblocks l)))) /\
  (forall q, (q < nblocks l)%nat ->
     rule2 ci (leg_charge l q) (leg_charge (conj_leg l) q) (vzero (length ci)) = true) /\
  contractible ci l (conj_leg l) = true /\
  Z.of_nat (length (snd (eig_plan eye w0 eigb l data))) = ind_len l.
Proof.
  intros Hnn Hc ND Hb Hsz. pose proof (eig_structure eye w0 eigb l data Hnn ND Hb Hsz) as E.
  split; [exact E|]. split; [intros q Hq; apply eig_diag_rule; assumption|]. split; [apply conj_contractible|].
  rewrite E. cbn [snd].
  assert (G : forall n, (n <= nblocks l)%nat ->
              Z.of_nat (length (concat (map (sector_w w0 eigb l data) (seq 0 n)))) = offs (bsz l) n).
  { induction n as [|n IH]; intros Hn; [cbn [seq map concat length]; destruct (bsz l); reflexivity|].
    rewrite seq_S, map_app, concat_app, app_length. cbn [map concat Nat.add]. rewrite app_nil_r.
    rewrite Nat2Z.inj_add, IH by lia. rewrite offs_step by (unfold bsz; rewrite map_length; exact Hn).
    f_equal. unfold sector_w.
    assert (Eb : nth n (bsz l) 0 = fst (blk l n)) by (exact (map_nth fst (blocks l) (0, []) n)).
    destruct (stored_at n data 0) as [k|] eqn:Es.
    - rewrite Eb. clear - Es Hsz.
      assert (Hgen : forall dt k0, stored_at n dt k0 = Some k -> exists j qj, nth_error dt j = Some (n, qj) /\ k = (k0 + j)%nat).
      { induction dt as [|[qi qj] dt IHd]; intros k0 H; [discriminate|]. cbn [stored_at] in H.
        destruct (Nat.eqb qi n) eqn:En.
        - apply Nat.eqb_eq in En. subst qi. injection H as <-. exists 0%nat, qj. split; [reflexivity|lia].
        - destruct (IHd _ H) as (j & qj' & Hj & ->). exists (S j), qj'. split; [exact Hj|lia]. }
      destruct (Hgen data 0%nat Es) as (j & qj & Hj & ->). exact (Hsz j n qj Hj).
    - rewrite repeat_length, Eb. unfold sizes_nonneg in Hnn. rewrite Forall_forall in Hnn.
      assert (0 <= fst (blk l n)) by (apply Hnn, nth_In, Hn). lia. }
  rewrite G by lia. unfold ind_len.
  replace (nblocks l) with (length (bsz l)) by (unfold bsz, nblocks; apply map_length). apply offs_all.
Qed.
