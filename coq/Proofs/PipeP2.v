(* Further lemmas for C06: flat-index form of sort, tiling of q_map, combine/split as index functions. *)
From TenpyV Require Import Base.Prelude Model.ChargeL Model.Leg Model.Pipe Model.PipeMaps Proofs.LegP Proofs.PipeP.
Open Scope Z_scope.

(* ================================================================ 1. sort, flat-index form *)
Lemma offs_0 szs : offs szs 0 = 0.
Proof. destruct szs; reflexivity. Qed.

Lemma zrange_app a n : forall m, zrange a (n + m) = zrange a n ++ zrange (a + Z.of_nat n) m.
Proof.
  revert a. induction n as [|n IH]; intros a m.
  - cbn [Nat.add zrange app]. f_equal. lia.
  - cbn [Nat.add zrange app]. f_equal. rewrite IH. f_equal. f_equal. lia.
Qed.

Lemma map_zrange_const {A} (f : Z -> A) c n : forall a,
  (forall k, 0 <= k < Z.of_nat n -> f (a + k) = c) -> map f (zrange a n) = repeat c n.
Proof.
  induction n as [|n IH]; intros a H; [reflexivity|]. cbn [zrange map repeat]. f_equal.
  - rewrite <- (H 0) by lia. f_equal. lia.
  - apply IH. intros k Hk. replace (a + 1 + k) with (a + (1 + k)) by lia. apply H. lia.
Qed.

Lemma flat_map_map {A B C} (f : B -> list C) (g : A -> B) l : flat_map f (map g l) = flat_map (fun x => f (g x)) l.
Proof. induction l as [|x l IH]; [reflexivity|]. cbn [map flat_map]. rewrite IH. reflexivity. Qed.

(* the charge found at flat position offs j + w is the charge of block j *)
Lemma qflat_nth bs : nonneg (map fst bs) -> forall j w, (j < length bs)%nat -> 0 <= w < fst (nth j bs (0, [])) ->
  nth (Z.to_nat (offs (map fst bs) j + w)) (qflat_blocks bs) [] = snd (nth j bs (0, [])).
Proof.
  unfold qflat_blocks. induction bs as [|b t IH]; intros Hn j w Hj Hw; [cbn in Hj; lia|].
  destruct b as [sb cb]. cbn [map fst] in Hn. inversion Hn as [|? ? Hb Ht]; subst. cbn [flat_map].
  assert (L : length (block_flat (sb, cb)) = Z.to_nat sb) by (unfold block_flat; apply repeat_length).
  destruct j as [|j].
  - cbn [nth map fst snd] in *. rewrite offs_0. rewrite app_nth1 by (rewrite L; lia).
    unfold block_flat. cbn [fst snd]. eapply repeat_spec. apply nth_In. rewrite repeat_length. lia.
  - cbn [nth map length fst snd] in *. rewrite offs_cons.
    pose proof (offs_nonneg _ Ht j) as Ho.
    rewrite app_nth2 by (rewrite L; lia). rewrite L.
    replace (Z.to_nat (sb + offs (map fst t) j + w) - Z.to_nat sb)%nat
      with (Z.to_nat (offs (map fst t) j + w)) by lia.
    apply IH; [exact Ht|lia|exact Hw].
Qed.

Lemma blk_overflow l i : (nblocks l <= i)%nat -> blk l i = (0, []).
Proof. intros H. unfold blk. apply nth_overflow. exact H. Qed.

(* one block: the flat indices of block i carry the charge of block i *)
Lemma block_take l i : nonneg (bsz l) ->
  block_flat (blk l i) = take_flat [] (qflat l) (zrange (offs (bsz l) i) (Z.to_nat (fst (blk l i)))).
Proof.
  intros Hn. unfold take_flat. destruct (Nat.lt_ge_cases i (nblocks l)) as [H|H].
  - unfold block_flat. symmetry. apply map_zrange_const. intros k Hk.
    unfold qflat, bsz, blk. apply qflat_nth; [exact Hn|exact H|]. change (0 <= k < fst (blk l i)). lia.
  - rewrite blk_overflow by exact H. reflexivity.
Qed.

(* for ANY list of block numbers: the blocks taken in that order have the charges found at perm_flat *)
Lemma perm_flat_take l perm : nonneg (bsz l) ->
  qflat_blocks (map (blk l) perm) = take_flat [] (qflat l) (perm_flat l perm).
Proof.
  intros Hn. unfold qflat_blocks, perm_flat, take_flat. induction perm as [|i perm IH]; [reflexivity|].
  cbn [map flat_map]. rewrite map_app, <- IH. f_equal. apply (block_take l i Hn).
Qed.

Lemma seq_S_map n : forall s, seq (S s) n = map S (seq s n).
Proof. intros s. symmetry. apply seq_shift. Qed.

(* the identity block permutation yields the identity flat permutation *)
Lemma ranges_concat szs : nonneg szs -> forall a,
  flat_map (fun i => zrange (a + offs szs i) (Z.to_nat (nth i szs 0))) (seq 0 (length szs)) = zrange a (Z.to_nat (sumZ szs)).
Proof.
  induction 1 as [|s t Hs Ht IH]; intros a; [reflexivity|].
  cbn [length seq flat_map nth sumZ]. rewrite seq_S_map, flat_map_map.
  pose proof (sumZ_nonneg' t Ht) as Hsum.
  rewrite Z2Nat.inj_add by lia. rewrite zrange_app. rewrite Z2Nat.id by lia.
  rewrite offs_0, Z.add_0_r. f_equal.
  rewrite <- IH. apply flat_map_ext. intros i. cbn [nth]. rewrite offs_cons. f_equal. lia.
Qed.

Lemma perm_flat_id l : nonneg (bsz l) -> perm_flat l (seq 0 (nblocks l)) = zrange 0 (Z.to_nat (ind_len l)).
Proof.
  intros Hn. unfold perm_flat, ind_len. rewrite <- (ranges_concat (bsz l) Hn 0). rewrite bsz_length.
  apply flat_map_ext. intros i. rewrite bsz_nth. f_equal.
Qed.

Lemma perm_flat_perm l perm : nonneg (bsz l) -> Permutation perm (seq 0 (nblocks l)) ->
  Permutation (perm_flat l perm) (zrange 0 (Z.to_nat (ind_len l))).
Proof.
  intros Hn P. rewrite <- perm_flat_id by exact Hn. unfold perm_flat. apply Permutation_flat_map. exact P.
Qed.

Lemma bunch_sum bs : sumZ (map fst (bunch_blocks bs)) = sumZ (map fst bs).
Proof.
  induction bs as [|b t IH]; [reflexivity|]. cbn [bunch_blocks map sumZ]. rewrite <- IH.
  destruct (bunch_blocks t) as [|b' t']; [reflexivity|].
  destruct (veqb (snd b) (snd b')); cbn [map sumZ fst]; lia.
Qed.

Lemma map_blk_sizes_nonneg l perm : nonneg (bsz l) -> nonneg (map fst (map (blk l) perm)).
Proof.
  intros Hn. apply Forall_forall. intros s Hs. rewrite map_map in Hs. apply in_map_iff in Hs.
  destruct Hs as (i & <- & _). rewrite <- bsz_nth.
  destruct (Nat.lt_ge_cases i (length (bsz l))) as [H|H].
  - unfold nonneg in Hn. rewrite Forall_forall in Hn. apply Hn, nth_In, H.
  - rewrite nth_overflow by exact H. lia.
Qed.

Lemma zrange_length n : forall a, length (zrange a n) = n.
Proof. induction n as [|n IH]; intros a; [reflexivity|]. cbn [zrange length]. rewrite IH. reflexivity. Qed.

Lemma zrange_in n : forall a k, In k (zrange a n) <-> a <= k < a + Z.of_nat n.
Proof.
  induction n as [|n IH]; intros a k; cbn [zrange In]; [lia|]. rewrite IH. lia.
Qed.

(* sort (with or without bunch) *)
Theorem sort_full l bun : nonneg (bsz l) ->
  let s := ssort (combine (seq 0 (nblocks l)) (blocks l)) in
  let perm := fst (sort_leg bun l) in
  let sorted := snd (sort_leg bun l) in
  perm = map fst s /\
  Permutation perm (seq 0 (nblocks l)) /\
  map snd s = map (blk l) perm /\
  Sorted kle s /\
  blocks sorted = (if bun then bunch_blocks (map (blk l) perm) else map (blk l) perm) /\
  qc sorted = qc l /\
  qflat sorted = take_flat [] (qflat l) (perm_flat l perm) /\
  Permutation (perm_flat l perm) (zrange 0 (Z.to_nat (ind_len l))) /\
  ind_len sorted = ind_len l.
Proof.
  intros Hn s perm sorted. destruct (sort_spec l) as (P & E & Srt). fold s in P, E, Srt.
  assert (Hperm : perm = map fst s) by reflexivity.
  assert (Hb : blocks sorted = if bun then bunch_blocks (map (blk l) perm) else map (blk l) perm).
  { unfold sorted, sort_leg. cbn [snd blocks]. fold s. rewrite E, <- Hperm. reflexivity. }
  rewrite <- Hperm in P, E.
  pose proof (map_blk_sizes_nonneg l perm Hn) as Hnn.
  repeat split; try assumption.
  - unfold qflat. rewrite Hb. destruct bun; [rewrite bunch_qflat by exact Hnn|]; apply perm_flat_take, Hn.
  - apply perm_flat_perm; assumption.
  - unfold ind_len at 1. unfold bsz. rewrite Hb.
    assert (X : sumZ (map fst (map (blk l) perm)) = ind_len l).
    { rewrite <- E. unfold ind_len, bsz. apply sumZ_perm. apply Permutation_map.
      pose proof (ssort_perm (combine (seq 0 (nblocks l)) (blocks l))) as Q. fold s in Q.
      rewrite (Permutation_map snd Q).
      rewrite map_snd_combine by (rewrite seq_length; reflexivity). reflexivity. }
    destruct bun; [rewrite bunch_sum|]; exact X.
Qed.

(* ================================================================ 2. q_map: block-wise form and tiling *)
Lemma seq_add_map n : forall a, seq a n = map (Nat.add a) (seq 0 n).
Proof.
  induction n as [|n IH]; intros a; [reflexivity|]. cbn [seq map]. f_equal; [lia|].
  rewrite (IH (S a)), (IH 1%nat), map_map. apply map_ext. intros x. lia.
Qed.

Lemma tag_from_length gs : forall I0, length (tag_from I0 gs) = length (concat gs).
Proof.
  induction gs as [|g gs IH]; intros I0; [reflexivity|]. cbn [tag_from concat].
  rewrite !app_length, repeat_length, IH. reflexivity.
Qed.

(* q_map as computed by pipe_init (global running offsets minus the start of the outgoing block) is the
   block-wise list qm_blocks *)
Lemma qmap_blockwise gs : forall I0,
  map (fun j => let I := nth j (tag_from I0 gs) O in
                mkQ (offs (map r_sz (concat gs)) j - offs (map gsize gs) (I - I0))
                    (offs (map r_sz (concat gs)) (S j) - offs (map gsize gs) (I - I0)) I
                    (r_q (nth j (concat gs) row0)))
      (seq 0 (length (concat gs))) = qm_blocks I0 gs.
Proof.
  induction gs as [|g gs IH]; intros I0; [reflexivity|].
  cbn [concat tag_from map qm_blocks]. rewrite app_length, seq_app, map_app. f_equal.
  - unfold qm_group. apply map_ext_in. intros j Hj. apply in_seq in Hj.
    rewrite app_nth1 by (rewrite repeat_length; lia).
    assert (E : nth j (repeat I0 (length g)) 0%nat = I0).
    { eapply repeat_spec. apply nth_In. rewrite repeat_length. lia. }
    cbv zeta. rewrite E, Nat.sub_diag, offs_0. rewrite map_app.
    rewrite !offs_app_l by (rewrite map_length; lia). rewrite app_nth1 by lia.
    f_equal; lia.
  - rewrite <- (IH (S I0)). cbn [Nat.add]. rewrite (seq_add_map _ (length g)), map_map.
    apply map_ext_in. intros j Hj. apply in_seq in Hj.
    rewrite app_nth2 by (rewrite repeat_length; lia). rewrite repeat_length.
    replace (length g + j - length g)%nat with j by lia.
    destruct (tag_spec gs (S I0) j ltac:(lia)) as [HI _]. cbv zeta in *.
    set (I := nth j (tag_from (S I0) gs) 0%nat) in *.
    replace (I - I0)%nat with (S (I - S I0)) by lia. rewrite offs_cons.
    rewrite map_app. rewrite !offs_app_r by (rewrite map_length; lia). rewrite map_length.
    replace (S (length g + j) - length g)%nat with (S j) by lia.
    replace (length g + j - length g)%nat with j by lia.
    rewrite app_nth2 by lia. replace (length g + j - length g)%nat with j by lia.
    change (gsize g) with (sumZ (map r_sz g)). f_equal; lia.
Qed.

Lemma pipe_qmap_blockwise ci legs qconj srt bun :
  p_qmap (pipe_init ci legs qconj srt bun) = qm_blocks 0 (group_rows bun (pipe_rows ci legs qconj srt)).
Proof.
  unfold pipe_init. cbn [p_qmap]. set (rows := pipe_rows ci legs qconj srt). set (gs := group_rows bun rows).
  rewrite <- (qmap_blockwise gs 0%nat). pose proof (group_concat bun rows) as C. fold gs in C. rewrite C.
  apply map_ext. intros j. cbv zeta. rewrite Nat.sub_0_r. reflexivity.
Qed.

Lemma qm_group_Is I g : Forall (fun qr => q_Is qr = I) (qm_group I g).
Proof. apply Forall_forall. intros qr H. unfold qm_group in H. apply in_map_iff in H. destruct H as (k & <- & _). reflexivity. Qed.

Lemma filter_all {A} (f : A -> bool) l : Forall (fun x => f x = true) l -> filter f l = l.
Proof. induction 1 as [|x l Hx _ IH]; [reflexivity|]. cbn [filter]. rewrite Hx, IH. reflexivity. Qed.

Lemma filter_none {A} (f : A -> bool) l : Forall (fun x => f x = false) l -> filter f l = [].
Proof. induction 1 as [|x l Hx _ IH]; [reflexivity|]. cbn [filter]. rewrite Hx, IH. reflexivity. Qed.

Lemma filter_group_same I g : filter (fun qr => Nat.eqb (q_Is qr) I) (qm_group I g) = qm_group I g.
Proof.
  apply filter_all. eapply Forall_impl; [|apply qm_group_Is]. cbn beta. intros qr ->. apply Nat.eqb_refl.
Qed.

Lemma filter_group_other I I' g : I <> I' -> filter (fun qr => Nat.eqb (q_Is qr) I) (qm_group I' g) = [].
Proof.
  intros H. apply filter_none. eapply Forall_impl; [|apply qm_group_Is]. cbn beta. intros qr ->.
  apply Nat.eqb_neq. congruence.
Qed.

Lemma filter_blocks_below gs : forall I0 I, (I < I0)%nat -> filter (fun qr => Nat.eqb (q_Is qr) I) (qm_blocks I0 gs) = [].
Proof.
  induction gs as [|g gs IH]; intros I0 I H; [reflexivity|]. cbn [qm_blocks].
  rewrite filter_app, filter_group_other by lia. rewrite IH by lia. reflexivity.
Qed.

(* the rows with I_s = I0 + k are exactly the rows of the k-th group, in order *)
Lemma filter_blocks gs : forall I0 k, (k < length gs)%nat ->
  filter (fun qr => Nat.eqb (q_Is qr) (I0 + k)) (qm_blocks I0 gs) = qm_group (I0 + k) (nth k gs []).
Proof.
  induction gs as [|g gs IH]; intros I0 k Hk; [cbn in Hk; lia|]. cbn [qm_blocks length] in *.
  rewrite filter_app. destruct k as [|k].
  - rewrite Nat.add_0_r, filter_group_same, filter_blocks_below by lia. cbn [nth]. apply app_nil_r.
  - rewrite filter_group_other by lia. cbn [nth app].
    replace (I0 + S k)%nat with (S I0 + k)%nat by lia. apply IH. lia.
Qed.

Lemma tiles_offs szs : nonneg szs -> forall a,
  tiles a (map (fun k => (a + offs szs k, a + offs szs (S k))) (seq 0 (length szs))) (a + sumZ szs).
Proof.
  induction 1 as [|s t Hs Ht IH]; intros a; [cbn [length seq map tiles sumZ]; lia|].
  cbn [length seq map tiles fst snd]. rewrite offs_0, offs_cons, offs_0.
  split; [lia|]. split; [lia|].
  rewrite seq_S_map, map_map. cbn [sumZ].
  replace (a + (s + sumZ t)) with ((a + (s + 0)) + sumZ t) by lia.
  erewrite map_ext; [apply (IH (a + (s + 0)))|]. intros k. cbv beta. rewrite !offs_cons. f_equal; lia.
Qed.

Lemma tiles_group I g : nonneg (map r_sz g) -> tiles 0 (map qslice (qm_group I g)) (gsize g).
Proof.
  intros H. unfold qm_group, gsize. rewrite map_map. unfold qslice. cbn [q_b0 q_b1].
  pose proof (tiles_offs _ H 0) as T. rewrite map_length in T. rewrite Z.add_0_l in T.
  erewrite map_ext; [exact T|]. intros k. cbv beta. f_equal; lia.
Qed.

Lemma tiles_sorted l : forall a b, tiles a l b -> Sorted Z.le (map fst l) /\ a <= b.
Proof.
  induction l as [|xy t IH]; intros a b H; cbn [tiles map] in *; [split; [constructor|lia]|].
  destruct H as (H1 & H2 & H3). destruct (IH _ _ H3) as [S1 S2]. split; [|lia].
  constructor; [exact S1|]. destruct t as [|xy' t']; cbn [map]; constructor.
  cbn [tiles] in H3. lia.
Qed.

Lemma nth_gsize gs I : nth I (map gsize gs) 0 = gsize (nth I gs []).
Proof. change 0 with (gsize []). apply map_nth. Qed.

(* within every outgoing block the q_map slices tile [0, size of the block) *)
Theorem qmap_tiling ci legs qconj srt bun I : legs_ok legs ->
  let p := pipe_init ci legs qconj srt bun in
  (I < length (p_blocks p))%nat ->
  let rowsI := qmap_rows_of p I in
  rowsI <> [] /\
  tiles 0 (map qslice rowsI) (fst (nth I (p_blocks p) (0, []))) /\
  Sorted Z.le (map q_b0 rowsI) /\
  rowsI = qm_group I (nth I (group_rows bun (p_rows p)) []) /\
  p_qmap p = qm_blocks 0 (group_rows bun (p_rows p)).
Proof.
  intros Hl p HI rowsI. unfold rowsI, qmap_rows_of, p in *. rewrite pipe_qmap_blockwise.
  unfold pipe_init in *. cbn [p_blocks p_rows] in *.
  set (rows := pipe_rows ci legs qconj srt) in *. set (gs := group_rows bun rows) in *.
  assert (HI' : (I < length gs)%nat).
  { pose proof (combine_length (map gsize gs) (map ghead gs)) as CL. rewrite !map_length, Nat.min_id in CL.
    unfold block in HI. rewrite CL in HI. exact HI. }
  clear HI. rename HI' into HI.
  pose proof (filter_blocks gs 0%nat I HI) as F. cbn [Nat.add] in F. rewrite F.
  pose proof (rows_sizes_nonneg ci legs qconj srt Hl) as Hnn. fold rows in Hnn.
  pose proof (group_nonneg bun rows Hnn) as Gn. fold gs in Gn. rewrite Forall_forall in Gn.
  pose proof (group_rows_ok bun rows) as Go. fold gs in Go. rewrite Forall_forall in Go.
  set (g := nth I gs []) in *. assert (Hg : In g gs) by (apply nth_In; exact HI).
  assert (T : tiles 0 (map qslice (qm_group I g)) (fst (nth I (combine (map gsize gs) (map ghead gs)) (0, [])))).
  { change 0 with (fst (0, @nil Z)) at 2. rewrite <- (map_nth fst).
    rewrite map_fst_combine' by (rewrite !map_length; reflexivity).
    cbn [fst]. rewrite nth_gsize. apply tiles_group, Gn, Hg. }
  repeat split.
  - destruct (Go g Hg) as [Hne _]. unfold qm_group. intros E. apply Hne.
    apply (f_equal (@length _)) in E. rewrite map_length, seq_length in E. destruct g; [reflexivity|discriminate].
  - exact T.
  - apply tiles_sorted in T. destruct T as [T _]. rewrite map_map in T. exact T.
Qed.

(* ================================================================ 3. combine / split as index functions *)
Theorem split_combine_fn ci legs qconj srt bun : legs_ok legs ->
  let p := pipe_init ci legs qconj srt bun in
  let N := prodZ (map ind_len legs) in
  (forall (f : list Z -> Z) t, idx_ok legs t -> split_fn p (combine_fn p f) t = f t) /\
  (forall (g : Z -> Z) k, 0 <= k < N -> combine_fn p (split_fn p g) k = g k) /\
  (* the entry f t is placed at map_incoming_flat t, and every outgoing position is hit by exactly that tuple *)
  (forall (f : list Z -> Z) t, idx_ok legs t ->
     exists k, map_incoming_flat p t = Some k /\ 0 <= k < N /\ combine_fn p f k = f t) /\
  (forall (g : Z -> Z) k, 0 <= k < N ->
     exists t, map_outgoing_flat p k = Some t /\ idx_ok legs t /\ split_fn p g t = g k).
Proof.
  intros Hl p N. destruct (flat_bijection ci legs qconj srt bun Hl) as [A B]. fold p in A, B. fold N in A, B.
  repeat split.
  - intros f t Ht. destruct (A t Ht) as (k & E1 & _ & E2). unfold split_fn, combine_fn. rewrite E1, E2. reflexivity.
  - intros g k Hk. destruct (B k Hk) as (t & E1 & _ & E2). unfold split_fn, combine_fn. rewrite E1, E2. reflexivity.
  - intros f t Ht. destruct (A t Ht) as (k & E1 & Hk & E2). exists k. unfold combine_fn. rewrite E2. auto.
  - intros g k Hk. destruct (B k Hk) as (t & E1 & Ht & E2). exists t. unfold split_fn. rewrite E2. auto.
Qed.

(* ================================================================ 4. q_map_slices delimit the rows of equal I_s *)
Lemma qm_group_length I g : length (qm_group I g) = length g.
Proof. unfold qm_group. rewrite map_length, seq_length. reflexivity. Qed.

Lemma offs_glen gs : forall k, (k <= length gs)%nat -> offs (map glen gs) k = Z.of_nat (length (concat (firstn k gs))).
Proof.
  induction gs as [|g gs IH]; intros k Hk; cbn [length] in Hk.
  - assert (k = 0%nat) by lia. subst k. reflexivity.
  - destruct k as [|k]; [reflexivity|]. cbn [map firstn concat]. rewrite offs_cons, app_length, IH by lia.
    unfold glen. lia.
Qed.

Lemma skipn_blocks gs : forall I0 k, (k <= length gs)%nat ->
  skipn (length (concat (firstn k gs))) (qm_blocks I0 gs) = qm_blocks (I0 + k) (skipn k gs).
Proof.
  induction gs as [|g gs IH]; intros I0 k Hk; cbn [length] in Hk.
  - assert (k = 0%nat) by lia. subst k. rewrite Nat.add_0_r. reflexivity.
  - destruct k as [|k]; [rewrite Nat.add_0_r; reflexivity|].
    cbn [firstn concat skipn qm_blocks]. rewrite app_length, skipn_app, qm_group_length.
    rewrite skipn_all2 by (rewrite qm_group_length; lia). cbn [app].
    replace (length g + length (concat (firstn k gs)) - length g)%nat with (length (concat (firstn k gs))) by lia.
    rewrite IH by lia. f_equal. lia.
Qed.

Lemma skipn_nth_cons {A} (d : A) l : forall k, (k < length l)%nat -> skipn k l = nth k l d :: skipn (S k) l.
Proof.
  induction l as [|x l IH]; intros k Hk; [cbn in Hk; lia|]. destruct k as [|k]; [reflexivity|].
  cbn [length] in Hk. cbn [skipn nth]. rewrite (IH k) by lia. reflexivity.
Qed.

Lemma slices_of_nth szs j : (j <= length szs)%nat -> nth j (slices_of szs) 0 = offs szs j.
Proof. intros H. unfold slices_of. apply nth_map_seq. lia. Qed.

(* q_map[q_map_slices[I] : q_map_slices[I+1]] are exactly the rows with I_s = I, and there is at least one *)
Theorem qmap_slices_rows ci legs qconj srt bun I :
  let p := pipe_init ci legs qconj srt bun in
  (I < length (p_blocks p))%nat ->
  let a := nth I (p_qmap_slices p) 0 in
  let b := nth (S I) (p_qmap_slices p) 0 in
  0 <= a < b /\ b <= Z.of_nat (length (p_qmap p)) /\
  qmap_rows_of p I = firstn (Z.to_nat (b - a)) (skipn (Z.to_nat a) (p_qmap p)) /\
  length (p_qmap_slices p) = S (length (p_blocks p)).
Proof.
  intros p HI a b. unfold a, b, qmap_rows_of, p in *. rewrite pipe_qmap_blockwise.
  unfold pipe_init in *. cbn [p_blocks p_rows p_qmap_slices] in *.
  set (rows := pipe_rows ci legs qconj srt) in *. set (gs := group_rows bun rows) in *.
  pose proof (combine_length (map gsize gs) (map ghead gs)) as CL. rewrite !map_length, Nat.min_id in CL.
  unfold block in *. rewrite CL in *.
  pose proof (filter_blocks gs 0%nat I HI) as F. cbn [Nat.add] in F. rewrite F.
  rewrite !slices_of_nth by (rewrite map_length; lia).
  assert (Hm : (I < length (map glen gs))%nat) by (rewrite map_length; exact HI).
  assert (Hnth : nth I (map glen gs) 0 = glen (nth I gs [])) by (change 0 with (glen []); apply map_nth).
  rewrite (offs_step _ I Hm), Hnth.
  rewrite (offs_glen gs I) by lia. set (g := nth I gs []) in *.
  pose proof (group_rows_ok bun rows) as Go. fold gs in Go. rewrite Forall_forall in Go.
  assert (Hg : In g gs) by (apply nth_In; exact HI). destruct (Go g Hg) as [Hne _].
  assert (Hlen : (0 < length g)%nat) by (destruct g; [congruence|cbn [length]; lia]).
  assert (Hcat : (length (concat (firstn I gs)) + length g <= length (qm_blocks 0 gs))%nat).
  { pose proof (skipn_blocks gs 0%nat I ltac:(lia)) as Sk. cbn [Nat.add] in Sk.
    rewrite (skipn_nth_cons [] gs I HI) in Sk. fold g in Sk. cbn [qm_blocks] in Sk.
    apply (f_equal (@length _)) in Sk. rewrite skipn_length, app_length, qm_group_length in Sk. lia. }
  unfold glen. repeat split; try lia.
  - replace (Z.of_nat (length (concat (firstn I gs))) + Z.of_nat (length g) - Z.of_nat (length (concat (firstn I gs))))
      with (Z.of_nat (length g)) by lia.
    rewrite !Nat2Z.id. rewrite (skipn_blocks gs 0%nat I) by lia. cbn [Nat.add].
    rewrite (skipn_nth_cons [] gs I HI). fold g. cbn [qm_blocks].
    rewrite firstn_app, qm_group_length, Nat.sub_diag. cbn [firstn]. rewrite app_nil_r.
    rewrite firstn_all2 by (rewrite qm_group_length; lia). reflexivity.
  - unfold slices_of. rewrite map_length, seq_length, map_length. reflexivity.
Qed.
