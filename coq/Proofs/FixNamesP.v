(* Property C18: a fresh run (not resumed, overwrite_output = False) never chooses the name of an existing file. *)
From TenpyV Require Import Base.Prelude Model.FixNames.
Local Open Scope nat_scope.

Lemma first_free_spec ex : forall fuel i,
  match first_free ex i fuel with
  | Some j => i <= j < i + fuel /\ ex j = false /\ (forall k, i <= k < j -> ex k = true)
  | None => forall k, i <= k < i + fuel -> ex k = true
  end.
Proof.
  induction fuel as [|f IH]; intros i; cbn [first_free].
  - intros k Hk. lia.
  - destruct (ex i) eqn:E.
    + specialize (IH (S i)). destruct (first_free ex (S i) f) as [j|].
      * destruct IH as (A & B & C). split; [lia|]. split; [exact B|].
        intros k Hk. destruct (Nat.eq_dec k i) as [->|Hne]; [exact E|apply C; lia].
      * intros k Hk. destruct (Nat.eq_dec k i) as [->|Hne]; [exact E|apply IH; lia].
    + split; [lia|]. split; [exact E|]. intros k Hk. lia.
Qed.

Theorem fix_name_fresh ex skip :
  match fix_name ex skip false false with
  | FName i => ex i = false /\ i <= 99 /\ (forall k, k < i -> ex k = true)
  | FRaise => skip = false /\ forall k, k <= 99 -> ex k = true
  | FSkip => skip = true /\ ex 0 = true
  end.
Proof.
  unfold fix_name. destruct (ex 0) eqn:E0.
  - destruct skip; [split; reflexivity|]. cbn [negb andb].
    pose proof (first_free_spec ex 99 1) as H. destruct (first_free ex 1 99) as [j|].
    + destruct H as (A & B & C). split; [exact B|]. split; [lia|].
      intros k Hk. destruct k; [exact E0|apply C; lia].
    + split; [reflexivity|]. intros k Hk. destruct k; [exact E0|apply H; lia].
  - split; [exact E0|]. split; [lia|]. intros k Hk. lia.
Qed.

(* resumed or overwriting runs keep the configured name (the safe-write protocol of save_results protects the old file) *)
Lemma fix_name_keep ex ov ld : (ov || ld)%bool = true -> fix_name ex false ov ld = FName 0.
Proof. unfold fix_name. destruct (ex 0), ov, ld; cbn; intros; try reflexivity; discriminate. Qed.
