(* C17 - round trips of the LegCharge encodings, for any number of blocks and charges. *)
From TenpyV Require Import Base.Prelude Model.LegFormats.
Open Scope Z_scope.

Lemma rows_cons lo hi t c ch : rows (lo :: hi :: t) (c :: ch) = (lo :: hi :: c) :: rows (hi :: t) ch.
Proof. reflexivity. Qed.

Lemma qflat_cons lo hi t c ch :
  qflat (lo :: hi :: t) (c :: ch) = repeat c (Z.to_nat (hi - lo)) ++ qflat (hi :: t) ch.
Proof. reflexivity. Qed.

Lemma rows_nil sl : rows sl [] = [].
Proof. destruct sl as [|lo [|hi t]]; reflexivity. Qed.

Lemma rows_charges sl ch : length sl = S (length ch) -> map (skipn 2) (rows sl ch) = ch.
Proof.
  revert sl. induction ch as [|c ch IH]; intros sl H.
  - rewrite rows_nil. reflexivity.
  - destruct sl as [|lo [|hi t]]; cbn [length] in H; try lia.
    rewrite rows_cons. cbn [map skipn]. f_equal. apply IH. cbn [length]. lia.
Qed.

Lemma rows_slices sl ch : length sl = S (length ch) -> ch <> [] ->
  map (fun r => nth 0 r 0) (rows sl ch) ++ [nth 1 (last (rows sl ch) []) 0] = sl.
Proof.
  revert sl. induction ch as [|c ch IH]; intros sl H Hne; [congruence|].
  destruct sl as [|lo [|hi t]]; cbn [length] in H; try lia.
  rewrite rows_cons. destruct ch as [|c2 ch'].
  - destruct t as [|x t']; cbn [length] in H; [|lia]. rewrite rows_nil. reflexivity.
  - assert (IH' : map (fun r => nth 0 r 0) (rows (hi :: t) (c2 :: ch')) ++
                  [nth 1 (last (rows (hi :: t) (c2 :: ch')) []) 0] = hi :: t).
    { apply IH; [cbn [length] in *; lia|discriminate]. }
    destruct t as [|x t']; cbn [length] in H; [lia|].
    rewrite rows_cons in *. cbn [map nth last app] in *. f_equal. exact IH'.
Qed.

Lemma compact_roundtrip l : leg_wf l -> from_compact (to_compact l) = l.
Proof.
  intros [H1 H2]. destruct l as [il qc sl ch so bu]. unfold from_compact, to_compact. cbn in H1, H2.
  cbn [c_blockcharges c_ind_len c_qconj c_sorted c_bunched l_slices l_charges l_ind_len l_qconj l_sorted l_bunched].
  rewrite rows_slices, rows_charges by assumption. reflexivity.
Qed.

Lemma blocks_roundtrip l : from_blocks (to_blocks l) = l.
Proof. destruct l. reflexivity. Qed.

Lemma iota_S s n : iota s (S n) = s :: iota (s + 1) n.
Proof. reflexivity. Qed.

Lemma iota_head s n : exists t, iota s n = s :: t.
Proof. destruct n; cbn; eauto. Qed.

Lemma qflat_iota q s : qflat (iota s (length q)) q = q.
Proof.
  revert s. induction q as [|c q IH]; intros s.
  - cbn. reflexivity.
  - cbn [length]. rewrite iota_S. pose proof (IH (s + 1)) as IH'.
    destruct (iota_head (s + 1) (length q)) as [t E]. rewrite E in *. rewrite qflat_cons.
    replace (s + 1 - s) with 1 by lia. change (Z.to_nat 1) with 1%nat. cbn [repeat app].
    rewrite IH'. reflexivity.
Qed.

Lemma flat_roundtrip srt bun l :
  to_qflat (from_flat srt bun (to_flat l)) = to_qflat l /\
  l_qconj (from_flat srt bun (to_flat l)) = l_qconj l /\
  l_ind_len (from_flat srt bun (to_flat l)) = l_ind_len l /\
  block_number (from_flat srt bun (to_flat l)) = length (to_qflat l).
Proof.
  unfold from_flat, to_flat, block_number.
  cbn [f_charges f_ind_len f_qconj l_charges l_qconj l_ind_len].
  split; [|repeat split; reflexivity].
  unfold to_qflat at 1. cbn [l_slices l_charges]. apply qflat_iota.
Qed.
