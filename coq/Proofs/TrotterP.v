From TenpyV Require Import Base.Prelude Base.PyLib Model.Trotter Gen.G_trotter.
From Coq Require Import QArith Qfield String.
Open Scope Z_scope.

Lemma sumQ_app l1 l2 : (sumQ (l1 ++ l2) == sumQ l1 + sumQ l2)%Q.
Proof. induction l1 as [|x t IH]; cbn [sumQ app]; [ring|]. rewrite IH. ring. Qed.

Lemma parity_time_app ds x k l1 l2 :
  (parity_time ds x k (l1 ++ l2) == parity_time ds x k l1 + parity_time ds x k l2)%Q.
Proof. unfold parity_time. rewrite map_app. apply sumQ_app. Qed.

Lemma parity_time_repeat_nat ds x k blk n :
  (parity_time ds x k (repeat_nat blk n) == inject_Z (Z.of_nat n) * parity_time ds x k blk)%Q.
Proof.
  induction n as [|n IH]; cbn [repeat_nat].
  - unfold parity_time. cbn. ring.
  - rewrite parity_time_app, IH. rewrite Nat2Z.inj_succ. unfold Z.succ. rewrite inject_Z_plus. ring.
Qed.

Lemma parity_time_repeat ds x k blk n : 0 <= n ->
  (parity_time ds x k (list_repeat blk n) == inject_Z n * parity_time ds x k blk)%Q.
Proof. intros H. unfold list_repeat. rewrite parity_time_repeat_nat. rewrite Z2Nat.id by exact H. reflexivity. Qed.

Lemma inject_Z_pred n : (inject_Z (n - 1) == inject_Z n - 1)%Q.
Proof. unfold Z.sub. rewrite inject_Z_plus. cbn. ring. Qed.

Ltac trotter_case :=
  let E := fresh "E" in
  intros N x k HN Hk;
  eexists; eexists; split; [vm_compute; reflexivity|]; split;
  [ unfold decomposition_gen; destruct (N =? 0) eqn:E; [lia|];
    cbn [order_eqb Z.eqb Pos.eqb String.eqb Ascii.eqb Bool.eqb]; reflexivity
  | rewrite ?parity_time_app; rewrite parity_time_repeat by lia; rewrite ?inject_Z_pred;
    destruct Hk as [->| ->];
    cbv - [Qplus Qmult Qminus Qopp Qeq inject_Z Qdiv Qinv]; ring ].

Definition trotter_time_stmt (o : pyorder) : Prop := forall N x k, 1 <= N -> (k = 0 \/ k = 1) ->
  exists ds steps, time_steps_gen o = Some ds /\ decomposition_gen o N = Some steps /\
  (parity_time ds x k steps == inject_Z N)%Q.

Lemma trotter_time_1 : trotter_time_stmt (OInt 1).
Proof. unfold trotter_time_stmt. trotter_case. Qed.
Lemma trotter_time_2 : trotter_time_stmt (OInt 2).
Proof. unfold trotter_time_stmt. trotter_case. Qed.
Lemma trotter_time_4 : trotter_time_stmt (OInt 4).
Proof. unfold trotter_time_stmt. trotter_case. Qed.
Lemma trotter_time_4opt : trotter_time_stmt (OStr "4_opt").
Proof. unfold trotter_time_stmt. trotter_case. Qed.

Lemma trotter_time_all o : In o orders -> trotter_time_stmt o.
Proof.
  unfold orders. cbn [In]. intros [<-|[<-|[<-|[<-|[]]]]];
  [apply trotter_time_1|apply trotter_time_2|apply trotter_time_4|apply trotter_time_4opt].
Qed.

(* N = 0: nothing is scheduled *)
Lemma trotter_zero o : In o orders -> decomposition_gen o 0 = Some [].
Proof. unfold orders. cbn [In]. intros [<-|[<-|[<-|[<-|[]]]]]; reflexivity. Qed.

(* an unknown order is rejected by both functions *)
Lemma trotter_unknown_order : time_steps_gen (OInt 3) = None /\ decomposition_gen (OInt 3) 5 = None.
Proof. split; reflexivity. Qed.

(* ------------------------------------------------------------------ symmetry of the schedule *)
Lemma repeat_nat_comm {A} (l : list A) n : repeat_nat l n ++ l = l ++ repeat_nat l n.
Proof. induction n as [|n IH]; cbn [repeat_nat]; [rewrite app_nil_r; reflexivity|]. rewrite <- app_assoc, IH. reflexivity. Qed.

Lemma rev_repeat_nat {A} (l : list A) n : rev (repeat_nat l n) = repeat_nat (rev l) n.
Proof.
  induction n as [|n IH]; cbn [repeat_nat]; [reflexivity|].
  rewrite rev_app_distr, IH. apply repeat_nat_comm.
Qed.

Lemma shift_repeat {A} (X : list A) c n : X ++ repeat_nat (c :: X) n = repeat_nat (X ++ [c]) n ++ X.
Proof.
  induction n as [|n IH]; cbn [repeat_nat]; [rewrite app_nil_r; reflexivity|].
  rewrite <- (app_assoc (X ++ [c])). rewrite <- IH. rewrite <- (app_assoc X [c]). cbn [app]. reflexivity.
Qed.

(* schedules of the form  a :: X ++ (c :: X)^n ++ [a]  with X a palindrome are palindromes *)
Lemma palindrome_pattern {A} (a c : A) (X : list A) n : rev X = X ->
  rev ((a :: X) ++ repeat_nat (c :: X) n ++ [a]) = (a :: X) ++ repeat_nat (c :: X) n ++ [a].
Proof.
  intros HX. rewrite !rev_app_distr. cbn [rev app]. rewrite rev_repeat_nat. cbn [rev].
  rewrite HX. f_equal. rewrite (app_assoc _ X [a]). rewrite <- shift_repeat.
  rewrite <- app_assoc. reflexivity.
Qed.

Definition symmetric_stmt (o : pyorder) : Prop :=
  forall N, 1 <= N -> exists steps, decomposition_gen o N = Some steps /\ rev steps = steps.

Ltac sym_case a c X :=
  intros N HN; eexists; split;
  [ unfold decomposition_gen; let E := fresh in destruct (N =? 0) eqn:E; [lia|];
    cbn [order_eqb Z.eqb Pos.eqb String.eqb Ascii.eqb Bool.eqb]; reflexivity
  | unfold list_repeat;
    match goal with |- rev ?s = _ =>
      replace s with ((a :: X) ++ repeat_nat (c :: X) (Z.to_nat (N - 1)) ++ [a])
        by (rewrite <- ?app_assoc; reflexivity) end;
    apply palindrome_pattern; reflexivity ].

Lemma trotter_symmetric_2 : symmetric_stmt (OInt 2).
Proof. unfold symmetric_stmt. sym_case (0, 1) (1, 1) [(1, 0)]. Qed.
Lemma trotter_symmetric_4 : symmetric_stmt (OInt 4).
Proof. unfold symmetric_stmt.
  sym_case (0, 1) (1, 1) [(1, 0); (1, 1); (1, 0); (2, 1); (3, 0); (2, 1); (1, 0); (1, 1); (1, 0)]. Qed.
Lemma trotter_symmetric_4opt : symmetric_stmt (OStr "4_opt").
Proof. unfold symmetric_stmt.
  sym_case (0, 1) (6, 1) [(1, 0); (2, 1); (3, 0); (4, 1); (5, 0); (4, 1); (3, 0); (2, 1); (1, 0)]. Qed.

(* ------------------------------------------------------------------ bonds touched by one step *)
Lemma arange2_In s n L i : In i (arange2 s n L) <-> exists j, (j < n /\ i = s + 2 * j /\ i < L)%nat.
Proof.
  revert s. induction n as [|n IH]; intros s; cbn [arange2].
  - split; [intros []|intros [j [Hj _]]; lia].
  - destruct (Nat.ltb_spec s L) as [Hs|Hs].
    + cbn [In]. rewrite IH. split.
      * intros [<-|[j [Hj [-> Hl]]]]; [exists 0%nat; lia|exists (S j); lia].
      * intros [[|j] [Hj [-> Hl]]]; [left; lia|right; exists j; lia].
    + split; [intros []|intros [j [Hj [-> Hl]]]; lia].
Qed.

Lemma arange2_NoDup s n L : NoDup (arange2 s n L).
Proof.
  revert s. induction n as [|n IH]; intros s; cbn [arange2]; [constructor|].
  destruct (Nat.ltb s L); [|constructor]. constructor; [|apply IH].
  rewrite arange2_In. intros [j [_ [Hj _]]]. lia.
Qed.

Lemma step_bonds_In L fin odd i :
  In i (step_bonds L fin odd) <-> (i < L /\ Nat.modulo i 2 = Nat.modulo odd 2 /\ (fin = true -> i <> 0))%nat.
Proof.
  unfold step_bonds. rewrite filter_In, arange2_In.
  assert (Hm : (odd mod 2 < 2)%nat) by (apply Nat.mod_upper_bound; lia).
  split.
  - intros [[j [Hj [-> Hl]]] Hf]. split; [exact Hl|]. split.
    + replace (odd mod 2 + 2 * j)%nat with (odd mod 2 + j * 2)%nat by lia.
      rewrite Nat.mod_add by lia. apply Nat.mod_mod. lia.
    + intros ->. cbn [andb] in Hf. destruct (Nat.eqb_spec (odd mod 2 + 2 * j) 0); [discriminate|assumption].
  - intros [Hl [Hp Hf]]. split.
    + exists (i / 2)%nat. assert (D := Nat.div_mod i 2 ltac:(lia)). split; [|split]; [|lia|lia].
      assert (i / 2 <= i)%nat by (apply Nat.div_le_upper_bound; lia). 
      destruct (Nat.eq_dec i 0) as [->|]; [cbn; lia|].
      assert (i / 2 < i)%nat by (apply Nat.div_lt; lia). lia.
    + destruct fin; cbn [andb]; [|reflexivity].
      destruct (Nat.eqb_spec i 0) as [->|]; [exfalso; apply Hf; reflexivity|reflexivity].
Qed.

Lemma NoDup_app_disj {A} (l1 l2 : list A) : NoDup l1 -> NoDup l2 ->
  (forall x, In x l1 -> In x l2 -> False) -> NoDup (l1 ++ l2).
Proof.
  induction 1 as [|a l1 Ha H1 IH]; intros H2 D; cbn [app]; [exact H2|].
  constructor.
  - rewrite in_app_iff. intros [H|H]; [exact (Ha H)|]. apply (D a); [left; reflexivity|exact H].
  - apply IH; [exact H2|]. intros x Hx. apply D. right. exact Hx.
Qed.

(* one odd step plus one even step touch every existing bond exactly once *)
Lemma bond_coverage L fin :
  NoDup (step_bonds L fin 1 ++ step_bonds L fin 0) /\
  forall i, In i (step_bonds L fin 1 ++ step_bonds L fin 0) <-> (i < L /\ (fin = true -> i <> 0))%nat.
Proof.
  split.
  - apply NoDup_app_disj.
    + unfold step_bonds. apply NoDup_filter, arange2_NoDup.
    + unfold step_bonds. apply NoDup_filter, arange2_NoDup.
    + intros i H1 H0. rewrite step_bonds_In in H1, H0. cbn in H1, H0. lia.
  - intros i. rewrite in_app_iff, !step_bonds_In. cbn.
    assert (Hm : (i mod 2 < 2)%nat) by (apply Nat.mod_upper_bound; lia).
    split; [intros [[H1 [_ H2]]|[H1 [_ H2]]]; tauto|].
    intros [H1 H2]. destruct (i mod 2)%nat as [|[|m]] eqn:E; [right|left|lia]; tauto.
Qed.
