From TenpyV Require Import Base.Prelude Gen.G_tau Model.TauAcct.
From Coq Require Import String.
Open Scope Z_scope.

Lemma tau_table_documented : tebd_tau = documented_tau.
Proof. reflexivity. Qed.

Lemma incr_shape : incr_ok = true.
Proof. vm_compute. reflexivity. Qed.

Lemma run_time_documented_gen h : forall t, forallb known_type h = true ->
  run_time documented_tau t h = Some (fst t + steps_of "real" h, snd t - steps_of "imag" h).
Proof.
  induction h as [|c r IH]; intros t Hk.
  - cbn. destruct t as [a b]. cbn. f_equal. f_equal; lia.
  - cbn [forallb] in Hk. apply andb_true_iff in Hk. destruct Hk as [Hc Hr].
    destruct c as [[ty dt] n]. unfold known_type in Hc.
    cbn [run_time step_time]. unfold documented_tau. cbn [lookup_tau].
    destruct (String.eqb ty "real") eqn:Er.
    + apply String.eqb_eq in Er. subst ty. rewrite (IH _ Hr). unfold steps_of. cbn [map sumZ fst snd].
      cbn [String.eqb Ascii.eqb Bool.eqb]. cbn. f_equal. f_equal; lia.
    + destruct (String.eqb ty "imag") eqn:Ei; [|discriminate Hc].
      apply String.eqb_eq in Ei. subst ty. rewrite (IH _ Hr). unfold steps_of. cbn [map sumZ fst snd].
      cbn [String.eqb Ascii.eqb Bool.eqb]. cbn. f_equal. f_equal; lia.
Qed.

Lemma run_time_source h : forallb known_type h = true ->
  run_time tebd_tau (0, 0) h = Some (steps_of "real" h, - steps_of "imag" h).
Proof.
  intros Hk. rewrite tau_table_documented, (run_time_documented_gen h (0, 0) Hk). cbn [fst snd]. f_equal.
Qed.

(* an unknown type_evo is rejected, not silently treated as one of the two *)
Lemma run_time_unknown ty dt n r t : String.eqb ty "real" = false -> String.eqb ty "imag" = false ->
  run_time tebd_tau t ((ty, dt, n) :: r) = None.
Proof.
  intros Hr Hi. rewrite tau_table_documented. cbn [run_time step_time]. unfold documented_tau. cbn [lookup_tau].
  rewrite Hr, Hi. reflexivity.
Qed.
