(* Proofs about Model/BondSum.v: the bond operators computed by calc_H_bond sum up to (twice, because
   weights are doubled) the operator given by the onsite and nearest-neighbour coupling terms. *)
From TenpyV Require Import Base.Prelude Model.Automaton Proofs.AutomatonP Model.BondSum.
Open Scope Z_scope.

(* ---- updating one bond *)
Lemma upd_bond_length j f h : length (upd_bond j f h) = length h.
Proof.
  revert j; induction h as [|b h IH]; intros [|j]; cbn [upd_bond length]; auto.
Qed.

Lemma add_bond_length j m h : length (add_bond j m h) = length h.
Proof. apply upd_bond_length. Qed.

Lemma add_bond_nth0 j m h : j <> 0%nat -> nth 0 (add_bond j m h) [] = nth 0 h [].
Proof.
  intros Hj. destruct h as [|b h]; destruct j as [|j]; try reflexivity. congruence.
Qed.

(* the sum over the bonds after adding one local monomial to bond j *)
Lemma embed_add_bond e m : forall h j k, (j < length h)%nat ->
  Permutation (embed_from e k (add_bond j m h)) (embed_from e k h ++ [e (k + j)%nat m]).
Proof.
  induction h as [|b h IH]; intros j k Hj; cbn [length] in Hj; [lia|].
  destruct j as [|j]; unfold add_bond; cbn [upd_bond embed_from].
  - rewrite map_app. cbn [map]. replace (k + 0)%nat with k by lia.
    rewrite <- !app_assoc. apply Permutation_app_head. apply Permutation_app_comm.
  - fold (add_bond j m h). rewrite <- app_assoc. apply Permutation_app_head.
    replace (k + S j)%nat with (S k + j)%nat by lia. apply IH. lia.
Qed.

Lemma embed_from_empty e L : forall k, embed_from e k (repeat [] L) = [].
Proof. induction L as [|L IH]; intros k; cbn [repeat embed_from map app]; auto. Qed.

(* ---- contributions of one term to the sum over the bonds *)
Definition ccontrib (e : nat -> lmono -> mono) (L : nat) (t : cterm) : mono :=
  e (ct_j t mod L)%nat (cmul c2 (ct_w t), ct_a t, ct_b t).
Definition ocontrib (e : nat -> lmono -> mono) (finite : bool) (L : nat) (t : oterm) : poly :=
  (if ceqb (fst (dist2 finite L (ot_i t))) c0 then []
   else [e (ot_i t) (cmul (fst (dist2 finite L (ot_i t))) (ot_w t), 0, ot_op t)]) ++
  (if ceqb (snd (dist2 finite L (ot_i t))) c0 then []
   else [e (S (ot_i t) mod L)%nat (cmul (snd (dist2 finite L (ot_i t))) (ot_w t), ot_op t, 0)]).

Lemma nn_step_length L h t : length (nn_step L h t) = length h.
Proof. apply add_bond_length. Qed.

Lemma onsite_step_length f L h t : length (onsite_step f L h t) = length h.
Proof.
  unfold onsite_step.
  destruct (ceqb (fst _) c0); destruct (ceqb (snd _) c0); rewrite ?add_bond_length; reflexivity.
Qed.

Lemma fold_nn_length L cts : forall h, length (fold_left (nn_step L) cts h) = length h.
Proof. induction cts as [|t cts IH]; intros h; cbn [fold_left]; [reflexivity|]. rewrite IH. apply nn_step_length. Qed.

Lemma fold_onsite_length f L ots : forall h, length (fold_left (onsite_step f L) ots h) = length h.
Proof. induction ots as [|t ots IH]; intros h; cbn [fold_left]; [reflexivity|]. rewrite IH. apply onsite_step_length. Qed.

Lemma h_bond_length f L ots cts : length (h_bond f L ots cts) = L.
Proof.
  unfold h_bond, add_to_nn_bond, to_nn_bond. rewrite fold_onsite_length, fold_nn_length. apply repeat_length.
Qed.

Lemma embed_nn_step e L h t : L <> 0%nat -> length h = L ->
  Permutation (embed_from e 0 (nn_step L h t)) (embed_from e 0 h ++ [ccontrib e L t]).
Proof.
  intros HL Hh. unfold nn_step, ccontrib.
  apply (embed_add_bond e _ h (ct_j t mod L)%nat 0%nat).
  rewrite Hh. apply Nat.mod_upper_bound. exact HL.
Qed.

Lemma embed_onsite_step e f L h t : L <> 0%nat -> length h = L -> (ot_i t < L)%nat ->
  Permutation (embed_from e 0 (onsite_step f L h t)) (embed_from e 0 h ++ ocontrib e f L t).
Proof.
  intros HL Hh Ht. unfold onsite_step, ocontrib.
  assert (Hm : (S (ot_i t) mod L < L)%nat) by (apply Nat.mod_upper_bound; exact HL).
  destruct (ceqb (fst (dist2 f L (ot_i t))) c0); destruct (ceqb (snd (dist2 f L (ot_i t))) c0);
    cbn [app].
  - rewrite app_nil_r. apply Permutation_refl.
  - apply (embed_add_bond e _ h _ 0%nat). lia.
  - apply (embed_add_bond e _ h _ 0%nat). lia.
  - eapply Permutation_trans.
    + apply (embed_add_bond e _ _ _ 0%nat). rewrite add_bond_length. lia.
    + change [?x; ?y] with ([x] ++ [y]). rewrite app_assoc. apply Permutation_app_tail.
      apply (embed_add_bond e _ h _ 0%nat). lia.
Qed.

Lemma embed_fold_nn e L : L <> 0%nat -> forall cts h, length h = L ->
  Permutation (embed_from e 0 (fold_left (nn_step L) cts h))
              (embed_from e 0 h ++ map (ccontrib e L) cts).
Proof.
  intros HL. induction cts as [|t cts IH]; intros h Hh; cbn [fold_left map].
  - rewrite app_nil_r. apply Permutation_refl.
  - eapply Permutation_trans. { apply IH. rewrite nn_step_length. exact Hh. }
    change (ccontrib e L t :: map (ccontrib e L) cts) with ([ccontrib e L t] ++ map (ccontrib e L) cts).
    rewrite app_assoc. apply Permutation_app_tail. apply embed_nn_step; assumption.
Qed.

Lemma embed_fold_onsite e f L : L <> 0%nat -> forall ots h, length h = L ->
  forallb (oterm_ok L) ots = true ->
  Permutation (embed_from e 0 (fold_left (onsite_step f L) ots h))
              (embed_from e 0 h ++ flat_map (ocontrib e f L) ots).
Proof.
  intros HL. induction ots as [|t ots IH]; intros h Hh Hok; cbn [fold_left flat_map].
  - rewrite app_nil_r. apply Permutation_refl.
  - cbn [forallb] in Hok. apply andb_true_iff in Hok. destruct Hok as [Ht Hok].
    unfold oterm_ok in Ht.
    eapply Permutation_trans. { apply IH; [rewrite onsite_step_length; exact Hh | exact Hok]. }
    rewrite app_assoc. apply Permutation_app_tail. apply embed_onsite_step; try assumption. lia.
Qed.

(* the sum over the bonds is the multiset of the contributions of the terms *)
Lemma embed_h_bond e f L ots cts : L <> 0%nat -> forallb (oterm_ok L) ots = true ->
  Permutation (embed_from e 0 (h_bond f L ots cts))
              (map (ccontrib e L) cts ++ flat_map (ocontrib e f L) ots).
Proof.
  intros HL Hok. unfold h_bond, add_to_nn_bond, to_nn_bond.
  eapply Permutation_trans.
  { apply embed_fold_onsite; [exact HL | rewrite fold_nn_length; apply repeat_length | exact Hok]. }
  apply Permutation_app_tail.
  eapply Permutation_trans. { apply embed_fold_nn; [exact HL | apply repeat_length]. }
  rewrite embed_from_empty. apply Permutation_refl.
Qed.

(* ---- the embedded contributions *)
Lemma consop_0 i w : consop i 0 w = w.
Proof. reflexivity. Qed.

Lemma embed_left j w op : embed_bond j (w, 0, op) = (w, consop j op []).
Proof. unfold embed_bond. cbn [fst snd]. rewrite consop_0. reflexivity. Qed.

Lemma embed_right j w op : embed_bond (S j) (w, op, 0) = (w, consop j op []).
Proof.
  unfold embed_bond. cbn [fst snd]. rewrite consop_0. replace (S j - 1)%nat with j by lia. reflexivity.
Qed.

Lemma embed_inf_left L j w op : embed_bond_inf L j (w, 0, op) = (w, consop j op []).
Proof.
  unfold embed_bond_inf. destruct (Nat.eqb j 0) eqn:E.
  - apply Nat.eqb_eq in E. subst j. cbn [fst snd]. rewrite consop_0. reflexivity.
  - apply embed_left.
Qed.

Lemma embed_inf_right L j w op : (j < L)%nat ->
  embed_bond_inf L (S j mod L)%nat (w, op, 0) = (w, consop j op []).
Proof.
  intros Hj. destruct (Nat.eq_dec (S j) L) as [E|E].
  - rewrite E, Nat.mod_same by lia. unfold embed_bond_inf. cbn [Nat.eqb fst snd].
    rewrite consop_0. replace (L - 1)%nat with j by lia. reflexivity.
  - rewrite Nat.mod_small by lia. unfold embed_bond_inf. cbn [Nat.eqb]. apply embed_right.
Qed.

Lemma ceqb_c0 : ceqb c0 c0 = true. Proof. reflexivity. Qed.
Lemma ceqb_c1 : ceqb c1 c0 = false. Proof. reflexivity. Qed.
Lemma ceqb_c2 : ceqb c2 c0 = false. Proof. reflexivity. Qed.

Lemma half_half (w : C) (u : word) : peq [(cmul c1 w, u); (cmul c1 w, u)] [(cmul c2 w, u)].
Proof.
  intros v. cbn [coef]. destruct (word_eqb u v); [|reflexivity].
  destruct w as [x y]. apply c_eq; unfold cadd, cmul, c0, c1, c2; cbn [fst snd]; lia.
Qed.

(* one onsite term, finite chain: the boundary sites go completely to the one bond they have, a
   bulk site half to the left and half to the right bond *)
Lemma ocontrib_fin L t : (2 <= L)%nat -> (ot_i t < L)%nat ->
  peq (ocontrib embed_bond true L t) [(cmul c2 (ot_w t), consop (ot_i t) (ot_op t) [])].
Proof.
  intros HL Ht. destruct t as [j op w]. cbn [ot_i ot_op ot_w] in *.
  unfold ocontrib, dist2. cbn [ot_i ot_op ot_w andb].
  destruct (Nat.eqb j 0) eqn:E0.
  - apply Nat.eqb_eq in E0. subst j. cbn [fst snd]. rewrite ceqb_c0, ceqb_c2. cbn [app].
    rewrite Nat.mod_small by lia. rewrite embed_right. apply peq_refl.
  - apply Nat.eqb_neq in E0. destruct (Nat.eqb j (L - 1)) eqn:E1.
    + cbn [fst snd]. rewrite ceqb_c0, ceqb_c2. cbn [app]. rewrite embed_left. apply peq_refl.
    + apply Nat.eqb_neq in E1. cbn [fst snd]. rewrite ceqb_c1. cbn [app].
      rewrite Nat.mod_small by lia. rewrite embed_left, embed_right. apply half_half.
Qed.

(* one onsite term, ring of L sites: always half / half *)
Lemma ocontrib_inf L t : (ot_i t < L)%nat ->
  peq (ocontrib (embed_bond_inf L) false L t) [(cmul c2 (ot_w t), consop (ot_i t) (ot_op t) [])].
Proof.
  intros Ht. destruct t as [j op w]. cbn [ot_i ot_op ot_w] in *.
  unfold ocontrib, dist2. cbn [ot_i ot_op ot_w andb fst snd]. rewrite ceqb_c1. cbn [app].
  rewrite embed_inf_left, embed_inf_right by exact Ht. apply half_half.
Qed.

Lemma flat_ocontrib (e : nat -> lmono -> mono) f L :
  (forall t, (ot_i t < L)%nat ->
     peq (ocontrib e f L t) [(cmul c2 (ot_w t), consop (ot_i t) (ot_op t) [])]) ->
  forall ots, forallb (oterm_ok L) ots = true ->
  peq (flat_map (ocontrib e f L) ots) (pscale c2 (map nf_oterm ots)).
Proof.
  intros H. induction ots as [|t ots IH]; intros Hok; cbn [flat_map map pscale]; [apply peq_refl|].
  cbn [forallb] in Hok. apply andb_true_iff in Hok. destruct Hok as [Ht Hok]. unfold oterm_ok in Ht.
  change (?x :: map ?g ?l) with ([x] ++ map g l). apply peq_app.
  - unfold nf_oterm. cbn [fst snd]. apply H. lia.
  - apply IH. exact Hok.
Qed.

(* ---- nearest-neighbour coupling terms *)
Lemma nf_nn_cterm t : ct_j t = S (ct_i t) -> nf_nn t = nf_cterm t.
Proof.
  intros E. unfold nf_nn, nf_cterm. rewrite E.
  replace (S (ct_i t) - ct_i t - 1)%nat with 0%nat by lia. reflexivity.
Qed.

Lemma ccontrib_fin L t : nn_ok L t = true ->
  ccontrib embed_bond L t = (cmul c2 (ct_w t), snd (nf_cterm t)).
Proof.
  unfold nn_ok. intros H. apply andb_true_iff in H. destruct H as [E Hj].
  apply Nat.eqb_eq in E. rewrite <- (nf_nn_cterm t E).
  unfold ccontrib, nf_nn. rewrite Nat.mod_small by lia. unfold embed_bond. cbn [fst snd].
  rewrite E. replace (S (ct_i t) - 1)%nat with (ct_i t) by lia. reflexivity.
Qed.

Lemma ccontrib_inf L t : nn_ok_inf L t = true ->
  ccontrib (embed_bond_inf L) L t = (cmul c2 (ct_w t), snd (nf_nn_inf L t)).
Proof.
  unfold nn_ok_inf. intros H. apply andb_true_iff in H. destruct H as [E Hi].
  apply Nat.eqb_eq in E. unfold ccontrib, nf_nn_inf.
  destruct (Nat.eqb (ct_j t) L) eqn:EL.
  - apply Nat.eqb_eq in EL. rewrite EL, Nat.mod_same by lia. unfold embed_bond_inf.
    cbn [Nat.eqb fst snd]. replace (L - 1)%nat with (ct_i t) by lia. reflexivity.
  - apply Nat.eqb_neq in EL. rewrite Nat.mod_small by lia. unfold embed_bond_inf.
    rewrite E. cbn [Nat.eqb]. unfold embed_bond, nf_nn. cbn [fst snd].
    rewrite E. replace (S (ct_i t) - 1)%nat with (ct_i t) by lia. reflexivity.
Qed.

Lemma map_ccontrib (e : nat -> lmono -> mono) L (ok : cterm -> bool) (nf : cterm -> mono) :
  (forall t, ok t = true -> ccontrib e L t = (cmul c2 (ct_w t), snd (nf t))) ->
  (forall t, fst (nf t) = ct_w t) ->
  forall cts, forallb ok cts = true -> map (ccontrib e L) cts = pscale c2 (map nf cts).
Proof.
  intros H Hw. induction cts as [|t cts IH]; intros Hok; cbn [map pscale]; [reflexivity|].
  cbn [forallb] in Hok. apply andb_true_iff in Hok. destruct Hok as [Ht Hok].
  rewrite (H t Ht), Hw. f_equal. apply IH. exact Hok.
Qed.

(* ---- main theorems *)
(* finite chain: sum_j H_bond[j] = sum of the onsite terms + sum of the coupling terms
   (both sides doubled, see Model/BondSum.v); the right-hand side is the normal form that
   T10_from_terms uses for the MPO graph *)
Theorem bond_sum_terms L ots cts : (2 <= L)%nat ->
  forallb (oterm_ok L) ots = true ->
  forallb (fun t => Nat.eqb (ct_j t) (S (ct_i t)) && (ct_j t <? L)%nat) cts = true ->
  peq (bond_sum L ots cts) (pscale (2, 0) (map nf_oterm ots ++ map nf_cterm cts)).
Proof.
  intros HL Ho Hc. change (2, 0) with c2. unfold bond_sum.
  eapply peq_trans. { apply peq_perm. apply embed_h_bond; [lia | exact Ho]. }
  eapply peq_trans. { apply peq_app_comm. }
  unfold pscale. rewrite map_app. apply peq_app.
  - apply (flat_ocontrib embed_bond true L); [|exact Ho]. intros t Ht. apply ocontrib_fin; assumption.
  - rewrite (map_ccontrib embed_bond L (nn_ok L) nf_cterm); [apply peq_refl | | | exact Hc].
    + apply ccontrib_fin.
    + reflexivity.
Qed.

(* the same with nf_nn (no operator string between nearest neighbours) *)
Corollary bond_sum_terms_nn L ots cts : (2 <= L)%nat ->
  forallb (oterm_ok L) ots = true ->
  forallb (fun t => Nat.eqb (ct_j t) (S (ct_i t)) && (ct_j t <? L)%nat) cts = true ->
  peq (bond_sum L ots cts) (pscale (2, 0) (map nf_oterm ots ++ map nf_nn cts)).
Proof.
  intros HL Ho Hc. replace (map nf_nn cts) with (map nf_cterm cts).
  - apply bond_sum_terms; assumption.
  - apply map_ext_in. intros t Ht. symmetry. apply nf_nn_cterm.
    rewrite forallb_forall in Hc. specialize (Hc t Ht). apply andb_true_iff in Hc.
    destruct Hc as [E _]. apply Nat.eqb_eq in E. exact E.
Qed.

(* finite chain: H_bond has length L and H_bond[0] is None (the assertion in calc_H_bond holds) *)
Lemma fold_nn_nth0 L : (2 <= L)%nat -> forall cts h,
  forallb (nn_ok L) cts = true -> nth 0 h [] = [] -> nth 0 (fold_left (nn_step L) cts h) [] = [].
Proof.
  intros HL. induction cts as [|t cts IH]; intros h Hok H0; cbn [fold_left]; [exact H0|].
  cbn [forallb] in Hok. apply andb_true_iff in Hok. destruct Hok as [Ht Hok].
  apply IH; [exact Hok|]. unfold nn_step. rewrite add_bond_nth0; [exact H0|].
  unfold nn_ok in Ht. apply andb_true_iff in Ht. destruct Ht as [E Hj]. apply Nat.eqb_eq in E.
  rewrite Nat.mod_small by lia. lia.
Qed.

Lemma onsite_step_nth0 L h t : (2 <= L)%nat -> (ot_i t < L)%nat ->
  nth 0 h [] = [] -> nth 0 (onsite_step true L h t) [] = [].
Proof.
  intros HL Ht H0. unfold onsite_step, dist2. cbn [andb].
  destruct (Nat.eqb (ot_i t) 0) eqn:E0.
  - apply Nat.eqb_eq in E0. cbn [fst snd]. rewrite ceqb_c0, ceqb_c2. rewrite add_bond_nth0; [exact H0|].
    rewrite E0, Nat.mod_small by lia. lia.
  - apply Nat.eqb_neq in E0. destruct (Nat.eqb (ot_i t) (L - 1)) eqn:E1.
    + cbn [fst snd]. rewrite ceqb_c0, ceqb_c2. rewrite add_bond_nth0; [exact H0 | exact E0].
    + apply Nat.eqb_neq in E1. cbn [fst snd]. rewrite ceqb_c1.
      rewrite !add_bond_nth0; [exact H0 | exact E0 |]. rewrite Nat.mod_small by lia. lia.
Qed.

Lemma fold_onsite_nth0 L : (2 <= L)%nat -> forall ots h,
  forallb (oterm_ok L) ots = true -> nth 0 h [] = [] ->
  nth 0 (fold_left (onsite_step true L) ots h) [] = [].
Proof.
  intros HL. induction ots as [|t ots IH]; intros h Hok H0; cbn [fold_left]; [exact H0|].
  cbn [forallb] in Hok. apply andb_true_iff in Hok. destruct Hok as [Ht Hok]. unfold oterm_ok in Ht.
  apply IH; [exact Hok|]. apply onsite_step_nth0; [exact HL | lia | exact H0].
Qed.

Theorem bond0_empty L ots cts : (2 <= L)%nat ->
  forallb (oterm_ok L) ots = true ->
  forallb (fun t => Nat.eqb (ct_j t) (S (ct_i t)) && (ct_j t <? L)%nat) cts = true ->
  length (h_bond true L ots cts) = L /\ nth 0 (h_bond true L ots cts) [] = [].
Proof.
  intros HL Ho Hc. split; [apply h_bond_length|].
  unfold h_bond, add_to_nn_bond, to_nn_bond.
  apply fold_onsite_nth0; [exact HL | exact Ho|].
  apply fold_nn_nth0; [exact HL | exact Hc|].
  destruct L as [|L]; reflexivity.
Qed.

(* consequently the model of calc_H_bond with its exceptions returns the bond list *)
Corollary calc_H_bond_fin_some L ots cts : (2 <= L)%nat ->
  forallb (oterm_ok L) ots = true ->
  forallb (fun t => Nat.eqb (ct_j t) (S (ct_i t)) && (ct_j t <? L)%nat) cts = true ->
  calc_H_bond_fin L ots cts = Some (h_bond true L ots cts).
Proof.
  intros HL Ho Hc. unfold calc_H_bond_fin.
  assert (Hnn : forallb (fun t => Nat.eqb (ct_j t) (S (ct_i t))) cts = true).
  { apply forallb_forall. intros t Ht. rewrite forallb_forall in Hc. specialize (Hc t Ht).
    apply andb_true_iff in Hc. tauto. }
  rewrite Hnn. destruct (bond0_empty L ots cts HL Ho Hc) as [_ H0]. rewrite H0. reflexivity.
Qed.

(* infinite bc (unit cell of L >= 2 sites as a ring, sites modulo L): no boundary exceptions,
   bond 0 joins sites (L-1, 0) *)
Theorem bond_sum_inf_terms L ots cts : (2 <= L)%nat ->
  forallb (oterm_ok L) ots = true ->
  forallb (fun t => Nat.eqb (ct_j t) (S (ct_i t)) && (ct_i t <? L)%nat) cts = true ->
  peq (bond_sum_inf L ots cts) (pscale (2, 0) (map nf_oterm ots ++ map (nf_nn_inf L) cts)).
Proof.
  intros HL Ho Hc. change (2, 0) with c2. unfold bond_sum_inf.
  eapply peq_trans. { apply peq_perm. apply embed_h_bond; [lia | exact Ho]. }
  eapply peq_trans. { apply peq_app_comm. }
  unfold pscale. rewrite map_app. apply peq_app.
  - apply (flat_ocontrib (embed_bond_inf L) false L); [|exact Ho]. intros t Ht. apply ocontrib_inf; assumption.
  - rewrite (map_ccontrib (embed_bond_inf L) L (nn_ok_inf L) (nf_nn_inf L)); [apply peq_refl | | | exact Hc].
    + apply ccontrib_inf.
    + intros t. unfold nf_nn_inf. destruct (Nat.eqb (ct_j t) L); reflexivity.
Qed.

(* ---- Examples: the hypotheses are satisfiable by non-trivial values *)
Definition ex_ots : list oterm :=
  [mkOT 0 3 (1, 0); mkOT 3 4 (0, 2); mkOT 2 5 (2, 1); mkOT 2 3 (1, 1); mkOT 1 5 (-1, 0)].
Definition ex_cts : list cterm :=
  [mkCT 0 1 0 1 2 (3, 0); mkCT 2 6 0 3 7 (1, -1); mkCT 1 1 0 2 2 (0, 1)].
Definition ex_cts_inf : list cterm := ex_cts ++ [mkCT 3 6 0 4 7 (5, 0)].

Example bond_sum_terms_ex :
  (2 <= 4)%nat /\ forallb (oterm_ok 4) ex_ots = true /\
  forallb (fun t => Nat.eqb (ct_j t) (S (ct_i t)) && (ct_j t <? 4)%nat) ex_cts = true /\
  normalize (bond_sum 4 ex_ots ex_cts)
  = normalize (pscale (2, 0) (map nf_oterm ex_ots ++ map nf_cterm ex_cts)) /\
  normalize (bond_sum 4 ex_ots ex_cts)
  = [((6, 0), [(0%nat, 1); (1%nat, 2)]); ((2, 0), [(0%nat, 3)]); ((0, 2), [(1%nat, 1); (2%nat, 2)]);
     ((-2, 0), [(1%nat, 5)]); ((2, 2), [(2%nat, 3)]); ((4, 2), [(2%nat, 5)]);
     ((2, -2), [(2%nat, 6); (3%nat, 7)]); ((0, 4), [(3%nat, 4)])].
Proof. vm_compute. repeat split; try reflexivity. lia. Qed.

Example bond0_empty_ex :
  length (h_bond true 4 ex_ots ex_cts) = 4%nat /\ nth 0 (h_bond true 4 ex_ots ex_cts) [] = [] /\
  nth 1 (h_bond true 4 ex_ots ex_cts) [] = [((6, 0), 1, 2); ((2, 0), 3, 0); ((-1, 0), 0, 5)] /\
  calc_H_bond_fin 4 ex_ots ex_cts = Some (h_bond true 4 ex_ots ex_cts).
Proof. vm_compute. repeat split; reflexivity. Qed.

Example bond_sum_inf_terms_ex :
  forallb (oterm_ok 4) ex_ots = true /\
  forallb (fun t => Nat.eqb (ct_j t) (S (ct_i t)) && (ct_i t <? 4)%nat) ex_cts_inf = true /\
  normalize (bond_sum_inf 4 ex_ots ex_cts_inf)
  = normalize (pscale (2, 0) (map nf_oterm ex_ots ++ map (nf_nn_inf 4) ex_cts_inf)) /\
  nth 0 (h_bond false 4 ex_ots ex_cts_inf) [] = [((10, 0), 6, 7); ((1, 0), 0, 3); ((0, 2), 4, 0)] /\
  coef (bond_sum_inf 4 ex_ots ex_cts_inf) [(0%nat, 7); (3%nat, 6)] = (10, 0).
Proof. vm_compute. repeat split; reflexivity. Qed.

Print Assumptions bond_sum_terms.
Print Assumptions bond_sum_terms_nn.
Print Assumptions bond0_empty.
Print Assumptions calc_H_bond_fin_some.
Print Assumptions bond_sum_inf_terms.
