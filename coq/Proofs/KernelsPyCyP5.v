(* Proofs about Array.itranspose (Model/KernelsPyCy3.v, part (c)). *)
From TenpyV Require Import Base.Prelude Model.KernelsPyCy3.

(* ---- the append loop is the list comprehension *)
Lemma append_loop_pick {A B} (dA : A) (dB : B) oldA oldB : forall axes newA newB,
  append_loop dA dB oldA oldB axes newA newB = (newA ++ pick dA oldA axes, newB ++ pick dB oldB axes).
Proof.
  induction axes as [|a t IH]; intros newA newB; cbn [append_loop pick map].
  - rewrite !app_nil_r. reflexivity.
  - rewrite IH. unfold pick. rewrite <- !app_assoc. reflexivity.
Qed.

(* ---- C-contiguous strides enumerate the grid *)
Lemma map_flat_map {A B C} (f : B -> C) (g : A -> list B) : forall l,
  map f (flat_map g l) = flat_map (fun x => map f (g x)) l.
Proof. induction l as [|x l IH]; cbn [flat_map map]; [reflexivity|]. rewrite map_app, IH. reflexivity. Qed.

Lemma flat_map_ext_in {A B} (f g : A -> list B) : forall l,
  (forall x, In x l -> f x = g x) -> flat_map f l = flat_map g l.
Proof.
  induction l as [|x l IH]; intros H; cbn [flat_map]; [reflexivity|].
  rewrite (H x (or_introl eq_refl)), IH; [reflexivity|]. intros y Hy. apply H. right. exact Hy.
Qed.

Lemma map_add_seq a : forall L s, map (Nat.add a) (seq s L) = seq (a + s) L.
Proof.
  induction L as [|L IH]; intros s; cbn [seq map]; [reflexivity|].
  f_equal. rewrite IH. f_equal. lia.
Qed.

Lemma flat_seq L : forall n, flat_map (fun i => seq (i * L) L) (seq 0 n) = seq 0 (n * L).
Proof.
  induction n as [|n IH]; [reflexivity|].
  rewrite seq_S, flat_map_app, IH. cbn [flat_map Nat.add]. rewrite app_nil_r.
  replace (S n * L) with (n * L + L) by lia. rewrite seq_app. reflexivity.
Qed.

Lemma length_flat_map_const {A B} (g : A -> list B) L : forall l,
  (forall x, length (g x) = L) -> length (flat_map g l) = length l * L.
Proof.
  induction l as [|x l IH]; intros H; cbn [flat_map length]; [reflexivity|].
  rewrite app_length, H, IH by exact H. lia.
Qed.

Lemma ngrid_count : forall sh, length (ngrid sh) = fold_right Nat.mul 1 sh.
Proof.
  induction sh as [|n t IH]; [reflexivity|]. cbn [ngrid fold_right].
  rewrite (length_flat_map_const _ (length (ngrid t))) by (intros; apply map_length).
  rewrite seq_length, IH. reflexivity.
Qed.

Lemma ravel_grid : forall sh, map (dotN (cstrides sh)) (ngrid sh) = seq 0 (length (ngrid sh)).
Proof.
  induction sh as [|n t IH]; [reflexivity|].
  cbn [ngrid cstrides]. rewrite map_flat_map.
  rewrite (length_flat_map_const _ (length (ngrid t))) by (intros; apply map_length).
  rewrite seq_length, <- flat_seq.
  apply flat_map_ext_in. intros i _. rewrite map_map. cbn [dotN].
  rewrite <- (map_map (dotN (cstrides t)) (fun q => i * fold_right Nat.mul 1 t + q)), IH.
  rewrite <- ngrid_count. change (fun q => i * length (ngrid t) + q) with (Nat.add (i * length (ngrid t))).
  rewrite map_add_seq. f_equal. lia.
Qed.

Lemma map_nth_seq' {A} (d : A) l : map (fun k => nth k l d) (seq 0 (length l)) = l.
Proof.
  induction l as [|x l IH]; [reflexivity|]. cbn [length seq map nth]. f_equal.
  rewrite <- seq_shift, map_map. exact IH.
Qed.

(* a contiguous copy has the same elements as the view it was made from *)
Lemma dense_contiguous v : dense (contiguous v) = dense v.
Proof.
  unfold contiguous. unfold dense at 1. cbn [v_strides v_buf v_shape].
  rewrite <- (map_map (dotN (cstrides (v_shape v))) (fun p => nth p (dense v) 0%Z)), ravel_grid.
  replace (length (ngrid (v_shape v))) with (length (dense v)) by (unfold dense; apply map_length).
  apply map_nth_seq'.
Qed.

Lemma view_obs_contiguous v : view_obs (contiguous v) = view_obs v.
Proof. unfold view_obs. rewrite dense_contiguous. reflexivity. Qed.

(* ---- label validation *)
Lemma lab_eqb_some l y : lab_eqb (Some l) y = true <-> y = Some l.
Proof.
  destruct y as [b|]; cbn [lab_eqb]; split; intros H; try discriminate.
  - apply Nat.eqb_eq in H. subst. reflexivity.
  - inversion H. apply Nat.eqb_refl.
Qed.

Lemma labels_valid_LPQ : forall ls, labels_valid ls = true -> LP ls /\ LQ ls.
Proof.
  induction ls as [|x t IH]; intros H.
  - split; [intros i j Hi; cbn [length] in Hi; lia|intros []].
  - destruct x as [l|]; cbn [labels_valid] in H.
    + apply andb_prop in H. destruct H as [H H3]. apply andb_prop in H. destruct H as [H1 H2].
      destruct (IH H3) as [P Q].
      assert (Hnot : ~ In (Some l) t).
      { intros Hin. apply negb_true_iff in H2. assert (existsb (lab_eqb (Some l)) t = true); [|congruence].
        apply existsb_exists. exists (Some l). split; [exact Hin|]. apply lab_eqb_some. reflexivity. }
      split.
      * intros i j Hi Hj Hij E. cbn [length] in Hi, Hj. destruct i as [|i], j as [|j]; cbn [nth] in *; try lia.
        -- exfalso. apply Hnot. rewrite E. apply nth_In. lia.
        -- exfalso. apply Hnot. rewrite <- E. apply nth_In. lia.
        -- apply (P i j); try lia. exact E.
      * intros [E|Hin]; [|exact (Q Hin)]. inversion E. subst l. discriminate.
    + destruct (IH H) as [P Q]. split.
      * intros i j Hi Hj Hij E. cbn [length] in Hi, Hj. destruct i as [|i], j as [|j]; cbn [nth] in *; try lia; try reflexivity.
        -- exact E.
        -- apply (P i j); try lia. exact E.
      * intros [E|Hin]; [discriminate|exact (Q Hin)].
Qed.

Lemma LPQ_labels_valid : forall ls, LP ls -> LQ ls -> labels_valid ls = true.
Proof.
  induction ls as [|x t IH]; intros P Q; [reflexivity|].
  assert (Pt : LP t).
  { intros i j Hi Hj Hij E. apply (P (S i) (S j)); cbn [length nth]; try lia. exact E. }
  assert (Qt : LQ t) by (intros Hin; apply Q; right; exact Hin).
  destruct x as [l|]; cbn [labels_valid]; [|apply IH; assumption].
  rewrite (IH Pt Qt), andb_true_r. apply andb_true_intro. split.
  - apply negb_true_iff. apply Nat.eqb_neq. intros ->. apply Q. left. reflexivity.
  - apply negb_true_iff. destruct (existsb (lab_eqb (Some l)) t) eqn:E; [|reflexivity]. exfalso.
    apply existsb_exists in E. destruct E as (y & Hin & Hy). apply lab_eqb_some in Hy. subst y.
    destruct (In_nth _ _ None Hin) as (j & Hj & Ej).
    specialize (P 0 (S j)). cbn [length nth] in P. rewrite Ej in P. discriminate P; try lia. reflexivity.
Qed.

Lemma nodupb_NoDup : forall l, nodupb l = true -> NoDup l.
Proof.
  induction l as [|x t IH]; intros H; [constructor|]. cbn [nodupb] in H. apply andb_prop in H. destruct H as [H1 H2].
  constructor; [|apply IH; exact H2]. intros Hin. apply negb_true_iff in H1.
  assert (existsb (Nat.eqb x) t = true); [|congruence]. apply existsb_exists. exists x. split; [exact Hin|apply Nat.eqb_refl].
Qed.

Lemma pick_nth {A} (d : A) l axes i : i < length axes -> nth i (pick d l axes) d = nth (nth i axes 0) l d.
Proof.
  intros Hi. unfold pick. rewrite (nth_indep _ d (nth 0 l d)) by (rewrite map_length; exact Hi).
  apply (map_nth (fun a => nth a l d)).
Qed.

Lemma pick_labels_valid ls axes :
  labels_valid ls = true -> NoDup axes -> Forall (fun a => a < length ls) axes ->
  labels_valid (pick None ls axes) = true.
Proof.
  intros Hv Hnd Hr. destruct (labels_valid_LPQ ls Hv) as [P Q]. rewrite Forall_forall in Hr.
  assert (Hlen : length (pick None ls axes) = length axes) by (unfold pick; apply map_length).
  apply LPQ_labels_valid.
  - intros i j Hi Hj Hij E. rewrite Hlen in Hi, Hj. rewrite !pick_nth in * by assumption.
    apply (P (nth i axes 0) (nth j axes 0)); try (apply Hr, nth_In; assumption); [|exact E].
    intros Eij. apply Hij. apply (proj1 (NoDup_nth axes 0) Hnd); assumption.
  - intros Hin. unfold pick in Hin. apply in_map_iff in Hin. destruct Hin as (a & Ea & Ha).
    apply Q. rewrite <- Ea. apply nth_In. apply Hr. exact Ha.
Qed.

(* ---- the two implementations agree on every observable of the Array *)
Lemma itranspose_eq a axes :
  labels_valid (a_labels a) = true -> length (a_labels a) = length (a_legs a) ->
  opt_obs_eq (itranspose_cy a axes) (itranspose_py a axes).
Proof.
  intros Hv Hl. unfold itranspose_cy, itranspose_py.
  destruct (axes_ok (length (a_legs a)) axes) eqn:Eok; cbn [negb]; [|exact I].
  destruct (is_identity (length (a_legs a)) axes); [reflexivity|].
  unfold axes_ok in Eok. apply andb_prop in Eok. destruct Eok as [Eok E3]. apply andb_prop in Eok. destruct Eok as [E1 E2].
  rewrite pick_labels_valid; [| exact Hv | apply nodupb_NoDup; exact E2 |].
  2:{ rewrite Hl. apply Forall_forall. intros x Hx. rewrite forallb_forall in E3. specialize (E3 x Hx). lia. }
  cbn [opt_obs_eq]. rewrite append_loop_pick. cbn [fst snd app]. unfold arr_obs.
  cbn [a_legs a_labels a_qdata a_blocks a_sorted]. f_equal. f_equal.
  rewrite !map_map. apply map_ext. intros b. apply view_obs_contiguous.
Qed.

(* the python side never raises on a valid Array with valid axes, and the flag is reset *)
Lemma itranspose_py_ok a axes :
  labels_valid (a_labels a) = true -> length (a_labels a) = length (a_legs a) ->
  axes_ok (length (a_legs a)) axes = true ->
  exists r, itranspose_py a axes = Some r
    /\ (axes <> seq 0 (length (a_legs a)) ->
        a_sorted r = false /\ a_legs r = pick 0 (a_legs a) axes /\ a_labels r = pick None (a_labels a) axes
        /\ a_qdata r = map (fun row => pick 0%Z row axes) (a_qdata a)).
Proof.
  intros Hv Hl Eok. unfold itranspose_py. rewrite Eok. cbn [negb]. unfold is_identity.
  destruct (list_eq_dec Nat.eq_dec axes (seq 0 (length (a_legs a)))) as [E|NE].
  - exists a. split; [reflexivity|]. intros H. contradiction.
  - unfold axes_ok in Eok. apply andb_prop in Eok. destruct Eok as [Eok E3]. apply andb_prop in Eok. destruct Eok as [E1 E2].
    rewrite pick_labels_valid; [| exact Hv | apply nodupb_NoDup; exact E2 |].
    2:{ rewrite Hl. apply Forall_forall. intros x Hx. rewrite forallb_forall in E3. specialize (E3 x Hx). lia. }
    eexists. split; [reflexivity|]. intros _. cbn. repeat split; reflexivity.
Qed.

(* without the validity of the labels the two differ: python raises, the compiled version permutes *)
Lemma itranspose_invalid_labels_differ :
  exists a axes, length (a_labels a) = length (a_legs a) /\ itranspose_py a axes = None /\ itranspose_cy a axes <> None.
Proof.
  exists (mkArr [5; 6] [Some 1; Some 1] [] [] true), [1; 0]. split; [reflexivity|]. split; [reflexivity|].
  vm_compute. discriminate.
Qed.
