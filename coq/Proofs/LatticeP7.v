(* Proofs about Model/Lattice.v (property C19), part J: infinite MPS - the index map and the couplings are
   invariant under translation by whole MPS unit cells, and possible_couplings lists exactly one representative
   of every translation class. *)
From TenpyV Require Import Base.Prelude Model.Lattice Proofs.LatticeP.
Open Scope Z_scope.

Lemma mps2lat_translate lat : wf lat -> infinite lat = true -> forall i X0 xr u m,
  mps2lat lat i = Some (X0, xr, u) ->
  mps2lat lat (i + m * nsites lat) = Some (X0 + m * L0 lat, xr, u).
Proof.
  intros Hwf Hi i X0 xr u m H.
  destruct (mps2lat_inf_inv lat Hwf Hi i X0 xr u H) as (k & m' & x0 & Ei & EX & Hk).
  pose proof (mps2lat_shift lat Hwf Hi k (m' + m) x0 xr u Hk) as HS.
  replace (i + m * nsites lat) with (Z.of_nat k + (m' + m) * nsites lat) by (rewrite Ei; ring).
  rewrite HS. f_equal. f_equal. f_equal. rewrite EX. ring.
Qed.

Lemma connected_translate lat x0 xr dx0 dxr y0 yr m :
  connected lat x0 xr dx0 dxr y0 yr ->
  connected lat (x0 + m * L0 lat) xr dx0 dxr (y0 + m * L0 lat) yr.
Proof.
  intros (tot & k0 & Hr & He & Hk). exists tot, k0. split; [exact Hr|]. split; [lia|exact Hk].
Qed.

Lemma couplings_translation : forall lat, wf lat -> infinite lat = true -> forall u1 u2 dx0 dxr i j,
  coupled lat u1 u2 dx0 dxr i j ->
  (forall m, exists x0 xr y0 yr,
     mps2lat lat (i + m * nsites lat) = Some (x0, xr, u1) /\
     mps2lat lat (j + m * nsites lat) = Some (y0, yr, u2) /\
     connected lat x0 xr dx0 dxr y0 yr) /\
  (forall m, coupled lat u1 u2 dx0 dxr (i + m * nsites lat) (j + m * nsites lat) -> m = 0).
Proof.
  intros lat Hwf Hi u1 u2 dx0 dxr i j (x0 & xr & y0 & yr & Hmi & Hmj & Hc & Hm). split.
  - intros m. exists (x0 + m * L0 lat), xr, (y0 + m * L0 lat), yr.
    split; [now apply mps2lat_translate|]. split; [now apply mps2lat_translate|].
    now apply connected_translate.
  - intros m (_ & _ & _ & _ & _ & _ & _ & Hm'). specialize (Hm Hi). specialize (Hm' Hi).
    replace (Z.min (i + m * nsites lat) (j + m * nsites lat)) with (Z.min i j + m * nsites lat) in Hm' by lia.
    nia.
Qed.
