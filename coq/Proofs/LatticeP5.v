(* Proofs about Model/Lattice.v (property C19), part H: a multi-coupling of two operators, the first at
   displacement 0, is a two-site coupling: possible_multi_couplings([(u1, 0), (u2, dx)]) and
   possible_couplings(u1, u2, dx) enumerate the same pairs (i, j).  (add_multi_coupling_term with two
   operators and add_coupling must build the same Hamiltonian.) *)
From TenpyV Require Import Base.Prelude Model.Lattice Model.LatticeMulti.
From TenpyV Require Import Proofs.LatticeP Proofs.LatticeP3 Proofs.LatticeP4.
Open Scope Z_scope.

(* from the anchor b: x is b displaced by 0, y is b displaced by d  ==>  y is x displaced by d *)
Lemma conn_rest_compose : forall Ls os ss bs zs xs tot1,
  conn_rest Ls os ss bs zs xs tot1 -> Forall (fun z => z = 0) zs ->
  forall ds ys tot2, conn_rest Ls os ss bs ds ys tot2 ->
  conn_rest Ls os ss xs ds ys (tot2 - tot1).
Proof.
  intros Ls os ss bs zs xs tot1 H.
  induction H as [|L o s b z x k Ls os ss bs zs xs tot Hx He Ho Hr IH]; intros Hz ds ys tot2 H2.
  - inversion H2; subst. replace (0 - 0) with 0 by lia. constructor.
  - inversion Hz as [|? ? Hz0 Hz']; subst.
    inversion H2 as [|? ? ? ? d y k2 ? ? ? ? ds' ys' tot' Hy He2 Ho2 Hr2]; subst.
    replace (k2 * s + tot' - (k * s + tot)) with ((k2 - k) * s + (tot' - tot)) by lia.
    constructor; [lia|lia|intros Ht; specialize (Ho Ht); specialize (Ho2 Ht); lia|now apply IH].
Qed.

(* x displaced by 0 is x (no winding) when x lies in the box *)
Lemma conn_rest_refl : forall Ls os ss xs,
  Forall2 (fun x L => 0 <= x < L) xs Ls -> length os = length Ls -> length ss = length Ls ->
  conn_rest Ls os ss xs (repeat 0 (length Ls)) xs 0.
Proof.
  intros Ls os ss xs H. revert os ss.
  induction H as [|x L xs Ls Hx HB IH]; intros os ss Ho Hs.
  - destruct os; [|discriminate]. destruct ss; [|discriminate]. cbn. constructor.
  - destruct os as [|o os]; [discriminate|]. destruct ss as [|s ss]; [discriminate|].
    cbn [length repeat].
    assert (Hc : conn_rest (L :: Ls) (o :: os) (s :: ss) (x :: xs) (0 :: repeat 0 (length Ls)) (x :: xs) (0 * s + 0)).
    { constructor; [lia|lia|reflexivity|]. apply IH; cbn in Ho, Hs; lia. }
    replace (0 * s + 0) with 0 in Hc by lia. exact Hc.
Qed.

Lemma conn_rest_lengths : forall Ls os ss xs ds ys tot,
  conn_rest Ls os ss xs ds ys tot -> length os = length Ls /\ length ss = length Ls.
Proof.
  intros Ls os ss xs ds ys tot H. induction H; cbn; [split; reflexivity|]. lia.
Qed.

Lemma repeat_zero_Forall n : Forall (fun z => z = 0) (repeat 0 n).
Proof. induction n; cbn; constructor; auto. Qed.

Section Two.
Variable lat : lattice.
Hypothesis Hwf : wf lat.

Definition two_ops (u1 u2 dx0 : Z) (dxr : list Z) : list op :=
  [(0, repeat 0 (length (Lr lat)), u1); (dx0, dxr, u2)].

Lemma two_ops_coupled u1 u2 dx0 dxr i j :
  multi_coupled lat (two_ops u1 u2 dx0 dxr) [i; j] <-> coupled lat u1 u2 dx0 dxr i j.
Proof.
  unfold multi_coupled, two_ops, coupled. split.
  - intros (b0 & br & HF & Hm).
    inversion HF as [|? ? ? ? H1 HF']; subst. inversion HF' as [|? ? ? ? H2 HF'']; subst.
    inversion HF''; subst. clear HF HF' HF''.
    cbn [op_at] in H1, H2.
    destruct H1 as (x0 & xr & Hi & (tot1 & k1 & Hr1 & He1 & Hk1)).
    destruct H2 as (y0 & yr & Hj & (tot2 & k2 & Hr2 & He2 & Hk2)).
    exists x0, xr, y0, yr. split; [exact Hi|]. split; [exact Hj|]. split.
    + exists (tot2 - tot1), (k2 - k1). split; [|split].
      * eapply conn_rest_compose; eauto. apply repeat_zero_Forall.
      * lia.
      * intros Ho. specialize (Hk1 Ho). specialize (Hk2 Ho). lia.
    + exact Hm.
  - intros (x0 & xr & y0 & yr & Hi & Hj & Hc & Hm).
    exists x0, xr. split; [|exact Hm].
    constructor; [|constructor; [|constructor]].
    + cbn [op_at]. exists x0, xr. split; [exact Hi|].
      destruct Hc as (tot & k0 & Hr & _ & _). destruct (conn_rest_lengths _ _ _ _ _ _ _ Hr) as [Lo Ls].
      exists 0, 0. split; [|split; [lia|reflexivity]].
      apply conn_rest_refl; [|exact Lo|exact Ls]. eapply mps2lat_rest_in_box; eauto.
    + cbn [op_at]. exists y0, yr. split; [exact Hj|exact Hc].
Qed.

(* the executable side: same pairs from possible_multi_couplings and possible_couplings *)
Lemma two_ops_pairs u1 u2 dx0 dxr :
  0 <= u1 < Lu lat -> 0 <= u2 < Lu lat -> length dxr = length (Lr lat) ->
  (open0 lat = true -> Forall (fun s => s = 0) (shiftr lat)) ->
  forall i j, In [i; j] (multi_ijkl lat (two_ops u1 u2 dx0 dxr)) <->
              In (i, j) (coupling_pairs lat u1 u2 dx0 dxr).
Proof.
  intros Hu1 Hu2 Hl Hsh i j.
  assert (Hops : ops_wf lat (two_ops u1 u2 dx0 dxr)).
  { split; [discriminate|]. unfold two_ops. repeat constructor; cbn; try lia. now rewrite repeat_length. }
  destruct (multi_couplings_exact lat Hwf _ Hops Hsh) as [_ HA].
  destruct (couplings_exact lat Hwf u1 u2 dx0 dxr Hu2 (fun Ho => or_introl (Hsh Ho))) as [_ HB].
  rewrite HA, HB. apply two_ops_coupled.
Qed.

End Two.

Lemma two_operator_multi_coupling : forall lat, wf lat -> forall u1 u2 dx0 dxr,
  0 <= u1 < Lu lat -> 0 <= u2 < Lu lat -> length dxr = length (Lr lat) ->
  (open0 lat = true -> Forall (fun s => s = 0) (shiftr lat)) ->
  let ops : list op := [(0, repeat 0 (length (Lr lat)), u1); (dx0, dxr, u2)] in
  (forall i j, multi_coupled lat ops [i; j] <-> coupled lat u1 u2 dx0 dxr i j) /\
  (forall i j, In [i; j] (multi_ijkl lat ops) <-> In (i, j) (coupling_pairs lat u1 u2 dx0 dxr)).
Proof.
  intros lat Hwf u1 u2 dx0 dxr Hu1 Hu2 Hl Hsh. cbv zeta. split.
  - intros i j. apply (two_ops_coupled lat Hwf).
  - now apply (two_ops_pairs lat Hwf).
Qed.
