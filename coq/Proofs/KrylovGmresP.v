(* Lemmas about Model/KrylovGmres.v (restart bookkeeping of GMRES.run / GMRES.reset, property C16). *)
From TenpyV Require Import Base.Prelude Model.Truncate Model.Krylov Model.KrylovGmres.

(* ---- the inner loop stops at the first step k >= N_min whose estimate is below the tolerance, else after n steps *)
Lemma gm_inner_spec : forall N_min n k fl K cv, gm_inner N_min k n fl = (K, cv) ->
  (cv = true -> (k < K)%nat /\ (K <= k + n)%nat /\ gm_hit N_min fl (K - 1) = true /\
                (forall j, (k <= j)%nat -> (j < K - 1)%nat -> gm_hit N_min fl j = false)) /\
  (cv = false -> K = (k + n)%nat /\ (forall j, (k <= j)%nat -> (j < K)%nat -> gm_hit N_min fl j = false)).
Proof.
  intros N_min n. induction n as [|n IH]; intros k fl K cv H; cbn [gm_inner] in H.
  - inversion H; subst. split; intros E; [discriminate|]. split; [lia|]. intros j H1 H2. lia.
  - destruct (gm_hit N_min fl k) eqn:Eh.
    + inversion H; subst. split; intros E; [|discriminate].
      replace (S k - 1)%nat with k by lia. split; [lia|]. split; [lia|]. split; [exact Eh|]. intros j H1 H2. lia.
    + apply IH in H. destruct H as [Ht Hf]. split; intros E.
      * destruct (Ht E) as (A1 & A2 & A3 & A4). split; [lia|]. split; [lia|]. split; [exact A3|].
        intros j H1 H2. destruct (Nat.eq_dec j k) as [->|Hne]; [exact Eh|]. apply A4; lia.
      * destruct (Hf E) as (A1 & A2). split; [lia|].
        intros j H1 H2. destruct (Nat.eq_dec j k) as [->|Hne]; [exact Eh|]. apply A2; lia.
Qed.

Lemma gm_hit_iff : forall N_min fl j,
  gm_hit N_min fl j = true <-> (gm_below fl j = true /\ ((N_min <= j)%nat \/ gm_exh fl j = true)).
Proof.
  intros N_min fl j. unfold gm_hit. rewrite andb_true_iff, orb_true_iff, Nat.leb_le. tauto.
Qed.

Lemma gm_stop_rule : forall N_min N_max fl K cv, gm_inner N_min 0 N_max fl = (K, cv) ->
  (cv = true -> (1 <= K <= N_max)%nat /\ gm_below fl (K - 1) = true /\
                ((N_min <= K - 1)%nat \/ gm_exh fl (K - 1) = true) /\
                (forall j, (j < K - 1)%nat ->
                   ~ (gm_below fl j = true /\ ((N_min <= j)%nat \/ gm_exh fl j = true)))) /\
  (cv = false -> K = N_max /\
                 (forall j, (j < N_max)%nat ->
                    ~ (gm_below fl j = true /\ ((N_min <= j)%nat \/ gm_exh fl j = true)))).
Proof.
  intros N_min N_max fl K cv H. apply gm_inner_spec in H. destruct H as [Ht Hf]. split; intros E.
  - destruct (Ht E) as (A1 & A2 & A3 & A4). apply gm_hit_iff in A3. destruct A3 as [A3 A3'].
    split; [lia|]. split; [exact A3|]. split; [exact A3'|].
    intros j Hj Hc. apply gm_hit_iff in Hc. rewrite A4 in Hc; [discriminate|lia|exact Hj].
  - destruct (Hf E) as (A1 & A2). split; [lia|].
    intros j Hj Hc. apply gm_hit_iff in Hc. rewrite A2 in Hc; [discriminate|lia|lia].
Qed.

(* without exhaustion flags the rule is the plain one: first step k >= N_min below the tolerance *)
Lemma gm_stop_rule_no_exhaustion : forall N_min fl k, gm_exh fl k = false ->
  gm_hit N_min fl k = (gm_below fl k && (N_min <=? k)%nat).
Proof. intros N_min fl k H. unfold gm_hit. rewrite H, orb_false_r. reflexivity. Qed.

(* an exhausted step below the tolerance stops the cycle whatever N_min is *)
Lemma gm_exhausted_stops : forall N_min N_max fl k, (k < N_max)%nat ->
  gm_below fl k = true -> gm_exh fl k = true ->
  (fst (gm_inner N_min 0 N_max fl) <= S k)%nat /\ snd (gm_inner N_min 0 N_max fl) = true.
Proof.
  intros N_min N_max fl k Hk Hb He. destruct (gm_inner N_min 0 N_max fl) as [K cv] eqn:E.
  apply gm_inner_spec in E. destruct E as [Ht Hf]. cbn [fst snd].
  assert (Hh : gm_hit N_min fl k = true) by (apply gm_hit_iff; split; [exact Hb|right; exact He]).
  destruct cv.
  - destruct (Ht eq_refl) as (A1 & A2 & A3 & A4). split; [|reflexivity].
    destruct (Nat.le_gt_cases K (S k)) as [Hle|Hgt]; [exact Hle|].
    rewrite A4 in Hh; [discriminate|lia|lia].
  - destruct (Hf eq_refl) as (A1 & A2). rewrite A2 in Hh; [discriminate|lia|lia].
Qed.

(* ---- the cycles *)
Lemma gm_inner_bounds : forall N_min N_max fl, (1 <= N_max)%nat ->
  (1 <= fst (gm_inner N_min 0 N_max fl) <= N_max)%nat /\
  (snd (gm_inner N_min 0 N_max fl) = false -> fst (gm_inner N_min 0 N_max fl) = N_max).
Proof.
  intros N_min N_max fl HN. destruct (gm_inner N_min 0 N_max fl) as [K cv] eqn:E.
  apply gm_inner_spec in E. destruct E as [Ht Hf]. cbn [fst snd]. destruct cv.
  - destruct (Ht eq_refl) as (A1 & A2 & _). split; [lia|discriminate].
  - destruct (Hf eq_refl) as (A1 & _). split; [lia|intros _; lia].
Qed.

Lemma gm_cycles_spec : forall N_min N_max r fls, (1 <= N_max)%nat ->
  let l := gm_cycles N_min N_max r fls in
  (length l <= r)%nat /\
  Forall (fun p => (1 <= fst p <= N_max)%nat) l /\
  (forall i, (S i < length l)%nat -> nth i l (0%nat, true) = (N_max, false)) /\
  ((forall p, In p l -> snd p = false) -> length l = r).
Proof.
  intros N_min N_max r. induction r as [|r IH]; intros fls HN; cbn [gm_cycles]; cbn zeta.
  - split; [cbn; lia|]. split; [constructor|]. split; [intros i Hi; cbn in Hi; lia|]. intros _. reflexivity.
  - set (p := gm_inner N_min 0 N_max (hd [] fls)).
    pose proof (gm_inner_bounds N_min N_max (hd [] fls) HN) as [Hb Hn]. fold p in Hb, Hn.
    destruct (snd p) eqn:Ecv.
    + split; [cbn; lia|]. split; [constructor; [exact Hb|constructor]|].
      split; [intros i Hi; cbn in Hi; lia|].
      intros Hall. specialize (Hall p (or_introl eq_refl)). congruence.
    + specialize (IH (tl fls) HN). cbn zeta in IH. destruct IH as (I1 & I2 & I3 & I4).
      split; [cbn [length]; lia|]. split; [constructor; assumption|]. split.
      * intros i Hi. cbn [length] in Hi. destruct i as [|i]; cbn [nth].
        -- destruct p as [K cv]. cbn [fst snd] in *. subst cv. rewrite (Hn eq_refl). reflexivity.
        -- apply I3. lia.
      * intros Hall. cbn [length]. f_equal. apply I4. intros q Hq. apply Hall. right. exact Hq.
Qed.

(* ---- counting events *)
Lemma count_tag_app : forall t l1 l2, count_tag t (l1 ++ l2) = (count_tag t l1 + count_tag t l2)%nat.
Proof. intros t l1 l2. unfold count_tag. rewrite filter_app, app_length. reflexivity. Qed.

Lemma count_tag_map_same : forall t (f : nat -> ev) l, (forall k, ev_tag (f k) = t) ->
  count_tag t (map f l) = length l.
Proof.
  intros t f l H. unfold count_tag. induction l as [|a l IH]; [reflexivity|].
  cbn [map filter]. rewrite H, Nat.eqb_refl. cbn [length]. f_equal. exact IH.
Qed.

Lemma count_tag_map_other : forall t t' (f : nat -> ev) l, (forall k, ev_tag (f k) = t') -> t' <> t ->
  count_tag t (map f l) = 0%nat.
Proof.
  intros t t' f l H Hne. unfold count_tag. induction l as [|a l IH]; [reflexivity|].
  cbn [map filter]. rewrite H. destruct (t' =? t)%nat eqn:E; [apply Nat.eqb_eq in E; contradiction|exact IH].
Qed.

Lemma count_tag_map : forall t t' (f : nat -> ev) l, (forall k, ev_tag (f k) = t') ->
  count_tag t (map f l) = if (t' =? t)%nat then length l else 0%nat.
Proof.
  intros t t' f l H. destruct (t' =? t)%nat eqn:E.
  - apply Nat.eqb_eq in E. subst t'. apply count_tag_map_same. exact H.
  - apply Nat.eqb_neq in E. apply (count_tag_map_other t t'); assumption.
Qed.

Lemma count_cycle_any : forall t c K,
  count_tag t (gm_cycle_events c K) = ((if (11 =? t)%nat then K else 0) + (if (12 =? t)%nat then K else 0))%nat.
Proof.
  intros t c K. unfold gm_cycle_events. rewrite count_tag_app.
  rewrite (count_tag_map t 11 (fun k => (11, c, k, S k)%nat)) by (intros; reflexivity).
  rewrite (count_tag_map t 12 (fun i => (12, c, i, 0)%nat)) by (intros; reflexivity).
  rewrite seq_length. reflexivity.
Qed.

Lemma count_cycle_events : forall c K,
  count_tag 11 (gm_cycle_events c K) = K /\ count_tag 12 (gm_cycle_events c K) = K /\
  count_tag 10 (gm_cycle_events c K) = 0%nat /\ count_tag 13 (gm_cycle_events c K) = 0%nat /\
  count_tag 14 (gm_cycle_events c K) = 0%nat.
Proof.
  intros c K. rewrite !count_cycle_any. cbn. repeat split; lia.
Qed.

Lemma count_run_events : forall l c,
  count_tag 11 (gm_run_events c l) = sum_nat (map fst l) /\
  count_tag 12 (gm_run_events c l) = sum_nat (map fst l) /\
  count_tag 10 (gm_run_events c l) = gm_resets l /\
  count_tag 13 (gm_run_events c l) = gm_resets l /\
  count_tag 14 (gm_run_events c l) = gm_resets l.
Proof.
  induction l as [|[K cv] t IH]; intros c.
  - cbn. repeat split; reflexivity.
  - cbn [gm_run_events map fst sum_nat fold_right]. rewrite !count_tag_app.
    destruct (count_cycle_events c K) as (C1 & C2 & C3 & C4 & C5).
    destruct (IH (S c)) as (I1 & I2 & I3 & I4 & I5).
    rewrite C1, C2, C3, C4, C5, I1, I2, I3, I4, I5.
    unfold gm_resets. cbn [filter snd]. destruct cv; cbn [negb length]; cbn; repeat split; lia.
Qed.

Lemma gmres_matvec_count : forall N_min N_max restart fls,
  let l := gm_cycles N_min N_max restart fls in
  let evs := gmres_events N_min N_max restart false fls in
  (count_tag 11 evs + count_tag 14 evs + count_tag 15 evs = 2 + sum_nat (map fst l) + gm_resets l)%nat /\
  count_tag 10 evs = S (gm_resets l) /\ count_tag 13 evs = gm_resets l /\
  count_tag 12 evs = sum_nat (map fst l).
Proof.
  intros N_min N_max restart fls l evs. subst evs. unfold gmres_events. fold l.
  change ((14, 0, 0, 0)%nat :: (10, 0, 0, 0)%nat :: gm_run_events 0 l ++ [(15, 0, 0, 0)%nat])
    with ([(14, 0, 0, 0)%nat; (10, 0, 0, 0)%nat] ++ gm_run_events 0 l ++ [(15, 0, 0, 0)%nat]).
  rewrite !count_tag_app.
  destruct (count_run_events l 0) as (I1 & I2 & I3 & I4 & I5).
  rewrite I1, I2, I3, I4, I5.
  assert (E15 : forall c, count_tag 15 (gm_run_events c l) = 0%nat).
  { clear. induction l as [|[K cv] t IH]; intros c; [reflexivity|].
    cbn [gm_run_events]. rewrite !count_tag_app, IH, count_cycle_any. cbn.
    destruct cv; reflexivity. }
  rewrite E15. cbn. repeat split; lia.
Qed.

(* ---- what a (re)start looks like in the trace *)
Lemma fresh_run_events : forall l c, Forall ev_fresh (gm_run_events c l).
Proof.
  induction l as [|[K cv] t IH]; intros c; [constructor|].
  cbn [gm_run_events]. rewrite !Forall_app. repeat split.
  - unfold gm_cycle_events. rewrite Forall_app. split; apply Forall_forall; intros e He;
      apply in_map_iff in He; destruct He as (k & <- & _); cbn; split; intros H; try discriminate; reflexivity.
  - destruct cv; [constructor|]. unfold gm_restart_events.
    repeat constructor; cbn; intros H; try discriminate; reflexivity.
  - apply IH.
Qed.

Lemma gmres_restart_state : forall N_min N_max restart ib fls,
  Forall ev_fresh (gmres_events N_min N_max restart ib fls) /\
  (forall c K t, gm_run_events c ((K, false) :: t) =
     gm_cycle_events c K ++ [(13, c, 0, 0); (14, S c, 0, 0); (10, S c, 0, 0)]%nat ++ gm_run_events (S c) t) /\
  (forall c K, gm_cycle_events c (S K) =
     (11, c, 0, 1)%nat :: map (fun k => (11, c, k, S k)%nat) (seq 1 K) ++ map (fun i => (12, c, i, 0)%nat) (seq 0 (S K))).
Proof.
  intros N_min N_max restart ib fls. split; [|split].
  - unfold gmres_events. constructor; [cbn; split; intros H; try discriminate; reflexivity|].
    constructor; [cbn; split; intros H; try discriminate; reflexivity|].
    destruct ib; [constructor|]. rewrite Forall_app. split; [apply fresh_run_events|].
    repeat constructor; cbn; intros H; discriminate.
  - intros c K t. reflexivity.
  - intros c K. unfold gm_cycle_events. cbn [seq map app]. reflexivity.
Qed.
