(* Lemmas about Model/Labels.v: split_label inverts combine_labels on well-formed (arbitrarily nested) labels;
   conj_label on atomic labels. *)
From TenpyV Require Import Base.Prelude Model.Labels.
From Coq Require Import Ascii.
Open Scope char_scope.

Lemma scan_shift w d d' k : scan w d = Some d' -> scan w (d + k) = Some (d' + k)%nat.
Proof.
  revert d. induction w as [|c w IH]; intros d H; cbn [scan] in *.
  - injection H as <-. reflexivity.
  - destruct (Ascii.eqb c "(").
    + apply (IH (S d)). exact H.
    + destruct (Ascii.eqb c ")").
      * destruct d as [|d0]; [discriminate|]. cbn [Nat.add]. apply IH. exact H.
      * destruct (Ascii.eqb c ".").
        -- destruct d as [|d0]; [discriminate|]. cbn [Nat.add]. apply (IH (S d0)). exact H.
        -- apply IH. exact H.
Qed.

Lemma split_top_skip w rest d d' cur : scan w d = Some d' ->
  split_top (w ++ rest) d cur = split_top rest d' (rev w ++ cur).
Proof.
  revert d cur. induction w as [|c w IH]; intros d cur H; cbn [scan app split_top rev] in *.
  - injection H as <-. reflexivity.
  - rewrite <- app_assoc. cbn [app].
    destruct (Ascii.eqb c "(").
    + apply IH. exact H.
    + destruct (Ascii.eqb c ")").
      * destruct d as [|d0]; [discriminate|]. cbn [pred]. apply IH. exact H.
      * destruct (Ascii.eqb c ".").
        -- destruct d as [|d0]; [discriminate|]. cbn [Nat.eqb andb]. apply IH. exact H.
        -- cbn [andb]. apply IH. exact H.
Qed.

Lemma split_join ls : ls <> [] -> Forall (fun w => scan w 0 = Some 0%nat) ls -> split_top (join ls) 0 [] = ls.
Proof.
  induction ls as [|l t IH]; intros Hne HF; [contradiction|].
  inversion HF as [|x y Hl Ht]; subst.
  destruct t as [|l2 t'].
  - cbn [join]. rewrite <- (app_nil_r l) at 1. rewrite (split_top_skip l [] 0 0 [] Hl).
    cbn [split_top]. rewrite app_nil_r, rev_involutive. reflexivity.
  - change (join (l :: l2 :: t')) with (l ++ "." :: join (l2 :: t')).
    rewrite (split_top_skip l ("." :: join (l2 :: t')) 0 0 [] Hl).
    cbn [split_top]. cbn [Ascii.eqb Bool.eqb andb Nat.eqb].
    rewrite app_nil_r, rev_involutive. f_equal. apply IH; [discriminate|exact Ht].
Qed.

(* split (combine ls) = ls (with '?#' placeholders turned into None), for nested labels of any depth *)
Theorem split_combine ls : ls <> [] -> Forall wf_label ls ->
  split_label (combine_labels ls) (length ls) = Some (map strip_q ls).
Proof.
  intros Hne HF. unfold combine_labels, split_label.
  rewrite rev_unit. unfold is_c. cbn [Ascii.eqb Bool.eqb andb].
  rewrite rev_involutive. rewrite split_join; [|exact Hne|].
  - rewrite Nat.eqb_refl. reflexivity.
  - eapply Forall_impl; [|exact HF]. intros w [H _]. exact H.
Qed.

(* ---- conj_label on atoms *)
Lemma atom_char_spec c : atom_char c = true ->
  Ascii.eqb c "(" = false /\ Ascii.eqb c ")" = false /\ Ascii.eqb c "." = false /\ Ascii.eqb c "*" = false.
Proof.
  unfold atom_char. intros H. apply negb_true_iff in H.
  apply orb_false_iff in H. destruct H as [H H4]. apply orb_false_iff in H. destruct H as [H H3].
  apply orb_false_iff in H. destruct H as [H1 H2]. auto.
Qed.

Definition plain_char (c : ascii) : bool := negb (Ascii.eqb c "." || Ascii.eqb c ")").

Lemma star_atoms_plain p s : forallb plain_char s = true -> star_atoms p s = s.
Proof.
  revert p. induction s as [|c s IH]; intros p H; [reflexivity|].
  cbn [forallb] in H. apply andb_true_iff in H. destruct H as [H1 H2].
  cbn [star_atoms]. unfold plain_char in H1. apply negb_true_iff in H1. rewrite H1. cbn [andb].
  rewrite IH by exact H2. reflexivity.
Qed.

Lemma last_plain (s : list ascii) d : s <> [] -> forallb plain_char s = true -> Ascii.eqb (last s d) ")" = false.
Proof.
  induction s as [|c s IH]; intros Hne H; [contradiction|].
  cbn [forallb] in H. apply andb_true_iff in H. destruct H as [H1 H2].
  destruct s as [|c2 s'].
  - cbn [last]. unfold plain_char in H1. apply negb_true_iff in H1. apply orb_false_iff in H1. tauto.
  - change (last (c :: c2 :: s') d) with (last (c2 :: s') d). apply IH; [discriminate|exact H2].
Qed.

Lemma rm_fuel_nil n : rm_dstar_fuel n [] = [].
Proof. destruct n; reflexivity. Qed.

Lemma rm_dstar_atoms_star n a : forallb atom_char a = true -> (length a + 1 <= n)%nat ->
  rm_dstar_fuel n (a ++ ["*"]) = a ++ ["*"].
Proof.
  revert n. induction a as [|c a IH]; intros n H Hn.
  - cbn [app]. destruct n; reflexivity.
  - cbn [forallb] in H. apply andb_true_iff in H. destruct H as [H1 H2].
    destruct (atom_char_spec c H1) as [_ [_ [_ Hs]]].
    destruct n as [|n]; [cbn in Hn; lia|]. cbn [length] in Hn.
    cbn [app rm_dstar_fuel].
    destruct (a ++ ["*"]) as [|d r] eqn:E; [destruct a; discriminate|].
    unfold is_c. rewrite Hs. cbn [andb]. rewrite IH; [reflexivity|exact H2|lia].
Qed.

Lemma rm_dstar_atoms_2star n a : forallb atom_char a = true -> (length a + 2 <= n)%nat ->
  rm_dstar_fuel n (a ++ ["*"; "*"]) = a.
Proof.
  revert n. induction a as [|c a IH]; intros n H Hn.
  - cbn [app]. destruct n as [|n]; [cbn in Hn; lia|]. cbn [rm_dstar_fuel]. unfold is_c. cbn [Ascii.eqb Bool.eqb andb].
    apply rm_fuel_nil.
  - cbn [forallb] in H. apply andb_true_iff in H. destruct H as [H1 H2].
    destruct (atom_char_spec c H1) as [_ [_ [_ Hs]]].
    destruct n as [|n]; [cbn in Hn; lia|]. cbn [length] in Hn.
    cbn [app rm_dstar_fuel].
    destruct (a ++ ["*"; "*"]) as [|d r] eqn:E; [destruct a; discriminate|].
    unfold is_c. rewrite Hs. cbn [andb]. rewrite IH; [reflexivity|exact H2|lia].
Qed.

Lemma atoms_plain a : forallb atom_char a = true -> forallb plain_char a = true.
Proof.
  induction a as [|c a IH]; intros H; [reflexivity|].
  cbn [forallb] in *. apply andb_true_iff in H. destruct H as [H1 H2].
  destruct (atom_char_spec c H1) as [_ [Hb [Hc _]]]. unfold plain_char. rewrite Hb, Hc. cbn. apply IH. exact H2.
Qed.

(* 'a' -> 'a*' and 'a*' -> 'a' for atomic labels a of any length *)
Theorem conj_label_atom a : a <> [] -> forallb atom_char a = true ->
  conj_label a = a ++ ["*"] /\ conj_label (a ++ ["*"]) = a.
Proof.
  intros Hne Ha. pose proof (atoms_plain a Ha) as Hp. split.
  - destruct a as [|c r]; [contradiction|]. unfold conj_label.
    cbn [forallb] in Hp. pose proof Hp as Hp'. apply andb_true_iff in Hp'. destruct Hp' as [_ Hr].
    rewrite (star_atoms_plain c r Hr).
    rewrite (last_plain (c :: r) " " ltac:(discriminate) Hp).
    unfold rm_dstar. apply rm_dstar_atoms_star; [exact Ha|]. rewrite app_length. cbn. lia.
  - destruct a as [|c r]; [contradiction|]. cbn [app]. unfold conj_label.
    assert (Hp2 : forallb plain_char (r ++ ["*"]) = true).
    { cbn [forallb] in Hp. apply andb_true_iff in Hp. destruct Hp as [_ Hr].
      rewrite forallb_app, Hr. reflexivity. }
    rewrite (star_atoms_plain c (r ++ ["*"]) Hp2).
    assert (Hp3 : forallb plain_char (c :: r ++ ["*"]) = true).
    { cbn [forallb] in *. apply andb_true_iff in Hp. destruct Hp as [Hc _]. rewrite Hc, Hp2. reflexivity. }
    rewrite (last_plain (c :: r ++ ["*"]) " " ltac:(discriminate) Hp3).
    unfold rm_dstar. change ((c :: r ++ ["*"]) ++ ["*"]) with (c :: (r ++ ["*"]) ++ ["*"]).
    rewrite <- app_assoc. cbn [app]. change (c :: r ++ ["*"; "*"]) with ((c :: r) ++ ["*"; "*"]).
    apply rm_dstar_atoms_2star; [exact Ha|]. rewrite app_length. cbn. lia.
Qed.
