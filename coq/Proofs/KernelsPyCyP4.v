(* Proofs about _sliced_copy (Model/KernelsPyCy3.v, part (a)). *)
From TenpyV Require Import Base.Prelude Model.KernelsPyCy3.

Lemma fold_left_ext_in {A B} (f g : A -> B -> A) : forall l a,
  (forall a x, In x l -> f a x = g a x) -> fold_left f l a = fold_left g l a.
Proof.
  induction l as [|x l IH]; intros a H; cbn [fold_left]; [reflexivity|].
  rewrite (H a x (or_introl eq_refl)). apply IH. intros a' y Hy. apply H. right. exact Hy.
Qed.

Lemma fold_left_flat_map {A B C} (f : A -> B -> A) (g : C -> list B) : forall l a,
  fold_left f (flat_map g l) a = fold_left (fun a x => fold_left f (g x) a) l a.
Proof.
  induction l as [|x l IH]; intros a; cbn [flat_map fold_left]; [reflexivity|].
  rewrite fold_left_app. apply IH.
Qed.

Lemma fold_left_map {A B C} (f : A -> B -> A) (g : C -> B) : forall l a,
  fold_left f (map g l) a = fold_left (fun a x => f a (g x)) l a.
Proof. induction l as [|x l IH]; intros a; cbn [map fold_left]; [reflexivity|]. apply IH. Qed.

Section P.
  Context {A : Type}.
  Variable dflt : A.
  Variable src : list A.

  Lemma ref_nil ds ss doff soff d :
    ref_copy dflt src [] ds ss doff soff d = cp dflt src d (doff + 0) (soff + 0).
  Proof. unfold ref_copy. cbn [ngrid fold_left]. destruct ds, ss; reflexivity. Qed.

  Lemma ref_cons n t d0 ds s0 ss doff soff dest :
    ref_copy dflt src (n :: t) (d0 :: ds) (s0 :: ss) doff soff dest
    = fold_left (fun d i => ref_copy dflt src t ds ss (doff + i * d0) (soff + i * s0) d) (seq 0 n) dest.
  Proof.
    unfold ref_copy. cbn [ngrid]. rewrite fold_left_flat_map. apply fold_left_ext_in. intros a i _.
    rewrite fold_left_map. apply fold_left_ext_in. intros a' k _. cbn [dotN]. f_equal; lia.
  Qed.

  Lemma memcpy_ref1 l d0 s0 doff soff d :
    (d0 = 1 /\ s0 = 1) \/ l <= 1 ->
    memcpy dflt src d doff soff l = ref_copy dflt src [l] [d0] [s0] doff soff d.
  Proof.
    intros H. rewrite ref_cons. unfold memcpy. apply fold_left_ext_in. intros a i Hi. apply in_seq in Hi.
    rewrite ref_nil. destruct H as [[-> ->]|H].
    - f_equal; lia.
    - assert (i = 0) by lia. subst i. f_equal; lia.
  Qed.

  Lemma ssc_4plus l0 l1 l2 r0 rest d0 d1 d2 ds s0 s1 s2 ss doff soff dest :
    ssc dflt src (l0 :: l1 :: l2 :: r0 :: rest) (d0 :: d1 :: d2 :: ds) (s0 :: s1 :: s2 :: ss) doff soff dest
    = fold_left (fun d i =>
        fold_left (fun d j =>
          fold_left (fun d k =>
            ssc dflt src (r0 :: rest) ds ss
                (doff + (i * d0 + j * d1 + k * d2)) (soff + (i * s0 + j * s1 + k * s2)) d)
            (seq 0 l2) d)
          (seq 0 l1) d)
        (seq 0 l0) dest.
  Proof. reflexivity. Qed.

  Lemma ssc_ref : forall n shape dstr sstr doff soff dest,
    length shape <= n -> shape <> [] -> length dstr = length shape -> length sstr = length shape ->
    last_ok shape dstr sstr ->
    ssc dflt src shape dstr sstr doff soff dest = ref_copy dflt src shape dstr sstr doff soff dest.
  Proof.
    induction n as [|n IH]; intros shape dstr sstr doff soff dest Hn Hne Hd Hs Hok.
    - destruct shape; [contradiction|cbn [length] in Hn; lia].
    - destruct shape as [|l0 [|l1 [|l2 rest]]]; [contradiction| | |].
      + destruct dstr as [|d0 [|? ?]]; cbn [length] in Hd; try lia.
        destruct sstr as [|s0 [|? ?]]; cbn [length] in Hs; try lia.
        cbn [ssc]. apply memcpy_ref1. exact Hok.
      + destruct dstr as [|d0 [|d1 [|? ?]]]; cbn [length] in Hd; try lia.
        destruct sstr as [|s0 [|s1 [|? ?]]]; cbn [length] in Hs; try lia.
        cbn [ssc nth]. rewrite ref_cons. apply fold_left_ext_in. intros a i _.
        apply memcpy_ref1. exact Hok.
      + destruct rest as [|r0 rest].
        * destruct dstr as [|d0 [|d1 [|d2 [|? ?]]]]; cbn [length] in Hd; try lia.
          destruct sstr as [|s0 [|s1 [|s2 [|? ?]]]]; cbn [length] in Hs; try lia.
          cbn [ssc nth]. rewrite ref_cons. apply fold_left_ext_in. intros a i _.
          rewrite ref_cons. apply fold_left_ext_in. intros a' j _.
          rewrite (memcpy_ref1 l2 d2 s2) by exact Hok. f_equal; lia.
        * destruct dstr as [|d0 [|d1 [|d2 ds]]]; cbn [length] in Hd; try lia.
          destruct sstr as [|s0 [|s1 [|s2 ss]]]; cbn [length] in Hs; try lia.
          rewrite ssc_4plus. rewrite ref_cons. apply fold_left_ext_in. intros a i _.
          rewrite ref_cons. apply fold_left_ext_in. intros a' j _.
          rewrite ref_cons. apply fold_left_ext_in. intros a'' k _.
          rewrite IH; [f_equal; lia| | | | |exact Hok]; cbn [length] in *; try lia. discriminate.
  Qed.

  Lemma ngrid_length : forall shape k, In k (ngrid shape) -> length k = length shape.
  Proof.
    induction shape as [|n t IH]; intros k Hk; cbn [ngrid] in Hk.
    - destruct Hk as [<-|[]]. reflexivity.
    - apply in_flat_map in Hk. destruct Hk as (i & _ & Hk). apply in_map_iff in Hk.
      destruct Hk as (k' & <- & Hk'). cbn [length]. f_equal. apply IH. exact Hk'.
  Qed.

  Lemma dotN_addN : forall s a b, length a = length s -> length b = length s ->
    dotN s (addN a b) = dotN s a + dotN s b.
  Proof.
    induction s as [|x s IH]; intros [|y a] [|z b] Ha Hb; cbn [length] in *; try lia; cbn [addN dotN]; [reflexivity|].
    rewrite IH by lia. rewrite Nat.mul_add_distr_r. lia.
  Qed.

  Lemma sliced_copy_py_ref dest dstr dbeg sstr sbeg shape :
    length dstr = length shape -> length sstr = length shape ->
    length dbeg = length shape -> length sbeg = length shape ->
    sliced_copy_py dflt src dest dstr dbeg sstr sbeg shape
    = ref_copy dflt src shape dstr sstr (dotN dstr dbeg) (dotN sstr sbeg) dest.
  Proof.
    intros H1 H2 H3 H4. unfold sliced_copy_py, ref_copy. apply fold_left_ext_in. intros a k Hk.
    apply ngrid_length in Hk. rewrite !dotN_addN by lia. reflexivity.
  Qed.

  Lemma sliced_copy_eq dest dstr dbeg sstr sbeg shape :
    shape <> [] ->
    length dstr = length shape -> length sstr = length shape ->
    length dbeg = length shape -> length sbeg = length shape ->
    last_ok shape dstr sstr ->
    sliced_copy_cy dflt src dest dstr dbeg sstr sbeg shape = sliced_copy_py dflt src dest dstr dbeg sstr sbeg shape.
  Proof.
    intros Hne H1 H2 H3 H4 Hok. rewrite sliced_copy_py_ref by assumption. unfold sliced_copy_cy.
    apply (ssc_ref (length shape)); auto.
  Qed.
End P.

(* C-contiguous arrays satisfy the stride hypothesis *)
Lemma last_ok_cstrides : forall shape dshape sshape,
  length dshape = length shape -> length sshape = length shape ->
  last_ok shape (cstrides dshape) (cstrides sshape).
Proof.
  induction shape as [|l t IH]; intros [|d dt] [|s st] Hd Hs; cbn [length] in *; try lia; cbn [cstrides]; [exact I|].
  destruct t as [|l' t'].
  - destruct dt; cbn [length] in Hd; try lia. destruct st; cbn [length] in Hs; try lia.
    cbn. left. split; reflexivity.
  - specialize (IH dt st). destruct dt as [|d' dt']; cbn [length] in Hd; try lia.
    destruct st as [|s' st']; cbn [length] in Hs; try lia.
    cbn [last_ok cstrides] in *. apply IH; cbn [length]; lia.
Qed.

Lemma cstrides_length : forall shape, length (cstrides shape) = length shape.
Proof. induction shape as [|n t IH]; cbn [cstrides length]; [reflexivity|]. rewrite IH. reflexivity. Qed.

Lemma sliced_copy_eq_contiguous {A} (dflt : A) src dest dshape sshape dbeg sbeg shape :
  shape <> [] ->
  length dshape = length shape -> length sshape = length shape ->
  length dbeg = length shape -> length sbeg = length shape ->
  sliced_copy_cy dflt src dest (cstrides dshape) dbeg (cstrides sshape) sbeg shape
  = sliced_copy_py dflt src dest (cstrides dshape) dbeg (cstrides sshape) sbeg shape.
Proof.
  intros Hne H1 H2 H3 H4. apply sliced_copy_eq; try assumption; try (rewrite cstrides_length; assumption).
  apply last_ok_cstrides; assumption.
Qed.

(* for a 0-dimensional array the two differ: numpy copies the single element, the compiled code returns at
   `if ndim < 1` (reproduced on the code: charges._sliced_copy(np.array(1.), [], np.array(7.), [], []) sets
   dest to 7. with TENPY_NO_CYTHON=1 and leaves 1. with the extension) *)
Lemma sliced_copy_rank0_differs :
  exists (src dest : list Z),
    sliced_copy_cy 0%Z src dest [] [] [] [] [] <> sliced_copy_py 0%Z src dest [] [] [] [] [].
Proof. exists [7%Z], [1%Z]. vm_compute. discriminate. Qed.
