(* C12: every configuration of the regenerated table Gen/G_sites.v passes the checks of Model/SiteTab.v (finite domain:
   the bound "In c all_configs" is in the statements; proved by computation + forallb_forall), and the entrywise
   Prop-level reading of the boolean checks. *)
From TenpyV Require Import Base.Prelude Model.SiteTab Gen.G_sites.
From Coq Require Import String.
Open Scope Z_scope.

Lemma all_wf : forallb check_wf all_configs = true.
Proof. vm_compute. reflexivity. Qed.
Lemma all_perm : forallb (check_perm all_configs) all_configs = true.
Proof. vm_compute. reflexivity. Qed.
Lemma all_hc : forallb check_hc all_configs = true.
Proof. vm_compute. reflexivity. Qed.
Lemma all_charges : forallb check_charges all_configs = true.
Proof. vm_compute. reflexivity. Qed.
Lemma all_jw : forallb check_jw all_configs = true.
Proof. vm_compute. reflexivity. Qed.
Lemma all_algebra : forallb check_algebra all_configs = true.
Proof. vm_compute. reflexivity. Qed.

Lemma wf_in c : In c all_configs -> check_wf c = true.
Proof. exact (proj1 (forallb_forall _ _) all_wf c). Qed.
Lemma perm_in c : In c all_configs -> check_perm all_configs c = true.
Proof. exact (proj1 (forallb_forall _ _) all_perm c). Qed.
Lemma hc_in c : In c all_configs -> check_hc c = true.
Proof. exact (proj1 (forallb_forall _ _) all_hc c). Qed.
Lemma charges_in c : In c all_configs -> check_charges c = true.
Proof. exact (proj1 (forallb_forall _ _) all_charges c). Qed.
Lemma jw_in c : In c all_configs -> check_jw c = true.
Proof. exact (proj1 (forallb_forall _ _) all_jw c). Qed.
Lemma algebra_in c : In c all_configs -> check_algebra c = true.
Proof. exact (proj1 (forallb_forall _ _) all_algebra c). Qed.

Lemma coverage :
  6 <= count_class all_configs "SpinHalfSite" /\ 24 <= count_class all_configs "SpinSite" /\
  9 <= count_class all_configs "FermionSite" /\ 18 <= count_class all_configs "SpinHalfFermionSite" /\
  18 <= count_class all_configs "SpinHalfHoleSite" /\ 32 <= count_class all_configs "BosonSite" /\
  8 <= count_class all_configs "ClockSite".
Proof. vm_compute. repeat split; discriminate. Qed.

(* ---------- Prop-level reading ---------- *)
Lemma entry_eqb_eq x y : entry_eqb x y = true -> x = y.
Proof.
  destruct x as [[[a b] c] d], y as [[[a' b'] c'] d']. unfold entry_eqb, e_r, e_c, e_a, e_b. cbn [fst snd].
  intros H. apply andb_prop in H. destruct H as [H Hd]. apply andb_prop in H. destruct H as [H Hc].
  apply andb_prop in H. destruct H as [Ha Hb].
  apply Z.eqb_eq in Ha. apply Z.eqb_eq in Hb. apply Z.eqb_eq in Hc. apply Z.eqb_eq in Hd. subst. reflexivity.
Qed.

Lemma ents_eqb_eq l1 : forall l2, ents_eqb l1 l2 = true -> l1 = l2.
Proof.
  induction l1 as [|x t IH]; intros [|y t2] H; cbn [ents_eqb] in H; try discriminate; [reflexivity|].
  apply andb_prop in H. destruct H as [H1 H2]. f_equal; [apply entry_eqb_eq; exact H1 | apply IH; exact H2].
Qed.

(* the conserved-basis table is the reference (conserve=None) table conjugated with Site.perm *)
Lemma same_operator c o : In c all_configs -> In o (c_ops c) ->
  exists c0 o0, find_ref all_configs (c_key c) = Some c0 /\ find_op (c_ops c0) (o_name o) = Some o0 /\
                o_kind o = o_kind o0 /\ sort_ents (map (map_perm (c_perm c)) (o_ent o)) = o_ent o0.
Proof.
  intros Hc Ho. pose proof (perm_in c Hc) as H. unfold check_perm in H.
  destruct (find_ref all_configs (c_key c)) as [c0|]; [|discriminate].
  repeat (apply andb_prop in H; destruct H as [H ?]).
  match goal with HH : forallb (op_matches_ref c c0) (c_ops c) = true |- _ => pose proof (proj1 (forallb_forall _ _) HH o Ho) as Hm end.
  unfold op_matches_ref in Hm. destruct (find_op (c_ops c0) (o_name o)) as [o0|] eqn:Ef; [|discriminate].
  apply andb_prop in Hm. destruct Hm as [Hk He].
  exists c0, o0. split; [reflexivity|]. split; [exact Ef|]. split; [apply Z.eqb_eq; exact Hk | apply ents_eqb_eq; exact He].
Qed.

Lemma charge_ok_spec m x : charge_ok m x = true -> (m = 1 -> x = 0) /\ (m <> 1 -> x mod m = 0).
Proof. unfold charge_ok. destruct (m =? 1) eqn:E; intros H; split; intros; lia. Qed.

Lemma charges_ok3_nth ms : forall qr qc qt, charges_ok3 ms qr qc qt = true ->
  forall n, (n < List.length ms)%nat -> charge_ok (nth n ms 1) (nth n qr 0 - nth n qc 0 - nth n qt 0) = true.
Proof.
  induction ms as [|m ms IH]; intros qr qc qt H n Hn; [cbn in Hn; lia|].
  destruct qr as [|a qr], qc as [|b qc], qt as [|t qt]; cbn [charges_ok3] in H; try discriminate.
  apply andb_prop in H. destruct H as [H1 H2].
  destruct n as [|n]; cbn [nth]; [exact H1|]. apply IH; [exact H2 | cbn [List.length] in Hn; lia].
Qed.

(* every non-zero entry (r, c) of every operator:  charge(r) - charge(c) = qtotal(op)  (mod the charge's modulus) *)
Lemma charges_consistent c o e n : In c all_configs -> In o (c_ops c) -> In e (o_ent o) -> (n < List.length (c_mod c))%nat ->
  let x := nth n (nthL (c_charges c) (e_r e)) 0 - nth n (nthL (c_charges c) (e_c e)) 0 - nth n (o_qtotal o) 0 in
  let m := nth n (c_mod c) 1 in
  (m = 1 -> x = 0) /\ (m <> 1 -> x mod m = 0).
Proof.
  intros Hc Ho He Hn. pose proof (charges_in c Hc) as H. unfold check_charges in H.
  pose proof (proj1 (forallb_forall _ _) H o Ho) as H1. cbn beta in H1.
  pose proof (proj1 (forallb_forall _ _) H1 e He) as H2. unfold entry_charge_ok in H2.
  apply charge_ok_spec. apply charges_ok3_nth; assumption.
Qed.

(* operators flagged need_JW are sign operators or anticommute with JW = diag((-1)^JW_exponent); all others commute *)
Lemma jw_flags c o e : In c all_configs -> In o (c_ops c) -> In e (o_ent o) ->
  (mem_str (o_name o) (c_needjw c) = false -> nthZ (c_jwexp c) (e_r e) = nthZ (c_jwexp c) (e_c e)) /\
  (mem_str (o_name o) (c_needjw c) = true -> is_diag o = false ->
     nthZ (c_jwexp c) (e_r e) <> nthZ (c_jwexp c) (e_c e)).
Proof.
  intros Hc Ho He. pose proof (jw_in c Hc) as H. unfold check_jw in H.
  apply andb_prop in H. destruct H as [_ H].
  pose proof (proj1 (forallb_forall _ _) H o Ho) as H1. unfold op_jw_ok in H1.
  split.
  - intros Hm. rewrite Hm in H1. pose proof (proj1 (forallb_forall _ _) H1 e He) as H2. cbn beta in H2. lia.
  - intros Hm Hd. rewrite Hm, Hd in H1. cbn [andb orb] in H1.
    pose proof (proj1 (forallb_forall _ _) H1 e He) as H2. cbn beta in H2. lia.
Qed.
