(* Proofs about Model/Krylov2.v (property C16): accesses to the tridiagonal matrix h, E_shift. *)
From TenpyV Require Import Base.Prelude Model.Truncate Model.Krylov Proofs.KrylovP Model.Krylov2.

(* ------------------------------------------------------------------ projections *)
Lemma h_writes_app a b : h_writes (a ++ b) = h_writes a ++ h_writes b.
Proof. apply flat_map_app. Qed.
Lemma h_erase_app a b : h_erase (a ++ b) = h_erase a ++ h_erase b.
Proof. apply flat_map_app. Qed.
Lemma h_only_app a b : h_only (a ++ b) = h_only a ++ h_only b.
Proof. apply filter_app. Qed.

Lemma h_writes_HO {A} (f : A -> ev) l : h_writes (map (fun t => HO (f t)) l) = [].
Proof. induction l as [|x l IH]; [reflexivity|exact IH]. Qed.
Lemma h_erase_HO {A} (f : A -> ev) l : h_erase (map (fun t => HO (f t)) l) = map f l.
Proof. induction l as [|x l IH]; [reflexivity|]. cbn. f_equal. exact IH. Qed.
Lemma h_only_HO {A} (f : A -> ev) l : h_only (map (fun t => HO (f t)) l) = [].
Proof. induction l as [|x l IH]; [reflexivity|exact IH]. Qed.

Lemma map_HO_eta l : map HO l = map (fun t => HO ((fun e : ev => e) t)) l.
Proof. reflexivity. Qed.

Lemma h_writes_conv cv k : h_writes (conv_read cv k) = [].
Proof. unfold conv_read. destruct (nth k cv false); reflexivity. Qed.
Lemma h_erase_conv cv k : h_erase (conv_read cv k) = [].
Proof. unfold conv_read. destruct (nth k cv false); reflexivity. Qed.
Lemma h_only_conv cv k : h_only (conv_read cv k) = conv_read cv k.
Proof. unfold conv_read. destruct (nth k cv false); reflexivity. Qed.
Lemma h_erase_kr k : h_erase [krylov_read k] = [].
Proof. destruct k; reflexivity. Qed.
Lemma h_writes_kr k : h_writes [krylov_read k] = [].
Proof. destruct k; reflexivity. Qed.
Lemma h_only_kr k : h_only [krylov_read k] = [krylov_read k].
Proof. destruct k; reflexivity. Qed.

(* ---- erasing the accesses to h gives exactly the (correspondence-checked) event list of Model/Krylov.v *)
Lemma build_loop_h_erase nc re cv n : forall k c,
  h_erase (build_loop_h nc re cv k n c) = build_loop nc re k n c.
Proof.
  induction n as [|n IH]; intros k c; [reflexivity|].
  cbn [build_loop_h build_loop].
  change ([HO (0, k, 0, 0)%nat; HO (1, k, length (to_cache nc c k), hd 0 (to_cache nc c k))%nat; HO (2, k, 0, 0)%nat;
           HW k k (Alpha k); krylov_read k] ++ ?x)
    with ([HO (0, k, 0, 0)%nat; HO (1, k, length (to_cache nc c k), hd 0 (to_cache nc c k))%nat; HO (2, k, 0, 0)%nat;
           HW k k (Alpha k)] ++ [krylov_read k] ++ x).
  rewrite !h_erase_app, h_erase_kr, h_erase_conv, IH, map_HO_eta, h_erase_HO, map_id. reflexivity.
Qed.

Lemma rebuild_loop_h_erase nc re n : forall k c,
  h_erase (rebuild_loop_h nc re k n c) = rebuild_loop nc re k n c.
Proof.
  induction n as [|n IH]; intros k c; [reflexivity|].
  cbn [rebuild_loop_h rebuild_loop].
  rewrite !h_erase_app, IH, map_HO_eta, h_erase_HO, map_id. reflexivity.
Qed.

Lemma lanczos_hevents_erase nc re N cv :
  h_erase (lanczos_hevents nc re N cv) = lanczos_events nc re N.
Proof.
  unfold lanczos_hevents, lanczos_events. rewrite h_erase_app, build_loop_h_erase. f_equal.
  destruct (N =? 1)%nat; [reflexivity|].
  unfold result_hevents, result_events.
  change (h_erase (HO (6, 0, 0, 0)%nat :: ?x)) with ((6, 0, 0, 0)%nat :: h_erase x).
  rewrite !h_erase_app, rebuild_loop_h_erase, h_erase_HO. reflexivity.
Qed.

(* one matvec per iteration: the iterations of the h-event list are those of build_loop *)
Lemma build_loop_matvecs nc re n : forall k c,
  filter is_matvec (build_loop nc re k n c) = map (fun k => (2, k, 0, 0)%nat) (seq k n).
Proof.
  induction n as [|n IH]; intros k c; [reflexivity|].
  cbn [build_loop seq map]. rewrite !filter_app, IH.
  assert (Ho : forall c', filter is_matvec (ortho_events re c' k) = []).
  { intros c'. unfold ortho_events. cbn [filter is_matvec Nat.eqb].
    destruct re.
    - induction (removelast c') as [|x l IHl]; [reflexivity|exact IHl].
    - destruct k; reflexivity. }
  rewrite Ho. reflexivity.
Qed.

(* ---- the writes *)
Lemma build_loop_h_writes nc re cv n : forall k c,
  h_writes (build_loop_h nc re cv k n c) = flat_map iter_writes (seq k n).
Proof.
  induction n as [|n IH]; intros k c; [reflexivity|].
  cbn [build_loop_h seq flat_map].
  change ([HO (0, k, 0, 0)%nat; HO (1, k, length (to_cache nc c k), hd 0 (to_cache nc c k))%nat; HO (2, k, 0, 0)%nat;
           HW k k (Alpha k); krylov_read k] ++ ?x)
    with ([HO (0, k, 0, 0)%nat; HO (1, k, length (to_cache nc c k), hd 0 (to_cache nc c k))%nat; HO (2, k, 0, 0)%nat;
           HW k k (Alpha k)] ++ [krylov_read k] ++ x).
  rewrite !h_writes_app, h_writes_kr, h_writes_conv, IH, map_HO_eta, h_writes_HO. reflexivity.
Qed.

Lemma rebuild_loop_h_writes nc re n : forall k c, h_writes (rebuild_loop_h nc re k n c) = [].
Proof.
  induction n as [|n IH]; intros k c; [reflexivity|].
  cbn [rebuild_loop_h]. rewrite !h_writes_app, IH, map_HO_eta, h_writes_HO. reflexivity.
Qed.

Lemma result_hevents_writes nc re N : h_writes (result_hevents nc re N) = [].
Proof.
  unfold result_hevents.
  change (h_writes (HO (6, 0, 0, 0)%nat :: ?x)) with (h_writes x).
  rewrite !h_writes_app, rebuild_loop_h_writes, h_writes_HO. reflexivity.
Qed.

Lemma lanczos_hevents_writes nc re N cv : h_writes (lanczos_hevents nc re N cv) = build_writes N.
Proof.
  unfold lanczos_hevents. rewrite h_writes_app, build_loop_h_writes.
  destruct (N =? 1)%nat; [|rewrite result_hevents_writes]; cbn [h_writes flat_map app]; apply app_nil_r.
Qed.

Lemma build_writes_S k : build_writes (S k) = build_writes k ++ iter_writes k.
Proof. unfold build_writes. rewrite seq_S, flat_map_app. cbn [flat_map Nat.add]. rewrite app_nil_r. reflexivity. Qed.

Lemma in_build_writes N i j v : In (i, j, v) (build_writes N) <->
  exists k, (k < N)%nat /\ ((i = k /\ j = k /\ v = Alpha k) \/ (i = k /\ j = S k /\ v = Beta k) \/ (i = S k /\ j = k /\ v = Beta k)).
Proof.
  unfold build_writes. rewrite in_flat_map. split.
  - intros [k [Hk Hin]]. apply in_seq in Hk. exists k. split; [lia|].
    cbn in Hin. destruct Hin as [H|[H|[H|[]]]]; inversion H; subst; auto.
  - intros [k [Hk H]]. exists k. split; [apply in_seq; lia|].
    cbn. destruct H as [[-> [-> ->]]|[[-> [-> ->]]|[-> [-> ->]]]]; auto.
Qed.

Lemma in_positions N i j : In (i, j) (map wpos (build_writes N)) <->
  (i = j /\ i < N)%nat \/ (j = S i /\ i < N)%nat \/ (i = S j /\ j < N)%nat.
Proof.
  rewrite in_map_iff. split.
  - intros [[[i' j'] v] [Hp Hin]]. cbn in Hp. inversion Hp; subst.
    apply in_build_writes in Hin. destruct Hin as [k [Hk H]]. lia.
  - intros H.
    destruct H as [[-> Hi]|[[-> Hi]|[-> Hj]]].
    + exists (j, j, Alpha j). split; [reflexivity|]. apply in_build_writes. exists j.
      split; [exact Hi|]. left. repeat split.
    + exists (i, S i, Beta i). split; [reflexivity|]. apply in_build_writes. exists i.
      split; [exact Hi|]. right. left. repeat split.
    + exists (S j, j, Beta j). split; [reflexivity|]. apply in_build_writes. exists j.
      split; [exact Hj|]. right. right. repeat split.
Qed.

Lemma nodup_app {A} (a b : list A) :
  NoDup a -> NoDup b -> (forall x, In x a -> In x b -> False) -> NoDup (a ++ b).
Proof.
  induction a as [|x a IH]; intros Ha Hb Hd; [exact Hb|].
  inversion Ha as [|x' a' Hx Ha']; subst. cbn [app]. constructor.
  - rewrite in_app_iff. intros [H|H]; [exact (Hx H)|]. apply (Hd x); [left; reflexivity|exact H].
  - apply IH; [exact Ha'|exact Hb|]. intros y Hy1 Hy2. apply (Hd y); [right; exact Hy1|exact Hy2].
Qed.

Lemma positions_nodup N : NoDup (map wpos (build_writes N)).
Proof.
  induction N as [|N IH]; [constructor|].
  rewrite build_writes_S, map_app. apply nodup_app; [exact IH| |].
  - cbn. repeat constructor; cbn; intros H; repeat (destruct H as [H|H]; [inversion H; lia|]); exact H.
  - intros [i j] H1 H2. apply in_positions in H1. cbn in H2.
    repeat (destruct H2 as [H2|H2]; [inversion H2; subst; lia|]). exact H2.
Qed.

Lemma positions_in_array N nmax i j : (N <= nmax)%nat ->
  In (i, j) (map wpos (build_writes N)) -> (i < S nmax /\ j < S nmax)%nat.
Proof. intros HN H. apply in_positions in H. lia. Qed.

(* ---- content of h after a prefix of the writes *)
Lemma h_find_app a b i j :
  h_find (a ++ b) i j = match h_find b i j with Some u => Some u | None => h_find a i j end.
Proof.
  induction a as [|[[i' j'] v] a IH]; cbn [app h_find].
  - destruct (h_find b i j); reflexivity.
  - rewrite IH. destruct (h_find b i j); reflexivity.
Qed.

Lemma build_writes_find k i j :
  h_find (build_writes k) i j =
  if ((i =? j) && (i <? k))%nat then Some (Alpha i)
  else if ((j =? S i) && (i <? k))%nat then Some (Beta i)
  else if ((i =? S j) && (j <? k))%nat then Some (Beta j)
  else None.
Proof.
  induction k as [|k IH].
  - cbn [build_writes seq flat_map h_find]. rewrite !Nat.ltb_irrefl || idtac.
    replace (i <? 0)%nat with false by (symmetry; apply Nat.ltb_ge; lia).
    replace (j <? 0)%nat with false by (symmetry; apply Nat.ltb_ge; lia).
    rewrite !andb_false_r. reflexivity.
  - rewrite build_writes_S, h_find_app, IH. unfold iter_writes. cbn [h_find].
    destruct (Nat.eqb_spec i j) as [Hij|Hij]; destruct (Nat.eqb_spec j (S i)) as [Hji|Hji];
    destruct (Nat.eqb_spec i (S j)) as [Hisj|Hisj]; try lia;
    destruct (Nat.ltb_spec i k) as [Hik|Hik]; destruct (Nat.ltb_spec j k) as [Hjk|Hjk];
    destruct (Nat.ltb_spec i (S k)) as [Hik'|Hik']; destruct (Nat.ltb_spec j (S k)) as [Hjk'|Hjk']; try lia;
    destruct (Nat.eqb_spec (S k) i) as [H1|H1]; destruct (Nat.eqb_spec k j) as [H2|H2];
    destruct (Nat.eqb_spec k i) as [H3|H3]; destruct (Nat.eqb_spec (S k) j) as [H4|H4]; try lia;
    cbn [andb]; subst; try reflexivity; try lia.
Qed.

Lemma tri_entry_sym i j : tri_entry i j = tri_entry j i.
Proof.
  unfold tri_entry.
  destruct (Nat.eqb_spec i j) as [H|H]; destruct (Nat.eqb_spec j i) as [H'|H']; try lia; [subst; reflexivity|].
  destruct (Nat.eqb_spec j (S i)); destruct (Nat.eqb_spec i (S j)); try lia; reflexivity.
Qed.

(* the block read in iteration k: after h[k,k] = alpha_k, before the beta writes of iteration k *)
Lemma block_lookup k i j : (i <= k)%nat -> (j <= k)%nat ->
  h_lookup (build_writes k ++ [(k, k, Alpha k)]) i j = tri_entry i j.
Proof.
  intros Hi Hj. unfold h_lookup, tri_entry. rewrite h_find_app, build_writes_find. cbn [h_find].
  destruct (Nat.eqb_spec i j) as [Hij|Hij]; destruct (Nat.eqb_spec j (S i)) as [Hji|Hji];
  destruct (Nat.eqb_spec i (S j)) as [Hisj|Hisj]; try lia;
  destruct (Nat.ltb_spec i k) as [Hik|Hik]; destruct (Nat.ltb_spec j k) as [Hjk|Hjk]; try lia;
  destruct (Nat.eqb_spec k i) as [H3|H3]; destruct (Nat.eqb_spec k j) as [H2|H2]; try lia;
  cbn [andb]; subst; try reflexivity; try lia.
Qed.

Lemma full_lookup N i j : (i < N)%nat -> (j <= N)%nat -> (i = j \/ j = S i) ->
  h_lookup (build_writes N) i j = tri_entry i j.
Proof.
  intros Hi Hj Hb. unfold h_lookup, tri_entry. rewrite build_writes_find.
  destruct (Nat.eqb_spec i j) as [Hij|Hij]; destruct (Nat.eqb_spec j (S i)) as [Hji|Hji]; try lia;
  destruct (Nat.ltb_spec i N) as [Hik|Hik]; try lia; cbn [andb]; reflexivity.
Qed.

(* ---- every read sees the values written before it (program order) *)
Fixpoint reads_ok (P : list hwrite -> hev -> Prop) (w : list hwrite) (evs : list hev) : Prop :=
  match evs with
  | [] => True
  | e :: t => P w e /\ reads_ok P (w ++ h_writes [e]) t
  end.

Lemma reads_ok_app P a : forall w b,
  reads_ok P w a -> reads_ok P (w ++ h_writes a) b -> reads_ok P w (a ++ b).
Proof.
  induction a as [|e a IH]; intros w b Ha Hb.
  - cbn [h_writes flat_map] in Hb. rewrite app_nil_r in Hb. exact Hb.
  - cbn [app reads_ok] in *. destruct Ha as [He Ha]. split; [exact He|].
    apply IH; [exact Ha|]. rewrite <- app_assoc, <- h_writes_app. exact Hb.
Qed.

Lemma reads_ok_split P pre : forall w e post,
  reads_ok P w (pre ++ e :: post) -> P (w ++ h_writes pre) e.
Proof.
  induction pre as [|x pre IH]; intros w e post H.
  - cbn [app reads_ok h_writes flat_map] in *. rewrite app_nil_r. exact (proj1 H).
  - cbn [app reads_ok] in H. destruct H as [_ H]. apply IH in H.
    rewrite <- app_assoc, <- h_writes_app in H. exact H.
Qed.

Lemma reads_ok_HO (P : list hwrite -> hev -> Prop) {A} (f : A -> ev) l : forall w,
  (forall w e, P w (HO e)) -> reads_ok P w (map (fun t => HO (f t)) l).
Proof.
  intros w HP. induction l as [|x l IH]; [exact I|].
  cbn [map reads_ok h_writes flat_map app]. rewrite app_nil_r. split; [apply HP|exact IH].
Qed.

(* what a read must see, for a run with N iterations *)
Definition read_sees (N : nat) (w : list hwrite) (e : hev) : Prop :=
  match e with
  | HRB n => (2 <= n <= N)%nat /\ forall i j, (i < n)%nat -> (j < n)%nat -> h_lookup w i j = tri_entry i j
  | HR i j => (i < N)%nat /\ ((i = j /\ h_lookup w i j = Alpha i) \/ (j = S i /\ h_lookup w i j = Beta i))
  | _ => True
  end.

Lemma read_sees_HO N w e : read_sees N w (HO e).
Proof. exact I. Qed.

Lemma tri_diag i : tri_entry i i = Alpha i.
Proof. unfold tri_entry. rewrite Nat.eqb_refl. reflexivity. Qed.
Lemma tri_sup i : tri_entry i (S i) = Beta i.
Proof.
  unfold tri_entry. destruct (Nat.eqb_spec i (S i)); [lia|]. rewrite Nat.eqb_refl. reflexivity.
Qed.

Lemma build_reads_ok N nc re cv n : forall k c, (k + n <= N)%nat ->
  reads_ok (read_sees N) (build_writes k) (build_loop_h nc re cv k n c).
Proof.
  induction n as [|n IH]; intros k c Hk; [exact I|].
  cbn [build_loop_h].
  cbn [app reads_ok h_writes flat_map]. rewrite ?app_nil_r.
  repeat (split; [exact I|]).
  split.
  { (* _calc_result_krylov(k) *)
    destruct k as [|k]; cbn [krylov_read read_sees].
    - split; [lia|]. left. split; [reflexivity|]. rewrite block_lookup by lia. apply tri_diag.
    - split; [lia|]. intros i j Hi Hj. apply block_lookup; lia. }
  assert (Hkr : h_writes [krylov_read k] = []) by apply h_writes_kr.
  cbn [h_writes flat_map] in Hkr. rewrite app_nil_r in Hkr. rewrite Hkr, app_nil_r.
  apply reads_ok_app; [rewrite map_HO_eta; apply reads_ok_HO; exact (read_sees_HO N)|].
  rewrite map_HO_eta, h_writes_HO, app_nil_r.
  cbn [app reads_ok h_writes flat_map]. rewrite ?app_nil_r.
  repeat (split; [exact I|]).
  replace (((build_writes k ++ [(k, k, Alpha k)]) ++ [(k, S k, Beta k)]) ++ [(S k, k, Beta k)])
    with (build_writes (S k)) by (rewrite build_writes_S; unfold iter_writes; rewrite <- !app_assoc; reflexivity).
  apply reads_ok_app.
  - unfold conv_read. destruct (nth k cv false); [|exact I].
    cbn [reads_ok read_sees]. split; [|exact I]. split; [lia|]. right. split; [reflexivity|].
    rewrite full_lookup by lia. apply tri_sup.
  - rewrite h_writes_conv, app_nil_r. apply IH. lia.
Qed.

Lemma rebuild_reads_ok N nc re n : forall k c, (k + n < N)%nat ->
  reads_ok (read_sees N) (build_writes N) (rebuild_loop_h nc re k n c).
Proof.
  induction n as [|n IH]; intros k c Hk; [exact I|].
  cbn [rebuild_loop_h].
  cbn [app reads_ok h_writes flat_map]. rewrite ?app_nil_r.
  repeat (split; [exact I|]).
  split.
  { cbn [read_sees]. split; [lia|]. left. split; [reflexivity|]. rewrite full_lookup by lia. apply tri_diag. }
  apply reads_ok_app; [rewrite map_HO_eta; apply reads_ok_HO; exact (read_sees_HO N)|].
  rewrite map_HO_eta, h_writes_HO, app_nil_r.
  cbn [app reads_ok h_writes flat_map]. rewrite ?app_nil_r.
  split.
  { cbn [read_sees]. split; [lia|]. right. split; [reflexivity|]. rewrite full_lookup by lia. apply tri_sup. }
  repeat (split; [exact I|]).
  apply IH. lia.
Qed.

Lemma lanczos_reads_ok nc re N cv : (1 <= N)%nat ->
  reads_ok (read_sees N) [] (lanczos_hevents nc re N cv).
Proof.
  intros HN. unfold lanczos_hevents. apply reads_ok_app.
  - apply (build_reads_ok N nc re cv N 0 []). lia.
  - rewrite build_loop_h_writes. cbn [app]. fold (build_writes N).
    destruct (Nat.eqb_spec N 1) as [H1|H1].
    + subst N. cbn [reads_ok h_writes flat_map app read_sees]. rewrite ?app_nil_r.
      split; [|split; [|exact I]].
      * split; [lia|]. left. split; [reflexivity|]. rewrite full_lookup by lia. apply tri_diag.
      * split; [lia|]. right. split; [reflexivity|]. rewrite full_lookup by lia. apply tri_sup.
    + unfold result_hevents. cbn [reads_ok h_writes flat_map app]. rewrite app_nil_r.
      split; [exact I|].
      apply reads_ok_app; [apply reads_ok_HO; exact (read_sees_HO N)|].
      rewrite h_writes_HO, app_nil_r.
      apply reads_ok_app; [apply rebuild_reads_ok; lia|].
      cbn [reads_ok]. split; exact I.
Qed.

(* T16_tridiagonal_reads *)
Lemma tridiagonal_reads nc re N cv : (1 <= N)%nat ->
  let evs := lanczos_hevents nc re N cv in
  (forall pre post n, evs = pre ++ HRB n :: post ->
     (2 <= n <= N)%nat /\
     forall i j, (i < n)%nat -> (j < n)%nat ->
       h_lookup (h_writes pre) i j = tri_entry i j /\ tri_entry i j = tri_entry j i) /\
  (forall pre post i j, evs = pre ++ HR i j :: post ->
     (i < N)%nat /\ ((i = j /\ h_lookup (h_writes pre) i j = Alpha i) \/
                     (j = S i /\ h_lookup (h_writes pre) i j = Beta i))).
Proof.
  intros HN evs. pose proof (lanczos_reads_ok nc re N cv HN) as H. fold evs in H. split.
  - intros pre post n E. rewrite E in H. apply reads_ok_split in H. cbn [app read_sees] in H.
    destruct H as [Hn Hl]. split; [exact Hn|]. intros i j Hi Hj. split; [apply Hl; assumption|apply tri_entry_sym].
  - intros pre post i j E. rewrite E in H. apply reads_ok_split in H. exact H.
Qed.

(* T16_tridiagonal_writes *)
Lemma tridiagonal_writes nc re N cv :
  let ws := h_writes (lanczos_hevents nc re N cv) in
  ws = build_writes N /\
  NoDup (map wpos ws) /\
  (forall i j, In (i, j) (map wpos ws) <->
     (i = j /\ i < N)%nat \/ (j = S i /\ i < N)%nat \/ (i = S j /\ j < N)%nat) /\
  (forall i j v, In (i, j, v) ws -> v = tri_entry i j) /\
  (forall nmax i j, (N <= nmax)%nat -> In (i, j) (map wpos ws) -> (i < S nmax /\ j < S nmax)%nat).
Proof.
  intros ws. unfold ws. rewrite lanczos_hevents_writes.
  split; [reflexivity|]. split; [apply positions_nodup|]. split; [apply in_positions|]. split.
  - intros i j v H. apply in_build_writes in H. destruct H as [k [Hk H]].
    destruct H as [[-> [-> ->]]|[[-> [-> ->]]|[-> [-> ->]]]].
    + symmetry. apply tri_diag.
    + symmetry. apply tri_sup.
    + rewrite tri_entry_sym. symmetry. apply tri_sup.
  - intros nmax i j HN H. eapply positions_in_array; eassumption.
Qed.

(* ---- all accesses to h in program order; link to the iterations of build_loop *)
Lemma build_loop_h_only nc re cv n : forall k c,
  h_only (build_loop_h nc re cv k n c) = flat_map (build_h_iter cv) (seq k n).
Proof.
  induction n as [|n IH]; intros k c; [reflexivity|].
  cbn [build_loop_h seq flat_map].
  change ([HO (0, k, 0, 0)%nat; HO (1, k, length (to_cache nc c k), hd 0 (to_cache nc c k))%nat; HO (2, k, 0, 0)%nat;
           HW k k (Alpha k); krylov_read k] ++ ?x)
    with ([HO (0, k, 0, 0)%nat; HO (1, k, length (to_cache nc c k), hd 0 (to_cache nc c k))%nat; HO (2, k, 0, 0)%nat;
           HW k k (Alpha k)] ++ [krylov_read k] ++ x).
  rewrite !h_only_app, h_only_kr, h_only_conv, IH, map_HO_eta, h_only_HO.
  unfold build_h_iter. cbn [h_only filter app]. reflexivity.
Qed.

Lemma rebuild_loop_h_only nc re n : forall k c,
  h_only (rebuild_loop_h nc re k n c) = flat_map rebuild_h_iter (seq k n).
Proof.
  induction n as [|n IH]; intros k c; [reflexivity|].
  cbn [rebuild_loop_h seq flat_map].
  rewrite !h_only_app, IH, map_HO_eta, h_only_HO. reflexivity.
Qed.

Lemma lanczos_h_only nc re N cv : h_only (lanczos_hevents nc re N cv) = h_accesses nc N cv.
Proof.
  unfold lanczos_hevents, h_accesses. rewrite h_only_app, build_loop_h_only. f_equal.
  destruct (N =? 1)%nat; [reflexivity|].
  unfold result_hevents.
  change (h_only (HO (6, 0, 0, 0)%nat :: ?x)) with (h_only x).
  rewrite !h_only_app, rebuild_loop_h_only, h_only_HO. cbn [h_only filter]. rewrite app_nil_r. reflexivity.
Qed.

(* T16_tridiagonal_order *)
Lemma tridiagonal_order nc re N cv :
  h_erase (lanczos_hevents nc re N cv) = lanczos_events nc re N /\
  h_only (lanczos_hevents nc re N cv) = h_accesses nc N cv /\
  filter is_matvec (build_loop nc re 0 N []) = map (fun k => (2, k, 0, 0)%nat) (seq 0 N) /\
  (N - length (cache_after nc N) - 1 <= N - 1)%nat.
Proof.
  split; [apply lanczos_hevents_erase|]. split; [apply lanczos_h_only|].
  split; [apply build_loop_matvecs|lia].
Qed.

(* ------------------------------------------------------------------ E_shift *)
Open Scope Z_scope.

Lemma shift_rq_num s d : forall x, rq_num (map (Z.add s) d) x = rq_num d x + s * rq_den d x.
Proof.
  induction d as [|di d IH]; intros x; [cbn; ring|].
  destruct x as [|xi x]; [cbn; ring|]. cbn [map rq_num rq_den]. rewrite IH. ring.
Qed.

Lemma shift_rq_den s d : forall x, rq_den (map (Z.add s) d) x = rq_den d x.
Proof.
  induction d as [|di d IH]; intros x; [reflexivity|].
  destruct x as [|xi x]; [reflexivity|]. cbn [map rq_den]. rewrite IH. reflexivity.
Qed.

Lemma shift_tri_dot s al : forall be x prev,
  dotZ x (tri_mv prev (map (Z.add s) al) be x) = dotZ x (tri_mv prev al be x) + s * rq_den al x.
Proof.
  induction al as [|a al IH]; intros be x prev; [cbn; destruct x; cbn; ring|].
  destruct x as [|xi x]; [cbn; ring|]. cbn [map tri_mv dotZ rq_den]. rewrite IH. ring.
Qed.

Lemma shift_lanczos_step s d : forall v u a b,
  lanczos_step (map (Z.add s) d) v u (a + s) b = lanczos_step d v u a b.
Proof.
  induction d as [|di d IH]; intros v u a b; [reflexivity|].
  destruct v as [|vi v]; [reflexivity|]. destruct u as [|ui u]; [reflexivity|].
  cbn [map lanczos_step]. rewrite IH. f_equal. ring.
Qed.

(* T16_shift_rayleigh *)
Lemma shift_rayleigh s :
  (forall d x, rq_num (map (Z.add s) d) x = rq_num d x + s * rq_den d x /\
               rq_den (map (Z.add s) d) x = rq_den d x) /\
  (forall al be x, tri_form (map (Z.add s) al) be x = tri_form al be x + s * rq_den al x) /\
  (forall d v u a b, lanczos_step (map (Z.add s) d) v u (a + s) b = lanczos_step d v u a b).
Proof.
  split; [intros d x; split; [apply shift_rq_num|apply shift_rq_den]|].
  split; [intros al be x; apply shift_tri_dot|apply shift_lanczos_step].
Qed.

Lemma init_total_shift H es : total_shift (fst (krylov_init H es)) = total_shift H + es_shift es.
Proof.
  destruct es as [s|]; cbn [krylov_init es_shift]; [|cbn [fst]; ring].
  destruct H; cbn [fst total_shift]; ring.
Qed.

(* T16_shift *)
Lemma shift_net_zero H es N e : (1 <= N)%nat ->
  total_shift (fst (krylov_init H es)) = total_shift H + es_shift es /\
  run_return es N (e + total_shift H + es_shift es) = (e + total_shift H, negb (N =? 1)%nat) /\
  (total_shift H = 0 -> solve_energy H es N e = e).
Proof.
  intros HN. split; [apply init_total_shift|]. split.
  - unfold run_return. destruct es as [s|]; cbn [es_shift]; destruct (N =? 1)%nat; cbn [negb]; f_equal; ring.
  - intros H0. unfold solve_energy. rewrite init_total_shift, H0. unfold run_return.
    destruct es as [s|]; cbn [es_shift]; destruct (N =? 1)%nat; cbn [fst]; ring.
Qed.

(* a second solver on the same operator object: exact unless the object is an OrthogonalNpcLinearOperator
   (whose orig_operator attribute __init__ overwrites) *)
Lemma shift_twice H es N1 N2 e : total_shift H = 0 ->
  solve_twice H es N1 N2 e =
  (e, match H with OOrtho _ => e + es_shift es | _ => e end).
Proof.
  intros H0. unfold solve_twice, solve_energy. rewrite !init_total_shift.
  destruct es as [s|]; cbn [krylov_init es_shift snd].
  - destruct H; cbn [snd]; rewrite ?init_total_shift; cbn [total_shift es_shift] in *; rewrite ?H0;
      unfold run_return; destruct (N1 =? 1)%nat; destruct (N2 =? 1)%nat; cbn [fst]; f_equal; ring.
  - rewrite H0. unfold run_return. destruct H; destruct (N1 =? 1)%nat; destruct (N2 =? 1)%nat; cbn [fst]; f_equal; ring.
Qed.

(* the model reproduces known finding F16.1: two solvers with E_shift on one OrthogonalNpcLinearOperator object *)
Lemma shift_shared_refuted : exists H es N1 N2 e,
  total_shift H = 0 /\ (1 <= N1)%nat /\ (1 <= N2)%nat /\
  fst (solve_twice H es N1 N2 e) = e /\ snd (solve_twice H es N1 N2 e) <> e.
Proof.
  exists (OOrtho OBase), (Some (-20)), 3%nat, 1%nat, 5.
  split; [reflexivity|]. split; [lia|]. split; [lia|]. split; [reflexivity|].
  vm_compute. intros E. discriminate E.
Qed.

(* ------------------------------------------------------------------ Gram-Schmidt indices of the build loop *)
Lemma build_ortho_closed nc re n : forall k,
  build_ortho nc re k n (cache_after nc k) =
  map (fun k => ortho_events re (cache_after nc (S k)) k) (seq k n).
Proof.
  induction n as [|n IH]; intros k; [reflexivity|].
  cbn [build_ortho seq map]. change (to_cache nc (cache_after nc k) k) with (cache_after nc (S k)).
  f_equal. apply IH.
Qed.

Lemma nth_map_seq {A} (f : nat -> A) d a n k : (k < n)%nat -> nth k (map f (seq a n)) d = f (a + k)%nat.
Proof.
  intros Hk. rewrite (nth_indep _ d (f 0%nat)) by (rewrite map_length, seq_length; exact Hk).
  rewrite map_nth, seq_nth by exact Hk. reflexivity.
Qed.

Lemma build_ortho_nth nc re N k : (k < N)%nat ->
  nth k (build_ortho nc re 0 N []) [] = ortho_events re (cache_after nc (S k)) k.
Proof.
  intros Hk. change (@nil nat) with (cache_after nc 0). rewrite build_ortho_closed.
  rewrite nth_map_seq by exact Hk. reflexivity.
Qed.

Lemma removelast_seq a m : removelast (seq a m) = seq a (m - 1).
Proof.
  destruct m as [|m]; [reflexivity|]. rewrite seq_S, removelast_last. f_equal. lia.
Qed.

Lemma ortho_events_noreortho nc k : (2 <= nc)%nat ->
  ortho_events false (cache_after nc (S k)) k =
  (3, S k, k, 0)%nat :: match k with O => [] | S k' => [(3, S k, k', 1)%nat] end.
Proof.
  intros Hnc. unfold ortho_events. destruct (three_term nc k Hnc) as [H1 H2]. rewrite H1.
  destruct k as [|k']; [reflexivity|]. rewrite H2 by lia. repeat f_equal. lia.
Qed.

Lemma ortho_events_reortho nc k : (1 <= nc)%nat ->
  ortho_events true (cache_after nc (S k)) k =
  (3, S k, k, 0)%nat :: map (fun v => (3, S k, v, 2)%nat) (seq (S k - nc) (k - (S k - nc))).
Proof.
  intros Hnc. unfold ortho_events. rewrite cache_after_seq by exact Hnc.
  rewrite from_end_seq by lia. rewrite removelast_seq.
  replace (S k - Nat.min (S k) nc + Nat.min (S k) nc - 1)%nat with k by lia.
  replace (S k - Nat.min (S k) nc)%nat with (S k - nc)%nat by lia.
  replace (Nat.min (S k) nc - 1)%nat with (k - (S k - nc))%nat by lia. reflexivity.
Qed.

Lemma targets_reortho nc k : (1 <= nc)%nat ->
  ortho_targets (ortho_events true (cache_after nc (S k)) k) = k :: seq (S k - nc) (k - (S k - nc)).
Proof.
  intros Hnc. rewrite ortho_events_reortho by exact Hnc. unfold ortho_targets. cbn [map]. f_equal.
  rewrite map_map. cbn. apply map_id.
Qed.

Lemma gram_schmidt_indices nc N k : (2 <= nc)%nat -> (k < N)%nat ->
  nth k (build_ortho nc false 0 N []) [] =
    (3, S k, k, 0)%nat :: match k with O => [] | S k' => [(3, S k, k', 1)%nat] end /\
  nth k (build_ortho nc true 0 N []) [] =
    (3, S k, k, 0)%nat :: map (fun v => (3, S k, v, 2)%nat) (seq (S k - nc) (k - (S k - nc))) /\
  NoDup (ortho_targets (nth k (build_ortho nc true 0 N []) [])) /\
  (forall j, In j (ortho_targets (nth k (build_ortho nc true 0 N []) [])) <-> (S k - nc <= j <= k)%nat) /\
  ((forall j, (j <= k)%nat -> In j (ortho_targets (nth k (build_ortho nc true 0 N []) []))) <-> (k < nc)%nat) /\
  (forall k' j, (k <= k')%nat -> (k' < N)%nat -> (j < S k - nc)%nat ->
     ~ In j (ortho_targets (nth k' (build_ortho nc true 0 N []) []))).
Proof.
  intros Hnc Hk.
  assert (Hin : forall k0 j, In j (k0 :: seq (S k0 - nc) (k0 - (S k0 - nc))) <-> (S k0 - nc <= j <= k0)%nat).
  { intros k0 j. cbn [In]. rewrite in_seq. lia. }
  rewrite !build_ortho_nth by exact Hk.
  split; [apply ortho_events_noreortho; exact Hnc|].
  split; [apply ortho_events_reortho; lia|].
  rewrite targets_reortho by lia.
  split.
  { constructor; [rewrite in_seq; lia|apply seq_NoDup]. }
  split; [apply Hin|]. split.
  - split.
    + intros H. specialize (H 0%nat ltac:(lia)). apply Hin in H. lia.
    + intros Hlt j Hj. apply Hin. lia.
  - intros k' j Hkk Hk' Hj. rewrite build_ortho_nth by exact Hk'. rewrite targets_reortho by lia.
    rewrite Hin. lia.
Qed.
