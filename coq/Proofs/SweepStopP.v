(* Proofs about Model/SweepStop.v (property C13: chi lists and sweep counts). *)
From TenpyV Require Import Base.Prelude Model.SweepStop.

(* ---- chi_get / max_key *)
Lemma chi_get_in : forall l k c, chi_get l k = Some c -> In k (map fst l).
Proof.
  intros l k c H. unfold chi_get in H.
  destruct (find (fun p => (fst p =? k)%nat) l) as [p|] eqn:E; [|discriminate].
  apply find_some in E. destruct E as [Hin Hk]. apply Nat.eqb_eq in Hk. subst k.
  apply in_map. exact Hin.
Qed.

Lemma max_key_ge : forall l k, In k (map fst l) -> (k <= max_key l)%nat.
Proof.
  induction l as [|p l IH]; intros k H; [destruct H|].
  cbn [map max_key fold_right] in *. destruct H as [H|H].
  - subst k. apply Nat.le_max_l.
  - specialize (IH k H). unfold max_key in IH. etransitivity; [exact IH|apply Nat.le_max_r].
Qed.

Lemma chi_get_above : forall l k, (max_key l < k)%nat -> chi_get l k = None.
Proof.
  intros l k H. destruct (chi_get l k) as [c|] eqn:E; [|reflexivity].
  apply chi_get_in in E. apply max_key_ge in E. lia.
Qed.

Lemma in_keys_get : forall l k, In k (map fst l) -> exists c, chi_get l k = Some c.
Proof.
  intros l k H. unfold chi_get.
  destruct (find (fun p => (fst p =? k)%nat) l) as [p|] eqn:E; [eexists; reflexivity|].
  exfalso. apply in_map_iff in H. destruct H as [p [Hp Hin]].
  pose proof (find_none _ _ E p Hin) as Hn. cbn in Hn. subst k. rewrite Nat.eqb_refl in Hn. discriminate.
Qed.

Lemma max_key_in : forall l, l <> [] -> In (max_key l) (map fst l).
Proof.
  induction l as [|p l IH]; intros H; [congruence|].
  cbn [map max_key fold_right]. fold (max_key l).
  destruct l as [|q l'].
  - left. cbn. lia.
  - assert (Hq : q :: l' <> []) by discriminate. specialize (IH Hq).
    destruct (Nat.max_spec (fst p) (max_key (q :: l'))) as [[_ E]|[_ E]]; rewrite E.
    + right. exact IH.
    + left. reflexivity.
Qed.

(* ---- latest: the documented ramp *)
Lemma latest_spec : forall l chi0 s,
  (exists k c, (k <= s)%nat /\ chi_get l k = Some c /\ latest l chi0 s = Some c /\
               forall k', (k < k' <= s)%nat -> chi_get l k' = None) \/
  (latest l chi0 s = chi0 /\ forall k', (k' <= s)%nat -> chi_get l k' = None).
Proof.
  intros l chi0. induction s as [|s IH]; cbn [latest].
  - destruct (chi_get l 0) as [c|] eqn:E.
    + left. exists 0%nat, c. repeat split; auto. intros k' Hk. lia.
    + right. split; auto. intros k' Hk. assert (k' = 0)%nat by lia. subst. exact E.
  - destruct (chi_get l (S s)) as [c|] eqn:E.
    + left. exists (S s), c. repeat split; auto. intros k' Hk. lia.
    + destruct IH as [[k [c [Hk [Hg [Hl Hn]]]]]|[Hl Hn]].
      * left. exists k, c. repeat split; auto. intros k' Hk'.
        destruct (Nat.eq_dec k' (S s)) as [->|Hne]; [exact E|]. apply Hn. lia.
      * right. split; auto. intros k' Hk'.
        destruct (Nat.eq_dec k' (S s)) as [->|Hne]; [exact E|]. apply Hn. lia.
Qed.

Lemma latest_above : forall l chi0 s, l <> [] -> (max_key l <= s)%nat -> latest l chi0 s = chi_get l (max_key l).
Proof.
  intros l chi0 s Hl. induction s as [|s IH]; intros Hs.
  - assert (E : max_key l = 0%nat) by lia. rewrite E. cbn [latest].
    destruct (in_keys_get l _ (max_key_in l Hl)) as [c Hc]. rewrite E in Hc. rewrite Hc. reflexivity.
  - destruct (Nat.eq_dec (max_key l) (S s)) as [E|Hne].
    + rewrite E. cbn [latest].
      destruct (in_keys_get l _ (max_key_in l Hl)) as [c Hc]. rewrite E in Hc. rewrite Hc. reflexivity.
    + cbn [latest]. rewrite chi_get_above by lia. apply IH. lia.
Qed.

(* ---- invariant of the sweeps: the recorded sweeps are numbered 0, 1, 2, .. and run with the documented chi_max *)
Definition chi_of (o : sopts) (s : nat) : option nat :=
  match o_chis o with Some l => latest l (o_chi0 o) s | None => o_chi0 o end.

Definition inv (o : sopts) (st : sst) (acc : list sweep_rec) : Prop :=
  map rec_no acc = seq 0 (s_sweeps st) /\
  Forall (fun r => rec_chi r = chi_of o (rec_no r)) acc /\
  s_chi st = match s_sweeps st with O => o_chi0 o | S s => chi_of o s end.

Lemma one_sweep_chi : forall o st,
  s_chi st = match s_sweeps st with O => o_chi0 o | S s => chi_of o s end ->
  s_sweeps (fst (one_sweep o st)) = S (s_sweeps st) /\
  snd (one_sweep o st) = (s_sweeps st, chi_of o (s_sweeps st), snd (snd (one_sweep o st))) /\
  s_chi (fst (one_sweep o st)) = chi_of o (s_sweeps st).
Proof.
  intros o st Hc. unfold one_sweep, chi_of in *.
  destruct (o_chis o) as [l|]; cbn [fst snd s_sweeps s_chi].
  - destruct (chi_get l (s_sweeps st)) as [c|] eqn:E; cbn [fst snd].
    + assert (HL : latest l (o_chi0 o) (s_sweeps st) = Some c).
      { destruct (s_sweeps st); cbn [latest]; rewrite E; reflexivity. }
      rewrite HL. repeat split; reflexivity.
    + assert (HL : latest l (o_chi0 o) (s_sweeps st) = s_chi st).
      { rewrite Hc. destruct (s_sweeps st) as [|s]; cbn [latest]; rewrite E; reflexivity. }
      rewrite HL. repeat split; reflexivity.
  - assert (HL : s_chi st = o_chi0 o) by (rewrite Hc; destruct (s_sweeps st); reflexivity).
    rewrite HL. repeat split; reflexivity.
Qed.

Lemma inv_one_sweep : forall o st acc, inv o st acc ->
  inv o (fst (one_sweep o st)) (acc ++ [snd (one_sweep o st)]).
Proof.
  intros o st acc [Hn [Hf Hc]].
  destruct (one_sweep_chi o st Hc) as [Hs [Hr Hc']].
  unfold inv. rewrite Hs. split; [|split].
  - rewrite map_app, Hn, seq_S. cbn [map]. rewrite Hr. reflexivity.
  - apply Forall_app. split; [exact Hf|]. constructor; [|constructor].
    rewrite Hr. reflexivity.
  - exact Hc'.
Qed.

Lemma inv_sweeps_n : forall o n st acc, inv o st acc ->
  inv o (fst (sweeps_n o n st)) (acc ++ snd (sweeps_n o n st)).
Proof.
  intros o. induction n as [|n IH]; intros st acc H; cbn [sweeps_n fst snd].
  - rewrite app_nil_r. exact H.
  - apply inv_one_sweep in H. apply IH in H.
    rewrite <- app_assoc in H. exact H.
Qed.

Lemma inv_deactivate : forall o st acc, inv o st acc -> inv o (mkSst (s_sweeps st) (s_chi st) None) acc.
Proof. intros o st acc H. exact H. Qed.

Lemma inv_init : forall o, inv o (init_sst o) [].
Proof. intros o. unfold inv, init_sst. cbn. auto. Qed.

Lemma run_loop_inv : forall o fuel st convs acc reason st' recs rest,
  inv o st acc ->
  run_loop o fuel st convs acc = Some (reason, st', recs, rest) ->
  inv o st' recs /\
  match reason with
  | Converged => (min_sweeps o < s_sweeps st')%nat /\ s_mixer st' = None
  | MaxSweeps => (o_max o < s_sweeps st')%nat
  end.
Proof.
  intros o. induction fuel as [|f IH]; intros st convs acc reason st' recs rest Hinv Hrun; [discriminate|].
  cbn [run_loop] in Hrun.
  destruct (o_max o <? s_sweeps st)%nat eqn:Emax.
  - inversion Hrun; subst. split; [exact Hinv|]. apply Nat.ltb_lt in Emax. exact Emax.
  - destruct (min_sweeps o <? s_sweeps st)%nat eqn:Emin.
    + destruct convs as [|c cs]; [discriminate|].
      destruct c.
      * destruct (s_mixer st) as [m|] eqn:Emix.
        -- eapply IH; [|exact Hrun]. apply inv_sweeps_n. apply inv_deactivate. exact Hinv.
        -- inversion Hrun; subst. split; [exact Hinv|]. apply Nat.ltb_lt in Emin. split; [exact Emin|exact Emix].
      * eapply IH; [|exact Hrun]. apply inv_sweeps_n. exact Hinv.
    + eapply IH; [|exact Hrun]. apply inv_sweeps_n. exact Hinv.
Qed.

Lemma default_min_ge_keys : forall nsc l, (max_key l <= default_min_sweeps nsc (Some l))%nat.
Proof. intros nsc l. unfold default_min_sweeps. apply Nat.le_max_l. Qed.

(* Main statement.  For every option set with min_sweeps left at its default and a non-empty chi_list, every sequence of
   is_converged() answers: the sweeps that were run are numbered 0 .. n-1 without gaps and each ran with the chi_max of the largest key
   <= its number (documented meaning of chi_list); and if the run stops as CONVERGED, then more sweeps than the last key of chi_list were
   made - in particular every entry of chi_list came into force in the sweep it names -, the chi_max in force at the end is the last
   entry, and no mixer is active. *)
Theorem chi_ramp_completes : forall o l convs reason st recs rest,
  o_chis o = Some l -> l <> [] ->
  run_model o convs = Some (reason, st, recs, rest) ->
  map rec_no recs = seq 0 (s_sweeps st) /\
  Forall (fun r => rec_chi r = latest l (o_chi0 o) (rec_no r)) recs /\
  (reason = Converged -> o_min o = None ->
     (max_key l < s_sweeps st)%nat /\
     (forall k c, chi_get l k = Some c -> In (k, Some c) (map fst recs)) /\
     s_chi st = chi_get l (max_key l) /\ s_mixer st = None).
Proof.
  intros o l convs reason st recs rest Hl Hne Hrun.
  unfold run_model in Hrun.
  destruct (run_loop_inv o _ _ _ _ _ _ _ _ (inv_init o) Hrun) as [[Hn [Hf Hc]] Hr].
  assert (Hf' : Forall (fun r => rec_chi r = latest l (o_chi0 o) (rec_no r)) recs).
  { eapply Forall_impl; [|exact Hf]. intros r Hr'. cbn beta in Hr'. unfold chi_of in Hr'. rewrite Hl in Hr'. exact Hr'. }
  split; [exact Hn|]. split; [exact Hf'|].
  intros -> Hmin. destruct Hr as [Hlt Hmix].
  assert (Hk : (max_key l < s_sweeps st)%nat).
  { unfold min_sweeps in Hlt. rewrite Hmin, Hl in Hlt. pose proof (default_min_ge_keys (o_nsc o) l). lia. }
  split; [exact Hk|]. split; [|split; [|exact Hmix]].
  - intros k c Hg.
    assert (Hks : (k < s_sweeps st)%nat).
    { apply chi_get_in in Hg. apply max_key_ge in Hg. lia. }
    assert (Hin : In k (map rec_no recs)) by (rewrite Hn; apply in_seq; lia).
    apply in_map_iff in Hin. destruct Hin as [r [Hrk Hrin]].
    rewrite Forall_forall in Hf'. specialize (Hf' r Hrin). rewrite Hrk in Hf'.
    assert (HL : latest l (o_chi0 o) k = Some c) by (destruct k; cbn [latest]; rewrite Hg; reflexivity).
    rewrite HL in Hf'.
    apply in_map_iff. exists r. split; [|exact Hrin].
    destruct r as [[no ch] mx]. cbn in *. subst. reflexivity.
  - destruct (s_sweeps st) as [|s] eqn:Es; [lia|].
    rewrite Hc. unfold chi_of. rewrite Hl. apply latest_above; [exact Hne|lia].
Qed.

(* the default is the least one with this guarantee: with min_sweeps below the last key a run can stop as converged before it *)
Lemma early_stop_possible : exists o l convs st recs rest,
  o_chis o = Some l /\ run_model o convs = Some (Converged, st, recs, rest) /\ (s_sweeps st <= max_key l)%nat.
Proof.
  exists (mkSopts 1 (Some 1%nat) 20 (Some [(0, 2); (6, 16)]%nat) None false true None None), [(0, 2); (6, 16)]%nat, [true],
         (mkSst 2 (Some 2%nat) None), [(0, Some 2, false); (1, Some 2, false)]%nat, [].
  split; [reflexivity|]. split; [vm_compute; reflexivity|]. vm_compute. lia.
Qed.
