(* Proofs about Model/Events.v (property C20, event dispatch). *)
From TenpyV Require Import Base.Prelude Model.Events.
Open Scope Z_scope.

(* ------------------------------------------------------------------ generic list facts *)
Lemma SS_app_single {A} (R : A -> A -> Prop) l x :
  StronglySorted R l -> Forall (fun y => R y x) l -> StronglySorted R (l ++ [x]).
Proof.
  induction l as [|y t IH]; cbn [app]; intros Hs Hx.
  - constructor; constructor.
  - inversion Hs as [|? ? Ht Hy]; subst. inversion Hx as [|? ? Hyx Htx]; subst.
    constructor; [apply IH; assumption|].
    apply Forall_app. split; [exact Hy|constructor; [exact Hyx|constructor]].
Qed.

Lemma SS_and {A} (P Q R : A -> A -> Prop) l :
  (forall a b, P a b -> Q a b -> R a b) ->
  StronglySorted P l -> StronglySorted Q l -> StronglySorted R l.
Proof.
  intros HR. induction l as [|x t IH]; intros HP HQ; [constructor|].
  inversion HP as [|? ? HPt HPx]; subst. inversion HQ as [|? ? HQt HQx]; subst.
  constructor; [apply IH; assumption|].
  rewrite Forall_forall in *. intros b Hb. apply HR; [apply HPx|apply HQx]; exact Hb.
Qed.

Lemma filter_all {A} (f : A -> bool) l : (forall x, In x l -> f x = true) -> filter f l = l.
Proof.
  induction l as [|x t IH]; cbn [filter]; intros H; [reflexivity|].
  rewrite (H x (or_introl eq_refl)). f_equal. apply IH. intros y Hy. apply H. right. exact Hy.
Qed.

Lemma filter_perm {A} (f : A -> bool) l l' : Permutation l l' -> Permutation (filter f l) (filter f l').
Proof.
  induction 1 as [|x l l' _ IH|x y l|l l' l'' _ IH1 _ IH2]; cbn [filter].
  - constructor.
  - destruct (f x); [apply perm_skip|]; exact IH.
  - destruct (f x), (f y); try apply Permutation_refl. apply perm_swap.
  - eapply perm_trans; eassumption.
Qed.

Lemma NoDup_snoc {A} (l : list A) a : NoDup l -> ~ In a l -> NoDup (l ++ [a]).
Proof.
  intros Hn Ha. eapply Permutation_NoDup; [apply Permutation_cons_append|]. constructor; assumption.
Qed.

(* ------------------------------------------------------------------ sorting *)
Lemma insert_l_perm x l : Permutation (insert_l x l) (x :: l).
Proof.
  induction l as [|y t IH]; cbn [insert_l]; [apply Permutation_refl|].
  destruct (l_prio y <=? l_prio x); [apply Permutation_refl|].
  eapply perm_trans; [apply perm_skip, IH|apply perm_swap].
Qed.

Lemma sort_l_perm l : Permutation (sort_l l) l.
Proof.
  induction l as [|x t IH]; cbn [sort_l fold_right]; [constructor|].
  eapply perm_trans; [apply insert_l_perm|]. apply perm_skip. exact IH.
Qed.

Definition ge_prio (a b : listener) : Prop := l_prio b <= l_prio a.
Definition tie_ok (a b : listener) : Prop := l_prio a = l_prio b -> l_id a < l_id b.

Lemma insert_l_sorted x l : StronglySorted ge_prio l -> StronglySorted ge_prio (insert_l x l).
Proof.
  induction 1 as [|y t Ht IH Hy]; cbn [insert_l].
  - constructor; constructor.
  - destruct (l_prio y <=? l_prio x) eqn:E.
    + constructor; [constructor; assumption|].
      constructor; [unfold ge_prio; lia|].
      eapply Forall_impl; [|exact Hy]. unfold ge_prio. intros a Ha. lia.
    + constructor; [exact IH|].
      eapply Permutation_Forall; [apply Permutation_sym, insert_l_perm|].
      constructor; [unfold ge_prio; lia|exact Hy].
Qed.

Lemma sort_l_sorted l : StronglySorted ge_prio (sort_l l).
Proof.
  induction l as [|x t IH]; cbn [sort_l fold_right]; [constructor|].
  apply insert_l_sorted. exact IH.
Qed.

(* stability: listeners of equal priority keep their relative order *)
Lemma insert_l_tie x l :
  StronglySorted tie_ok l -> Forall (tie_ok x) l -> StronglySorted tie_ok (insert_l x l).
Proof.
  induction l as [|y t IH]; intros Hs Hx; cbn [insert_l].
  - constructor; constructor.
  - destruct (l_prio y <=? l_prio x) eqn:E.
    + constructor; assumption.
    + inversion Hs as [|? ? Ht Hy]; subst. inversion Hx as [|? ? Hxy Hxt]; subst.
      constructor; [apply IH; assumption|].
      eapply Permutation_Forall; [apply Permutation_sym, insert_l_perm|].
      constructor; [unfold tie_ok; lia|exact Hy].
Qed.

Lemma sort_l_tie l : StronglySorted tie_ok l -> StronglySorted tie_ok (sort_l l).
Proof.
  induction l as [|x t IH]; intros Hs; cbn [sort_l fold_right]; [constructor|].
  inversion Hs as [|? ? Ht Hx]; subst.
  apply insert_l_tie; [apply IH; exact Ht|].
  eapply Permutation_Forall; [apply Permutation_sym, sort_l_perm|exact Hx].
Qed.

Lemma sort_l_before l : StronglySorted tie_ok l -> StronglySorted before (sort_l l).
Proof.
  intros Hs. apply (SS_and ge_prio tie_ok before).
  - unfold ge_prio, tie_ok, before. intros a b H1 H2. lia.
  - apply sort_l_sorted.
  - apply sort_l_tie. exact Hs.
Qed.

(* ------------------------------------------------------------------ disconnect *)
Lemma remove_id_In i l x : In x (remove_id i l) -> In x l.
Proof.
  induction l as [|y t IH]; cbn [remove_id]; [tauto|].
  destruct (l_id y =? i); cbn [In]; intros H; [right; exact H|].
  destruct H as [H|H]; [left; exact H|right; apply IH; exact H].
Qed.

Lemma remove_id_SS (R : listener -> listener -> Prop) i l :
  StronglySorted R l -> StronglySorted R (remove_id i l).
Proof.
  induction 1 as [|y t Ht IH Hy]; cbn [remove_id]; [constructor|].
  destruct (l_id y =? i); [exact Ht|].
  constructor; [exact IH|].
  rewrite Forall_forall in *. intros x Hx. apply Hy. eapply remove_id_In. exact Hx.
Qed.

Lemma remove_id_filter i l : NoDup (map l_id l) -> remove_id i l = filter (not_id i) l.
Proof.
  induction l as [|y t IH]; cbn [remove_id filter map]; intros Hn; [reflexivity|].
  inversion Hn as [|? ? Hy Ht]; subst. unfold not_id at 1.
  destruct (l_id y =? i) eqn:E; cbn [negb].
  - symmetry. apply filter_all. intros x Hx. unfold not_id.
    destruct (l_id x =? i) eqn:E2; [|reflexivity].
    exfalso. apply Hy. replace (l_id y) with (l_id x) by lia. apply in_map. exact Hx.
  - f_equal. apply IH. exact Ht.
Qed.

(* ------------------------------------------------------------------ invariant of the handler *)
Definition inv (h : handler) : Prop :=
  0 <= h_counter h /\
  Forall (fun x => 0 <= l_id x < h_counter h) (h_listeners h) /\
  StronglySorted tie_ok (h_listeners h) /\
  NoDup (map l_id (h_listeners h)).

Lemma inv_empty : inv empty_handler.
Proof. unfold inv, empty_handler; cbn. repeat split; try constructor; lia. Qed.

Lemma step_counter h op : h_counter h <= h_counter (fst (ev_step h op)).
Proof.
  destruct op; cbn [ev_step fst h_counter]; try lia.
  destruct (call_until (sort_l (h_listeners h))); cbn [fst h_counter]. lia.
Qed.

Lemma step_inv h op : inv h -> inv (fst (ev_step h op)).
Proof.
  intros (Hc & Hf & Hs & Hn). destruct op as [p r|i| | |].
  - cbn [ev_step fst]. unfold inv; cbn [h_listeners h_counter]. split; [lia|]. split; [|split].
    + apply Forall_app. split.
      * eapply Forall_impl; [|exact Hf]. cbn beta. intros a Ha. lia.
      * constructor; [cbn [l_id]; lia|constructor].
    + apply SS_app_single; [exact Hs|].
      eapply Forall_impl; [|exact Hf]. cbn beta. unfold tie_ok. cbn [l_id]. intros a Ha _. lia.
    + rewrite map_app. cbn [map l_id]. apply NoDup_snoc; [exact Hn|].
      intros Hin. apply in_map_iff in Hin. destruct Hin as (x & Hx & Hin).
      rewrite Forall_forall in Hf. specialize (Hf x Hin). lia.
  - cbn [ev_step fst]. unfold inv; cbn [h_listeners h_counter]. split; [exact Hc|]. split; [|split].
    + rewrite Forall_forall in *. intros x Hx. apply Hf. eapply remove_id_In. exact Hx.
    + apply remove_id_SS. exact Hs.
    + rewrite remove_id_filter by exact Hn.
      clear -Hn. induction (h_listeners h) as [|y t IH]; cbn [filter map]; [constructor|].
      cbn [map] in Hn. inversion Hn as [|? ? Hy Ht]; subst.
      destruct (not_id i y); [|apply IH; exact Ht].
      cbn [map]. constructor; [|apply IH; exact Ht].
      intros Hin. apply Hy. apply in_map_iff in Hin. destruct Hin as (x & Hx & Hin).
      apply filter_In in Hin. rewrite <- Hx. apply in_map. tauto.
  - cbn [ev_step fst]. unfold inv; cbn [h_listeners h_counter]. split; [exact Hc|]. split; [|split].
    + eapply Permutation_Forall; [apply Permutation_sym, sort_l_perm|exact Hf].
    + apply sort_l_tie. exact Hs.
    + eapply Permutation_NoDup; [apply Permutation_map, Permutation_sym, sort_l_perm|exact Hn].
  - cbn [ev_step]. destruct (call_until (sort_l (h_listeners h))) as [c r]. cbn [fst].
    unfold inv; cbn [h_listeners h_counter]. split; [exact Hc|]. split; [|split].
    + eapply Permutation_Forall; [apply Permutation_sym, sort_l_perm|exact Hf].
    + apply sort_l_tie. exact Hs.
    + eapply Permutation_NoDup; [apply Permutation_map, Permutation_sym, sort_l_perm|exact Hn].
  - cbn [ev_step fst]. unfold inv. tauto.
Qed.

Lemma ev_run_cons_fst h op t : fst (ev_run h (op :: t)) = fst (ev_run (fst (ev_step h op)) t).
Proof.
  cbn [ev_run]. destruct (ev_step h op) as [h1 o]. cbn [fst].
  destruct (ev_run h1 t) as [h2 os]. reflexivity.
Qed.

Lemma ev_run_cons_snd h op t :
  snd (ev_run h (op :: t)) = snd (ev_step h op) :: snd (ev_run (fst (ev_step h op)) t).
Proof.
  cbn [ev_run]. destruct (ev_step h op) as [h1 o]. cbn [fst snd].
  destruct (ev_run h1 t) as [h2 os]. reflexivity.
Qed.

Lemma run_inv ops : forall h, inv h -> inv (fst (ev_run h ops)).
Proof.
  induction ops as [|op t IH]; intros h Hi; [exact Hi|].
  rewrite ev_run_cons_fst. apply IH. apply step_inv. exact Hi.
Qed.

(* the listeners after a history are exactly the connected-and-not-disconnected ones *)
Lemma run_spec ops : forall h acc, inv h -> Permutation (h_listeners h) acc ->
  Permutation (h_listeners (fst (ev_run h ops))) (spec_connected ops (h_counter h) acc).
Proof.
  induction ops as [|op t IH]; intros h acc Hi Hp; [exact Hp|].
  rewrite ev_run_cons_fst.
  assert (Hi1 := step_inv h op Hi).
  destruct op as [p r|i| | |]; cbn [spec_connected].
  - specialize (IH (fst (ev_step h (EConnect p r))) (acc ++ [mkL (h_counter h) p r]) Hi1).
    cbn [ev_step fst h_listeners h_counter] in IH |- *. apply IH.
    apply Permutation_app_tail. exact Hp.
  - specialize (IH (fst (ev_step h (EDisconnect i))) (filter (not_id i) acc) Hi1).
    cbn [ev_step fst h_listeners h_counter] in IH |- *. apply IH.
    destruct Hi as (_ & _ & _ & Hn). rewrite remove_id_filter by exact Hn.
    apply filter_perm. exact Hp.
  - specialize (IH (fst (ev_step h EEmit)) acc Hi1).
    cbn [ev_step fst h_listeners h_counter] in IH |- *. apply IH.
    eapply perm_trans; [apply sort_l_perm|exact Hp].
  - specialize (IH (fst (ev_step h EEmitUntil)) acc Hi1). revert IH Hi1.
    cbn [ev_step]. destruct (call_until (sort_l (h_listeners h))) as [c r].
    cbn [fst h_listeners h_counter]. intros IH _. apply IH.
    eapply perm_trans; [apply sort_l_perm|exact Hp].
  - specialize (IH (fst (ev_step h ECopy)) acc Hi1).
    cbn [ev_step fst] in IH |- *. apply IH. exact Hp.
Qed.

(* ------------------------------------------------------------------ the statements of C20 *)
Lemma events_emit : forall ops,
  let h := fst (ev_run empty_handler ops) in
  exists called,
    snd (ev_step h EEmit) = OEmit (map l_id called) (map l_ret called) /\
    Permutation called (spec_connected ops 0 []) /\
    StronglySorted before called.
Proof.
  intros ops h. exists (sort_l (h_listeners h)).
  assert (Hi : inv h) by (apply run_inv, inv_empty).
  split; [reflexivity|]. split.
  - eapply perm_trans; [apply sort_l_perm|].
    apply (run_spec ops empty_handler [] inv_empty). constructor.
  - apply sort_l_before. destruct Hi as (_ & _ & Hs & _). exact Hs.
Qed.

Lemma call_until_spec l :
  (exists pre x post r, l = pre ++ x :: post /\ Forall (fun y => l_ret y = None) pre /\
      l_ret x = Some r /\ call_until l = (map l_id (pre ++ [x]), Some r)) \/
  (Forall (fun y => l_ret y = None) l /\ call_until l = (map l_id l, None)).
Proof.
  induction l as [|y t IH]; [right; split; [constructor|reflexivity]|].
  cbn [call_until]. destruct (l_ret y) as [r|] eqn:E.
  - left. exists [], y, t, r. repeat split; try assumption. constructor.
  - destruct IH as [(pre & x & post & r & Hl & Hp & Hx & Hc)|(Hn & Hc)].
    + left. exists (y :: pre), x, post, r. rewrite Hc. subst t. repeat split; try assumption.
      constructor; assumption.
    + right. rewrite Hc. split; [constructor; assumption|reflexivity].
Qed.

Lemma events_emit_until : forall ops,
  let h := fst (ev_run empty_handler ops) in
  exists called,
    Permutation called (spec_connected ops 0 []) /\ StronglySorted before called /\
    snd (ev_step h EEmitUntil) = OEmitUntil (fst (call_until called)) (snd (call_until called)) /\
    ((exists pre x post r, called = pre ++ x :: post /\ Forall (fun y => l_ret y = None) pre /\
        l_ret x = Some r /\ call_until called = (map l_id (pre ++ [x]), Some r)) \/
     (Forall (fun y => l_ret y = None) called /\ call_until called = (map l_id called, None))).
Proof.
  intros ops h. exists (sort_l (h_listeners h)).
  assert (Hi : inv h) by (apply run_inv, inv_empty).
  split; [|split; [|split]].
  - eapply perm_trans; [apply sort_l_perm|].
    apply (run_spec ops empty_handler [] inv_empty). constructor.
  - apply sort_l_before. destruct Hi as (_ & _ & Hs & _). exact Hs.
  - cbn [ev_step]. destruct (call_until (sort_l (h_listeners h))) as [c r]. reflexivity.
  - apply call_until_spec.
Qed.

Lemma events_disconnect : forall ops i,
  let h := fst (ev_run empty_handler ops) in
  let h' := fst (ev_step h (EDisconnect i)) in
  h_listeners h' = filter (not_id i) (h_listeners h) /\ h_counter h' = h_counter h /\
  (forall x, In x (h_listeners h) -> l_id x <> i -> In x (h_listeners h')) /\
  (forall x, In x (h_listeners h') -> l_id x <> i /\ In x (h_listeners h)).
Proof.
  intros ops i h h'.
  assert (Hi : inv h) by (apply run_inv, inv_empty).
  destruct Hi as (_ & _ & _ & Hn).
  assert (E : h_listeners h' = filter (not_id i) (h_listeners h)).
  { unfold h'. cbn [ev_step fst h_listeners]. apply remove_id_filter. exact Hn. }
  split; [exact E|]. split; [reflexivity|]. rewrite E. split.
  - intros x Hx Hne. apply filter_In. split; [exact Hx|]. unfold not_id.
    destruct (l_id x =? i) eqn:E2; [lia|reflexivity].
  - intros x Hx. apply filter_In in Hx. destruct Hx as [Hx Hf]. unfold not_id in Hf.
    split; [|exact Hx]. destruct (l_id x =? i) eqn:E2; [discriminate|lia].
Qed.

Lemma run_ids ops : forall h,
  (forall i, In i (connected_ids (snd (ev_run h ops))) ->
             h_counter h <= i < h_counter (fst (ev_run h ops))) /\
  NoDup (connected_ids (snd (ev_run h ops))) /\
  h_counter h <= h_counter (fst (ev_run h ops)).
Proof.
  induction ops as [|op t IH]; intros h.
  - cbn. split; [tauto|]. split; [constructor|lia].
  - rewrite ev_run_cons_fst, ev_run_cons_snd.
    destruct (IH (fst (ev_step h op))) as (Hr & Hn & Hc).
    assert (Hs := step_counter h op).
    unfold connected_ids in *. cbn [flat_map].
    destruct op as [p r|i| | |].
    + cbn [ev_step snd fst h_counter app] in *. split; [|split; [|lia]].
      * intros i [Hi|Hi]; [lia|]. specialize (Hr i Hi). lia.
      * constructor; [|exact Hn]. intros Hi. specialize (Hr _ Hi). lia.
    + cbn [ev_step snd app] in *. split; [|split; [exact Hn|lia]].
      intros j Hj. specialize (Hr j Hj). lia.
    + cbn [ev_step snd app] in *. split; [|split; [exact Hn|lia]].
      intros j Hj. specialize (Hr j Hj). lia.
    + assert (E : exists c r, snd (ev_step h EEmitUntil) = OEmitUntil c r).
      { cbn [ev_step]. destruct (call_until (sort_l (h_listeners h))) as [c r]. exists c, r. reflexivity. }
      destruct E as (c & r & E). rewrite E. cbn [app]. split; [|split; [exact Hn|lia]].
      intros j Hj. specialize (Hr j Hj). lia.
    + cbn [ev_step snd app] in *. split; [|split; [exact Hn|lia]].
      intros j Hj. specialize (Hr j Hj). lia.
Qed.

(* ids handed out by connect(): never twice the same, whatever happens in between *)
Lemma events_ids_never_reused : forall ops, NoDup (connected_ids (snd (ev_run empty_handler ops))).
Proof. intros ops. apply (run_ids ops empty_handler). Qed.
